"""sdns verification runner: rebuilds from /repo, regenerates Gen facts,
builds + audits the Lean property theorems, runs the model/implementation
correspondence and the independent oracles, shrinks and reports."""
import argparse, fcntl, glob, hashlib, json, os, re, shutil, subprocess, sys, time

VERIF = os.path.dirname(os.path.dirname(os.path.abspath(__file__)))
REPO = os.environ.get("VERIF_REPO", "/repo")
LEAN = os.path.join(VERIF, "lean")
HARNESS = os.path.join(VERIF, "harness")
BUILD = os.path.join(VERIF, "build")
BIN = os.path.join(BUILD, "bin")
ALLOWED_AXIOMS = {"propext", "Classical.choice", "Quot.sound"}
FORBIDDEN = re.compile(r"\b(sorry|admit|native_decide|bv_decide|implemented_by|unsafe)\b|^\s*axiom\s|maxHeartbeats\s+0\b", re.M)

GOENV = dict(os.environ)
GOENV.update({"GOFLAGS": "-mod=mod", "GOPROXY": "off", "GOTOOLCHAIN": os.environ.get("GOTOOLCHAIN", "auto")})
GOENV.pop("GOSUMDB", None)


def log(*a):
    print(*a, file=sys.stderr, flush=True)


class Lock:
    def __init__(self, name):
        os.makedirs(BUILD, exist_ok=True)
        self.path = os.path.join(BUILD, name + ".lock")

    def __enter__(self):
        self.f = open(self.path, "w")
        fcntl.flock(self.f, fcntl.LOCK_EX)
        return self

    def __exit__(self, *a):
        fcntl.flock(self.f, fcntl.LOCK_UN)
        self.f.close()


def run(cmd, cwd=None, env=None, timeout=None, stdin=None):
    t0 = time.time()
    try:
        p = subprocess.run(cmd, cwd=cwd, env=env, input=stdin, stdout=subprocess.PIPE, stderr=subprocess.PIPE,
                           timeout=timeout, text=True, errors="replace")
        return p.returncode, p.stdout, p.stderr, time.time() - t0
    except subprocess.TimeoutExpired as e:
        so = e.stdout.decode("utf8", "replace") if isinstance(e.stdout, bytes) else (e.stdout or "")
        se = e.stderr.decode("utf8", "replace") if isinstance(e.stderr, bytes) else (e.stderr or "")
        return 124, so, se + "\nTIMEOUT", time.time() - t0


def load_spec(pid):
    with open(os.path.join(VERIF, "props", pid + ".json")) as f:
        return json.load(f)


def all_props():
    """Properties the lead has integrated (props/claimed.txt); --setup and --all use this list."""
    have = sorted(os.path.basename(p)[:-5] for p in glob.glob(os.path.join(VERIF, "props", "C*.json")))
    try:
        ready = [l.strip() for l in open(os.path.join(VERIF, "props", "claimed.txt")) if l.strip() and not l.startswith("#")]
        return [p for p in have if p in ready]
    except FileNotFoundError:
        return have


# ---------------------------------------------------------------- Go side

def repo_tag():
    """Suffix that keeps the overlay and the driver binary of a run against a
    scratch checkout (VERIF_REPO) apart from those of a concurrent run against /repo."""
    if os.path.realpath(REPO) == "/repo":
        return ""
    import hashlib
    return "-" + hashlib.sha1(os.path.realpath(REPO).encode()).hexdigest()[:8]


def write_overlay(spec):
    """Overlay that injects the harness into the sdns module (nothing is
    written under /repo)."""
    rep = {}

    def add_dir(src, dst):
        for f in sorted(glob.glob(os.path.join(src, "*.go"))):
            rep[os.path.join(dst, os.path.basename(f))] = f

    add_dir(os.path.join(HARNESS, "vlib"), os.path.join(REPO, "internal/verif/vlib"))
    drv = spec["driver"]
    add_dir(os.path.join(HARNESS, drv), os.path.join(REPO, "internal/verif", drv))
    for extra in spec.get("go_libs", []):
        add_dir(os.path.join(HARNESS, extra), os.path.join(REPO, "internal/verif", extra))
    for e in spec.get("exports", []):
        # "middleware/cache/c03_verif.go" -> /repo/middleware/cache/zz_c03_verif.go
        d, b = os.path.split(e)
        rep[os.path.join(REPO, d, "zz_" + b)] = os.path.join(HARNESS, "export", e)
    os.makedirs(BUILD, exist_ok=True)
    path = os.path.join(BUILD, "overlay_%s%s.json" % (spec["id"], repo_tag()))
    with open(path, "w") as f:
        json.dump({"Replace": rep}, f, indent=1)
    return path


def build_driver(spec):
    overlay = write_overlay(spec)
    os.makedirs(BIN, exist_ok=True)
    canon = os.path.join(BIN, spec["driver"] + repo_tag())
    # This run's own binary: a concurrent run of the same property (another
    # shell, a builder) must not be able to remove or replace what this run
    # executes.  Never run a stale binary: the file is new, named by pid.
    out = "%s.%d" % (canon, os.getpid())
    if os.path.exists(out):
        os.remove(out)
    import atexit
    atexit.register(lambda p=out: os.path.exists(p) and os.remove(p))
    cmd = ["go", "build", "-tags", "verif", "-overlay", overlay, "-o", out, "./internal/verif/" + spec["driver"]]
    with Lock("gobuild"):
        rc, so, se, dt = run(cmd, cwd=REPO, env=GOENV, timeout=1500)
    if rc == 0:
        # keep a copy under the plain name for manual replays (atomic replace)
        try:
            import shutil
            tmp = canon + ".new.%d" % os.getpid()
            shutil.copy2(out, tmp)
            os.replace(tmp, canon)
        except OSError:
            pass
    return rc == 0, (so + se)[-4000:], out, dt


# ---------------------------------------------------------------- Lean side

def lean_str(s):
    return '"' + s.replace("\\", "\\\\").replace('"', '\\"') + '"'


def to_lean(v):
    if isinstance(v, bool):
        return "Bool", "true" if v else "false"
    if isinstance(v, int):
        return ("Int", "(%d)" % v) if v < 0 else ("Nat", str(v))
    if isinstance(v, str):
        return "String", lean_str(v)
    if isinstance(v, list):
        if all(isinstance(x, bool) for x in v) and v:
            return "List Bool", "[" + ", ".join("true" if x else "false" for x in v) + "]"
        if all(isinstance(x, int) and not isinstance(x, bool) for x in v):
            if any(x < 0 for x in v):
                return "List Int", "[" + ", ".join("(%d)" % x for x in v) + "]"
            return "List Nat", "[" + ", ".join(str(x) for x in v) + "]"
        if all(isinstance(x, str) for x in v):
            return "List String", "[" + ", ".join(lean_str(x) for x in v) + "]"
        if all(isinstance(x, list) for x in v):
            inner = [to_lean(x) for x in v]
            tys = {t for t, _ in inner if t}
            ty = tys.pop() if len(tys) == 1 else "List Nat"
            return "List (%s)" % ty, "[" + ", ".join(e for _, e in inner) + "]"
    raise ValueError("cannot translate fact value %r" % (v,))


def gen_facts_lean(pid, facts):
    lines = ["-- REGENERATED on every run by /verif/check from the compiled /repo tree. Do not edit.",
             "namespace SdnsVerif.Gen.%s" % pid, ""]
    for k in sorted(facts):
        ty, ex = to_lean(facts[k])
        lines.append("def %s : %s := %s" % (k, ty, ex))
    lines += ["", "end SdnsVerif.Gen.%s" % pid, ""]
    return "\n".join(lines)


def write_if_changed(path, content):
    try:
        if open(path).read() == content:
            return False
    except FileNotFoundError:
        pass
    os.makedirs(os.path.dirname(path), exist_ok=True)
    with open(path, "w") as f:
        f.write(content)
    return True


def strip_comments(src):
    src = re.sub(r"/-.*?-/", "", src, flags=re.S)
    return re.sub(r"--.*", "", src)


def theorems_of(path):
    """(name, line) of every theorem declared in a Props file, with namespace."""
    out, ns = [], []
    for i, line in enumerate(open(path).read().split("\n"), 1):
        m = re.match(r"\s*namespace\s+(\S+)", line)
        if m:
            ns.append(m.group(1))
        m = re.match(r"\s*end\s+(\S+)", line)
        if m and ns and ns[-1] == m.group(1):
            ns.pop()
        m = re.match(r"\s*(?:@\[[^\]]*\]\s*)?(?:private\s+|protected\s+)?theorem\s+([^\s:({\[]+)", line)
        if m:
            out.append((".".join(ns + [m.group(1)]), i))
    return out


def import_closure(mods):
    """Project files reachable from mods through `import SdnsVerif.*` / `import Driver.*`."""
    seen, todo, files = set(), list(mods), []
    while todo:
        m = todo.pop()
        if m in seen:
            continue
        seen.add(m)
        f = os.path.join(LEAN, m.replace(".", "/") + ".lean")
        if not os.path.exists(f):
            continue
        files.append(f)
        for mm in re.finditer(r"^\s*(?:public\s+)?import\s+((?:SdnsVerif|Driver)\.[\w.]+)", strip_comments(open(f).read()), re.M):
            todo.append(mm.group(1))
    return files


def lean_modules_files(mods):
    return [os.path.join(LEAN, m.replace(".", "/") + ".lean") for m in mods]


def lean_phase(spec, facts, tier):
    """Regenerate Gen facts, build the property theorems, audit axioms.
    Returns dict(obligations=[{name, discharged, why}], log, checker_cmd)."""
    pid = spec["id"]
    props_mod = spec["lean_props"]
    props_file = os.path.join(LEAN, props_mod.replace(".", "/") + ".lean")
    res = {"obligations": [], "log": "", "checker_cmd": "", "forbidden": []}
    with Lock("lake"):
        if facts is not None:
            write_if_changed(os.path.join(LEAN, "SdnsVerif/Gen/%s.lean" % pid), gen_facts_lean(pid, facts))
        thms = theorems_of(props_file)
        audit_mod = "SdnsVerif.Audit.%s" % pid
        audit_src = "import %s\n" % props_mod + "".join("#print axioms %s\n" % n for n, _ in thms)
        audit_file = os.path.join(LEAN, "SdnsVerif/Audit/%s.lean" % pid)
        write_if_changed(audit_file, audit_src)
        cmd = ["lake", "build", props_mod, "model_" + pid.lower()]
        res["checker_cmd"] = "cd /verif/lean && " + " ".join(cmd) + " && lake env lean SdnsVerif/Audit/%s.lean" % pid
        rc, so, se, dt = run(cmd, cwd=LEAN, timeout=3000)
        build_log = so + se
        res["log"] = build_log[-6000:]
        bad_lines = {}
        if rc != 0:
            for m in re.finditer(r"error: ([^\s:]+\.lean):(\d+):(\d+): (.*)", build_log):
                bad_lines.setdefault(os.path.abspath(os.path.join(LEAN, m.group(1))), []).append((int(m.group(2)), m.group(4)))
        axioms = {}
        if rc == 0:
            rc2, so2, se2, _ = run(["lake", "env", "lean", audit_file], cwd=LEAN, timeout=1200)
            txt = so2 + se2
            for m in re.finditer(r"'([^']+)' depends on axioms: \[([^\]]*)\]", txt):
                axioms[m.group(1)] = {a.strip() for a in m.group(2).replace("\n", " ").split(",") if a.strip()}
            for m in re.finditer(r"'([^']+)' does not depend on any axioms", txt):
                axioms[m.group(1)] = set()
            if rc2 != 0:
                res["log"] += "\nAUDIT FAILED:\n" + txt[-3000:]
        if tier == "thorough" and rc == 0:
            rc3, so3, se3, dt3 = run(["lake", "env", "leanchecker", props_mod], cwd=LEAN, timeout=3000)
            res["leanchecker"] = {"rc": rc3, "wall_s": round(dt3, 1), "tail": (so3 + se3)[-300:]}
            if rc3 != 0:
                rc = rc3
                res["log"] += "\nLEANCHECKER FAILED:\n" + (so3 + se3)[-2000:]
    # forbidden tokens anywhere in what this property's theorems and model
    # executable are built from: the import closure of the props module and of
    # the driver (comments stripped). Other properties' files are their own
    # checks' business.
    for f in import_closure([props_mod, "Driver.%sMain" % pid]):
        m = FORBIDDEN.search(strip_comments(open(f).read()))
        if m:
            res["forbidden"].append("%s: %s" % (os.path.relpath(f, LEAN), m.group(0).strip()))
    # per-theorem verdicts
    errs_here = sorted(bad_lines.get(os.path.abspath(props_file), []))
    other_errs = [(f, e) for f, es in bad_lines.items() if f != os.path.abspath(props_file) for e in es]
    for idx, (name, line) in enumerate(thms):
        nxt = thms[idx + 1][1] if idx + 1 < len(thms) else 10 ** 9
        why = None
        if rc != 0:
            mine = [e for e in errs_here if line <= e[0] < nxt]
            if mine:
                why = "proof no longer checks: line %d: %s" % mine[0]
            elif other_errs:
                why = "dependency failed to build: %s:%d %s" % (os.path.relpath(other_errs[0][0], LEAN), other_errs[0][1][0], other_errs[0][1][1])
            elif not errs_here:
                why = "lake build failed"
            else:
                # errors elsewhere in this file: Lean still elaborated this theorem; but the module was not
                # produced, so it is not kernel-accepted as a whole.
                why = "module rejected (error at line %d)" % errs_here[0][0]
        elif name not in axioms:
            why = "no #print axioms output"
        elif not axioms[name] <= ALLOWED_AXIOMS:
            why = "uses non-standard axioms: %s" % sorted(axioms[name] - ALLOWED_AXIOMS)
        elif res["forbidden"]:
            why = "forbidden token in project: %s" % res["forbidden"][0]
        res["obligations"].append({"name": name, "discharged": why is None, "why": why,
                                   "axioms": sorted(axioms.get(name, []))})
    if not thms:
        res["obligations"].append({"name": props_mod + ".<none>", "discharged": False, "why": "no theorem found", "axioms": []})
    return res


# ---------------------------------------------------------------- correspondence

def parse_lines(text):
    rows = []
    for ln in text.split("\n"):
        if not ln:
            continue
        p = ln.split("\t")
        if len(p) < 4:
            continue
        rows.append({"op": p[0], "impl": p[1], "oracle": p[2], "tags": p[3]})
    return rows


MODEL_EXE = [None]


def model_run(ops):
    exe = os.path.join(LEAN, ".lake/build/bin", MODEL_EXE[0])
    rc, so, se, dt = run([exe], stdin="\n".join(ops) + "\n", timeout=1800)
    outs = so.split("\n")
    if outs and outs[-1] == "":
        outs.pop()
    return rc, outs, se


def sig_of(oracle):
    m = re.search(r"sig=(\S+)", oracle)
    return m.group(1) if m else "unspecified"


def case_bounds(rows, idx):
    """A case starts at the closest preceding op whose second token is 'new'
    for the same subsystem (first token)."""
    sub = rows[idx]["op"].split(" ", 1)[0]
    j = idx
    while j > 0:
        f = rows[j]["op"].split(" ")
        if f[0] == sub and len(f) > 1 and f[1] == "new":
            break
        j -= 1
    return j


def replay_ops(binpath, ops, timeout=600):
    os.makedirs(os.path.join(BUILD, "tmp"), exist_ok=True)
    path = os.path.join(BUILD, "tmp", "replay_%d_%s.ops" % (os.getpid(), hashlib.sha1("\n".join(ops).encode()).hexdigest()[:10]))
    with open(path, "w") as f:
        f.write("\n".join(ops) + "\n")
    rc, so, se, dt = run([binpath, "replay", path], env=drv_env(), timeout=timeout)
    os.remove(path)
    return parse_lines(so)


def drv_env():
    e = dict(os.environ)
    e.setdefault("GOMEMLIMIT", "8GiB")
    e["VERIF_DIR"] = VERIF
    e["VERIF_REPO"] = REPO
    return e


def shrink(binpath, ops, want_sig, check_model=None):
    """ddmin over the middle of the op list (first op = case header, last op =
    the failing one)."""
    def fails(cand):
        rows = replay_ops(binpath, cand)
        if not rows:
            return False
        last = rows[-1]
        if want_sig is not None:
            return last["oracle"].startswith("FAIL") and sig_of(last["oracle"]) == want_sig
        if check_model:
            rc, outs, _ = model_run(cand)
            return len(outs) == len(rows) and outs[-1] != "unmodelled" and outs[-1] != last["impl"]
        return False

    if len(ops) <= 2:
        return ops
    head, mid, tail = ops[:1], ops[1:-1], ops[-1:]
    if not fails(head + mid + tail):
        return ops
    n = 2
    budget = 60
    while len(mid) >= 1 and budget > 0:
        chunk = max(1, len(mid) // n)
        reduced = False
        for i in range(0, len(mid), chunk):
            cand = mid[:i] + mid[i + chunk:]
            budget -= 1
            if fails(head + cand + tail):
                mid = cand
                n = max(n - 1, 2)
                reduced = True
                break
            if budget <= 0:
                break
        if not reduced:
            if chunk == 1:
                break
            n = min(n * 2, len(mid))
    return head + mid + tail


def load_known(pid):
    out = []
    p = os.path.join(VERIF, "known_findings.jsonl")
    if os.path.exists(p):
        for ln in open(p):
            ln = ln.strip()
            if ln:
                e = json.loads(ln)
                if e.get("property") == pid:
                    out.append(e)
    return out


def corpus_ops(pid):
    files = sorted(glob.glob(os.path.join(VERIF, "corpus", pid, "*.ops")))
    return [(f, [l.rstrip("\n") for l in open(f) if l.strip() and not l.startswith("#")]) for f in files]


# ---------------------------------------------------------------- one property

def check_property(pid, tier, seed, replay_file=None):
    t0 = time.time()
    spec = load_spec(pid)
    MODEL_EXE[0] = "model_" + pid.lower()
    tcfg = spec.get(tier, spec.get("quick", {}))
    os.makedirs(os.path.join(BUILD, "replay"), exist_ok=True)
    out_lines = []
    violations = []  # dicts
    stats = {"evaluations": 0, "nt": set(), "samples": [], "model_compared": 0, "model_unmodelled": 0,
             "oracle_judged": 0, "tags": {}, "runs": []}

    ok_build, blog, binpath, bdt = build_driver(spec)
    log("[%s] go driver build: %s (%.1fs)" % (pid, "ok" if ok_build else "FAILED", bdt))
    facts = None
    facts_err = None
    if ok_build:
        rc, so, se, _ = run([binpath, "facts"], env=drv_env(), timeout=600)
        if rc == 0:
            try:
                facts = json.loads(so)
            except Exception as e:
                facts_err = "facts output unparsable: %s" % e
        else:
            facts_err = "facts run failed: " + (se or so)[-500:]
    lean = lean_phase(spec, facts, tier)
    obligations = lean["obligations"]
    undischarged = [o for o in obligations if not o["discharged"]]
    log("[%s] lean: %d/%d obligations discharged" % (pid, len(obligations) - len(undischarged), len(obligations)))

    if replay_file:
        return do_replay(pid, spec, binpath, ok_build, replay_file)

    known = load_known(pid)
    known_sigs = {e["signature"] for e in known if e.get("status") == "known"}
    seen_known = {}
    fail_groups = {}   # sig -> (rows, idx)
    diff_first = None  # (rows, idx, model_out)
    corr_broken = []   # textual reasons

    def process(rows, label):
        nonlocal diff_first
        ops = [r["op"] for r in rows]
        rc, mouts, mse = model_run(ops) if ops else (0, [], "")
        if len(mouts) != len(rows):
            corr_broken.append("model driver produced %d lines for %d ops (%s) %s" % (len(mouts), len(rows), label, mse[-300:]))
            mouts = mouts + ["<no-output>"] * (len(rows) - len(mouts))
        cur_new = ""
        for i, r in enumerate(rows):
            f = r["op"].split(" ")
            if len(f) > 1 and f[1] == "new":
                cur_new = r["op"]
            stats["evaluations"] += 1
            for t in r["tags"].split(","):
                if t:
                    stats["tags"][t] = stats["tags"].get(t, 0) + 1
            if "nt" in r["tags"].split(","):
                stats["nt"].add(hashlib.sha1((cur_new + "\n" + r["op"]).encode()).digest()[:8])
            if mouts[i] == "unmodelled":
                stats["model_unmodelled"] += 1
            else:
                stats["model_compared"] += 1
                if mouts[i] != r["impl"] and diff_first is None:
                    diff_first = (rows, i, mouts[i])
            if r["oracle"] != "-":
                stats["oracle_judged"] += 1
            if r["oracle"].startswith("FAIL"):
                s = sig_of(r["oracle"])
                if s in known_sigs:
                    seen_known[s] = r
                elif s not in fail_groups:
                    fail_groups[s] = (rows, i)
        if rows and len(stats["samples"]) < 6:
            k = min(len(rows) - 1, 1 + len(stats["samples"]) * 7)
            j = case_bounds(rows, k)
            stats["samples"].append({"case": [x["op"] for x in rows[j:min(k + 1, j + 6)]], "impl": rows[k]["impl"],
                                     "model": mouts[k], "oracle": rows[k]["oracle"]})

    if ok_build:
        for f, ops in corpus_ops(pid):
            rows = replay_ops(binpath, ops)
            process(rows, "corpus:" + os.path.basename(f))
            stats["runs"].append({"kind": "corpus", "file": os.path.basename(f), "ops": len(rows)})
        seeds = [seed + k for k in range(tcfg.get("seeds", 1))]
        for sd in seeds:
            rc, so, se, dt = run([binpath, "gen", str(sd), str(tcfg.get("n", 2000)), tier], env=drv_env(), timeout=tcfg.get("timeout", 1500))
            rows = parse_lines(so)
            if rc != 0:
                corr_broken.append("driver gen seed=%d exited rc=%d: %s" % (sd, rc, se[-400:]))
            process(rows, "gen:%d" % sd)
            stats["runs"].append({"kind": "gen", "seed": sd, "ops": len(rows), "wall_s": round(dt, 1)})
    else:
        corr_broken.append("harness no longer builds against the tree: " + blog[-1500:])
    if facts_err:
        corr_broken.append(facts_err)

    need_search = bool(undischarged or corr_broken or diff_first)
    if need_search and ok_build and not fail_groups:
        # witness search: wider oracle runs on more seeds
        log("[%s] obligation/correspondence broken: searching for a failing input" % pid)
        for k in range(tcfg.get("search_seeds", 4)):
            sd = seed + 1000 + k
            rc, so, se, dt = run([binpath, "gen", str(sd), str(tcfg.get("n", 2000) * 2), tier], env=drv_env(), timeout=tcfg.get("timeout", 1500))
            process(parse_lines(so), "search:%d" % sd)
            stats["runs"].append({"kind": "search", "seed": sd, "wall_s": round(dt, 1)})
            if fail_groups:
                break

    def write_replay(name, obj):
        path = os.path.join(BUILD, "replay", name)
        with open(path, "w") as f:
            json.dump(obj, f, indent=1)
        return path

    broken = {"theorems": [{"name": o["name"], "why": o["why"]} for o in undischarged],
              "correspondence": corr_broken[:5]}
    if diff_first:
        rows, i, mo = diff_first
        j = case_bounds(rows, i)
        ops = [r["op"] for r in rows[j:i + 1]]
        if ok_build:
            ops = shrink(binpath, ops, None, check_model=True)
        broken["correspondence"].append("model and implementation differ on: %s (impl=%s model=%s)" % (ops[-1], rows[i]["impl"], mo))
        broken["diff_ops"] = ops
        broken["diff_impl"] = rows[i]["impl"]
        broken["diff_model"] = mo

    for s, (rows, i) in sorted(fail_groups.items()):
        j = case_bounds(rows, i)
        ops = [r["op"] for r in rows[j:i + 1]]
        ops = shrink(binpath, ops, s)
        rr = replay_ops(binpath, ops)
        detail = rr[-1]["oracle"] if rr else rows[i]["oracle"]
        path = write_replay("%s-%s-%d.json" % (pid, re.sub(r"[^A-Za-z0-9_.-]", "_", s)[:60], seed),
                            {"property": pid, "kind": "input", "signature": s, "driver": spec["driver"], "ops": ops, "seed": seed,
                             "oracle": detail, "got": rr[-1]["impl"] if rr else rows[i]["impl"], "broken": broken})
        out_lines.append("VIOLATION property=%s replay=%s" % (pid, path))
        violations.append({"sig": s, "replay": path})
    if need_search and not fail_groups:
        path = write_replay("%s-unproved-%d.json" % (pid, seed),
                            {"property": pid, "kind": "no-failing-input-found", "driver": spec["driver"], "seed": seed, "broken": broken,
                             "searched": stats["runs"], "lean_log_tail": lean["log"][-2500:] if undischarged else ""})
        out_lines.append("VIOLATION property=%s replay=%s no-failing-input-found" % (pid, path))
        violations.append({"sig": "no-failing-input-found", "replay": path})

    # known findings: confirm each recorded witness still fails, then announce it
    for e in known:
        if e.get("status") != "known":
            continue
        still = None
        if ok_build and e.get("witness"):
            rr = replay_ops(binpath, e["witness"])
            still = bool(rr) and rr[-1]["oracle"].startswith("FAIL") and sig_of(rr[-1]["oracle"]) == e["signature"]
        if still or (still is None and e["signature"] in seen_known):
            out_lines.append("KNOWN-FINDING: property=%s %s" % (pid, e.get("text", e["signature"])))

    wall = time.time() - t0
    ev = {
        "property_id": pid, "tier": tier, "seed": seed, "level": spec.get("level", "proof"),
        "coverage": {
            "obligations": len(obligations),
            "discharged": len(obligations) - len(undischarged),
            "checker_cmd": lean["checker_cmd"],
            "trusted_base": spec.get("trusted_base", []) + ["axioms used: " + ", ".join(sorted({a for o in obligations for a in o["axioms"]}) or ["none"])],
            "theorems": [{"name": o["name"], "discharged": o["discharged"], "axioms": o["axioms"]} | ({"why": o["why"]} if o["why"] else {}) for o in obligations],
            "gen_facts": facts if facts is not None else {},
            "evaluations": stats["evaluations"],
            "distinct_nontrivial": len(stats["nt"]),
            "rule": spec.get("rule", ""),
            "samples": stats["samples"] or [{"note": "no case executed"}],
            "model_vs_impl_compared": stats["model_compared"],
            "oracle_only_ops": stats["model_unmodelled"],
            "oracle_judged": stats["oracle_judged"],
            "tag_distribution": stats["tags"],
            "runs": stats["runs"],
            "exhaustive": False,
        },
        "assumptions": spec.get("assumptions", []),
        "wall_s": round(wall, 1),
        "violations": len(violations),
    }
    if "leanchecker" in lean:
        ev["coverage"]["leanchecker"] = lean["leanchecker"]
    if violations:
        ev["coverage"]["violation_replays"] = violations
    os.makedirs(os.path.join(VERIF, "evidence"), exist_ok=True)
    with open(os.path.join(VERIF, "evidence", pid + ".json"), "w") as f:
        json.dump(ev, f, indent=1, sort_keys=True)
        f.write("\n")
    for l in out_lines:
        print(l, flush=True)
    log("[%s] %s tier=%s seed=%d evals=%d compared=%d nt=%d obligations=%d/%d wall=%.1fs" % (
        pid, "VIOLATION" if violations else "ok", tier, seed, stats["evaluations"], stats["model_compared"], len(stats["nt"]),
        len(obligations) - len(undischarged), len(obligations), wall))
    return 1 if violations else 0


def do_replay(pid, spec, binpath, ok_build, replay_file):
    obj = json.load(open(replay_file))
    if not ok_build:
        print("replay: harness does not build against the tree")
        return 1
    if obj.get("kind") == "no-failing-input-found":
        print(json.dumps(obj.get("broken"), indent=1))
        ops = obj.get("broken", {}).get("diff_ops")
        if not ops:
            return 1
    else:
        ops = obj["ops"]
    rows = replay_ops(binpath, ops)
    rc, mouts, _ = model_run(ops)
    bad = False
    for r, m in zip(rows, mouts + [""] * len(rows)):
        print("%s\n    impl=%s model=%s oracle=%s" % (r["op"], r["impl"], m, r["oracle"]))
        if r["oracle"].startswith("FAIL") or (m != "unmodelled" and m != r["impl"]):
            bad = True
    print("REPLAY: %s" % ("still fails" if bad else "passes"))
    return 1 if bad else 0


def setup():
    t0 = time.time()
    with Lock("lake"):
        for pid in all_props():
            gen = os.path.join(LEAN, "SdnsVerif/Gen/%s.lean" % pid)
            if not os.path.exists(gen):
                # placeholder so that the project builds before the first check regenerates it
                pass
    rc_all = 0
    for pid in all_props():
        spec = load_spec(pid)
        ok, blog, binpath, dt = build_driver(spec)
        log("[setup] %s driver %s (%.1fs)" % (pid, "ok" if ok else "FAILED\n" + blog, dt))
        if not ok:
            rc_all = 1
            continue
        rc, so, se, _ = run([binpath, "facts"], env=drv_env(), timeout=600)
        if rc == 0:
            with Lock("lake"):
                write_if_changed(os.path.join(LEAN, "SdnsVerif/Gen/%s.lean" % pid), gen_facts_lean(pid, json.loads(so)))
    with Lock("lake"):
        mods = [load_spec(p)["lean_props"] for p in all_props()]
        rc, so, se, dt = run(["lake", "build"] + ["model_" + p.lower() for p in all_props()] + mods, cwd=LEAN, timeout=7200)
        log("[setup] lake build rc=%d (%.1fs)\n%s" % (rc, dt, (so + se)[-3000:] if rc else ""))
        rc_all |= 1 if rc else 0
    log("[setup] done in %.1fs" % (time.time() - t0))
    return rc_all


def main(argv):
    ap = argparse.ArgumentParser()
    ap.add_argument("prop", nargs="?")
    ap.add_argument("--tier", default=os.environ.get("VERIF_TIER", "quick"), choices=["quick", "thorough"])
    ap.add_argument("--seed", type=int, default=int(os.environ.get("VERIF_SEED", "1") or 1))
    ap.add_argument("--replay")
    ap.add_argument("--setup", action="store_true")
    ap.add_argument("--all", action="store_true")
    a = ap.parse_args(argv)
    if a.setup:
        return setup()
    if a.all:
        rc = 0
        for pid in all_props():
            rc |= check_property(pid, a.tier, a.seed)
        return rc
    if not a.prop:
        ap.print_help()
        return 2
    return check_property(a.prop, a.tier, a.seed, a.replay)
