#!/bin/bash
# usage: run_seed.sh <seed name e.g. C17-1> [extra check args]
# Applies /verif/seeded/<name>/patch.diff in a scratch worktree of /repo HEAD, runs the
# property's check against it (VERIF_REPO), prints the verdict, removes the worktree and
# re-runs the facts/lean phase on the clean tree so Gen files are restored.
set -u
NAME=$1; shift
PROP=${NAME%%-*}
WT=/tmp/seedrun-$NAME
git -C /repo worktree remove --force $WT >/dev/null 2>&1
git -C /repo worktree add --detach $WT HEAD >/dev/null 2>&1 || exit 2
git -C $WT apply /verif/seeded/$NAME/patch.diff || { echo "$NAME: patch does not apply to current /repo HEAD"; git -C /repo worktree remove --force $WT; exit 2; }
cd /verif
OUT=$(VERIF_REPO=$WT ./check $PROP "$@" 2>&1)
RC=$?
echo "$OUT" | grep -E "^VIOLATION|^KNOWN-FINDING" | head -6
echo "$NAME: check $PROP exit=$RC ($( [ $RC -ne 0 ] && echo CAUGHT || echo MISSED ))"
git -C /repo worktree remove --force $WT
rm -f /verif/build/bin/*-???????? 2>/dev/null
exit $RC
