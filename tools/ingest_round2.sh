#!/bin/bash
# usage: ingest_round2.sh Cxx   — confirms /tmp/seed2-cxx-out/{1,2,3} as Cxx-4..6 and stores them
P=$1; n=$(echo $P | tr A-Z a-z)
git -C /repo worktree remove --force /tmp/seed2-$n 2>/dev/null
for i in 1 2 3; do
  [ -f /tmp/seed2-$n-out/$i/patch.diff ] || { echo "$P round2 #$i missing"; continue; }
  /verif/tools/confirm_seed.sh /tmp/seed2-$n-out/$i $P-$((i+3)) 2>&1 | tail -2 | tr '\n' ' '; echo
done
