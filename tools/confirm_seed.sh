#!/bin/bash
# usage: confirm_seed.sh <src dir with patch.diff demo_test.go meta.json> <seed name e.g. C17-1>
# Confirms in a scratch worktree that the change compiles, the touched packages' own
# tests pass with it, the demonstration fails with it and passes without it; then
# stores it under /verif/seeded/<name>/ and removes the worktree.
set -u
SRC=$1; NAME=$2
export GOFLAGS=-mod=mod GOPROXY=off
WT=/tmp/confirm-$NAME
git -C /repo worktree remove --force $WT >/dev/null 2>&1
git -C /repo worktree add --detach $WT HEAD >/dev/null 2>&1 || { echo "worktree failed"; exit 2; }
cd $WT
PKG=$(python3 -c "import json;print(json.load(open('$SRC/meta.json'))['demo_pkg'])")
CMD=$(python3 -c "import json;print(json.load(open('$SRC/meta.json'))['demo_cmd'])")
PKGS=$(git apply --numstat $SRC/patch.diff | awk '{print $3}' | xargs -n1 dirname | sort -u | sed 's#^#./#' | tr '\n' ' ')
res="{}"
git apply $SRC/patch.diff || { echo "patch does not apply"; cd /; git -C /repo worktree remove --force $WT; exit 2; }
go build ./... > /tmp/confirm-$NAME.build 2>&1; BUILD=$?
go test -vet=off -count=1 $PKGS > /tmp/confirm-$NAME.tests 2>&1; TESTS=$?
cp $SRC/demo_test.go $PKG/zz_seed_demo_test.go
$CMD > /tmp/confirm-$NAME.demo_with 2>&1; WITH=$?
git apply -R $SRC/patch.diff
$CMD > /tmp/confirm-$NAME.demo_without 2>&1; WITHOUT=$?
cd /
git -C /repo worktree remove --force $WT
echo "$NAME build=$BUILD pkgtests($PKGS)=$TESTS demo_with_change=$WITH (want !=0) demo_without=$WITHOUT (want 0)"
if [ $BUILD -eq 0 ] && [ $TESTS -eq 0 ] && [ $WITH -ne 0 ] && [ $WITHOUT -eq 0 ]; then
  mkdir -p /verif/seeded/$NAME
  cp $SRC/patch.diff $SRC/demo_test.go /verif/seeded/$NAME/
  python3 - <<PY
import json
m=json.load(open('$SRC/meta.json'))
m['confirmed_by_lead']={'build':'go build ./... ok','package_tests':'go test -vet=off -count=1 $PKGS ok','demo_with_change':'fails (exit $WITH)','demo_without_change':'passes','repo_head':'$(git -C /repo rev-parse --short HEAD)'}
json.dump(m,open('/verif/seeded/$NAME/meta.json','w'),indent=1)
PY
  echo CONFIRMED
else
  echo NOT-CONFIRMED; for f in build tests demo_with demo_without; do echo "== $f"; tail -n 8 /tmp/confirm-$NAME.$f; done
fi
rm -f /tmp/confirm-$NAME.*
