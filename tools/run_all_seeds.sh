#!/bin/bash
# Runs every stored seeded change against its property's check (scratch worktrees,
# VERIF_REPO), one stream per property in parallel, then re-runs every check on /repo
# so that Gen files and evidence are those of the unchanged tree. Writes
# seeded/RESULTS.md (which check output caught which change).
cd /verif
mkdir -p build/seedlogs
PROPS=$(ls seeded | grep -E '^C[0-9]+-[0-9]+$' | sed 's/-.*//' | sort -u)
# optional arguments: the properties to (re-)run; the table is always assembled from every log present
[ $# -gt 0 ] && PROPS="$*"
[ "$PROPS" = "assemble" ] && PROPS=""
for P in $PROPS; do
  ( for S in $(ls seeded | grep -E "^$P-[0-9]+$" | sort -t- -k2 -n); do tools/run_seed.sh $S > build/seedlogs/$S.log 2>&1; done
    ./check $P > build/seedlogs/$P-clean.log 2>&1 ) &
done
wait
python3 - <<'PY'
import glob, json, os, re
rows=[]
for d in sorted(glob.glob('/verif/seeded/C*-*'), key=lambda p:(p.split('/')[-1].split('-')[0], int(p.split('-')[-1]))):
    name=os.path.basename(d)
    meta=json.load(open(os.path.join(d,'meta.json')))
    log=open('/verif/build/seedlogs/%s.log'%name).read() if os.path.exists('/verif/build/seedlogs/%s.log'%name) else ''
    caught='CAUGHT' in log
    sigs=[]
    for m in re.finditer(r'VIOLATION property=\S+ replay=\S+/(C\d+-[^ /]+?)-\d+\.json( no-failing-input-found)?', log):
        s=m.group(1).split('-',1)[1]
        sigs.append(s+(' (no-failing-input-found)' if m.group(2) else ''))
    rows.append((name, meta.get('clause','')[:110].replace('|','/').replace('\n',' '), ', '.join(meta.get('files',[]))[:90], 'caught' if caught else ('MISSED' if 'MISSED' in log else 'not run'), '; '.join(sigs[:3])))
with open('/verif/seeded/RESULTS.md','w') as f:
    f.write('# Seeded breaking changes and what the checks reported\n\nEach change was produced by an engineer who saw only the property text and a scratch worktree, compiles, passes the touched packages\' own tests, and comes with a demonstration that fails with it and passes without it (confirmed by tools/confirm_seed.sh). Result of `tools/run_all_seeds.sh` on the current tree:\n\n| seed | clause broken | files | check verdict | reported as (replay signatures) |\n|---|---|---|---|---|\n')
    for r in rows: f.write('| %s | %s | %s | %s | %s |\n'%r)
    c=sum(1 for r in rows if r[3]=='caught')
    f.write('\n%d of %d caught.\n'%(c,len(rows)))
    clean=[]
    for p in sorted(glob.glob('/verif/build/seedlogs/*-clean.log')):
        t=open(p).read().strip().split('\n')[-1]
        clean.append(t)
    f.write('\nUnchanged tree afterwards:\n\n```\n'+'\n'.join(clean)+'\n```\n')
print(open('/verif/seeded/RESULTS.md').read()[-1500:])
PY
