#!/usr/bin/env python3
"""Regenerates MANIFEST.json from props/*.json (claimed checks) and
props/not_applicable.json (everything not claimed, with its reason)."""
import glob, json, os
V = os.path.dirname(os.path.dirname(os.path.abspath(__file__)))
ids = [json.loads(l)["id"] for l in open(os.path.join(V, "properties.jsonl"))]
checks = []
ready = [l.strip() for l in open(os.path.join(V, "props", "claimed.txt")) if l.strip() and not l.startswith("#")]
for pid in ids:
    p = os.path.join(V, "props", pid + ".json")
    if not os.path.exists(p) or pid not in ready:
        continue
    s = json.load(open(p))
    checks.append({
        "property_id": pid,
        "quick_cmd": "./check %s --tier quick" % pid,
        "thorough_cmd": "./check %s --tier thorough" % pid,
        "evidence_file": "/verif/evidence/%s.json" % pid,
        "replay_cmd_template": "./check %s --replay {path}" % pid,
        "engine": "lean4-proof+correspondence",
        "level_claimed": {"category": s.get("level", "proof"), "text": s["claim"], "design_ref": "DESIGN.md section 5/" + pid},
        "level_note": s["note"],
        "technique": s.get("technique", "Lean 4 theorems over an executable model; model tied to /repo by regenerated Gen facts and a differential correspondence run; independent Go oracle for witness search"),
    })
na_path = os.path.join(V, "props", "not_applicable.json")
na = json.load(open(na_path)) if os.path.exists(na_path) else {}
claimed = {c["property_id"] for c in checks}
not_app = [{"property_id": pid, "reason": na.get(pid, "check not built yet in this round; see DESIGN.md section 8 (build order)")} for pid in ids if pid not in claimed]
m = {
    "version": 1,
    "setup_cmd": "./check --setup",
    "hooks": {
        "guard": "verif",
        "enable": "go build -tags verif -overlay /verif/build/overlay_<id>.json ./internal/verif/<driver>  (harness and accessor files live under /verif/harness and are injected by the overlay; nothing is committed to /repo)",
        "baseline_off_cmd": "cd /repo && GOFLAGS=-mod=mod go test -vet=off -count=1 -timeout 25m ./...",
        "source_commits": [],
        "add_only": True,
    },
    "engines": [{"name": "lean4-proof+correspondence", "path": "/verif/check", "serves_properties": sorted(claimed),
                 "kind_free_text": "Lean 4 (core + single Mathlib modules) theorems about executable models; sdnsmodel line-protocol executable; Go drivers injected with go build -overlay; python runner"}],
    "checks": checks,
    "not_applicable": not_app,
    "notes": "See DESIGN.md. Evidence is rewritten by every run of ./check.",
}
json.dump(m, open(os.path.join(V, "MANIFEST.json"), "w"), indent=1)
print("claimed:", sorted(claimed))
