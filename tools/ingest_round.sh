#!/bin/bash
# usage: ingest_round.sh Cxx N  — confirms /tmp/seedN-cxx-out/{1,2,3} as Cxx-(3(N-1)+1..3N) and stores them
P=$1; R=$2; n=$(echo $P | tr A-Z a-z)
git -C /repo worktree remove --force /tmp/seed$R-$n 2>/dev/null
for i in 1 2 3; do
  [ -f /tmp/seed$R-$n-out/$i/patch.diff ] || { echo "$P round$R #$i missing"; continue; }
  /verif/tools/confirm_seed.sh /tmp/seed$R-$n-out/$i $P-$((i+3*(R-1))) 2>&1 | tail -2 | tr '\n' ' '; echo
done
