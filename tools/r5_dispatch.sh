#!/bin/bash
# usage: r5_dispatch.sh Cxx — runs seeds 13..15 of the property and prints the list not caught at input level
P=$1
out=""
for n in 13 14 15; do
  [ -d /verif/seeded/$P-$n ] || continue
  log=$(/verif/tools/run_seed.sh $P-$n 2>&1)
  if echo "$log" | grep -q "(MISSED)"; then out="$out $P-$n(MISSED)";
  elif echo "$log" | grep "^VIOLATION" | grep -vq "no-failing-input-found"; then :;
  else out="$out $P-$n(only-no-failing-input-found)"; fi
done
echo "$P not caught at input level:${out:- none}"
