#!/usr/bin/env python3
"""Regenerates DESIGN.md Appendix D (between markers) from seeded/RESULTS.md and seeded/*/meta.json:
which check path caught which independently seeded change."""
import re, json, os, collections
V='/verif'
rows=[]
for l in open(V+'/seeded/RESULTS.md'):
    m=re.match(r'\| (C\d\d)-(\d+) \| (.*?) \| (.*?) \| (\w+(?: \w+)?) \| (.*?) \|$', l.strip())
    if m: rows.append(m.groups())
per=collections.OrderedDict()
for pid,n,clause,files,verdict,sigs in rows:
    per.setdefault(pid,[]).append((n,clause,files,verdict,sigs))
out=['<!-- BEGIN DETECTION MATRIX (tools/mkdesign_matrix.py) -->','',
'Measured, not intended: every row is one independently seeded change (`seeded/<id>-<n>/`, produced by an',
'engineer who saw only the property text; compiles; the touched packages\' tests pass; demonstration confirmed)',
'and what `./check <id>` printed when run against a scratch worktree holding it (`tools/run_seed.sh`).',
'"path" is the stream family of the first replay signatures (the token before the first `_` is the op family of the',
'driver that judged it, e.g. `l3` = scripted-authority world through the real edns→cache→resolver pipeline, `srv` = real',
'`server.Server` sockets, `pipe` = real middleware pipeline, others = function-level correspondence ops);',
'`unproved` means only a proof obligation / Gen fact / model-vs-implementation difference broke and the search found no failing input.','',
'| property | seeds caught | by input-level replay | only no-failing-input-found | missed |','|---|---|---|---|---|']
tot=c=0
for pid,rs in per.items():
    caught=[r for r in rs if r[3]=='caught']
    nfi=[r for r in caught if r[4].startswith('unproved')]
    missed=[r for r in rs if r[3]!='caught']
    tot+=len(rs); c+=len(caught)
    out.append('| %s | %d/%d | %s | %s | %s |'%(pid,len(caught),len(rs),
        ' '.join('%s-%s'%(pid,r[0]) for r in caught if r not in nfi) or '-',
        ' '.join('%s-%s'%(pid,r[0]) for r in nfi) or '-',
        ' '.join('%s-%s'%(pid,r[0]) for r in missed) or '-'))
out+=['','%d of %d seeded changes caught. Per seed (site changed → what reported it):'%(c,tot),'']
for pid,rs in per.items():
    for n,clause,files,verdict,sigs in rs:
        fam=sorted({s.strip().split('_')[0] for s in sigs.split(';') if s.strip() and not s.strip().startswith('unproved')})
        out.append('* `%s-%s` %s → %s%s'%(pid,n,files,verdict,(' via '+', '.join('`%s`'%s.strip() for s in sigs.split(';') if s.strip())) if sigs.strip() else ''))
out+=['','<!-- END DETECTION MATRIX -->']
s=open(V+'/DESIGN.md').read()
block='\n'.join(out)
if '<!-- BEGIN DETECTION MATRIX' in s:
    s=re.sub(r'<!-- BEGIN DETECTION MATRIX.*?<!-- END DETECTION MATRIX -->',lambda m:block,s,flags=re.S)
else:
    a=s.index('## Appendix D'); b=s.index('## Appendix E')
    s=s[:a]+'## Appendix D — which checks catch which changes (measured)\n\n'+block+'\n\n'+s[b:]
open(V+'/DESIGN.md','w').write(s)
print('ok',c,tot)
