#!/usr/bin/env python3
"""Regenerates DESIGN.md section 6 (between the markers) from props/*.json and evidence/*.json."""
import json, os, re, glob
V='/verif'
rows=[]
for l in open(V+'/properties.jsonl'):
    p=json.loads(l); pid=p['id']
    s=json.load(open('%s/props/%s.json'%(V,pid)))
    ev=json.load(open('%s/evidence/%s.json'%(V,pid))) if os.path.exists('%s/evidence/%s.json'%(V,pid)) else None
    ob=ev['coverage'].get('obligations') if ev else '?'
    partial='partial' if 'partial' in (s.get('claim','')+s.get('note','')).lower() else 'full'
    libs=','.join(s.get('go_libs',[])) or '-'
    rows.append((pid,p['title'],ob,partial,libs,s.get('claim','').replace('\n',' ')))
out=['<!-- BEGIN AS-BUILT TABLE (tools/mkdesign_table.py) -->','',
'| id | theorems (all discharged) | proof claim | system harness | notes |','|---|---|---|---|---|']
for pid,title,ob,partial,libs,claim in rows:
    out.append('| %s | %s | %s | %s | notes/%s.md |'%(pid,ob,partial,libs,pid))
out+=['','What each check claims (MANIFEST `level_claimed.text`, written by the property\'s builder):','']
for pid,title,ob,partial,libs,claim in rows:
    out.append('* **%s — %s.** %s'%(pid,title,claim))
out+=['','Theorem inventory (every `theorem` in `lean/SdnsVerif/Props/Cxx.lean` is a proof obligation the runner requires to be discharged and audited with `#print axioms` on every run):','']
for pid,title,ob,partial,libs,claim in rows:
    try:
        src=open('%s/lean/SdnsVerif/Props/%s.lean'%(V,pid)).read()
    except OSError:
        continue
    names=re.findall(r'^\s*(?:@\[[^\]]*\]\s*)?theorem\s+([A-Za-z0-9_\.\']+)',src,flags=re.M)
    out.append('* **%s** (%d): %s'%(pid,len(names),', '.join('`%s`'%n for n in names)))
out+=['','<!-- END AS-BUILT TABLE -->']
s=open(V+'/DESIGN.md').read()
block='\n'.join(out)
if '<!-- BEGIN AS-BUILT TABLE' in s:
    s=re.sub(r'<!-- BEGIN AS-BUILT TABLE.*?<!-- END AS-BUILT TABLE -->',lambda m:block,s,flags=re.S)
else:
    a=s.index('## 6. Applicability'); b=s.index('## 7. Violations on the unchanged tree')
    head='''## 6. Applicability and what each check delivers (as built)

No property is listed `not_applicable`: each has a logic core an executable
model expresses, every one of the twenty is claimed at level `proof`, and the
words "partial" in a claim name what the theorems do not cover (runtime
behaviour a model cannot exhibit: goroutine schedules, sockets, timers,
library cryptography; or orchestration code tied by shape facts and explored
by the system harness rather than refined). Per-property detail — what is
modelled, what every theorem says, what is not covered, mutations tried
during construction — is in `notes/Cxx.md`; which independently seeded
changes each check caught is in `seeded/RESULTS.md`.

'''
    s=s[:a]+head+block+'\n\n---------------------------------------------------------------------------\n\n'+s[b:]
open(V+'/DESIGN.md','w').write(s)
print('ok')
