import Driver.Loop
import Driver.C03
def main : IO Unit := Driver.runLoop ({} : Driver.C03.State) Driver.C03.step
