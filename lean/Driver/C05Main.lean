import Driver.Loop
import Driver.C05
def main : IO Unit := Driver.runLoop ({} : Driver.C05.State) Driver.C05.step
