/-!
Shared stdin/stdout loop of the per-property model executables: one op per
line in, exactly one result line out.  Ops a model does not know print
`bad-op` (the model never defaults); ops that only the Go oracle judges print
`unmodelled`.
-/
namespace Driver

partial def loopAux {σ : Type} (step : σ → List String → σ × String)
    (h : IO.FS.Stream) (out : IO.FS.Stream) (st : σ) : IO Unit := do
  let line ← h.getLine
  if line.isEmpty then return ()
  let l := (line.dropEndWhile (fun c => c == '\n' || c == '\r')).toString
  let w := (l.splitOn " ").filter (· ≠ "")
  let (st', o) := match w with
    | [] => (st, "bad-op")
    | _ => step st w
  out.putStrLn o
  loopAux step h out st'

def runLoop {σ : Type} (init : σ) (step : σ → List String → σ × String) : IO Unit := do
  let stdin ← IO.getStdin
  let stdout ← IO.getStdout
  loopAux step stdin stdout init

end Driver
