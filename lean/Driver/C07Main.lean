import Driver.Loop
import Driver.C07
def main : IO Unit := Driver.runLoop ({} : Driver.C07.State) Driver.C07.step
