import SdnsVerif.Model.Util
import SdnsVerif.Model.UMap
/-! Line protocol for the `umap` / `segmap` / `cache` / `lim` / `conc` ops of C16.

Keys and values are decimal.  Values of `cache` ops are identity tokens (the
Go driver maps each token to one distinct pointer; token 0 is the nil
interface, i.e. what a miss yields — a CAS/CAD with old = 0 must still act only
on a key that is PRESENT and stores nil).  Eviction at the
`segmap`/`cache`/`lim` level is reported by the implementation in a follow-up
`evicted` op and VALIDATED here (the property leaves the victim free):
victims are distinct, present, never the key just written, and the count ends
at or below `max cap (count before the insert)`. -/
namespace Driver.C16
open SdnsVerif.Model SdnsVerif.Model.UMap SdnsVerif.Model.Util

abbrev H := realHashes

structure Pending where
  key : Nat
  before : Int
deriving Inhabited

structure State where
  um : UMap Nat := UMap.new 0
  sm : SegMap Nat := { segs := #[], count := 0 }
  smPend : Option Pending := none
  c : Cache Nat := { data := { segs := #[], count := 0 }, maxSize := 1 }
  cPend : Option Pending := none
  lim : Lim := { ents := [], maxSize := 0 }
  limClock : Nat := 0
  limPend : Option Nat := none
  ans : Cache Nat := { data := { segs := #[], count := 0 }, maxSize := 1 }
  fc : Cache (Nat × Nat) := { data := { segs := #[], count := 0 }, maxSize := 1 }
  fcInit : Nat := 1
  fcMax : Nat := 1

def optStr (o : Option Nat) : String := match o with | some v => toString v | none => "-"

def joinOr (l : List String) : String := if l.isEmpty then "-" else ",".intercalate l

def sortPairs (l : List (Nat × Nat)) : List (Nat × Nat) := l.mergeSort (fun a b => a.1 ≤ b.1)

def pairsStr (l : List (Nat × Nat)) : String := joinOr (l.map fun p => s!"{p.1}:{p.2}")

def parseKeys (s : String) : Option (List Nat) :=
  if s == "-" then some [] else (s.splitOn ",").mapM String.toNat?

def nodupB : List Nat → Bool
  | [] => true
  | x :: t => !t.contains x && nodupB t

/-- the constraint the property puts on an eviction: distinct present keys,
never the key being written. -/
def victimsOk (m : SegMap Nat) (k : Nat) (vs : List Nat) : Option String :=
  if !nodupB vs then some "duplicate-victim"
  else if vs.contains k then some "evicted-the-key-being-written"
  else if !vs.all (fun w => (m.get H w).isSome) then some "victim-not-present"
  else none

def applyVictims (m : SegMap Nat) (vs : List Nat) : SegMap Nat :=
  vs.foldl (fun m w => (m.del H w).1) m

/-- shared by `segmap evicted` and `cache evicted`. -/
def evictedStep (m : SegMap Nat) (pend : Option Pending) (k : Nat) (cap : Int) (vs : List Nat) :
    SegMap Nat × String :=
  match pend with
  | none => (m, "invalid:no-pending-insert")
  | some p =>
    if p.key != k then (m, "invalid:wrong-key") else
    match victimsOk m k vs with
    | some why => (m, "invalid:" ++ why)
    | none =>
      let m' := applyVictims m vs
      let bound := if cap < 1 then (1 : Int) else cap
      let lim := if p.before > bound then p.before else bound
      if m'.count > lim then (m', s!"invalid:over-capacity count={m'.count}")
      else (m', s!"len={m'.count}")

/-- `<sub> sweep j kind k v`: a `ForEach` during which, when its `j`-th entry is
delivered, ONE write lands in another segment (the callback holds the current
segment's read lock, so a write to that segment is skipped).  Returns the new
table, what happened to the write, and the delivered pairs in order. -/
def sweepStep (m : SegMap Nat) (j : Nat) (k : Nat) (blocked : Bool) (write : SegMap Nat → SegMap Nat) :
    SegMap Nat × String :=
  let l := m.toList
  match l[j]? with
  | none => (m, s!"w=none {pairsStr l}")
  | some e =>
    let c := SegMap.segOf H m e.1
    if SegMap.segOf H m k == c || blocked then (m, s!"w=skipped {pairsStr l}")
    else
      let m' := write m
      (m', s!"w=done {pairsStr (SegMap.sweep m.segs.size (fun i => if i ≤ c then m else m'))}")

def stepUmap (st : State) (w : List String) : State × String :=
  let m := st.um
  match w with
  | ["new", cap] =>
    match cap.toNat? with
    | some c =>
      let m' : UMap Nat := UMap.new c
      ({ st with um := m' }, s!"n={m'.data.size} growat={m'.growAt}")
    | none => (st, "bad-op")
  | ["put", k, v] =>
    match k.toNat?, v.toNat? with
    | some k, some v => let m' := m.put H.idx k v; ({ st with um := m' }, s!"len={m'.len}")
    | _, _ => (st, "bad-op")
  | ["pine", k, v] =>
    match k.toNat?, v.toNat? with
    | some k, some v =>
      let r := m.putIfNotExists H.idx k v
      ({ st with um := r.1 }, s!"{r.2.1} {boolStr r.2.2}")
    | _, _ => (st, "bad-op")
  | ["get", k] =>
    match k.toNat? with
    | some k => (st, optStr (m.get H.idx k))
    | none => (st, "bad-op")
  | ["has", k] =>
    match k.toNat? with
    | some k => (st, boolStr (m.has H.idx k))
    | none => (st, "bad-op")
  | ["del", k] =>
    match k.toNat? with
    | some k => let r := m.del H.idx k; ({ st with um := r.1 }, boolStr r.2)
    | none => (st, "bad-op")
  | ["evict", off, n, skip] =>
    match off.toNat?, n.toNat?, skip.toNat? with
    | some off, some n, some skip =>
      let r := m.evictKeysAt H.idx off n skip
      let after := r.1.toList.map (·.1)
      let gone := (m.toList.map (·.1)).filter (fun k => !after.contains k)
      ({ st with um := r.1 }, s!"d={r.2} ev={joinOr ((gone.mergeSort (· ≤ ·)).map toString)}")
    | _, _, _ => (st, "bad-op")
  | ["clear"] => ({ st with um := m.clear }, "ok")
  | ["grow"] =>
    let m' := m.grow H.idx
    ({ st with um := m' }, s!"n={m'.data.size} growat={m'.growAt}")
  | ["len"] => (st, toString m.len)
  | ["dump"] => (st, s!"n={m.data.size} size={m.size} {pairsStr (sortPairs m.toList)}")
  | ["iter"] => (st, pairsStr m.toList)
  -- `Keys()` / `Values()` iterators and an iteration the callback stops at its j-th entry
  | ["keys"] => (st, joinOr (m.toList.map fun p => toString p.1))
  | ["values"] => (st, joinOr (m.toList.map fun p => toString p.2))
  | ["first", j] =>
    match j.toNat? with
    | some j => (st, pairsStr (m.toList.take (j + 1)))
    | none => (st, "bad-op")
  | ["slots"] => (st, s!"{joinOr (m.data.toList.map fun p => toString p.1)} z={optStr m.zero}")
  | _ => (st, "bad-op")

def stepSegmap (st : State) (w : List String) : State × String :=
  let m := st.sm
  match w with
  | ["new", pow, cap] =>
    match pow.toNat?, cap.toNat? with
    | some p, some c =>
      let m' : SegMap Nat := SegMap.new p c
      ({ st with sm := m', smPend := none }, s!"segs={m'.segs.size}")
    | _, _ => (st, "bad-op")
  | ["set", k, v] =>
    match k.toNat?, v.toNat? with
    | some k, some v => let m' := m.set H k v; ({ st with sm := m' }, s!"len={m'.count}")
    | _, _ => (st, "bad-op")
  | ["setcap", k, v, _cap] =>
    match k.toNat?, v.toNat? with
    | some k, some v =>
      -- the insert half of SetWithCap; the toll arrives in the `evicted` op
      let m' := m.set H k v
      ({ st with sm := m', smPend := some { key := k, before := m.count } }, "ok")
    | _, _ => (st, "bad-op")
  | ["evicted", k, cap, vs] =>
    match k.toNat?, cap.toInt?, parseKeys vs with
    | some k, some cap, some vs =>
      let r := evictedStep m st.smPend k cap vs
      ({ st with sm := r.1, smPend := none }, r.2)
    | _, _, _ => (st, "bad-op")
  | ["pine", k, v] =>
    match k.toNat?, v.toNat? with
    | some k, some v =>
      let r := m.putIfNotExists H k v
      ({ st with sm := r.1 }, s!"{r.2.1} {boolStr r.2.2}")
    | _, _ => (st, "bad-op")
  | ["get", k] =>
    match k.toNat? with
    | some k => (st, optStr (m.get H k))
    | none => (st, "bad-op")
  | ["has", k] =>
    match k.toNat? with
    | some k => (st, boolStr (m.has H k))
    | none => (st, "bad-op")
  | ["del", k] =>
    match k.toNat? with
    | some k => let r := m.del H k; ({ st with sm := r.1 }, boolStr r.2)
    | none => (st, "bad-op")
  | ["len"] => (st, toString m.count)
  | ["reach"] => (st, toString m.reachable)
  | ["clear"] => ({ st with sm := m.clear }, "ok")
  | ["clearseg", i] =>
    match i.toNat? with
    | some i => let m' := m.clearSegment i; ({ st with sm := m' }, s!"len={m'.count}")
    | none => (st, "bad-op")
  | ["dump"] => (st, s!"count={m.count} {pairsStr (sortPairs m.toList)}")
  | ["keys"] => (st, joinOr (m.toList.map fun p => toString p.1))
  | ["values"] => (st, joinOr (m.toList.map fun p => toString p.2))
  | ["first", j] =>
    match j.toNat? with
    | some j => (st, pairsStr (m.toList.take (j + 1)))
    | none => (st, "bad-op")
  | ["sweep", j, kind, k, v] =>
    match j.toNat?, k.toNat?, v.toNat? with
    | some j, some k, some v =>
      if kind == "set" then
        let r := sweepStep m j k false (fun m => m.set H k v); ({ st with sm := r.1 }, r.2)
      else if kind == "del" then
        let r := sweepStep m j k false (fun m => (m.del H k).1); ({ st with sm := r.1 }, r.2)
      else (st, "bad-op")
    | _, _, _ => (st, "bad-op")
  | _ => (st, "bad-op")

def stepCache (st : State) (w : List String) : State × String :=
  let c := st.c
  match w with
  | ["new", size] =>
    match size.toNat? with
    | some s => ({ st with c := Cache.new s, cPend := none }, "ok")
    | none => (st, "bad-op")
  | ["add", k, v] =>
    match k.toNat?, v.toNat? with
    | some k, some v =>
      let d := c.data.set H k v
      ({ st with c := { c with data := d }, cPend := some { key := k, before := c.data.count } }, "ok")
    | _, _ => (st, "bad-op")
  | ["evicted", k, vs] =>
    match k.toNat?, parseKeys vs with
    | some k, some vs =>
      let r := evictedStep c.data st.cPend k c.maxSize vs
      ({ st with c := { c with data := r.1 }, cPend := none }, r.2)
    | _, _ => (st, "bad-op")
  | ["get", k] =>
    match k.toNat? with
    | some k => (st, optStr (c.get H k))
    | none => (st, "bad-op")
  | ["remove", k] =>
    match k.toNat? with
    | some k => ({ st with c := c.remove H k }, "ok")
    | none => (st, "bad-op")
  | ["cas", k, old, new] =>
    match k.toNat?, old.toNat?, new.toNat? with
    | some k, some o, some n => let r := c.compareAndSwap H k o n; ({ st with c := r.1 }, boolStr r.2)
    | _, _, _ => (st, "bad-op")
  | ["cad", k, old] =>
    match k.toNat?, old.toNat? with
    | some k, some o => let r := c.compareAndDelete H k o; ({ st with c := r.1 }, boolStr r.2)
    | _, _ => (st, "bad-op")
  | ["len"] => (st, toString c.len)
  | ["reach"] => (st, toString c.data.reachable)
  | ["dump"] => (st, s!"count={c.data.count} {pairsStr (sortPairs c.data.toList)}")
  | ["sweep", j, kind, k, v] =>
    match j.toNat?, k.toNat?, v.toNat? with
    | some j, some k, some v =>
      if kind == "add" then
        -- an Add that would have to evict is not issued from inside a sweep (its toll walk
        -- could need the segment the sweep holds); below capacity Add is Set
        let blocked := (c.get H k).isNone && c.data.count ≥ (c.maxSize : Int)
        let r := sweepStep c.data j k blocked (fun m => m.set H k v)
        ({ st with c := { c with data := r.1 } }, r.2)
      else if kind == "remove" then
        let r := sweepStep c.data j k false (fun m => (m.del H k).1)
        ({ st with c := { c with data := r.1 } }, r.2)
      else (st, "bad-op")
    | _, _, _ => (st, "bad-op")
  | _ => (st, "bad-op")

def stepLim (st : State) (w : List String) : State × String :=
  match w with
  | "new" :: mx :: _ =>
    match mx.toNat? with
    | some m => ({ st with lim := { ents := [], maxSize := m }, limClock := 0, limPend := none }, "ok")
    | none => (st, "bad-op")
  | ["get", k] =>
    match k.toNat? with
    | some k => ({ st with limPend := some k }, "ok")
    | none => (st, "bad-op")
  | ["evicted", k, victim] =>
    match k.toNat?, parseKeys victim with
    | some k, some vs =>
      if st.limPend != some k then (st, "invalid:no-pending-get") else
      let s := st.lim
      let now := st.limClock + 1
      if vs.length > 1 then (st, "invalid:more-than-one-victim")
      else if vs.contains k then (st, "invalid:evicted-the-key-being-written")
      else if !vs.all (fun w => s.keys.contains w) then (st, "invalid:victim-not-present")
      else
        -- above 1000 entries the victim is the map iteration's first key (free): take the reported one;
        -- otherwise `Lim.get` decides (least recently seen) and the report must agree
        let first := if s.ents.length > 1000 then vs.head? else none
        let s' := s.get k now first
        let gone := s.keys.filter (fun w => !s'.keys.contains w)
        let bound := if s.maxSize < 1 then 1 else s.maxSize
        let st' := { st with lim := s', limClock := now, limPend := none }
        if gone != vs then (st', s!"invalid:victim model={joinOr (gone.map toString)}")
        else if s'.ents.length > bound then (st', "invalid:over-capacity")
        else (st', s!"len={s'.ents.length}")
    | _, _ => (st, "bad-op")
  -- the limiter's own state (token bucket, cookie) never influences the store
  | ["spend", _] => (st, "ok")
  | ["cookie", _] => (st, "ok")
  | ["cleanup", "all"] =>
    let s' := st.lim.cleanup (st.limClock + 1)
    ({ st with lim := s' }, s!"len={s'.ents.length}")
  | ["cleanup", "none"] =>
    let s' := st.lim.cleanup 0
    ({ st with lim := s' }, s!"len={s'.ents.length}")
  | ["has", k] =>
    match k.toNat? with
    | some k => (st, boolStr (st.lim.keys.contains k))
    | none => (st, "bad-op")
  | ["len"] => (st, toString st.lim.ents.length)
  -- self-contained bulk scenario on its own store: judged by the Go oracle only
  | "churn" :: _ => (st, "unmodelled")
  | _ => (st, "bad-op")

/-- `ans` ops: the answer caches of middleware/cache on top of `cache.Cache`.
Entry tokens: an ODD token is an entry that is already expired when stored. -/
def ansExpired (t : Nat) : Bool := t % 2 == 1

def stepAns (st : State) (w : List String) : State × String :=
  let c := st.ans
  match w with
  | ["new", _kind, size] =>
    match size.toNat? with
    | some s => ({ st with ans := Cache.new s }, "ok")
    | none => (st, "bad-op")
  | ["set", k, t] =>
    match k.toNat?, t.toNat? with
    | some k, some t => let c' := c.ansSet H k t; ({ st with ans := c' }, s!"len={c'.len}")
    | _, _ => (st, "bad-op")
  | ["get", k] =>
    match k.toNat? with
    | some k => let r := c.ansGet H ansExpired k; ({ st with ans := r.1 }, s!"{optStr r.2} len={r.1.len}")
    | none => (st, "bad-op")
  | ["remove", k] =>
    match k.toNat? with
    | some k => let c' := c.remove H k; ({ st with ans := c' }, s!"len={c'.len}")
    | none => (st, "bad-op")
  | ["len"] => (st, toString c.len)
  | _ => (st, "bad-op")

/-- `fail` ops: the real `FailureCache` (record / reset / lookup by question),
whose retry loops are the production callers of CompareAndSwap / CompareAndDelete.
Times are integer nanoseconds of the injected clock; `q` is a question id. -/
def stepFail (st : State) (w : List String) : State × String :=
  let c := st.fc
  let hit (e : Nat × Nat) : String := s!"streak={e.1} retry={e.2}"
  -- name i is nested below name i-1: the question state of name i has table key 2i+1, its
  -- zone state 2i+2; the ancestor zones of name i are the zones i, i-1, …, 0 (closest first)
  let qk (i : Nat) : Nat := 2 * i + 1
  let zk (i : Nat) : Nat := 2 * i + 2
  let anc (i : Nat) : List Nat := (List.range (i + 1)).reverse.map zk
  match w with
  | ["new", size, ini, mx] =>
    match size.toNat?, ini.toNat?, mx.toNat? with
    | some s, some i, some m => ({ st with fc := Cache.new s, fcInit := i, fcMax := m }, "ok")
    | _, _, _ => (st, "bad-op")
  | [op, q, now] =>
    match q.toNat?, now.toNat? with
    | some q, some now =>
      if op == "record" || op == "zrecord" then
        let r := c.failRecord H st.fcInit st.fcMax now (if op == "record" then qk q else zk q) 4
        ({ st with fc := r.1 }, s!"{hit r.2} len={r.1.len}")
      else if op == "lookup" then
        match c.failLookupZ H now (qk q) (anc q) with
        | some e => (st, hit e)
        | none => (st, "-")
      else (st, "bad-op")
    | _, _ => (st, "bad-op")
  | [op, q] =>
    match q.toNat? with
    | some q =>
      if op == "reset" || op == "zreset" then
        let r := c.failReset H (if op == "reset" then qk q else zk q) 4
        ({ st with fc := r.1 }, s!"{boolStr r.2} len={r.1.len}")
      else if op == "rmatch" then
        -- ResetMatching: the exact question, then every ancestor zone
        let r := c.failResetAll H (qk q :: anc q); ({ st with fc := r.1 }, s!"removed={r.2} len={r.1.len}")
      else if op == "purge" then
        -- PurgeQuestion: the question's state and the zone state owned by the same name
        let r := c.failResetAll H [qk q, zk q]; ({ st with fc := r.1 }, s!"removed={r.2} len={r.1.len}")
      else (st, "bad-op")
    | none => (st, "bad-op")
  | ["len"] => (st, toString c.len)
  | _ => (st, "bad-op")

def step (st : State) (w : List String) : State × String :=
  match w with
  | "umap" :: r => stepUmap st r
  | "segmap" :: r => stepSegmap st r
  | "cache" :: r => stepCache st r
  | "lim" :: r => stepLim st r
  | "ans" :: r => stepAns st r
  | "fail" :: r => stepFail st r
  | "conc" :: _ => (st, "unmodelled")
  | _ => (st, "bad-op")

end Driver.C16
