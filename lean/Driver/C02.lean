import SdnsVerif.Model.Util
import SdnsVerif.Spec.Zone
import SdnsVerif.Model.Nsec
import SdnsVerif.Model.Nsec3
import SdnsVerif.Model.Admission
import SdnsVerif.Model.ProofExpiry
/-! Line protocol of C02: `z` (NSEC), `h` (NSEC3), `adm` (admission guard). -/
namespace Driver.C02
open SdnsVerif.Model.Util SdnsVerif.Spec.Zone SdnsVerif.Model.Nsec

/-! ### parsing / printing (names: labels leaf first on the line, root-first inside) -/

def parseLabel (s : String) : Option Label :=
  if s.startsWith "~" then (hexBytes (s.drop 1).toString).bind fun b => if b.isEmpty then none else some (b.map (·.toNat))
  else if s.isEmpty then none
  else some (s.toList.map (·.toNat))

/-- the name as written (not folded), root side first. -/
def parseNameRaw (s : String) : Option Name :=
  if s == "." then some [] else ((s.splitOn ".").mapM parseLabel).map List.reverse

def parseName (s : String) : Option Name := (parseNameRaw s).map foldName

def safeByte (b : Nat) : Bool :=
  (97 ≤ b && b ≤ 122) || (48 ≤ b && b ≤ 57) || b == 42 || b == 95 || b == 45

def labelStr (l : Label) : String :=
  if l.all safeByte && !l.isEmpty then String.ofList (l.map Char.ofNat)
  else "~" ++ bytesHex (l.map UInt8.ofNat)

def nameStr (n : Name) : String :=
  if n.isEmpty then "." else ".".intercalate (n.reverse.map labelStr)

def parseTypes (s : String) : Option (List Nat) :=
  if s == "-" then some [] else (s.splitOn ",").mapM String.toNat?

def typesStr (ts : List Nat) : String :=
  if ts.isEmpty then "-" else ",".intercalate (ts.map toString)

def parseRec (s : String) : Option Nsec :=
  match s.splitOn "|" with
  | [o, n, c, ts] => do
    let o ← parseName o
    let n ← parseName n
    let c ← c.toNat?
    let ts ← parseTypes ts
    some { owner := o, next := n, cls := c, types := ts }
  | _ => none

def parseRecs (s : String) : Option (List Nsec) :=
  if s == "-" then some [] else (s.splitOn ";").mapM parseRec

def recStr (r : Nsec) : String :=
  s!"{nameStr r.owner}|{nameStr r.next}|{r.cls}|{typesStr r.types}"

def recsStr (rs : List Nsec) : String :=
  if rs.isEmpty then "-" else ";".intercalate (rs.map recStr)

def parseNode (s : String) : Option Node :=
  match s.splitOn ":" with
  | [n, ts] => do
    let n ← parseName n
    let ts ← parseTypes ts
    some { name := n, types := ts }
  | _ => none

def idxStr (l : List Nat) : String :=
  if l.isEmpty then "-" else ",".intercalate (l.map toString)

def answerStr : Answer → String
  | .outOfZone => "outofzone"
  | .parentSide => "parentside"
  | .delegated => "delegated"
  | .answer => "answer"
  | .cname => "cname"
  | .nodata => "nodata"
  | .nxdomain => "nxdomain"

def unitStr : Except Err Unit → String
  | .ok _ => "ok"
  | .error e => e.str

def aggStr : Except Err (Rcode × List Nat) → String
  | .ok (.nxdomain, p) => "nx p=" ++ idxStr p
  | .ok (.nodata, p) => "nodata p=" ++ idxStr p
  | .error e => e.str

def ordStr : Ordering → String
  | .lt => "-1"
  | .eq => "0"
  | .gt => "1"

def parseSigsAns (s : String) : Option (List AnsSig) :=
  if s == "-" then some [] else
  (s.splitOn ";").mapM fun p =>
    match p.splitOn ":" with
    | [o, l] => do
      let o ← parseName o
      let l ← l.toNat?
      some { owner := o, labels := l }
    | _ => none

def parseDnames (s : String) : Option (List (Name × Name)) :=
  if s == "-" then some [] else
  (s.splitOn ";").mapM fun p =>
    match p.splitOn ">" with
    | [o, t] => do
      let o ← parseName o
      let t ← parseName t
      some (o, t)
    | _ => none

def secStr0 : Except Err Bool → String
  | .ok b => "ok secure=" ++ boolStr b
  | .error e => e.str

structure State where
  zone : Zone := { apex := [], nodes := [] }
  set : List Nsec := []
  h : SdnsVerif.Model.Nsec3.HState := {}
  exp : SdnsVerif.Model.ProofExpiry.State := {}

/-- the DS RRset variants of `authu`: `dsok` / `dsmixed` carry a supported DS, `dsunsupd` / `dsunsupa` only
unsupported ones (digest type, DNSKEY algorithm). -/
def dsKind (v : String) : Nat :=
  if v == "dsok" || v == "dsmixed" then 1 else if v == "dsunsupd" || v == "dsunsupa" then 2 else 0

open SdnsVerif.Model.Admission in
def authStr (H : SdnsVerif.Model.Nsec3.HashFn) (i : AuthIn) : String :=
  let o := authorityStep H i
  if o.servfail then "servfail" else
  let k := if !o.marked then "none" else match authFamily i with | .nsec => "nsec" | .nsec3 => "nsec3"
  s!"ok ad={boolStr o.ad} mark={k} agg={boolStr o.aggressive}"

open SdnsVerif.Model.Admission in
def ansStr (H : SdnsVerif.Model.Nsec3.HashFn) (i : AnsIn) : String :=
  let o := answerStep H i
  if o.servfail then "servfail" else s!"ok ad={boolStr o.ad}"

def stepNsec (st : State) (w : List String) : State × String :=
  match w with
  | ["z", "new", apex, cls, nodes] =>
    match parseName apex, cls.toNat?, (nodes.splitOn ";").mapM parseNode with
    | some a, some c, some ns =>
      let z : Zone := { apex := a, cls := c, nodes := ns }
      ({ st with zone := z, set := [] }, "chain=" ++ recsStr z.chain)
    | _, _, _ => (st, "bad-op")
  | ["z", "set", rs] =>
    match parseRecs rs with
    | some l => ({ st with set := l }, s!"n={l.length}")
    | none => (st, "bad-op")
  | ["z", "truth", q, t] =>
    match parseName q, t.toNat? with
    | some q, some t => (st, answerStr (st.zone.answerClass q t))
    | _, _ => (st, "bad-op")
  | ["z", "cmp", a, b] =>
    match parseNameRaw a, parseNameRaw b with
    | some a, some b => (st, ordStr (canonicalCompare a b))
    | _, _ => (st, "bad-op")
  | ["z", "covers", o, n, q] =>
    match parseName o, parseName n, parseName q with
    | some o, some n, some q => (st, boolStr (nsecCovers o n q))
    | _, _, _ => (st, "bad-op")
  | ["z", "ce", q, o, n] =>
    match parseName q, parseName o, parseName n with
    | some q, some o, some n => (st, nameStr (closestEncloserFromNSEC q { owner := o, next := n, types := [] }))
    | _, _, _ => (st, "bad-op")
  | ["z", "inzone", n, z] =>
    match parseName n, parseName z with
    | some n, some z => (st, boolStr (nameInZone n z))
    | _, _ => (st, "bad-op")
  | ["z", "filter", z] =>
    match parseName z with
    | some z =>
      let kept := (indexed 0 st.set).filter fun e => nameInZone e.r.owner z && nameInZone e.r.next z
      (st, idxStr (kept.map (·.idx)))
    | none => (st, "bad-op")
  | ["z", "nxd", sg, q, _t] =>
    match parseName sg, parseName q with
    | some sg, some q =>
      if !nameInZone q sg then (st, "notsigner") else
      (st, unitStr (verifyNameErrorNSEC q (filterToZone sg st.set)))
    | _, _ => (st, "bad-op")
  | ["z", "nod", sg, q, t] =>
    match parseName sg, parseName q, t.toNat? with
    | some sg, some q, some t =>
      if !nameInZone q sg then (st, "notsigner") else
      (st, unitStr (verifyNODATANSEC q t (filterToZone sg st.set)))
    | _, _, _ => (st, "bad-op")
  | ["z", "dlg", sg, d] =>
    match parseName sg, parseName d with
    | some sg, some d => (st, unitStr (verifyDelegationNSEC d (filterToZone sg st.set)))
    | _, _ => (st, "bad-op")
  | ["z", "dname", q, ds] =>
    match parseName q, parseDnames ds with
    | some q, some ds => (st, match dnameTarget q ds with | some t => nameStr t | none => "-")
    | _, _ => (st, "bad-op")
  | ["z", "nxdd", sg, q, _t, ds] =>
    match parseName sg, parseName q, parseDnames ds with
    | some sg, some q, some ds =>
      if !nameInZone q sg then (st, "notsigner") else
      (st, unitStr (verifyNameErrorNSEC (proofName q ds) (filterToZone sg st.set)))
    | _, _, _ => (st, "bad-op")
  | ["z", "nodd", sg, q, t, ds] =>
    match parseName sg, parseName q, t.toNat?, parseDnames ds with
    | some sg, some q, some t, some ds =>
      if !nameInZone q sg then (st, "notsigner") else
      (st, unitStr (verifyNODATANSEC (proofName q ds) t (filterToZone sg st.set)))
    | _, _, _, _ => (st, "bad-op")
  | ["z", "wild", sg, sigs] =>
    match parseName sg, parseSigsAns sigs with
    | some sg, some gs => (st, secStr0 (verifyWildcardNSEC gs (filterToZone sg st.set)))
    | _, _ => (st, "bad-op")
  | ["z", "agg", sg, q, t, c] =>
    match parseName sg, parseName q, t.toNat?, c.toNat? with
    | some sg, some q, some t, some c => (st, aggStr (evaluateAggressiveNSEC q t c sg st.set))
    | _, _, _, _ => (st, "bad-op")
  | ["z", "ans", sg, sigs, v] =>
    match parseName sg, parseSigsAns sigs with
    | some sg, some gs =>
      let clsOK := st.set.all fun r => !nameInZone r.owner sg || r.cls == 1
      (st, ansStr (fun _ => none) { signer := sg, gs := gs, reqCD := (v == "cd"), sigsGood := ((v == "good" || v == "cd") && clsOK),
                                    nsec := st.set, nsec3 := [] })
    | _, _ => (st, "bad-op")
  | ["z", "authu", sg, q, t, rc, v] =>
    match parseName sg, parseName q, t.toNat? with
    | some sg, some q, some t =>
      let clsOK := st.set.all fun r => !nameInZone r.owner sg || r.cls == 1
      (st, authStr (fun _ => none) { signer := sg, q := q, t := t, nx := (rc == "nx"), reqCD := false, haveDS := true,
                                     signed := false, sigsGood := false, nsec := [], nsec3 := [],
                                     dsSigsGood := ((v == "good" || v.startsWith "ds") && (clsOK || v.startsWith "ds")),
                                     dsNsec := (if v.startsWith "ds" then [] else st.set), dsAtCut := dsKind v })
    | _, _, _ => (st, "bad-op")
  | ["z", "auth", sg, q, t, rc, v] =>
    match parseName sg, parseName q, t.toNat? with
    | some sg, some q, some t =>
      -- the zone key is class IN: an in-zone record of another class has no signature that verifies
      let clsOK := st.set.all fun r => !nameInZone r.owner sg || r.cls == 1
      (st, authStr (fun _ => none) { signer := sg, q := q, t := t, nx := (rc == "nx"), reqCD := (v == "cd"),
                                     haveDS := (!(v == "insec" || v == "insecnosig") || sg == []),
                                     signed := (v != "nosig" && v != "insecnosig"),
                                     sigsGood := ((v == "good" || v == "cd" || v == "insec" || v == "extrasig") && clsOK), nsec := st.set, nsec3 := [] })
    | _, _, _ => (st, "bad-op")
  | _ => (st, "bad-op")

/-! ### NSEC3 ops -/
open SdnsVerif.Model.Nsec3 in
def parseRec3 (s : String) : Option Nsec3 :=
  match s.splitOn "|" with
  | [ol, par, nx, hl, alg, fl, it, salt, cls, ts] => do
    let par ← parseName par
    let (oh, lab) ← (
      if ol.startsWith "H" then
        let h := (ol.drop 1).toString
        let h := if h.endsWith "u" then (h.dropEnd 1).toString else h
        (hexBytes h).map fun b => (some (b.map (·.toNat)), b.map (·.toNat))
      else if ol.startsWith "X" then
        (parseLabel (ol.drop 1).toString).map fun l => (none, foldLabel l)
      else none)
    let next ← (
      if nx.startsWith "H" then (hexBytes (nx.drop 1).toString).map fun b => some (b.map (·.toNat))
      else if nx.startsWith "B" then some none else none)
    let salt ← (
      if salt.startsWith "!" then some none
      else (hexBytes salt).map fun b => some (b.map (·.toNat)))
    let hl ← hl.toNat?
    let alg ← alg.toNat?
    let fl ← fl.toNat?
    let it ← it.toNat?
    let cls ← cls.toNat?
    let ts ← parseTypes ts
    some { owner := par ++ [lab], ownerHash := oh, next := next, hashLen := hl, alg := alg, flags := fl,
           iter := it, salt := salt, cls := cls, types := ts }
  | _ => none

def parseHT (s : String) : Option (List (Name × List Nat)) :=
  if s == "-" then some [] else
  (s.splitOn ",").mapM fun kv =>
    match kv.splitOn "=" with
    | [n, h] => do
      let n ← parseName n
      let h ← hexBytes h
      some (n, h.map (·.toNat))
    | _ => none

def htFn (t : List (Name × List Nat)) : SdnsVerif.Model.Nsec3.HashFn :=
  fun n => (t.find? fun p => p.1 == n).map (·.2)

def secStr : Except Err Bool → String
  | .ok b => "ok secure=" ++ boolStr b
  | .error e => e.str

def hashHex (h : List Nat) : String := bytesHex (h.map UInt8.ofNat)

open SdnsVerif.Model.Nsec3 in
def stepNsec3 (st : State) (w : List String) : State × String :=
  match w with
  | "h" :: "new" :: _ => ({ st with h := {} }, "unmodelled")
  | "h" :: "ring" :: _ => (st, "unmodelled")
  | "h" :: "memo" :: _ => (st, "unmodelled")
  | "h" :: "table" :: _ => (st, "unmodelled")
  | ["h", "set", rs] =>
    if rs == "-" then ({ st with h := { set := [] } }, "n=0") else
    match (rs.splitOn ";").mapM parseRec3 with
    | some l => ({ st with h := { set := l } }, s!"n={l.length}")
    | none => (st, "bad-op")
  | ["h", "prep", sg] =>
    match parseName sg with
    | some sg =>
      match prepare st.h.set sg with
      | .ok ring => (st, s!"ring={",".intercalate (ring.entries.map fun e => hashHex e.ownerHash)} cls={ring.cls}")
      | .error e => (st, e.str)
    | none => (st, "bad-op")
  | ["h", "nxd", sg, q, _t, c, ht] =>
    match parseName sg, parseName q, c.toNat?, parseHT ht with
    | some sg, some q, some c, some ht =>
      if !nameInZone q sg then (st, "notsigner") else
      (st, secStr (verifyNameError (htFn ht) (st.h.set.filter fun r => nameInZone r.owner sg) sg q c))
    | _, _, _, _ => (st, "bad-op")
  | ["h", "nod", sg, q, t, c, ht] =>
    match parseName sg, parseName q, t.toNat?, c.toNat?, parseHT ht with
    | some sg, some q, some t, some c, some ht =>
      if !nameInZone q sg then (st, "notsigner") else
      (st, secStr (verifyNODATA (htFn ht) (st.h.set.filter fun r => nameInZone r.owner sg) sg q t c))
    | _, _, _, _, _ => (st, "bad-op")
  | ["h", "dlg", sg, d, ht] =>
    match parseName sg, parseName d, parseHT ht with
    | some sg, some d, some ht =>
      (st, unitStr (verifyDelegation (htFn ht) (st.h.set.filter fun r => nameInZone r.owner sg) sg d))
    | _, _, _ => (st, "bad-op")
  | ["h", "wild", sg, sigs, ht] =>
    match parseName sg, parseSigsAns sigs, parseHT ht with
    | some sg, some gs, some ht =>
      (st, secStr (verifyWildcardNSEC3 (htFn ht) (st.h.set.filter fun r => nameInZone r.owner sg) sg gs))
    | _, _, _ => (st, "bad-op")
  | ["h", "ans", sg, sigs, v, ht] =>
    match parseName sg, parseSigsAns sigs, parseHT ht with
    | some sg, some gs, some ht =>
      let clsOK := st.h.set.all fun r => !nameInZone r.owner sg || r.cls == 1
      (st, ansStr (htFn ht) { signer := sg, gs := gs, reqCD := (v == "cd"), sigsGood := ((v == "good" || v == "cd") && clsOK),
                              nsec := [], nsec3 := st.h.set })
    | _, _, _ => (st, "bad-op")
  | ["h", "authu", sg, q, t, rc, v, ht] =>
    match parseName sg, parseName q, t.toNat?, parseHT ht with
    | some sg, some q, some t, some ht =>
      let clsOK := st.h.set.all fun r => !nameInZone r.owner sg || r.cls == 1
      (st, authStr (htFn ht) { signer := sg, q := q, t := t, nx := (rc == "nx"), reqCD := false, haveDS := true,
                               signed := false, sigsGood := false, nsec := [], nsec3 := [],
                               dsSigsGood := ((v == "good" || v.startsWith "ds") && (clsOK || v.startsWith "ds")),
                               dsNsec3 := (if v.startsWith "ds" then [] else st.h.set), dsAtCut := dsKind v })
    | _, _, _, _ => (st, "bad-op")
  | ["h", "auth", sg, q, t, rc, v, ht] =>
    match parseName sg, parseName q, t.toNat?, parseHT ht with
    | some sg, some q, some t, some ht =>
      let clsOK := st.h.set.all fun r => !nameInZone r.owner sg || r.cls == 1
      (st, authStr (htFn ht) { signer := sg, q := q, t := t, nx := (rc == "nx"), reqCD := (v == "cd"),
                               haveDS := (!(v == "insec" || v == "insecnosig") || sg == []),
                               signed := (v != "nosig" && v != "insecnosig"),
                               sigsGood := ((v == "good" || v == "cd" || v == "insec" || v == "extrasig") && clsOK), nsec := [], nsec3 := st.h.set })
    | _, _, _, _ => (st, "bad-op")
  | ["h", "agg", sg, q, t, c, ht] =>
    match parseName sg, parseName q, t.toNat?, c.toNat?, parseHT ht with
    | some sg, some q, some t, some c, some ht =>
      (st, aggStr (evaluateAggressiveNSEC3 (htFn ht) q t c sg st.h.set))
    | _, _, _, _, _ => (st, "bad-op")
  | _ => (st, "bad-op")

open SdnsVerif.Model.Admission in
def stepAdm (st : State) (w : List String) : State × String :=
  match w with
  | ["adm", "new"] => (st, "ok")
  | ["adm", "write", _k, reqcd, respcd, ecs, marked, agg, kind, fam, rc, cp, oo] =>
    match parseBool reqcd, parseBool respcd, parseBool ecs, parseBool marked, parseBool agg,
          kind.toNat?, fam.toNat?, parseBool cp, parseBool oo with
    | some reqcd, some respcd, some ecs, some marked, some agg, some kind, some fam, some cp, some oo =>
      let i : WriteIn :=
        { reqCD := reqcd, respCD := respcd, ecs := ecs, hasScope := false, marked := marked,
          copied := cp, kind := kind, agg := agg, fam := fam, nx := (rc == "nx"), optout := oo }
      (st, s!"proof={boolStr (proofRecorded i)} cut={boolStr (cutRecorded i)} up=1")
    | _, _, _, _, _, _, _, _, _ => (st, "bad-op")
  | _ => (st, "bad-op")

/-! ### expiry ops -/
open SdnsVerif.Model.ProofExpiry in
def parseSigs (s : String) : Option (List Sig) :=
  (s.splitOn "+").mapM fun p =>
    match p.splitOn "/" with
    | [a, b, c] => do
      let a ← a.toNat?
      let b ← b.toNat?
      let c ← c.toInt?
      some { ttl := a, orig := b, exp := c }
    | _ => none

open SdnsVerif.Model.ProofExpiry in
def parseSet (s : String) : Option RRSet :=
  match s.splitOn "|" with
  | [o, n, ts, ttl, sigs] => do
    let o ← parseName o
    let n ← parseName n
    let ts ← parseTypes ts
    let ttl ← ttl.toNat?
    let sigs ← parseSigs sigs
    some { nsec := { owner := o, next := n, cls := 1, types := ts }, ttl := ttl, sigs := sigs }
  | _ => none

open SdnsVerif.Model.ProofExpiry in
def parseSet3 (s : String) : Option RRSet3 :=
  match s.splitOn "^" with
  | [r, ttl, sigs] => do
    let r ← parseRec3 r
    let ttl ← ttl.toNat?
    let sigs ← parseSigs sigs
    some { rr := r, ttl := ttl, sigs := sigs }
  | _ => none

open SdnsVerif.Model.ProofExpiry in
def expAsk (st : State) (q : Name) (t : Nat) (H : SdnsVerif.Model.Nsec3.HashFn) : State × String :=
  let pv := match lookupProofH st.exp H q t with
    | some .nxdomain => "nx"
    | some .nodata => "nodata"
    | none => "miss"
  let c := if lookupCut st.exp q then "hit" else "miss"
  -- the deadline a synthesised answer carries (seconds from now): what the private route binds the request tree to
  let pb := match lookupProofExpiry st.exp H q t with
    | some e => toString (e - st.exp.now)
    | none => "-"
  ({ st with exp := pruneOnLookup st.exp q t H }, s!"proof={pv} cut={c} cutw={c} pb={pb}")

open SdnsVerif.Model.ProofExpiry in
def expPut (st : State) (zone kind subj qt soa cut : String) (sets : Option (List RRSet)) (sets3 : Option (List RRSet3))
    (H : SdnsVerif.Model.Nsec3.HashFn) : State × String :=
  match parseName zone, parseName subj, soa.splitOn ",", sets, sets3 with
  | some zone, some subj, [sttl, smin, ssigs], some sets, some sets3 =>
    -- Cache.ServeDNS answers from the shared denial state when it can: the
    -- question then never reaches the resolver and nothing new is admitted
    if lookupCut st.exp subj then (st, "ok up=0") else
    let hit := (lookupProofH st.exp H subj (qt.toNat?.getD 0)).isSome
    let st := { st with exp := pruneOnLookup st.exp subj (qt.toNat?.getD 0) H }
    if hit then (st, "ok up=0") else
    match sttl.toNat?, smin.toNat?, parseSigs ssigs, (if cut == "-" then some none else cut.toInt?.map some) with
    | some sttl, some smin, some ssigs, some cut =>
      let b : Bundle := { zone := zone, nx := kind == "nx", subject := subj, soaTtl := sttl, soaMin := smin,
                          soaSigs := ssigs, cut := cut, sets := sets, sets3 := sets3 }
      ({ st with exp := admitBundle st.exp b }, "ok up=1")
    | _, _, _, _ => (st, "bad-op")
  | _, _, _, _, _ => (st, "bad-op")

open SdnsVerif.Model.ProofExpiry in
def stepExp (st : State) (w : List String) : State × String :=
  match w with
  | ["exp", "new", pm, cm] =>
    match pm.toNat?, cm.toNat? with
    | some pm, some cm => ({ st with exp := { proofMax := pm, cutMax := cm } }, "ok")
    | _, _ => (st, "bad-op")
  | ["exp", "adv", d] =>
    match d.toNat? with
    | some d =>
      let e := { st.exp with now := st.exp.now + d }
      ({ st with exp := e }, s!"t={e.now}")
    | none => (st, "bad-op")
  | ["exp", "put", zone, kind, subj, qt, soa, cut, sets] =>
    expPut st zone kind subj qt soa cut ((sets.splitOn ";").mapM parseSet) (some []) (fun _ => none)
  | ["exp", "reput", zone, kind, subj, _qt, soa, cut, sets] =>
    match parseName zone, parseName subj, soa.splitOn ",", (sets.splitOn ";").mapM parseSet with
    | some zone, some subj, [sttl, smin, ssigs], some sets =>
      match sttl.toNat?, smin.toNat?, parseSigs ssigs, (if cut == "-" then some none else cut.toInt?.map some) with
      | some sttl, some smin, some ssigs, some cut =>
        let b : Bundle := { zone := zone, nx := kind == "nx", subject := subj, soaTtl := sttl, soaMin := smin,
                            soaSigs := ssigs, cut := cut, sets := sets }
        ({ st with exp := admitBundle st.exp b }, "ok")
      | _, _, _, _ => (st, "bad-op")
    | _, _, _, _ => (st, "bad-op")
  | ["exp", "put3", zone, kind, subj, qt, soa, cut, sets3, ht] =>
    match parseHT ht with
    | some ht => expPut st zone kind subj qt soa cut (some []) ((sets3.splitOn ";").mapM parseSet3) (htFn ht)
    | none => (st, "bad-op")
  | ["exp", "ask", q, t] =>
    match parseName q, t.toNat? with
    | some q, some t => expAsk st q t (fun _ => none)
    | _, _ => (st, "bad-op")
  | ["exp", "ask", q, t, ht] =>
    match parseName q, t.toNat?, parseHT ht with
    | some q, some t, some ht => expAsk st q t (htFn ht)
    | _, _, _ => (st, "bad-op")
  | _ => (st, "bad-op")

def step (st : State) (w : List String) : State × String :=
  match w with
  | "z" :: _ => stepNsec st w
  | "h" :: _ => stepNsec3 st w
  | "adm" :: _ => stepAdm st w
  | "exp" :: _ => stepExp st w
  | ["p", "match", sg, o, l, t] =>
    match parseName sg, parseName o, l.toNat?, t.toNat? with
    | some sg, some o, some l, some t => (st, boolStr (signatureMatches sg o l t))
    | _, _, _, _ => (st, "bad-op")
  | "p" :: _ => (st, "unmodelled")
  | _ => (st, "bad-op")

end Driver.C02
