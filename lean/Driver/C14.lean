import SdnsVerif.Model.Util
import SdnsVerif.Model.DnssecPrim
import SdnsVerif.Gen.C14
/-! Line protocol for the C14 ops (`b64`, `kt`, `ov`, `ds`, `rsa`, `sd`, `bind`;
`dsv` and `vfy` are judged by the Go oracle only).  The numeric limits are the
regenerated facts of the tree (`Gen.C14`), the theorems hold for any limits. -/
namespace Driver.C14
open SdnsVerif.Model SdnsVerif.Model.DnssecPrim SdnsVerif.Model.Util

structure State where
  unit : Unit := ()

def chunk : Nat := SdnsVerif.Gen.C14.key_tag_chunk
def limit : Nat := SdnsVerif.Gen.C14.oversized_limit
def maxMat : Nat := SdnsVerif.Gen.C14.max_ds_key_material
def limits : RSALimits :=
  { minBits := SdnsVerif.Gen.C14.min_rsa_modulus_bits, maxBits := SdnsVerif.Gen.C14.max_rsa_modulus_bits,
    maxExpBits := SdnsVerif.Gen.C14.max_rsa_exponent_bits }

/-- crypto/rsa's `VerifyPKCS1v15` on a key inside the limits: the same
arithmetic, and an even modulus is refused. -/
def stdVerify (n e : Nat) (pfx hashed sig : Bytes) : Bool := n % 2 == 1 && rsaRaw n e pfx hashed sig

def modelKeyTag (flags proto alg : Nat) (pk : Bytes) : Nat :=
  keyTag b64Decode chunk limit ((libKeyTag b64Decode flags proto alg pk).getD 0) flags proto alg pk

def verdictStr : Verdict → String
  | .ok => "ok"
  | .badSig => "badsig"
  | .noKey => "missing-dnskey"
  | .missingSigned => "missing-signed"
  | .err => "err"

def natHex (n : Nat) : String := bytesHex (bytesOfNat n)

/-- comma separated hex strings; `-` is one empty string (an RRset is never empty). -/
def hexList (s : String) : Option (List Bytes) := (s.splitOn ",").mapM hexBytes

/-- labels of an uncompressed wire name. -/
def splitWire : Nat → Bytes → Option (List Label)
  | 0, _ => none
  | _ + 1, [] => none
  | f + 1, l :: t =>
    if l == 0 then some []
    else if t.length < l.toNat then none
    else (splitWire f (t.drop l.toNat)).map (fun ls => t.take l.toNat :: ls)

def parseBKey (s : String) : Option (BKey × Bytes) :=
  match s.splitOn "," with
  | [fl, pr, al, cl, nm, pk] => do
    let flags ← fl.toNat?
    let proto ← pr.toNat?
    let alg ← al.toNat?
    let cls ← cl.toNat?
    let name ← hexBytes nm
    let pkb ← hexBytes pk
    some ({ proto := proto, flags := flags, alg := alg, cls := cls, name := name,
            tag := modelKeyTag flags proto alg pkb }, pkb)
  | _ => none

def parseBSig (s : String) : Option BSig :=
  match s.splitOn "," with
  | [ty, al, lb, _ottl, _exp, _inc, tg, cl, sg, nm, _sig] => do
    let typ ← ty.toNat?
    let alg ← al.toNat?
    let labels ← lb.toNat?
    let tag ← tg.toNat?
    let cls ← cl.toNat?
    let signer ← hexBytes sg
    let name ← hexBytes nm
    some { tag := tag, alg := alg, cls := cls, labels := labels, typ := typ, signer := signer, name := name }
  | _ => none

def parseHdrs (s : String) : Option (List BHdr) :=
  if s == "-" then some [] else
  (s.splitOn ";").mapM fun t =>
    match t.splitOn ":" with
    | [nm, cl, ty] => do
      let name ← hexBytes nm
      let cls ← cl.toNat?
      let typ ← ty.toNat?
      some { cls := cls, typ := typ, name := name }
    | _ => none

/-- `IsSupportedDS` from the regenerated tables. -/
def supportedDS (d : DSRec) : Bool :=
  SdnsVerif.Gen.C14.ds_supported_types.contains d.dt && SdnsVerif.Gen.C14.dnskey_algorithms.contains d.alg

def parseRefs (s : String) : Option (Nat → Bytes) :=
  match s.splitOn ":" with
  | [a, b, c] => do
    let d1 ← hexBytes a
    let d2 ← hexBytes b
    let d4 ← hexBytes c
    some (fun t => if t = 1 then d1 else if t = 2 then d2 else if t = 4 then d4 else [])
  | _ => none

def parseDKeys (ks rs : String) : Option (List (DKey × (Nat → Bytes))) :=
  if ks == "-" then some [] else
  let kl := ks.splitOn ";"
  let rl := rs.splitOn ";"
  if kl.length != rl.length then none else
  (kl.zip rl).mapM fun (k, r) => do
    let (bk, pk) ← parseBKey k
    let refs ← parseRefs r
    some ({ flags := bk.flags, proto := bk.proto, alg := bk.alg, cls := bk.cls, name := bk.name, pk := pk, tag := bk.tag }, refs)

def parseDSRecs (s : String) : Option (List DSRec) :=
  if s == "-" then some [] else
  (s.splitOn ";").mapM fun t =>
    match t.splitOn "," with
    | [nm, cl, tg, al, dt, dg] => do
      let name ← hexBytes nm
      let cls ← cl.toNat?
      let tag ← tg.toNat?
      let alg ← al.toNat?
      let dtn ← dt.toNat?
      let dig ← hexBytes dg
      some { name := name, cls := cls, keyTag := tag, alg := alg, dt := dtn, digest := dig }
    | _ => none

/-- owner labels, type and class of an uncompressed wire record. -/
def wireHeader (w : Bytes) : Option (List Label × Nat × Nat) := do
  let ls ← splitWire (w.length + 1) w
  let n := (ls.map (fun l => l.length + 1)).sum + 1
  match w.drop n with
  | t1 :: t2 :: c1 :: c2 :: _ => some (ls, t1.toNat * 256 + t2.toNat, c1.toNat * 256 + c2.toNat)
  | _ => none

/-- type and RDATA of an uncompressed wire record. -/
def wireRdata (w : Bytes) : Option (Nat × Bytes) := do
  let (ls, typ, _) ← wireHeader w
  let n := (ls.map (fun l => l.length + 1)).sum + 1
  some (typ, w.drop (n + 10))

/-- the model's canonical RDATA of every record must be the line's `c=` column. -/
def canonAgrees (rr c : String) : Bool :=
  if rr == "-" then true else
  match (rr.splitOn ",").mapM hexBytes, (c.splitOn ",").mapM hexBytes with
  | some ws, some cs =>
    ws.length == cs.length && (ws.zip cs).all (fun (w, cd) =>
      match wireRdata w with
      | some (typ, rd) => canonRdata typ rd == some cd
      | none => false)
  | _, _ => false

def parseVKey (s : String) : Option VKey :=
  match s.splitOn "," with
  | [fl, pr, al, cl, nm, pk] => do
    some { flags := ← fl.toNat?, proto := ← pr.toNat?, alg := ← al.toNat?, cls := ← cl.toNat?,
           name := ← hexBytes nm, pk := ← hexBytes pk }
  | _ => none

def parseVSig (s : String) : Option VSig :=
  match s.splitOn "," with
  | [ty, al, lb, ottl, exp, inc, tg, cl, sg, nm, sig] => do
    some { typ := ← ty.toNat?, alg := ← al.toNat?, labels := ← lb.toNat?, origTTL := ← ottl.toNat?, exp := ← exp.toNat?,
           inc := ← inc.toNat?, tag := ← tg.toNat?, cls := ← cl.toNat?, signer := ← hexBytes sg, name := ← hexBytes nm,
           sigText := ← hexBytes sig }
  | _ => none

def parseVRecs (rr o c : String) (tg : Option String := none) : Option (List VRec) :=
  if rr == "-" then some [] else do
  let ws ← (rr.splitOn ",").mapM hexBytes
  let os ← (o.splitOn ",").mapM hexBytes
  let cs ← (c.splitOn ",").mapM hexBytes
  let ts ← match tg with
    | some t => (t.splitOn ",").mapM hexBytes
    | none => some (ws.map (fun _ => []))
  if ws.length != os.length || ws.length != cs.length || ws.length != ts.length then none else
  (((ws.zip os).zip cs).zip ts).mapM fun (((w, nm), rd), t) => do
    let (ls, typ, cls) ← wireHeader w
    some { name := nm, typ := typ, cls := cls, ownerLabels := ls, canonRd := rd, target := t }

def parseCurve (x : String) : Option Bool := if x == "t" then some true else if x == "f" then some false else none

def mkOracle (sw h x : String) : Option SigOracle := do
  let swb ← hexBytes sw
  let hb ← hexBytes h
  -- "k": not a point (`none`); "-": the model must not get as far as asking (answer `false`)
  some { hashed := hb, curve := if x == "k" then none else some (x == "t"), signerWire := swb }

def vkeyTag (k : VKey) : Nat := modelKeyTag k.flags k.proto k.alg k.pk

def supportedAlg (a : Nat) : Bool := SdnsVerif.Gen.C14.dnskey_algorithms.contains a

def listAt {α : Type} (l : List α) (i : Nat) : Option α := l[i]?

def indexOf {α : Type} [DecidableEq α] (l : List α) (x : α) : Nat :=
  match l with
  | [] => 0
  | y :: t => if y = x then 0 else 1 + indexOf t x

def step (st : State) (w : List String) : State × String :=
  match w with
  | [_, "new"] => (st, "ok")
  | ["b64", "dec", h] =>
    match hexBytes h with
    | some s => let r := b64Decode s; (st, (if r.2 then "ok " else "err ") ++ bytesHex r.1)
    | none => (st, "bad-op")
  | ["b64", "enc", h] =>
    match hexBytes h with
    | some b => (st, bytesHex (b64Encode b))
    | none => (st, "bad-op")
  | ["kt", "tag", fl, pr, al, pk] =>
    match fl.toNat?, pr.toNat?, al.toNat?, hexBytes pk with
    | some flags, some proto, some alg, some pkb => (st, toString (modelKeyTag flags proto alg pkb))
    | _, _, _, _ => (st, "bad-op")
  | ["ov", "check", pk] =>
    match hexBytes pk with
    | some pkb => (st, boolStr (oversized limit pkb))
    | none => (st, "bad-op")
  | ["ds", "match", _owner, fl, pr, al, pk, dt, want, ref] =>
    match fl.toNat?, pr.toNat?, al.toNat?, hexBytes pk, dt.toNat?, hexBytes want, hexBytes ref with
    | some flags, some proto, some alg, some pkb, some dtn, some wantb, some refb =>
      (st, boolStr (dsDigestMatches b64Decode (fun _ _ => refb) limit maxMat (some []) flags proto alg pkb dtn wantb))
    | _, _, _, _, _, _, _ => (st, "bad-op")
  | ["dsv", "verify", ks, ds, rs, gv] =>
    match parseDKeys ks rs, parseDSRecs ds with
    | some kr, some dl =>
      let keys := kr.map (·.1)
      let dmatch := fun (k : DKey) (dt : Nat) (want : Bytes) =>
        match kr.find? (fun p => decide (p.1 = k)) with
        | some (_, refs) =>
          dsDigestMatches b64Decode (fun t _ => refs t) limit maxMat (some []) k.flags k.proto k.alg k.pk dt want
        | none => false
      let r := verifyDS supportedDS dmatch limit keys dl
      -- positions are reported up to key identity (owner case aside): the validator keeps one
      -- representative of duplicate keys
      let ident := fun (k : DKey) => (lower (fqdn k.name), k.cls, k.flags, k.proto, k.alg, k.pk)
      let firstOf := fun (i : Nat) =>
        match keys[i]? with
        | some k => ((List.range i).find? (fun j => (keys[j]?).map ident == some (ident k))).getD i
        | none => i
      let anch := if r.2 then
          let idx := (List.range keys.length).filter (fun i =>
            match keys[i]? with
            | some k => (anchoredKeys supportedDS dmatch limit [k] dl).length == 1
            | none => false)
          String.intercalate "." ((idx.map firstOf).eraseDups.map toString)
        else "-"
      let gov : Gov := match (gv.drop 2).toString.splitOn "," |>.map String.toNat? with
        | [some a, some b] => { maxCand := a, maxSet := 0, budget := b }
        | _ => { maxCand := 0, maxSet := 0, budget := 0 }
      let wr := verifyDSWork supportedDS dmatch limit keys gov dl
      let wstr := match wr.1 with
        | WRes.ok => "ok"
        | WRes.fail => "fail"
        | WRes.work => "work"
      let estr := match verifyDSErr supportedDS dmatch limit keys dl with
        | DErr.ok => "ok"
        | DErr.missingKSK => "missing-ksk"
        | DErr.mismatchingDS => "mismatching-ds"
        | DErr.unsupported => "unsupported-ds"
      (st, s!"unsup={boolStr r.1} ok={boolStr r.2} err={estr} anch={anch} w={wstr}:{wr.2}")
    | _, _ => (st, "bad-op")
  | ["vfy", "sig", k, sg, rr, o, c, sw, h, x] =>
    match parseVKey (k.drop 2).toString, parseVSig (sg.drop 2).toString,
        parseVRecs (rr.drop 3).toString (o.drop 2).toString (c.drop 2).toString,
        mkOracle (sw.drop 3).toString (h.drop 2).toString (x.drop 2).toString with
    | some vk, some vs, some set, some orc =>
      if !canonAgrees (rr.drop 3).toString (c.drop 2).toString then (st, "canon-rdata-differs") else
      let own := verifySignature stdVerify b64Decode limits vkeyTag orc vk vs set
      let cv := cryptoVerify stdVerify b64Decode limits vkeyTag false orc vk vs set
      (st, s!"own={verdictStr own} cv={if ownAlg vk.alg then verdictStr cv else "lib:reject"}")
    | _, _, _, _ => (st, "bad-op")
  | ["vfy", "msg", z, ks, ss, rr, a, o, c, sw, p, hx, tg, gv] =>
    let keysO : Option (List VKey) := if (ks.drop 2).toString == "-" then some [] else ((ks.drop 2).toString.splitOn ";").mapM parseVKey
    let sigsO : Option (List VSig) := if (ss.drop 2).toString == "-" then some [] else ((ss.drop 2).toString.splitOn ";").mapM parseVSig
    match hexBytes (z.drop 2).toString, keysO, sigsO,
        parseVRecs (rr.drop 3).toString (o.drop 2).toString (c.drop 2).toString (some (tg.drop 3).toString),
        (a.drop 2).toString.toNat? with
    | some zone, some keys, some sigs, some recs, some nAns =>
      let sws := (sw.drop 3).toString.splitOn ";"
      let pers := (p.drop 2).toString.splitOn ";"
      let hxs := ((hx.drop 3).toString.splitOn ";").map (fun t => t.splitOn ",")
      let orcOf := fun (k : VKey) (sg : VSig) =>
        let i := indexOf sigs sg
        let j := indexOf keys k
        match listAt sws i, (listAt hxs i).bind (fun row => listAt row j) with
        | some swi, some cell =>
          match cell.splitOn ":" with
          | [h, x] => (mkOracle swi h x).getD {}
          | _ => ({} : SigOracle)
        | _, _ => ({} : SigOracle)
      let cv := fun (k : VKey) (sg : VSig) (set : List VRec) =>
        cryptoVerify stdVerify b64Decode limits vkeyTag false (orcOf k sg) k sg set
      let inPeriod := fun (sg : VSig) => (listAt pers (indexOf sigs sg)) == some "t"
      let oneSig := verifyOneSig cv inPeriod supportedAlg vkeyTag keys
      let m : VMsg := { answer := recs.take nAns, ns := recs.drop nAns, sigs := sigs }
      let gov : Gov := match ((gv.drop 2).toString.splitOn ",").map String.toNat? with
        | [some a, some b, some c] => { maxCand := a, maxSet := b, budget := c }
        | _ => { maxCand := 0, maxSet := 0, budget := 0 }
      let wr := verifyRRSIGWork cv inPeriod supportedAlg vkeyTag keys gov zone m
      let wstr := match wr.1 with
        | WRes.ok => "ok"
        | WRes.fail => "fail"
        | WRes.work => "work"
      let estr := match verifyRRSIGErr cv inPeriod supportedAlg vkeyTag keys zone m with
        | VErr.ok => "ok"
        | VErr.missingDnskey => "missing-dnskey"
        | VErr.missingSigned => "missing-signed"
        | VErr.period => "period"
        | VErr.alg => "alg"
        | VErr.badSig => "badsig"
        | VErr.noSigs => "nosigs"
        | VErr.other => "err"
      (st, s!"ok={boolStr (verifyRRSIG oneSig keys.length zone m)} err={estr} w={wstr}:{wr.2}")
    | _, _, _, _, _ => (st, "bad-op")
  | "vfy" :: _ => (st, "bad-op")
  | ["rsa", "parse", pk] =>
    match hexBytes pk with
    | some pkb =>
      let r := b64Decode pkb
      if !r.2 || r.1.isEmpty then (st, "bad") else
      match parseRSA r.1 with
      | some (n, e) => (st, s!"ok {natHex n} {natHex e}")
      | none => (st, "bad")
    | none => (st, "bad-op")
  | ["rsa", "usable", n, e] =>
    match hexNat n, hexNat e with
    | some nn, some en => (st, boolStr (usableRSAKey limits nn en))
    | _, _ => (st, "bad-op")
  | ["rsa", "raw", n, e, pfx, hashed, sig] =>
    match hexNat n, hexNat e, hexBytes pfx, hexBytes hashed, hexBytes sig with
    | some nn, some en, some p, some h, some s => (st, if rsaRaw nn en p h s then "ok" else "badsig")
    | _, _, _, _, _ => (st, "bad-op")
  | ["rsa", "vfy", al, pk, _signed, hashed, sig] =>
    match al.toNat?, hexBytes pk, hexBytes hashed, hexBytes sig with
    | some alg, some pkb, some h, some s => (st, verdictStr (verifyRSA stdVerify b64Decode limits alg pkb h s))
    | _, _, _, _ => (st, "bad-op")
  | ["sd", "data", ty, cl, al, lb, ottl, exp, inc, tg, _signerPres, signerWire, ownerWire, rds, _wires] =>
    match ty.toNat?, cl.toNat?, al.toNat?, lb.toNat?, ottl.toNat?, exp.toNat?, inc.toNat?, tg.toNat? with
    | some typ, some cls, some alg, some labels, some origTTL, some e, some i, some tag =>
      match hexBytes signerWire, (hexBytes ownerWire).bind (fun o => splitWire (o.length + 1) o), hexList rds with
      | some sw, some ols, some rdl =>
        if !canonAgrees _wires rds then (st, "canon-rdata-differs") else
        match signedData typ cls alg labels origTTL e i tag sw ols rdl with
        | some d => (st, bytesHex d)
        | none => (st, "err")
      | _, _, _ => (st, "bad-op")
    | _, _, _, _, _, _, _, _ => (st, "bad-op")
  | ["bind", "check", k, s, r] =>
    match parseBKey (k.drop 2).toString, parseBSig (s.drop 2).toString, parseHdrs (r.drop 2).toString with
    | some (bk, _), some bs, some hs => (st, verdictStr (signatureBinding bk bs hs))
    | _, _, _ => (st, "bad-op")
  | _ => (st, "bad-op")

end Driver.C14
