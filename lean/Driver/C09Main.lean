import Driver.Loop
import Driver.C09
def main : IO Unit := Driver.runLoop ({} : Driver.C09.State) Driver.C09.step
