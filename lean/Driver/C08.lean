import SdnsVerif.Model.Util
import SdnsVerif.Model.Lease
/-! Line protocol for the function-level ops of C08 (`ac`, `mc`, `mnz`, `mttl`,
`nsttl`, `lease`, `meta`, `rem`); the system-level `l3` ops are judged by the
Go oracle only. -/
namespace Driver.C08
open SdnsVerif.Model.Lease SdnsVerif.Model.Util

/-- the model's ceiling: 12 h in ns (the code's `maximumTTL` is pinned against
it by `Props.C08.setuntil_ceiling` and by this very correspondence) -/
def maxTTL : Int := 43200 * sec

structure State where
  ac : ACache := {}
  now : Int := 0
  cut : Meta := {}
  sys : Sys := {}          -- the descent event system (`ev` ops)

/-- an op-line instant; a trailing `~` says the WALL clock had been stepped back when
it was read. Leases are elapsed time: the model ignores the mark. -/
def parseI (s : String) : Option Int :=
  if s.endsWith "~" then (s.dropEnd 1).toString.toInt? else s.toInt?

def parseT (s : String) : Option Deadline :=
  if s == "z" then some none else (parseI s).map some

def showT : Deadline → String
  | none => "z"
  | some t => toString t

def parseList (s : String) : Option (List Nat) :=
  if s == "-" then some [] else (s.splitOn ",").mapM String.toNat?

def parseNS (s : String) : Option (List (Nat × Bool)) :=
  if s == "-" then some [] else
  (s.splitOn ",").mapM fun e =>
    if e.endsWith "x" then (e.dropEnd 1).toString.toNat?.map (fun t => (t, false))
    else e.toNat?.map (fun t => (t, true))

/-- the first NS record anchors the set whatever its mark -/
def anchorFirst : List (Nat × Bool) → List (Nat × Bool)
  | [] => []
  | (t, _) :: rest => (t, true) :: rest

/-- `7.3.1` (leaf first) ↦ `[1, 3, 7]` (root first); `.` is the root -/
def parseName (s : String) : Option Name :=
  if s == "." then some [] else ((s.splitOn ".").filter (· ≠ "")).reverse.mapM String.toNat?

/-- a textual label as a number (ASCII case folded; injective on folded labels) -/
def labelCode (l : String) : Nat :=
  l.toList.foldl (fun acc c => acc * 256 + (if 'A' ≤ c ∧ c ≤ 'Z' then c.toNat + 32 else c.toNat)) 1

/-- `Vic.TEST` (leaf first, any case) ↦ root-first folded labels; `.` is the root -/
def parseLabels (s : String) : Option Name :=
  if s == "." then some [] else some (((s.splitOn ".").filter (· ≠ "")).reverse.map labelCode)

def showName (n : Name) : String :=
  if n.isEmpty then "." else ".".intercalate (n.reverse.map toString)

/-- deadlines of the event system are whole seconds -/
def showSec : Deadline → String
  | none => "z"
  | some t => toString (t / sec)

def showTop (s : Sys) : String :=
  match s.stack with
  | [] => "idle"
  | r :: _ => s!"z={showName r.zone} cut={showSec r.cut} meta={showSec s.cut.cut}"

def evStep (st : State) (ev : Ev) : State := { st with sys := SdnsVerif.Model.Lease.step maxTTL st.sys ev }

def step (st : State) (w : List String) : State × String :=
  match w with
  | ["mc", "new"] | ["mnz", "new"] | ["mttl", "new"] | ["nsttl", "new"] | ["lease", "new"] | ["rem", "new"] | ["repl", "new"] | ["dpx", "new"] | ["wr", "new"] | ["hit", "new"] | ["glue", "new"] | ["vref", "new"] => (st, "ok")
  | ["ac", "new"] => ({ st with ac := {}, now := 0 }, "ok")
  | ["ac", "now", t] =>
    match parseI t with
    | some v => ({ st with now := v }, "ok")
    | none => (st, "bad-op")
  | ["ac", "set", k, tag, ttl] =>
    match k.toNat?, tag.toNat?, ttl.toInt? with
    | some k, some tag, some ttl => ({ st with ac := st.ac.set maxTTL st.now k tag ttl }, "ok")
    | _, _, _ => (st, "bad-op")
  | ["ac", "setuntil", k, tag, t] =>
    match k.toNat?, tag.toNat?, parseT t with
    | some k, some tag, some d => ({ st with ac := st.ac.setUntil maxTTL st.now k tag d }, "ok")
    | _, _, _ => (st, "bad-op")
  | ["ac", "remove", k] =>
    match k.toNat? with
    | some k => ({ st with ac := st.ac.remove k }, "ok")
    | none => (st, "bad-op")
  | ["ac", "get", k] =>
    match k.toNat? with
    | some k =>
      match st.ac.get st.now k with
      | .ok d => (st, s!"ok tag={d.tag} exp={d.expiresAt}")
      | .notFound => (st, "notfound")
      | .expired => (st, "expired")
    | none => (st, "bad-op")
  | ["mc", a, ak, b, bk] =>
    match parseT a, ak.toNat?, parseT b, bk.toNat? with
    | some a, some ak, some b, some bk =>
      let r := minCut a ak b bk
      (st, s!"{showT r.1} {r.2}")
    | _, _, _, _ => (st, "bad-op")
  | ["mnz", a, b] =>
    match parseT a, parseT b with
    | some a, some b => (st, showT (minNonZero a b))
    | _, _ => (st, "bad-op")
  | ["mttl", l] =>
    match parseList l with
    | some l => (st, toString (minRRSetTTL l))
    | none => (st, "bad-op")
  | ["nsttl", l] =>
    match parseNS l with
    | some l =>
      let r := nsInfo (anchorFirst l)
      (st, s!"{r.1} {boolStr r.2.1} {boolStr r.2.2}")
    | none => (st, "bad-op")
  | ["lease", obs, ns, ds, cut, ck, key, now2] =>
    match parseI obs, ns.toNat?, parseList ds, parseT cut, ck.toNat?, key.toNat?, parseI now2 with
    | some obs, some ns, some ds, some cut, some ck, some key, some now2 =>
      let c := childCut maxTTL cut ck obs ns ds key
      let ac := ({} : ACache).setUntil maxTTL now2 key 1 c.1
      let stored := match ac.get now2 key with
        | .ok d => toString d.expiresAt
        | _ => "none"
      (st, s!"cut={showT c.1} key={c.2} stored={stored}")
    | _, _, _, _, _, _, _ => (st, "bad-op")
  | ["meta", "new"] => ({ st with cut := {} }, "ok")
  | ["meta", "bound", t, k] =>
    match parseT t, k.toNat? with
    | some d, some k =>
      let m := st.cut.boundCutFor d k
      ({ st with cut := m }, s!"{showT m.cut} {m.key}")
    | _, _ => (st, "bad-op")
  | ["repl", hv, kind, _ttl, _haveCut, cut, ck] =>
    match parseT cut, ck.toNat? with
    | some cut, some ck =>
      let ans := fun (k : String) => k == "pos" || k == "nx" || k == "nodata"
      let ok := fun (k : String) => ans k || k == "servfail"
      if !(ok hv && ok kind) then (st, "bad-op") else
      match replaceIfCurrent (ans hv == ans kind) cut ck with
      | some (c, k) => (st, s!"replaced=t cut={showT c} key={k}")
      | none => (st, "replaced=f none")
    | _, _ => (st, "bad-op")
  | ["vref", ref, auth, q, ns, coh, cls] =>
    match parseLabels ref, parseLabels auth, parseLabels q with
    | some ref, some auth, some q =>
      (st, boolStr (validReferral (ns == "ns") (coh == "incoh") (cls == "in") auth ref q))
    | _, _, _ => (st, "bad-op")
  | ["hit", hv, stored, ttl, cut, ck] =>
    match parseT hv, parseI stored, ttl.toInt?, parseT cut, ck.toNat? with
    | some hv, some stored, some ttl, some cut, some ck =>
      let m := entryBound (({} : Meta).boundCutFor hv 99) stored ttl cut ck
      (st, s!"{showT m.cut} {m.key}")
    | _, _, _, _, _ => (st, "bad-op")
  | ["glue", cached, ref] =>
    match cached.toNat?, ref.toNat? with
    | some c, some r =>
      let l := fun (n : Nat) => if n == 0 then ([] : List Nat) else [n]
      let g := glueFromReferral (l c) (l r)
      (st, s!"servers={g.1} cache={g.2}")
    | _, _ => (st, "bad-op")
  | ["wr", path, kind, _ttl, cut, ck, _cap] =>
    -- every write entry point of the answer cache stores the cut it is handed (`storeCut`);
    -- neither the kind of answer, nor its TTL, nor an ECS cap, nor who claimed a prefetch matters
    match parseT cut, ck.toNat? with
    | some cut, some ck =>
      if !(["key", "subq", "scoped", "prefetch", "prefetch-ecs"].contains path) then (st, "bad-op") else
      -- the refresh's cut reaches the worker through a fresh ResponseMeta (zero deadlines are not folded)
      let m : Meta := if path == "prefetch" || path == "prefetch-ecs" then ({} : Meta).boundCutFor cut ck else ⟨cut, ck⟩
      -- a refresh that FAILS (SERVFAIL) replaces nothing: the claimed answer lapses with its own cut
      if kind.endsWith ">servfail" then
        (match replaceIfCurrent false m.cut m.key with
         | some r => (st, s!"cut={showT r.1} key={r.2}")
         | none => (st, "none"))
      else
      let r := storeCut m.cut m.key
      (st, s!"cut={showT r.1} key={r.2}")
    | _, _ => (st, "bad-op")
  | ["dpx", now, maxTTL, cut, soaTTL, soaMin, nsec] =>
    match parseI now, maxTTL.toInt?, parseT cut, soaTTL.toNat?, soaMin.toNat?, parseList nsec with
    | some now, some maxTTL, some cut, some soaTTL, some soaMin, some nsec =>
      let bounds : List Int := [(soaTTL : Int) * sec, (soaMin : Int) * sec] ++ nsec.map (fun (t : Nat) => (t : Int) * sec)
      match denialExpiry (10800 * sec) now (maxTTL * sec) cut bounds with
      | some e => (st, toString e)
      | none => (st, "none")
    | _, _, _, _, _, _ => (st, "bad-op")
  | "rem" :: stored :: ttl :: cut :: now :: state =>
    -- `state` lists non-time facts about the entry (claimed refresh, scope, rate limit, original TTL):
    -- `remaining` is a function of the four times only
    if !(state.all (fun x => ["claimed", "scoped", "limited", "orig"].contains x)) then (st, "bad-op") else
    match parseI stored, ttl.toInt?, parseT cut, parseI now with
    | some stored, some ttl, some cut, some now => (st, toString (remaining stored ttl cut now))
    | _, _, _, _ => (st, "bad-op")
  | ["ev", "new"] => ({ st with sys := {} }, "ok")
  | ["ev", "tick", n] =>
    match n.toNat? with
    | some n => (evStep st (.tick (n * 1000000000)), "ok")
    | none => (st, "bad-op")
  | ["ev", kind, q] =>
    match parseName q with
    | some q =>
      if kind == "purge" then (evStep st (.purge q), "ok") else
      if kind == "fin" then (st, "bad-op") else
      let ev? : Option Ev := if kind == "start" then some (.start q) else if kind == "sub" || kind == "nsl" then
        (if st.sys.stack.isEmpty then some (.start q) else some (.substart q)) else if kind == "chase" then
        (if st.sys.stack.isEmpty then some (.start q) else some (.chase q)) else none
      match ev? with
      | some ev => let st' := evStep st ev; (st', showTop st'.sys)
      | none => (st, "bad-op")
    | none =>
      if kind == "fin" then
        match parseBool q with
        | some u =>
          match st.sys.stack with
          | [] => (st, "idle")
          | _ => let st' := evStep st (.finish u); (st', showTop st'.sys)
        | none => (st, "bad-op")
      else (st, "bad-op")
  | ["ev", "ref", z, ttls] =>
    match parseName z, parseList ttls with
    | some z, some ttls =>
      match st.sys.stack with
      | [] => (st, "idle")
      | r :: _ =>
        if ttls.isEmpty then (st, "idle") else
        if !progressing r.zone z r.qname then (st, "rejected " ++ showTop st.sys) else
        let st' := evStep st (.referral z ttls [])
        let lease := match findEntry st'.sys.delegs z with
          | some e => toString (e.expiresAt / sec)
          | none => "none"
        (st', showTop st'.sys ++ " lease=" ++ lease)
    | _, _ => (st, "bad-op")
  | ["ev", "ans"] =>
    match st.sys.stack with
    | [] => (st, "idle")
    | _ => (evStep st (.answer 0), "cut=" ++ showSec st.sys.cut.cut)
  | "l3" :: _ => (st, "unmodelled")
  | _ => (st, "bad-op")

end Driver.C08
