import Driver.Loop
import Driver.C01
def main : IO Unit := Driver.runLoop ({} : Driver.C01.State) Driver.C01.step
