import Driver.Loop
import Driver.C06
def main : IO Unit := Driver.runLoop ({} : Driver.C06.State) Driver.C06.step
