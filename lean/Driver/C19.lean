import SdnsVerif.Model.Util
import SdnsVerif.Model.Ecs
/-! Line protocol for the `ecs` / `pipe` ops of C19. -/
namespace Driver.C19
open SdnsVerif.Model SdnsVerif.Model.Ecs SdnsVerif.Model.Util

/-- a queued `PrefetchRequest`: the key and entry that claimed it and the options
of the request copy (what the cache saw, i.e. after edns). -/
structure PfItem where
  key : Nat
  ans : Nat
  reqOpts : List Opt
  qid : Nat := 0
  cd : Bool := false       -- the triggering request's CD bit
  hadECS : Bool := false   -- `RequestHadECS`: client-ECS marker or a subnet option on the request
  optEcs : Bool := false   -- a subnet option still on the queued copy

/-- pipeline state: edns + cache built from one config, entries stored so far,
denied names with a shared RFC 8020 cut. -/
structure State where
  pol : Option Policy := none          -- `ecs` ops
  ppol : Option Policy := none         -- `pipe` ops
  cap : Nat := 0
  entries : Store := []   -- (key, entry): the abstract store
  edeAns : List Nat := []   -- answers whose entry preserved an extended error (`CacheEntry.ede`)
  cuts : List Nat := []
  pf : Nat := 0             -- prefetch threshold (0 = no queue)
  aged : List Nat := []     -- answers (= entry objects) whose remaining lifetime is below the threshold
  claimed : List Nat := []  -- entry objects holding the prefetch claim
  pfq : List PfItem := []   -- queued refreshes, oldest first
  zoneOf : List (Nat × Nat) := []  -- question ↦ k for names below the denied name d.z<k>
  l3n : Nat := 0            -- answers the scripted leaf authority has given (l3 ops)

/-! ### parsing -/

def famOf (s : String) : Option Fam :=
  if s == "4" then some .v4 else if s == "6" then some .v6 else none

/-- `4:<hex>/<bits>` -/
def parsePrefix (s : String) : Option Prefix :=
  match s.splitOn ":" with
  | [f, rest] =>
    match rest.splitOn "/" with
    | [h, b] => do
      let fam ← famOf f
      let a ← hexNat h
      let bits ← b.toNat?
      some ⟨fam, a, bits⟩
    | _ => none
  | _ => none

def parseNet (s : String) : Option (Option Prefix) :=
  if s.startsWith "bad:" then some none else (parsePrefix s).map some

def parseNets (s : String) : Option (List (Option Prefix)) :=
  if s == "-" then some [] else (s.splitOn ";").mapM parseNet

/-- `4:<hex>` | `6:<hex>` | `m:<hex>` | `x`; `unmap` = the caller unmapped 4-in-6. -/
def parseClient (s : String) (unmap : Bool) : Option (Option Addr) :=
  if s == "x" then some none else
  match s.splitOn ":" with
  | [f, h] => do
    let a ← hexNat h
    if f == "4" then some (some ⟨.v4, a⟩)
    else if f == "6" then some (some ⟨.v6, a⟩)
    else if f == "m" then
      some (some (if unmap then ⟨.v4, a⟩ else ⟨.v6, 0xffff * 2 ^ 32 + a⟩))
    else none
  | _ => none

def parseAddrBytes (s : String) : Option (Option (List Nat)) :=
  if s == "nil" then some none else
  (hexBytes s).map fun bs => some (bs.map (·.toNat))

/-- `E<family>.<mask>.<scope>.<hex|nil|->` or `O<code>.<data>` -/
def parseOpt (s : String) : Option Opt :=
  match s.toList with
  | 'E' :: rest =>
    match (String.ofList rest).splitOn "." with
    | [f, m, sc, a] => do
      let f ← f.toNat?
      let m ← m.toNat?
      let sc ← sc.toNat?
      let a ← parseAddrBytes a
      some (.ecs ⟨f, m, sc, a⟩)
    | _ => none
  | 'O' :: rest =>
    match (String.ofList rest).splitOn "." with
    | [c, d] => do
      let c ← c.toNat?
      some (.other c d)
    | _ => none
  | _ => none

/-- `noopt` (no OPT record) | `-` (OPT, no options) | comma separated options -/
def parseOpts (s : String) : Option (Option (List Opt)) :=
  if s == "noopt" then some none
  else if s == "-" then some (some [])
  else ((s.splitOn ",").mapM parseOpt).map some

/-! ### rendering -/

def hexOfBytes (bs : List Nat) : String := bytesHex (bs.map UInt8.ofNat)

def showSubnet (s : Subnet) : String :=
  let a := match s.addr with
    | none => "nil"
    | some bs => hexOfBytes bs
  s!"E{s.family}.{s.mask}.{s.scope}.{a}"

def showOpt (full : Bool) : Opt → String
  | .ecs s => showSubnet s
  | .other c d => if full then s!"O{c}.{d}" else s!"O{c}"

def showOpts (full : Bool) (o : Option (List Opt)) : String :=
  match o with
  | none => "noopt"
  | some [] => "-"
  | some l => ",".intercalate (l.map (showOpt full))

/-- a client reply's options as a sorted list (the order in which the Msg path
and the byte path append cookie / NSID / extended error differs and is not
this property's concern). -/
def showOptSet (o : Option (List Opt)) : String :=
  match o with
  | none => "noopt"
  | some [] => "-"
  | some l => ",".intercalate ((l.map (showOpt false)).mergeSort (fun a b => decide (a < b) || a == b))

def showPrefix (p : Prefix) : String :=
  let f := match p.fam with | .v4 => "4" | .v6 => "6"
  s!"{f}:{hexOfBytes (natBytes (p.fam.width / 8) p.addr)}/{p.bits}"

def showPrefix? : Option Prefix → String
  | none => "none"
  | some p => showPrefix p

/-! ### the abstract store used by the executable model: an injective key -/

def encKey : Hash := fun qid cd sc =>
  let base := qid * 2 + (if cd then 1 else 0)
  match sc with
  | none => base * 3
  | some p => ((base * 3 + (match p.fam with | .v4 => 1 | .v6 => 2)) * 256 + p.bits) * 2 ^ 128 + p.addr

/-- the executable model uses the model's own store and step function (`Model.Ecs.cacheStep`). -/
def storeFn (es : Store) : Nat → Option Entry := es.get

def insertAt (es : Store) (k : Nat) (e : Entry) : Store := es.put k e

def parseScopeTok (s : String) : Option (Option Prefix) :=
  if s == "shared" then some none else (parsePrefix s).map some

/-- cookie / NSID the edns writer adds for this client (`SetEdns0` harvest). -/
def serverOpts (copts : List Opt) : List Opt :=
  let cookie := copts.any fun o => match o with
    | .other 10 d => d.length ≥ 16
    | _ => false
  let nsid := copts.any fun o => match o with
    | .other 3 _ => true
    | _ => false
  (if cookie then [.other 10 "srv"] else []) ++ (if nsid then [.other 3 "srv"] else [])

def parseKind (s : String) : Option RespKind :=
  if s == "a" then some .success else if s == "nd" then some .nodata
  else if s == "nx" then some .nxdomain else none

def addCut (cuts : List Nat) (k : Nat) : List Nat := if cuts.contains k then cuts else k :: cuts

/-- the client's OPT records of an op line: `none` = bad op line, `some none` =
undecodable packet (raw protos only), `some (some o)` = the options sdns works
with (`o = none`: the request has no OPT).  "A+B": several OPT records. -/
def clientOpts (proto copts : String) : Option (Option (Option (List Opt))) :=
  if copts == "noopt" then some (some none) else
  match (copts.splitOn "+").mapM (fun t => (parseOpts t).bind id) with
  | none => none
  | some recs =>
    if proto.startsWith "r" then
      match recs.mapM decodeWireOpts with
      | none => some none
      | some dec => some (some (effectiveOpts dec))
    else some (some (effectiveOpts recs))

/-- the scripted authorities keep a declared scope within the family they were sent. -/
def declBits (b family : Nat) : Nat := min b (if family == 1 then 32 else 128)

def buildFrom (en f4 f6 m4 m6 nets : String) : Option BuildRes := do
  let en ← parseBool en
  let f4 ← f4.toNat?
  let f6 ← f6.toNat?
  let m4 ← m4.toNat?
  let m6 ← m6.toNat?
  let nets ← parseNets nets
  some (build en f4 f6 m4 m6 nets)

/-- everything edns + cache decide about one client request before the lookup. -/
structure Front where
  noedns : Bool
  copts : List Opt
  fwd : List Opt
  cs : Option Prefix
  view : ReqView

def front (st : State) (client : Option Addr) (cd : Bool) (copts? : Option (List Opt)) : Front :=
  let copts := copts?.getD []
  let fwd := setEdns0 st.ppol client copts
  let cs := requestScope st.ppol client (some fwd)
  { noedns := copts?.isNone, copts := copts, fwd := fwd, cs := cs,
    view := rootView (ednsMarks copts?) cd (hasEcs (some fwd)) cs.isSome }

/-- `pipe new` / `pipe load`: edns + cache built from one configuration (written in code, or
to a file and read through `config.Load`). -/
def pipeNewStep (st : State) (args : List String) : State × String :=
  match args with
  | en :: f4 :: f6 :: m4 :: m6 :: nets :: cap :: prefetch :: _cachesize =>
    match buildFrom en f4 f6 m4 m6 nets, cap.toNat? with
    | some r, some cap =>
      -- `cache.New`: a prefetch percentage above 90 fails validation and falls back to 0,
      -- 1..9 is raised to 10; the cache size never matters to any of this — in
      -- particular not to the scoped TTL limit, which every fallback must keep
      let pf0 : Nat := prefetch.toNat?.getD 0
      let knobs := cacheKnobs ((_cachesize.head?.bind String.toNat?).getD 1024) pf0 cap
      let pfv : Nat := knobs.prefetch
      let cap : Nat := knobs.ecsMaxTTL
      let st' : State := { pol := st.pol, ppol := r.policy, cap := cap, pf := pfv }
      -- `edns.buildECSPolicy` and `cache.buildCacheECSPolicy` are the same function of the config
      let show1 (p : Option Policy) : String := match p with
        | none => "nil"
        | some p => s!"{boolStr p.enabled},{p.fwd4},{p.fwd6},{p.min4},{p.min6},n{p.nets.length}"
      let pe := ednsPolicy r
      let pc := cachePolicy r
      (st', if show1 pe == show1 pc then s!"pol={show1 pe}" else s!"edns={show1 pe} cache={show1 pc}")
    | _, _ => (st, "bad-op")
  | _ => (st, "bad-op")

/-- one client query through edns and the cache (`zone`: the name lies below the
denied name `d.z<k>`, so a miss may be answered from a shared NXDOMAIN cut). -/
def qCore (st : State) (proto : String) (client : Option Addr) (qid : Nat) (cd : Bool)
    (copts? : Option (List Opt)) (ttl : Nat) (uopts : Option (List Opt)) (ans : Nat) (kind : RespKind)
    (zone : Option Nat) : State × String :=
  let f := front st client cd copts?
  let ka := (proto == "tcp" || proto == "wtcp" || proto == "rtcp") && f.copts.any (fun o => o.code == 11)
  match serveLookup encKey (storeFn st.entries) qid cd f.cs with
  | some e =>
    -- `CacheEntry.ToMsg` re-attaches a preserved extended error on its own OPT
    let served : Option (List Opt) := if st.edeAns.contains e.ans then some [.other 15 "ede"] else none
    let ropt := replyOptions f.noedns served f.fwd (serverOpts f.copts) ka
    -- the prefetch gate of `handleCacheHit`: claim the entry and queue a copy of this request
    let item : PfItem :=
      { key := encKey e.qid e.cd e.scope, ans := e.ans, reqOpts := f.fwd, qid := e.qid,
        cd := cd, hadECS := f.view.hasECS, optEcs := hasEcs (some f.fwd) }
    let st := if prefetchEnqueues (st.pf > 0) e (st.aged.contains e.ans) && !st.claimed.contains e.ans then
        { st with claimed := e.ans :: st.claimed, pfq := st.pfq ++ [item] }
      else st
    (st, s!"up=hit ans={e.ans} ropt={showOptSet ropt} st=- ttl=- pf=-")
  | none =>
    -- after the exact ladder: the shared RFC 8020 cut index, unless this tree bypasses it
    if consultsCut f.view && (match zone with | some k => st.cuts.contains k | none => false) then
      (st, "up=cut") else
    let e := storeEntry st.ppol f.cs uopts qid cd ttl st.cap ans kind
    let ropt := replyOptions f.noedns uopts f.fwd (serverOpts f.copts) ka
    let stS := match e.scope with
      | some p => showPrefix p
      | none => "shared"
    let hasEde := (uopts.getD []).any (fun o => o.code == 15)
    ({ st with entries := cacheStep encKey st.ppol st.cap st.entries (.answer f.cs uopts qid cd ttl ans kind), edeAns := if hasEde then ans :: st.edeAns else st.edeAns },
      s!"up={showOpts true (some f.fwd)} ans={ans} ropt={showOptSet ropt} st={stS} ttl={e.ttl} pf={boolStr (prefetchEligible e)}")

def step (st : State) (w : List String) : State × String :=
  match w with
  | ["ecs", "new", "b", en, f4, f6, m4, m6, nets] =>
    match buildFrom en f4 f6 m4 m6 nets with
    | some r =>
      let out := match r with
        | .disabled => "disabled"
        | .invalid f => s!"invalid:{f}"
        | .ok p => s!"ok f4={p.fwd4} f6={p.fwd6} m4={p.min4} m6={p.min6} nets={p.nets.length}"
      ({ st with pol := r.policy }, out)
    | none => (st, "bad-op")
  | ["ecs", "new", "r", en, f4, f6, m4, m6, nets] =>
    match parseBool en, f4.toNat?, f6.toNat?, m4.toNat?, m6.toNat?, parseNets nets with
    | some en, some f4, some f6, some m4, some m6, some ns =>
      ({ st with pol := some { enabled := en, fwd4 := f4, fwd6 := f6, nets := ns.filterMap id, min4 := m4, min6 := m6 } }, "ok")
    | _, _, _, _, _, _ => (st, "bad-op")
  | ["ecs", "allows", c] =>
    match parseClient c false with
    | some c => (st, boolStr (allows st.pol c))
    | none => (st, "bad-op")
  | ["ecs", "clamp", o] =>
    match parseOpt o with
    | some (.ecs s) =>
      (st, match clamp st.pol s with
        | some f => showSubnet f.toSubnet
        | none => "nil")
    | _ => (st, "bad-op")
  | ["ecs", "setedns", c, _version, opts] =>
    match parseClient c false, parseOpts opts with
    | some c, some o =>
      -- without an OPT a fresh one (no options) is attached; a non-zero
      -- version returns early but only after the options were replaced
      (st, "up=" ++ showOpts true (some (match o with
        | some l => setEdns0 st.pol c l
        | none => [])))
    | _, _ => (st, "bad-op")
  | ["ecs", "strip", opts] =>
    match parseOpts opts with
    | some (some l) => (st, showOpts true (some (stripECS l)))
    | _ => (st, "bad-op")
  | ["ecs", "wire", adm, opts] =>
    -- the strict parser's option facts for a packet it admitted (`adm` is observed
    -- by the driver: which shapes are admitted is the parser's business, C05)
    match parseBool adm, parseOpts opts with
    | some adm, some (some l) =>
      if !adm then (st, "refused") else
      (st, s!"ecs={boolStr (ednsMarks (some l))} nsid={boolStr (l.any (fun o => o.code == 3))} ka={boolStr (l.any (fun o => o.code == 11))}")
    | _, _ => (st, "bad-op")
  | ["ecs", "capttl", cap, ttl, sc] =>
    -- lifetime of an entry filed by the store for a response with TTL `ttl`
    match cap.toNat?, ttl.toNat?, parseBool sc with
    | some cap, some ttl, some sc => (st, s!"ttl={storedTTL sc cap ttl}")
    | _, _, _ => (st, "bad-op")
  | ["ecs", "dedup", ca, oa, cda, cb, ob, cdb] =>
    -- do two cache-missing requests for one question share a downstream resolution?
    match parseClient ca false, parseOpts oa, parseBool cda, parseClient cb false, parseOpts ob, parseBool cdb with
    | some ca, some oa, some cda, some cb, some ob, some cdb =>
      let scopeOf (c : Option Addr) (o : Option (List Opt)) : Option Prefix :=
        requestScope st.pol c (some (setEdns0 st.pol c (o.getD [])))
      (st, s!"same={boolStr (dedupKey 7 cda (scopeOf ca oa) == dedupKey 7 cdb (scopeOf cb ob))}")
    | _, _, _, _, _, _ => (st, "bad-op")
  | ["ecs", "readscope", opts] =>
    match parseOpts opts with
    | some o => (st, showPrefix? (readResponseScope o))
    | none => (st, "bad-op")
  | ["ecs", "clampscope", sc, src] =>
    match parsePrefix sc, (if src == "none" then some none else (parsePrefix src).map some) with
    | some sc, some src => (st, showPrefix (clampScope st.pol sc src))
    | _, _ => (st, "bad-op")
  | ["ecs", "reqscope", c, opts] =>
    match parseClient c false, parseOpts opts with
    | some c, some o => (st, showPrefix? (requestScope st.pol c o))
    | _, _ => (st, "bad-op")
  | "pipe" :: "new" :: args => pipeNewStep st args
  | "pipe" :: "load" :: args => pipeNewStep st args
  | ["pipe", "q", c, proto, qid, cd, copts, ttl, uopts, ans, kind] =>
    match clientOpts proto copts with
    | some none => (st, "formerr")
    | none => (st, "bad-op")
    | some (some copts?) =>
    -- a downstream response with several OPT records: `IsEdns0` (cache scope, edns shaping) works on the last
    match parseClient c true, qid.toNat?, parseBool cd, some copts?, ttl.toNat?, parseOpts ((uopts.splitOn "+").getLast?.getD "-"), ans.toNat?, parseKind kind with
    | some client, some qid, some cd, some copts?, some ttl, some uopts, some ans, some kind =>
      qCore st proto client qid cd copts? ttl uopts ans kind none
    | _, _, _, _, _, _, _, _ => (st, "bad-op")
  | ["pipe", "pq", c, proto, qid, cd, copts, k, ans] =>
    -- like `pipe q` (answer, TTL 600, no OPT options from upstream) for a name below d.z<k>
    match clientOpts proto copts with
    | some none => (st, "formerr")
    | none => (st, "bad-op")
    | some (some copts?) =>
    match parseClient c true, qid.toNat?, parseBool cd, k.toNat?, ans.toNat? with
    | some client, some qid, some cd, some k, some ans =>
      qCore { st with zoneOf := (qid, k) :: st.zoneOf } proto client qid cd copts? 600 (some []) ans .success (some k)
    | _, _, _, _, _ => (st, "bad-op")
  | ["pipe", "refreshnx", ans, rcd] =>
    -- every queued refresh is answered NXDOMAIN with a validated proof for d.z<k>;
    -- `rcd`: the answers mirror the refresh query's CD bit (m) or carry a forced one (t / f)
    match ans.toNat?, (if rcd == "m" then some none else (parseBool rcd).map some) with
    | some ans, some rcd =>
      let rec goNx (items : List PfItem) (i : Nat) (entries : Store) (cuts : List Nat) : Store × List Nat :=
        match items with
        | [] => (entries, cuts)
        | it :: rest =>
          let replaced := match storeFn entries it.key with
            | some cur => cur.ans == it.ans && prefetchEligible cur
            | none => false
          let entries' := cacheStep encKey st.ppol st.cap entries (.refresh it.key it.ans 300 (ans + i))
          -- publication happens only after the CAS, and only for trees without ECS / CD
          let cuts' := if replaced && prefetchAdmitsDenial false it.cd it.hadECS it.optEcs (rcd.getD it.cd) then
              (match st.zoneOf.find? (·.1 == it.qid) with
               | some (_, k) => addCut cuts k
               | none => cuts)
            else cuts
          goNx rest (i + 1) entries' cuts'
      let (entries, cuts) := goNx st.pfq 0 st.entries st.cuts
      ({ st with entries := entries, cuts := cuts, pfq := [],
                 claimed := st.claimed.filter (fun a => !(st.pfq.any (·.ans == a))) },
        s!"n={st.pfq.length} cuts={cuts.length}")
    | _, _ => (st, "bad-op")
  | ["pipe", "forge", qid, cd, frm, to] =>
    -- a forged key collision: the entry stored for `frm` also sits under the key of `to`
    match qid.toNat?, parseBool cd, parseScopeTok frm, parseScopeTok to with
    | some qid, some cd, some frm, some to =>
      match storeFn st.entries (encKey qid cd (normScope frm)) with
      | some e => ({ st with entries := insertAt st.entries (encKey qid cd (normScope to)) e }, "ok")
      | none => (st, "none")
    | _, _, _, _ => (st, "bad-op")
  | ["pipe", "sget", _qid, cd, optEcs, mark, byp, k] =>
    match parseBool cd, parseBool optEcs, parseBool mark, parseBool byp, k.toNat? with
    | some cd, some optEcs, some mark, some byp, some k =>
      let v : ReqView := { cd := cd, optEcs := optEcs, markEcs := mark, treeBypass := byp, scopeValid := false }
      (st, s!"hit={boolStr (storeGetConsults v && st.cuts.contains k)}")
    | _, _, _, _, _ => (st, "bad-op")
  | ["pipe", "reject", c, proto, wher, copts] =>
    -- an rcode rejection (`Chain.CancelWithRcode`) by a handler ahead of / behind edns
    match clientOpts proto copts, parseClient c true with
    | some none, _ => (st, "formerr")
    | some (some copts?), some client =>
      if wher == "ahead" then (st, s!"rcode=5 ropt={showOptSet (rejectReplyAhead copts?)}") else
      let f := front st client false copts?
      let ka := (proto == "tcp" || proto == "wtcp" || proto == "rtcp") && f.copts.any (fun o => o.code == 11)
      (st, s!"rcode=5 ropt={showOptSet (rejectReplyBehind f.noedns f.fwd (serverOpts f.copts) ka)}")
    | _, _ => (st, "bad-op")
  | ["pipe", "failover", _c, proto, copts] =>
    -- primary resolution fails; what the fallback servers are asked
    match clientOpts proto copts with
    | some none => (st, "formerr")
    | some (some copts?) => (st, s!"fb={showOpts true (some (fallbackQueryOpts copts?))} rcode=0")
    | none => (st, "bad-op")
  | ["pipe", "badvers", c, _proto, _ver, copts] =>
    match parseClient c true, parseOpts copts with
    | some client, some (some l) =>
      (st, s!"rcode=16 up=f ropt={showOpts true (some (badversReplyOptions st.ppol client l))}")
    | _, _ => (st, "bad-op")
  | ["pipe", "age", _, _] =>
    -- every stored entry object now has a tenth of its lifetime left
    ({ st with aged := st.entries.map (·.2.ans) }, "ok")
  | ["pipe", "pfq"] =>
    -- the held queue is drained and the claims released; scoped entries are never in it
    ({ st with pfq := [], claimed := st.claimed.filter (fun a => !(st.pfq.any (·.ans == a))) },
      s!"n={st.pfq.length} scoped={(st.pfq.filter (fun i => ((storeFn st.entries i.key).bind (·.scope)).isSome)).length}")
  | ["pipe", "refresh", ttl, uopts, ans] =>
    match ttl.toNat?, parseOpts uopts, ans.toNat? with
    | some ttl, some uopts, some ans =>
      let hasEde := (uopts.getD []).any (fun o => o.code == 15)
      -- `processPrefetch` for each queued item, in order; the i-th gets answer `ans + i`
      let rec go (items : List PfItem) (i : Nat) (entries : Store) (ede : List Nat) (ups : List String) :
          Store × List Nat × List String :=
        match items with
        | [] => (entries, ede, ups)
        | it :: rest =>
          let up := showOpts true (some (refreshForwarded st.ppol it.reqOpts))
          -- `ReplaceIfCurrent`: only the entry object that claimed the refresh may be replaced
          let replaced := match storeFn entries it.key with
            | some cur => cur.ans == it.ans && prefetchEligible cur
            | none => false
          go rest (i + 1) (cacheStep encKey st.ppol st.cap entries (.refresh it.key it.ans ttl (ans + i)))
            (if replaced && hasEde then (ans + i) :: ede else ede) (ups ++ [up])
      let (entries, ede, ups) := go st.pfq 0 st.entries st.edeAns []
      ({ st with entries := entries, edeAns := ede, pfq := [],
                 claimed := st.claimed.filter (fun a => !(st.pfq.any (·.ans == a))) },
        s!"n={st.pfq.length} up={"|".intercalate ups}")
    | _, _, _ => (st, "bad-op")
  | ["pipe", "nx", c, proto, _qid, cd, copts, k, rcd] =>
    match clientOpts proto copts with
    | some none => (st, "formerr")
    | none => (st, "bad-op")
    | some (some copts?) =>
    match parseClient c true, parseBool cd, some copts?, k.toNat?, parseBool rcd with
    | some client, some cd, some copts?, some k, some rcd =>
      let f := front st client cd copts?
      if consultsCut f.view && st.cuts.contains k then
        (st, s!"up=f cuts={st.cuts.length}")
      else
        -- `rcd`: the CD bit the downstream response carries (need not mirror the query's)
        let cuts := if admitsDenial f.view rcd then addCut st.cuts k else st.cuts
        ({ st with cuts := cuts }, s!"up=t cuts={cuts.length}")
    | _, _, _, _, _ => (st, "bad-op")
  | ["pipe", "alias", c, proto, _qid, cd, copts, k, rcd] =>
    match clientOpts proto copts with
    | some none => (st, "formerr")
    | none => (st, "bad-op")
    | some (some copts?) =>
    match parseClient c true, parseBool cd, some copts?, k.toNat?, parseBool rcd with
    | some client, some cd, some copts?, some k, some rcd =>
      let f := front st client cd copts?
      -- the chase of the alias target: a fresh message (CD copied from the alias
      -- RESPONSE, no subnet option) under the outer request's context
      let child := childView f.view rcd false false
      if consultsCut child && st.cuts.contains k then
        (st, s!"tgt=f cuts={st.cuts.length}")
      else
        let cuts := if admitsDenial child rcd || admitsDenial f.view rcd then addCut st.cuts k else st.cuts
        ({ st with cuts := cuts }, s!"tgt=t cuts={cuts.length}")
    | _, _, _, _, _ => (st, "bad-op")
  | ["l3", "new", en, f4, f6, m4, m6, nets, cap] =>
    -- the real pipeline edns → cache → iterative resolver; default cache knobs, no prefetch
    match buildFrom en f4 f6 m4 m6 nets, cap.toNat? with
    | some r, some cap => ({ pol := st.pol, ppol := r.policy, cap := cap }, "ok")
    | _, _ => (st, "bad-op")
  | ["l3", "q", c, copts, decl] =>
    match clientOpts "udp" copts, parseClient c true with
    | some (some copts?), some client =>
      let f := front st client false copts?
      -- the leaf authority: "S<bits>" echoes the subnet option it was sent with that SCOPE,
      -- "E…" attaches a fixed option, "-" none; the resolver hands up the request's OPT with
      -- the authority's option in place of the forwarded one
      let auth : Option (List Opt) :=
        if decl.startsWith "S" then
          match firstEcs f.fwd, (decl.drop 1).toNat? with
          | some s, some b => some [.ecs { s with scope := declBits b s.family }]
          | _, _ => some []
        else if decl.startsWith "T" then
          match firstEcs f.fwd, (decl.drop 1).toNat? with
          | some s, some b => some [.ecs { s with mask := declBits b s.family, scope := declBits b s.family }]
          | _, _ => some []
        else if decl == "-" then some []
        else (parseOpt decl).map (fun o => [o])
      match auth with
      | none => (st, "bad-op")
      | some _ =>
        let up := resolverHandUp (some f.fwd) auth
        let (st', out) := qCore st "udp" client 0 false copts? 300 up (st.l3n + 1) .success none
        ((if out.startsWith "up=hit" then st' else { st' with l3n := st.l3n + 1 }), out)
    | _, _ => (st, "bad-op")
  | ["fwd", "new", en, f4, f6, m4, m6, nets, cap] =>
    -- the real pipeline edns → cache → forwarder in front of a scripted ECS-aware upstream
    match buildFrom en f4 f6 m4 m6 nets, cap.toNat? with
    | some r, some cap => ({ pol := st.pol, ppol := r.policy, cap := cap }, "ok")
    | _, _ => (st, "bad-op")
  | ["fwd", "q", c, copts, decl] =>
    match clientOpts "udp" copts, parseClient c true with
    | some (some copts?), some client =>
      let f := front st client false copts?
      -- the leaf authority: "S<bits>" echoes the subnet option it was sent with that SCOPE,
      -- "E…" attaches a fixed option, "-" none; the resolver hands up the request's OPT with
      -- the authority's option in place of the forwarded one
      let auth : Option (List Opt) :=
        if decl.startsWith "S" then
          match firstEcs f.fwd, (decl.drop 1).toNat? with
          | some s, some b => some [.ecs { s with scope := declBits b s.family }]
          | _, _ => some []
        else if decl.startsWith "T" then
          match firstEcs f.fwd, (decl.drop 1).toNat? with
          | some s, some b => some [.ecs { s with mask := declBits b s.family, scope := declBits b s.family }]
          | _, _ => some []
        else if decl == "-" then some []
        else (parseOpt decl).map (fun o => [o])
      match auth with
      | none => (st, "bad-op")
      | some _ =>
        -- the forwarder hands the upstream's response up as it came: its OPT, its declared scope
        let up := forwarderHandUp auth
        let (st', out) := qCore st "udp" client 0 false copts? 300 up (st.l3n + 1) .success none
        ((if out.startsWith "up=hit" then st' else { st' with l3n := st.l3n + 1 }), out)
    | _, _ => (st, "bad-op")
  | "l3" :: _ => (st, "unmodelled")
  | _ => (st, "bad-op")

end Driver.C19
