import Driver.Loop
import Driver.C12
def main : IO Unit := Driver.runLoop ({} : Driver.C12.State) Driver.C12.step
