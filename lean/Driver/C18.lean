import SdnsVerif.Model.Util
import SdnsVerif.Model.Blocklist
/-! Line protocol for the `bl` ops of C18 (see harness/c18/main.go for the vocabulary). -/
namespace Driver.C18
open SdnsVerif.Model SdnsVerif.Model.Blocklist SdnsVerif.Model.Util

structure State where
  cfg : Cfg := { nullroute := [], null6route := [] }
  ps : PState := {}
  /-- every reply handed to a writer in this case, oldest first -/
  replies : List Outcome := []
  /-- the case talks to the list through the HTTP API; a bearer token is configured -/
  apiToken : Bool := false

def hexStr (s : String) : Option Str :=
  (hexBytes s).map (fun bs => bs.map (fun b => Char.ofNat b.toNat))

def strHex (s : Str) : String := bytesHex (s.map (fun c => UInt8.ofNat c.toNat))

/-- `_` = empty list, otherwise comma separated hex strings (`-` = the empty string). -/
def hexList (s : String) : Option (List Str) :=
  if s == "_" then some [] else (s.splitOn ",").mapM hexStr

def sortStrings (l : List String) : List String := (l.toArray.qsort (· < ·)).toList

def listHex (l : List Str) : String :=
  if l.isEmpty then "_" else ",".intercalate (sortStrings (l.map strHex))

def memStr (b : Mem) : String := s!"m={listHex b.m} wild={listHex b.wild}"

/-- split at `\n`, dropping the empty piece after a final newline (harness `fileCanon`). -/
def splitNL (s : Str) : List Str :=
  let rec go : Str → Str → List Str
    | [], cur => if cur = [] then [] else [cur.reverse]
    | c :: t, cur => if c = '\n' then cur.reverse :: go t [] else go t (c :: cur)
  go s []

def fileStr : Option (List Str) → String
  | none => "file=none"
  | some [] => "file=f:_"
  | some (h :: t) =>
    if h = headerLine then s!"file=t:{listHex t}" else s!"file=f:{listHex (h :: t)}"

def faultCode (s : String) : Option Nat :=
  if s == "ok" then some 0 else if s == "nodir" then some 1 else if s == "fsize" then some 2
  else if s == "destdir" then some 5 else none

def parseMut (kind arg : String) : Option MutOp :=
  if kind == "set" then (hexStr arg).map .set
  else if kind == "remove" then (hexStr arg).map .remove
  else if kind == "setbatch" then (hexList arg).map .setBatch
  else if kind == "removebatch" then (hexList arg).map .removeBatch
  else none

def countStr (op : MutOp) (n : Nat) : String :=
  match op with
  | .set _ | .remove _ => boolStr (n > 0)
  | _ => toString n

def serveStr (o : Outcome) : String :=
  match o.written with
  | none => if o.next && !o.cancelled then "next" else "dropped"
  | some r =>
    let head := if !o.next && o.cancelled then "block" else "block-and-continue"
    match r.answer, r.ns with
    | [a], [] => s!"{head} rcode={r.rcode} aa={boolStr r.authoritative} ra={boolStr r.recursionAvailable} an={a.rrtype}:{String.ofList a.data}:{a.ttl} ns=-"
    | [], [n] => s!"{head} rcode={r.rcode} aa={boolStr r.authoritative} ra={boolStr r.recursionAvailable} an=- ns={n.rrtype}:{n.ttl}"
    | _, _ => s!"{head} odd"

/-- owner/type of the one record of every reply handed out so far (`n` = passed on). -/
def heldStr (log : List Outcome) : String :=
  if log.isEmpty then "_" else
  ",".intercalate (log.map fun o =>
    match o.written with
    | none => "n"
    | some r =>
      match r.answer ++ r.ns with
      | [rr] => s!"{strHex rr.name}/{rr.rrtype}"
      | _ => "odd")

def step (st : State) (w : List String) : State × String :=
  match w with
  | ["bl", "new", n4, n6, wl, bl, file] =>
    match hexList wl, hexList bl with
    | some wl, some bl =>
      let mem0 := loadConfig wl bl
      if file == "_" then
        let ps : PState := { mem := mem0 }
        ({ cfg := { nullroute := n4.toList, null6route := n6.toList }, ps := ps, replies := [] }, memStr mem0)
      else match hexStr file with
        | some text =>
          let mem := parseHostFile mem0 text
          let ps : PState := { mem := mem, main := some (splitNL text) }
          ({ cfg := { nullroute := n4.toList, null6route := n6.toList }, ps := ps, replies := [] }, memStr mem)
        | none => (st, "bad-op")
    | _, _ => (st, "bad-op")
  | ["bl", kind, arg] =>
    if kind == "viaapi" then ({ st with apiToken := arg != "-" }, "ok")
    else if kind == "apiempty" then
      let req : ApiReq := if arg == "setbatch" then .setBatch [] else .removeBatch []
      let ps := apiStep true st.ps req
      ({ st with ps := ps }, s!"status={apiStatus true st.ps.mem req}")
    else if kind == "get" then
      match hexStr arg with
      | some k => (st, s!"{boolStr (getExact st.ps.mem k)} status={apiStatus true st.ps.mem (.getKey k)}")
      | none => (st, "bad-op")
    else if kind == "exists" then
      match hexStr arg with
      | some k => (st, boolStr («exists» st.ps.mem k))
      | none => (st, "bad-op")
    else if kind == "loadfile" then
      match hexStr arg with
      | some text => (st, memStr (parseHostFile { w := st.ps.mem.w } text))
      | none => (st, "bad-op")
    else if kind.startsWith "m" && kind != "m" then
      -- mutate only: the snapshot stays pending
      match parseMut (kind.drop 1).toString arg with
      | some op =>
        let n := applyOpCount st.ps.mem op
        let ps := Blocklist.step st.ps (.mutate op)
        ({ st with ps := ps }, s!"{countStr op n} v={ps.version}")
      | none => (st, "bad-op")
    else
      -- the whole API call: mutate, then persist its own snapshot
      match parseMut kind arg with
      | some op =>
        let n := applyOpCount st.ps.mem op
        let ps := Blocklist.step st.ps (.mutate op)
        let ps := if ps.version > st.ps.version
          then run ps (persistSteps ps (ps.pending.length - 1) 0) else ps
        ({ st with ps := ps }, countStr op n)
      | none => (st, "bad-op")
  | ["bl", "dirload", mainArg, arg] =>
    -- readBlocklists over <dir> = main file (lines in this order) + a staging file with this content
    let temps : Option (List (List Str)) :=
      if arg == "_" then some [] else (hexStr arg).map (fun t => [splitNL t])
    let main : Option (Option (List Str)) :=
      if mainArg == "_" then some st.ps.main else (hexStr mainArg).map (fun t => some (splitNL t))
    match temps, main with
    | some temps, some main =>
      let mem' := dirLoadMem st.ps.mem main temps
      let ps := { st.ps with mem := mem', main := main, dirty := st.ps.dirty || decide (mem' ≠ st.ps.mem) }
      ({ st with ps := ps }, s!"{memStr mem'} files=intact")
    | _, _ => (st, "bad-op")
  | ["bl", "fresh", a, b] =>
    -- fresh install: New (= restart over nothing) creates the missing directory
    match hexStr a, hexStr b with
    | some ka, some kb =>
      let api (ps : PState) (k : Str) : PState :=
        let ps' := Blocklist.step ps (.mutate (.set k))
        if ps'.version > ps.version then run ps' (persistSteps ps' (ps'.pending.length - 1) 0) else ps'
      let s1 := api (restart [] [] { dirMissing := true }) ka
      let s2 := api (Blocklist.step s1 .mkdir) kb
      (st, s!"first={fileStr s1.main} second={fileStr s2.main}")
    | _, _ => (st, "bad-op")
  | ["bl", "remote", mainArg, status, text] =>
    -- the downloaded file ("<host>-<hash>.<n>.tmp") sorts before "local": it is parsed first
    let main : Option (Option (List Str)) :=
      if mainArg == "_" then some st.ps.main else (hexStr mainArg).map (fun t => some (splitNL t))
    match main, hexStr text with
    | some main, some t =>
      let m0 := if status == "200" then parseHostFile st.ps.mem t else st.ps.mem
      let mem' := dirLoadMem m0 main []
      let ps := { st.ps with mem := mem', main := main, dirty := st.ps.dirty || decide (mem' ≠ st.ps.mem) }
      ({ st with ps := ps }, s!"{memStr mem'} files=intact")
    | _, _ => (st, "bad-op")
  | ["bl", "restart", mainArg, arg] =>
    -- probe: the process is killed now (stranding this staging file) and New runs over the directory
    let temps : Option (List (List Str)) :=
      if arg == "_" then some [] else (hexStr arg).map (fun t => [splitNL t])
    let main : Option (Option (List Str)) :=
      if mainArg == "_" then some none else (hexStr mainArg).map (fun t => some (splitNL t))
    match temps, main with
    | some temps, some main =>
      let r := restart st.ps.mem.w [] { st.ps with inflight := none, orphans := temps, main := main }
      (st, s!"{memStr r.mem} files=intact")
    | _, _ => (st, "bad-op")
  | ["bl", "persist", ver, fault] =>
    match ver.toNat?, faultCode fault with
    | some v, some fc =>
      match st.ps.pending.findIdx? (fun s => s.version == v) with
      | some i =>
        let ps := run st.ps (persistSteps st.ps i fc)
        ({ st with ps := ps }, s!"lp={ps.lastPersisted} {fileStr ps.main}")
      | none => (st, "bad-op")
    | _, _ => (st, "bad-op")
  | ["bl", "persistrace", _order, a, b] =>
    -- two Set-mutations, then both persists; whatever the order, the newest version wins
    match hexStr a, hexStr b with
    | some ka, some kb =>
      let v0 := st.ps.version
      let ps := Blocklist.step (Blocklist.step st.ps (.mutate (.set ka))) (.mutate (.set kb))
      let persistVer (ps : PState) (v : Nat) : PState :=
        if v > v0 then
          match ps.pending.findIdx? (fun s => s.version == v) with
          | some i => run ps (persistSteps ps i 0)
          | none => ps
        else ps
      let ps := persistVer ps ps.version
      let ps := persistVer ps (ps.version - 1)
      ({ st with ps := ps }, s!"lp={ps.lastPersisted} {fileStr ps.main}")
    | _, _ => (st, "bad-op")
  | ["bl", "iserve", name, qt] =>
    -- internal sub-query: the blocklist is part of the sub-pipeline, same decision and reply
    match hexStr name, qt.toNat? with
    | some q, some t => (st, serveStr (serveDNS st.cfg st.ps.mem q t))
    | _, _ => (st, "bad-op")
  | ["bl", "linkmain"] =>
    -- the main file becomes a symbolic link to the same content (an absent file: to an empty complete list)
    let main := match st.ps.main with
      | none => some [headerLine]
      | m => m
    ({ st with ps := { st.ps with main := main } }, "ok")
  | ["bl", "len"] => (st, s!"len={st.ps.mem.length} ver={st.ps.version} lp={st.ps.lastPersisted}")
  | ["bl", "bulk", kind, n, sfx] =>
    match n.toNat?, hexStr sfx with
    | some n, some sfx =>
      let ks := (List.range n).map fun i => (toString i).toList ++ '.' :: sfx
      let op : MutOp := if kind == "set" then .setBatch ks else .removeBatch ks
      let cnt := applyOpCount st.ps.mem op
      let ps := Blocklist.step st.ps (.mutate op)
      let ps := if ps.version > st.ps.version
        then run ps (persistSteps ps (ps.pending.length - 1) 0) else ps
      ({ st with ps := ps }, toString cnt)
    | _, _ => (st, "bad-op")
  | ["bl", "wserve", name, qt] =>
    -- wire-born request: the handler's decision and reply are those of the message-born one
    match hexStr name, qt.toNat? with
    | some q, some t =>
      let log := serveLog st.cfg st.ps.mem st.replies q t
      ({ st with replies := log }, serveStr (serveDNS st.cfg st.ps.mem q t))
    | _, _ => (st, "bad-op")
  | ["bl", "serve", name, qt] =>
    match hexStr name, qt.toNat? with
    | some q, some t =>
      let log := serveLog st.cfg st.ps.mem st.replies q t
      ({ st with replies := log }, serveStr (serveDNS st.cfg st.ps.mem q t))
    | _, _ => (st, "bad-op")
  | ["bl", "held"] => (st, heldStr st.replies)
  | ["bl", "apibody", kind, variant, _key] =>
    -- a batch request whose body readBatchKeys refuses
    let body : Option BatchBody :=
      if variant == "malformed" || variant == "wrongtype" then some .malformed
      else if variant == "unknown" then some .unknownField
      else if variant == "toolarge" then some .tooLarge
      else if variant == "nullkeys" || variant == "emptyobj" then some (.keys [])
      else none
    match body with
    | some body =>
      let r := apiBatch true (kind == "set") st.ps body
      ({ st with ps := r.1 }, s!"status={r.2}")
    | none => (st, "bad-op")
  | ["bl", "apideny", kind, arg] =>
    -- a request without / with a wrong bearer token: 401, nothing happens
    let req : Option ApiReq :=
      if kind == "set" then (hexStr arg).map .setKey
      else if kind == "remove" then (hexStr arg).map .removeKey
      else if kind == "exists" then (hexStr arg).map .existsKey
      else if kind == "get" then (hexStr arg).map .getKey
      else if kind == "setbatch" then (hexList arg).map .setBatch
      else if kind == "removebatch" then (hexList arg).map .removeBatch
      else none
    match req with
    | some req =>
      if st.apiToken then
        let ps := apiStep false st.ps req
        ({ st with ps := ps }, s!"status={apiStatus false st.ps.mem req}")
      else (st, "bad-op")
    | none => (st, "bad-op")
  | ["bl", "cserve", qt, names] =>
    -- the order in which concurrent queries are served does not matter: each is answered on its own
    match qt.toNat?, hexList names with
    | some t, some ns =>
      let k := (ns.filter fun n => !(serveDNS st.cfg st.ps.mem n t).next).length
      (st, s!"blocked={k} of {ns.length}")
    | _, _ => (st, "bad-op")
  | ["bl", "state"] =>
    (st, s!"{memStr st.ps.mem} w={listHex st.ps.mem.w} len={st.ps.mem.length} ver={st.ps.version} lp={st.ps.lastPersisted}")
  | ["bl", "file"] => (st, fileStr st.ps.main)
  | ["bl", "reload"] =>
    match st.ps.main with
    | none => (st, "nofile")
    | some _ =>
      -- memory written in the order that is worst for the loader (shortest names first), reloaded
      let mem := st.ps.mem
      let byLen (l : List Str) : List Str :=
        (l.toArray.qsort (fun a b => a.length < b.length || (a.length == b.length && strHex a < strHex b))).toList
      let adv := headerLine :: (byLen mem.m ++ (byLen mem.wild).map (fun x => '*' :: '.' :: x))
      let r := parseHostFile { w := mem.w } (fileText adv)
      let exact := memStr r == memStr mem
      let zz : Str := "zz.".toList
      let probesOf (e : Str) : List Str :=
        let parent := (e.dropWhile (· ≠ '.')).drop 1
        [e, zz ++ e, ("a.".toList ++ zz) ++ e] ++ (if parent.isEmpty then [] else [parent])
      let probes := [".".toList, zz] ++ mem.m.flatMap probesOf ++
        mem.wild.flatMap (fun x => probesOf x ++ ['*' :: '.' :: x])
      let equiv := probes.all (fun p => «exists» r p == «exists» mem p)
      (st, s!"equiv={boolStr equiv} exact={boolStr exact}")
  | "bl" :: "conc" :: _ => (st, "unmodelled")
  | "bl" :: "crash" :: _ => (st, "unmodelled")
  | "bl" :: "realnew" :: _ => (st, "unmodelled")
  | _ => (st, "bad-op")

end Driver.C18
