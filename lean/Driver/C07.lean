import SdnsVerif.Model.Util
import SdnsVerif.Model.Bailiwick
/-! Line protocol for the function-level ops of C07 (`name`, `xchg`, `glue`,
`ref`, `prog`, `cachef`, `clr`); the system-level `l3` ops are judged by the
Go oracle only. -/
namespace Driver.C07
open SdnsVerif.Model SdnsVerif.Model.Bailiwick SdnsVerif.Model.Util

structure State where
  locals : List IP := []
  deleg : DelegState := {}

def str (s : String) : Str := s.toList
def unstr (s : Str) : String := String.ofList s

def listOf (s : String) (sep : String) : List String :=
  if s == "-" || s == "" then [] else s.splitOn sep

def dash (l : List String) : String := if l.isEmpty then "-" else ",".intercalate l

def insertSorted (x : String) : List String → List String
  | [] => [x]
  | y :: t => if x < y then x :: y :: t else if x == y then y :: t else y :: insertSorted x t

/-- sorted, duplicates removed (Go: keys of a map, `sort.Strings`). -/
def sortUniq (l : List String) : List String := l.foldl (fun acc x => insertSorted x acc) []

def parseQ (s : String) : Option Question :=
  match s.splitOn "/" with
  | [n, t, c] => do
    let t ← t.toNat?
    let c ← c.toNat?
    some { name := str n, qtype := t, qclass := c }
  | _ => none

def parseCand (s : String) : Option Cand :=
  if s == "e" || s == "s" then some { bad := true } else
  match s.splitOn ":" with
  | [idf, qs] => do
    -- header flags (t a n s f x) ride behind the id; the model carries them as one word
    let digits := idf.toList.takeWhile Char.isDigit
    let flags := idf.toList.dropWhile Char.isDigit
    let id ← (String.ofList digits).toNat?
    let qs ← (listOf qs "+").mapM parseQ
    some { id := id, qs := qs, hdr := flags.foldl (fun a c => a * 256 + c.toNat) 0, tc := flags.contains 't' }
  | _ => none

def parseExtra (s : String) : Option Extra :=
  match s.splitOn "/" with
  | [o, t, a] => do
    let a ← hexBytes a
    some { owner := str o, rtype := (if t == "A" then 1 else if t == "AAAA" then 28 else 16), addr := a }
  | _ => none

def parseAuth (s : String) : Option AuthRR :=
  match s.splitOn "/" with
  | ["S"] => some AuthRR.soa
  | ["R"] => some AuthRR.proof
  | ["C"] => some AuthRR.proof
  | ["3"] => some AuthRR.proof
  | ["D"] => some AuthRR.other
  | ["O", _] => some AuthRR.other
  | ["N", o, c, t, h] => do
    let c ← c.toNat?
    let t ← t.toNat?
    some (AuthRR.ns (str o) c t (str h))
  | _ => none

def parseAns (s : String) : Option AnsRR :=
  match s.splitOn "/" with
  | [o, t, c] => do
    let t ← t.toNat?
    let c ← c.toNat?
    some { owner := str o, rtype := t, covered := c }
  | [o, t, c, _target] => do
    let t ← t.toNat?
    let c ← c.toNat?
    some { owner := str o, rtype := t, covered := c }
  | _ => none

def parseCh (s : String) : Option ChRR :=
  match s.splitOn "/" with
  | [o, t] => do
    let t ← t.toNat?
    some { owner := str o, rtype := t }
  | [o, t, g] => do
    let t ← t.toNat?
    some { owner := str o, rtype := t, target := str g }
  | _ => none

def chStr (r : ChRR) : String :=
  if r.rtype == 5 then s!"{unstr r.owner}/{r.rtype}/{unstr r.target}" else s!"{unstr r.owner}/{r.rtype}"

/-- `target=L | target=F | target=R<rcode>:<ns>:<rr+rr…>`; the first entry for a target counts. -/
def parseSub (s : String) : Option (Str × SubResult) :=
  match s.splitOn "=" with
  | [name, val] =>
    if val == "L" then some (str name, SubResult.limit)
    else if val == "F" then some (str name, SubResult.fail)
    else if val.startsWith "R" then
      match (val.drop 1).toString.splitOn ":" with
      | [rc, ns, recs] => do
        let rc ← rc.toNat?
        let ns ← ns.toNat?
        let rs ← (listOf recs "+").mapM parseCh
        some (str name, SubResult.resp { rcode := rc, answer := rs, nsCount := ns })
      | _ => none
    else none
  | _ => none

def keptIdx {α : Type} (keep : α → Bool) (l : List α) : List String :=
  (l.zipIdx.filter (fun p => keep p.1)).map (fun p => toString p.2)

def cacheStr (acc : List (Str × IP)) : String :=
  let names := sortUniq (acc.map (fun p => unstr p.1))
  dash (names.map fun n =>
    let addrs := dedup ((acc.filter (fun p => unstr p.1 == n)).map (·.2))
    n ++ "=" ++ "+".intercalate (addrs.map bytesHex))

def xresStr : XRes → String
  | XRes.ok i => s!"ok {i}"
  | XRes.errRead => "err read"
  | XRes.errId => "err id"
  | XRes.errQuestion => "err question"

def step (st : State) (w : List String) : State × String :=
  match w with
  | ["name", "cmp", a, b] =>
    let la := labelsOf (str a)
    let lb := labelsOf (str b)
    (st, s!"n={compareSuffix la lb} sub={boolStr (sub la lb)} la={la.length} lb={lb.length}")
  | ["xchg", "run", proto, qid, q, cands] =>
    match qid.toNat?, (if q == "-" then some none else (parseQ q).map some), (listOf cands ";").mapM parseCand with
    | some qid, some q, some cs =>
      let (r, used) := exchange (proto == "udp") qid q cs
      (st, s!"{xresStr r} used={used}")
    | _, _, _ => (st, "bad-op")
  | ["cli", "run", qid, q, ucs, tcs, skipq] =>
    match qid.toNat?, (if q == "-" then some none else (parseQ q).map some), (listOf ucs ";").mapM parseCand,
          (listOf tcs ";").mapM parseCand, parseBool skipq with
    | some qid, some q, some us, some ts, some sk =>
      (st, match clientExchange qid q sk us ts with
        | CliRes.err e => xresStr e
        | CliRes.udp i => s!"ok u{i}"
        | CliRes.tcp j => s!"ok t{j}")
    | _, _, _, _, _ => (st, "bad-op")
  | ["scache", "run", zones, qname, qtype] =>
    let cached := (listOf zones ",").map fun z => lower (str z)
    let (found, level) := searchCache cached (str qname) (qtype == "43")
    (st, s!"zone={unstr (lower (nameText found))} level={level}")
  | ["doh", "run", qid, q, cand, skipq] =>
    let c : Option Cand := if cand == "h" || cand == "c" then some { bad := true } else parseCand cand
    match qid.toNat?, (if q == "-" then some none else (parseQ q).map some), c, parseBool skipq with
    | some qid, some q, some c, some sk => (st, xresStr (dohExchange qid q sk c))
    | _, _, _, _ => (st, "bad-op")
  | ["glue", "new", ls] =>
    match (listOf ls ",").mapM hexBytes with
    | some l => ({ st with locals := l.filterMap unmap }, "ok")
    | none => (st, "bad-op")
  | ["glue", "usable", h] =>
    match hexBytes h with
    | some ip => (st, match usableAddr st.locals ip with
        | some a => "ok " ++ bytesHex a
        | none => "rej")
    | none => (st, "bad-op")
  | ["glue", "run", v6, level, qname, hosts, extras] =>
    match parseBool v6, level.toNat?, (listOf extras ";").mapM parseExtra with
    | some v6, some level, some es =>
      let r := checkGlue st.locals v6 level (str qname) ((listOf hosts ",").map str) es
      let names (l : List (Str × IP)) := dash (sortUniq (l.map (fun p => unstr p.1)))
      (st, s!"srv={dash (r.servers.map bytesHex)} f4={names r.v4} f6={names r.v6} c4={cacheStr r.v4} c6={cacheStr r.v6}")
    | _, _, _ => (st, "bad-op")
  | ["ref", "run", auth, qname, _qtype, qclass, ns] =>
    match qclass.toNat?, (listOf ns ";").mapM parseAuth with
    | some qclass, some rrs =>
      let info := extractDelegationInfo rrs
      let valid := validReferral info (str auth) (str qname) qclass
      let (owner, cls, prog) := match info.ns with
        | none => ("-", 0, "-")
        | some (o, c) => (unstr o, c, boolStr (progressingReferral o (str auth) (str qname)))
      let kept := keptIdx keepAuthority rrs
      (st, s!"ns={owner} cls={cls} ttl={info.ttl} hosts={dash (sortUniq (info.hosts.map unstr))} soa={boolStr info.hasSOA} inc={boolStr info.incoherent} prog={prog} valid={boolStr valid} filt={dash kept}")
    | _, _ => (st, "bad-op")
  | ["prog", "run", r, a, q] => (st, boolStr (progressingReferral (str r) (str a) (str q)))
  | ["cachef", "run", qname, answers] =>
    match (listOf answers ";").mapM parseAns with
    | some as => (st, "keep=" ++ dash (keptIdx (keepCacheable (str qname)) as))
    | none => (st, "bad-op")
  | ["relay", "run", zone, answers] =>
    match (listOf answers ";").mapM parseAns with
    | some as => (st, "keep=" ++ dash (keptIdx (fun r => nameInZone (lower r.owner) (lower (str zone))) as))
    | none => (st, "bad-op")
  | ["deleg", "new"] => ({ st with deleg := {} }, "ok")
  | ["deleg", "ref", auth, level, qname, qclass, ns, extras, subs] =>
    let subP : Option (List (Str × Option (List AddrRR))) := (listOf subs "|").mapM fun e =>
      match e.splitOn "=" with
      | [name, val] =>
        if val == "F" then some (lower (str name), none)
        else if val.startsWith "R" then
          let body := ((val.drop 1).toString.dropWhile (· == ':')).toString
          ((listOf body "+").mapM parseExtra).map fun es =>
            (lower (str name), some (es.map fun x => ({ owner := x.owner, rtype := x.rtype, addr := x.addr } : AddrRR)))
        else none
      | _ => none
    match level.toNat?, qclass.toNat?, (listOf ns ";").mapM parseAuth, (listOf extras ";").mapM parseExtra, subP with
    | some level, some qclass, some rrs, some es, some sb =>
      -- the first entry for a host counts
      let sb1 := sb.foldl (fun acc p => if acc.any (fun q => q.1 == p.1) then acc else acc ++ [p]) []
      let (d, res) := delegStep st.locals st.deleg
        { authZone := str auth, level := level, qname := str qname, qclass := qclass, ns := rrs, extras := es, subs := sb1 }
      let fmt (l : List (Str × List IP)) (sortAddrs : Bool) : String :=
        let keys := sortUniq (l.map fun p => unstr p.1)
        dash (keys.map fun k =>
          let addrs := ((getKey l (str k)).getD []).map bytesHex
          k ++ "=" ++ "+".intercalate (if sortAddrs then sortUniq addrs else addrs))
      ({ st with deleg := d }, s!"res={res} d={fmt d.delegs true} g={fmt d.glue4 false}")
    | _, _, _, _, _ => (st, "bad-op")
  | ["fallback", "run", rcs, ncfg, fatal] =>
    match (listOf rcs ",").mapM String.toNat?, ncfg.toNat? with
    | some rs, some nc =>
      let fk : List FatalKind := (if fatal == "-" then [] else fatal.toList).map fun c =>
        if c == 'w' then FatalKind.workLimit else if c == 'a' then FatalKind.attemptLimit else FatalKind.network
      (st, match pickFallback rs nc fk with
        | Fallback.resp i => s!"resp {i}"
        | Fallback.config i => s!"config {i}"
        | Fallback.err k => s!"err {k}")
    | _, _ => (st, "bad-op")
  | ["nslookup", "run", v6, level, qname, hosts, extras, host, v6lookup, sub] =>
    let subP : Option (Option (List AddrRR)) :=
      if sub == "F" then some none
      else match (sub.drop 1).toString.splitOn ":" with
        | [_rc, rrs] => ((listOf rrs "+").mapM parseExtra).map fun es =>
            some (es.map fun e => ({ owner := e.owner, rtype := e.rtype, addr := e.addr } : AddrRR))
        | _ => none
    match parseBool v6, level.toNat?, (listOf extras ";").mapM parseExtra, parseBool v6lookup, subP with
    | some v6, some level, some es, some v6l, some subR =>
      let g := checkGlue st.locals v6 level (str qname) ((listOf hosts ",").map str) es
      let cached := glueCached (if v6l then g.v6 else g.v4) (str host)
      match lookupNSAddr st.locals cached subR with
      | some l => (st, "addrs=" ++ dash (l.map bytesHex))
      | none => (st, "err")
    | _, _, _, _, _ => (st, "bad-op")
  | ["nsaddr", "run", rrs] =>
    match (listOf rrs ";").mapM parseExtra with
    | some es =>
      let l := searchAddrs st.locals (es.map fun e => { owner := e.owner, rtype := e.rtype, addr := e.addr })
      (st, "addrs=" ++ dash (l.map bytesHex))
    | none => (st, "bad-op")
  | ["chase", "run", qname, qtype, rcode, answer, script] =>
    match qtype.toNat?, rcode.toNat?, (listOf answer ";").mapM parseCh, (listOf script ";").mapM parseSub with
    | some qt, some rc, some ans, some subs =>
      let resolve : Str → SubResult := fun t =>
        match subs.find? (fun p => p.1 == t) with
        | some p => p.2
        | none => SubResult.fail
      let out := additionalAnswer resolve (str qname) qt rc ans
      (st, s!"rcode={out.rcode} an={dash (out.answer.map chStr)} asked={dash (out.asked.map unstr)}")
    | _, _, _, _ => (st, "bad-op")
  | ["clr", "run", edns, flag, nns, nextra] =>
    match parseBool edns, nns.toNat?, nextra.toNat? with
    | some e, some n, some x =>
      let (a, b, c) := clearAdditional e (flag == "t") n x
      (st, s!"ns={a} extra={b} opt={boolStr c} ans=1")
    | _, _, _ => (st, "bad-op")
  | "l3" :: _ => (st, "unmodelled")
  | _ => (st, "bad-op")

end Driver.C07
