import Driver.Loop
import Driver.C11
def main : IO Unit := Driver.runLoop ({} : Driver.C11.State) Driver.C11.step
