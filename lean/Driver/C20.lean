import SdnsVerif.Model.Util
import SdnsVerif.Model.Dns64
/-! Line protocol for the `pfx` (RFC 6052 helpers) and `d64` (middleware) ops of C20. -/
namespace Driver.C20
open SdnsVerif.Model SdnsVerif.Model.Dns64 SdnsVerif.Model.Util

structure State where
  cfg : Cfg := {}

def nameOfHex (s : String) : Option Name :=
  if s == "e" then some [] else (hexBytes s).map fun bs => bs.map fun b => Char.ofNat b.toNat

def hexOfName (n : Name) : String :=
  if n.isEmpty then "e" else bytesHex (n.map fun c => UInt8.ofNat c.toNat)

def listOf (s : String) : List String := if s == "-" then [] else s.splitOn ","

def parseEnt (s : String) : Option Ent :=
  if s == "bad" then some .bad else
  match s.splitOn ":" with
  | [fam, rest] =>
    match rest.splitOn "/" with
    | [h, b] => do
      let ip ← hexBytes h
      let bits ← b.toNat?
      if fam == "4" then some (.v4 ip bits) else if fam == "6" then some (.v6 ip bits) else none
    | _ => none
  | _ => none

def parseEnts (s : String) : Option (List Ent) := (listOf s).mapM parseEnt

def parseOptEnts (s : String) : Option (Option (List Ent)) :=
  if s == "nil" then some none else (parseEnts s).map some

def parseRR (s : String) : Option RR :=
  if s == "O" then some optRR else
  match s.splitOn "/" with
  | [k, ttl, o] => do
    let t ← ttl.toNat?
    if k == "r" then some { kind := 'r', ttl := t, owner := o }
    else if k == "o" then some { kind := 'o', ttl := t, owner := o } else none
  | [k, ttl, o, x] => do
    let t ← ttl.toNat?
    if k == "c" then some { kind := 'c', ttl := t, owner := o, target := x }
    else if k == "d" then some { kind := 'd', ttl := t, owner := o, target := x }
    else if k == "4" then (hexBytes x).map fun ip => { kind := '4', ttl := t, owner := o, ip := ip }
    else if k == "6" then (hexBytes x).map fun ip => { kind := '6', ttl := t, owner := o, ip := ip }
    else if k == "s" then some { kind := 's', ttl := t, owner := o, target := x }
    else none
  | _ => none

def parseRRs (s : String) : Option (List RR) := (listOf s).mapM parseRR

def showRR (r : RR) : String :=
  if r.kind == 'O' then "O" else
  let base := s!"{r.kind}/{r.ttl}/{r.owner}"
  if r.kind == 'c' || r.kind == 'd' || r.kind == 's' then base ++ "/" ++ r.target
  else if r.kind == '4' || r.kind == '6' then base ++ "/" ++ bytesHex r.ip
  else base

def showRRs (l : List RR) : String := if l.isEmpty then "-" else ",".intercalate (l.map showRR)

def flagsOf (s : String) (n : Nat) : Option (List Bool) :=
  let cs := s.toList
  if cs.length != n then none else cs.mapM fun c => if c == 't' then some true else if c == 'f' then some false else none

def parseSoa (s : String) : Option (Nat × Nat) :=
  match s.splitOn "/" with
  | [a, b] => do some ((← a.toNat?), (← b.toNat?))
  | _ => none

def mkDown (rc fl edes mark ans soas extra : String) : Option (Option Down) := do
  let rcode ← rc.toNat?
  let f ← flagsOf fl 4
  let es ← (listOf edes).mapM (·.toNat?)
  let a ← parseRRs ans
  let ss ← (listOf soas).mapM parseSoa
  let ex ← parseRRs extra
  let mk ← (if mark == "n" then some Mark.none else if mark == "c" then some Mark.cached
            else if mark == "a" then some Mark.attempt else if mark == "l" || mark == "k" || mark == "p" || mark == "s" || mark == "m" || mark == "r"
            then some Mark.other else none)
  match f with
  | [ad, tc, opt, hasQ] =>
    some (some { rcode := rcode, ad := ad, tc := tc, opt := opt, hasQ := hasQ,
                 edes := if opt then es else [], mark := mk, ans := a, soas := ss, extra := ex })
  | _ => none

def parseDown (s : String) : Option (Option Down) :=
  if s == "-" then some none else
  match s.splitOn ";" with
  | [rc, fl, edes, mark, ans, soas] => mkDown rc fl edes mark ans soas "-"
  | [rc, fl, edes, mark, ans, soas, extra] => mkDown rc fl edes mark ans soas extra
  | _ => none

def mkAResp (e rc ans ns extra : String) : Option AResp := do
  let rcode ← rc.toNat?
  let a ← parseRRs ans
  let n ← parseRRs ns
  let x ← parseRRs extra
  let ek ← (if e == "n" then some AErr.none else if e == "g" then some AErr.generic
            else if e == "a" then some AErr.attempt else if e == "w" then some AErr.work
            else if e == "x" then some AErr.nilResp else if e == "q" then some AErr.noQueryer else none)
  some { err := ek, rcode := rcode, ans := a, ns := n, extra := x }

def parseAResp (s : String) : Option AResp :=
  match s.splitOn ";" with
  | [e, rc, ans] => mkAResp e rc ans "-" "-"
  | [e, rc, ans, ns, extra] => mkAResp e rc ans ns extra
  | _ => none

/-- the queried name: `w:<hex of the uncompressed wire name>` (rendered the way
miekg renders it) or, legacy, the hex of a presentation string. -/
def parseQName (s : String) : Option Name :=
  if s.startsWith "w:" then do
    let bs ← hexBytes (s.drop 2).toString
    let ls ← parseWireName 130 bs
    some (present ls)
  else nameOfHex s

def parseFlags (s : String) : Option (List Bool) :=
  if s.length == 4 then (flagsOf s 4).map (· ++ [false, false, false, false])
  else if s.length == 7 then (flagsOf s 7).map (· ++ [false]) else flagsOf s 8

def parseClient (s : String) : Option IP :=
  match s.splitOn ":" with
  | [_, h] => hexBytes h
  | _ => none

def showReply (q : Query) (r : Reply) : String :=
  if r.kind == .none then "none" else
  s!"same={boolStr (r.kind == .pass)} rc={r.rcode} ad={boolStr r.ad} aq={r.aq}{if subQueryCD q r.aq then "cd" else ""} ede4={boolStr r.ede4} ans={showRRs r.ans} ns={showRRs r.ns} ex={showRRs r.extra}"

def showPErr : PErr → String
  | .ok => "ok" | .v4 => "v4" | .len => "len" | .byte8 => "byte8"

def showPrefix (p : Prefix) : String :=
  s!"{bytesHex p.net.ip}/{p.net.bits}/{if p.wellKnown then "w" else "n"}"

def step (st : State) (w : List String) : State × String :=
  match w with
  | ["pfx", "validate", fam, h, b] =>
    match hexBytes h, b.toNat? with
    | some ip, some bits => (st, showPErr (validatePrefix ⟨ip, bits, fam == "6"⟩))
    | _, _ => (st, "bad-op")
  | ["pfx", "embed", h, b, v] =>
    match hexBytes h, b.toNat?, hexBytes v with
    | some ip, some bits, some v4 => (st, bytesHex (embedIPv4 ip bits v4))
    | _, _, _ => (st, "bad-op")
  | ["pfx", "extract", h, b, a] =>
    match hexBytes h, b.toNat?, hexBytes a with
    | some ip, some bits, some addr =>
      (st, match extractIPv4 ip bits addr with | some v => bytesHex v | none => "none")
    | _, _, _ => (st, "bad-op")
  | ["pfx", "arpa", n] =>
    match nameOfHex n with
    | some nm => (st, match parseIP6ArpaName nm with | some a => bytesHex a | none => "none")
    | none => (st, "bad-op")
  | ["pfx", "inaddr", v] =>
    match hexBytes v with
    | some v4 => (st, String.ofList (inAddrArpa v4))
    | none => (st, "bad-op")
  | ["d64", "new", ps, cs, zs, xa, x6] =>
    match parseEnts ps, parseEnts cs, (listOf zs).mapM nameOfHex, parseOptEnts xa, parseOptEnts x6 with
    | some p, some c, some z, some a, some b =>
      let cfg := compile p c z a b
      let zt := if cfg.zones.isEmpty then "-" else ",".intercalate (cfg.zones.map hexOfName)
      ({ st with cfg := cfg },
       s!"p={",".intercalate (cfg.prefixes.map showPrefix)} c={cfg.clients.length} z={zt} xa={cfg.exA.length} x6={cfg.exAAAA.length}")
    | _, _, _, _, _ => (st, "bad-op")
  | ["d64", "serve", cl, fl, qc, qt, qn, dn, ar] =>
    match parseClient cl, parseFlags fl, qc.toNat?, qt.toNat?, parseQName qn, parseDown dn, parseAResp ar with
    | some c, some [internal, rd, cd, wx, replay, wire, twoQ, qad], some qclass, some qtype, some qname, some down, some a =>
      -- a ledger handed over as a context value does not cross the wire-born detach boundary
      let q : Query := { client := c, internal := internal, rd := rd, cd := cd, qclass := qclass,
                         qtype := qtype, qname := qname, workExhausted := wx && !wire,
                         replay := replay, wire := wire, twoQ := twoQ && !wire, ad := qad }
      (st, showReply q (serve st.cfg q down a))
    | _, _, _, _, _, _, _ => (st, "bad-op")
  | _ => (st, "bad-op")

end Driver.C20
