import SdnsVerif.Model.Util
import SdnsVerif.Model.XXH64
import SdnsVerif.Model.CacheKey
/-! Line protocol for the `key` / `ver` / `pipe` ops of C03 (see harness/c03/main.go). -/
namespace Driver.C03
open SdnsVerif.Model SdnsVerif.Model.CacheKey SdnsVerif.Model.Util

/-- the concrete hash of the implementation, used ONLY here. -/
def H (b : Bytes) : UInt64 := XXH64.sum64 b

structure State where
  ecs : Bool := true
  st : AStore := []
  fs : AFStore := []
  cuts : List Cut := []
  byHash : List (UInt64 × Cut) := []
  pending : Option (Bytes × UInt16 × UInt16) := none
  policy : Policy := { forwardV4 := 32, forwardV6 := 128, minScopeV4 := 32, minScopeV6 := 128 }
  prefetchOn : Bool := false
  /-- ids of entries inside their prefetch window -/
  aged : List Nat := []
  /-- ids of entries whose refresh is queued (`entry.prefetch` claimed) -/
  claimed : List Nat := []
  /-- the prefetch queue: key, the entry that claimed, the trigger request -/
  queue : List (UInt64 × Entry × Req) := []
  /-- `[ecs] client_networks` -/
  nets : List Prefix := []
  /-- forwarder route: the forwarder restores the client's CD on every reply -/
  fwd : Bool := false

/-! ### parsing -/

inductive Name
  | wire (w : Bytes)
  | pres (p : Bytes)

def parseName (s : String) : Option Name :=
  if s.startsWith "w:" then (hexBytes (s.drop 2).toString).map Name.wire
  else if s.startsWith "p:" then
    let h := (s.drop 2).toString
    if h.isEmpty then some (Name.pres []) else (hexBytes h).map Name.pres
  else none

/-- presentation text the implementation is handed for this name. -/
def Name.presentation : Name → Option Bytes
  | Name.wire w => present w
  | Name.pres p => some p

def parseScope (s : String) : Option Scope :=
  if s == "-" then some none else
  match s.splitOn ":" with
  | [fam, rest] =>
    match rest.splitOn "/" with
    | [h, b] => do
      let a ← hexBytes h
      let bits ← b.toNat?
      some (some { v6 := fam == "6", bits := bits, addr := a })
    | _ => none
  | _ => none

def fmtScope : Scope → String
  | none => "-"
  | some p => s!"{if p.v6 then "6" else "4"}:{bytesHex p.addr}/{p.bits}"

structure Ident where
  name : Name
  qtype : UInt16
  qclass : UInt16
  cd : Bool := false
  scope : Scope := none

def parseU16 (s : String) : Option UInt16 := s.toNat?.map UInt16.ofNat

def parseIdent (s : String) : Option Ident :=
  match s.splitOn "," with
  | [n, t, c] => do
    some { name := ← parseName n, qtype := ← parseU16 t, qclass := ← parseU16 c }
  | [n, t, c, cd] => do
    some { name := ← parseName n, qtype := ← parseU16 t, qclass := ← parseU16 c, cd := ← parseBool cd }
  | [n, t, c, cd, sc] => do
    some { name := ← parseName n, qtype := ← parseU16 t, qclass := ← parseU16 c, cd := ← parseBool cd, scope := ← parseScope sc }
  | _ => none

def hex16 (v : UInt64) : String :=
  let d := Nat.toDigits 16 v.toNat
  String.ofList (List.replicate (16 - d.length) '0' ++ d)

def parseHex64 (s : String) : Option UInt64 := (hexNat s).map UInt64.ofNat

/-- `CacheKey{…}.Hash()` of an identity. -/
def identKey (i : Ident) : Option UInt64 :=
  i.name.presentation.map fun p => (CacheKey.mk p i.qtype i.qclass i.cd i.scope).hash H

def resolveKey (spec : String) (own : Ident) : Option UInt64 :=
  if spec == "own" then identKey own
  else if spec.startsWith "q=" then (parseIdent (spec.drop 2).toString).bind identKey
  else if spec.startsWith "raw=" then parseHex64 (spec.drop 4).toString
  else none

def qHash (i : Ident) : Option UInt64 :=
  i.name.presentation.map fun p =>
    failureQuestionHash H (canonicalName p) i.qtype i.qclass i.cd (normalizeKeyScope i.scope)

def zHash (n : Name) (c : UInt16) : Option UInt64 :=
  n.presentation.map fun p => failureZoneHash H (canonicalName p) c

def resolveFHash (spec : String) (zone : Bool) (own : Ident) : Option UInt64 :=
  if spec == "own" then (if zone then zHash own.name own.qclass else qHash own)
  else if spec.startsWith "fq=" then (parseIdent (spec.drop 3).toString).bind qHash
  else if spec.startsWith "fz=" then
    match (spec.drop 3).toString.splitOn "," with
    | [n, c] => do zHash (← parseName n) (← parseU16 c)
    | _ => none
  else if spec.startsWith "raw=" then parseHex64 (spec.drop 4).toString
  else none

def cutHash (name : Bytes) (c : UInt16) : UInt64 :=
  H (keyPreimage name 0 c false) ^^^ nxDomainCutHashSalt

/-! ### output -/

def showOutcome : Outcome → String
  | Outcome.hit es => "hit " ++ ",".intercalate (es.map fun e => toString e.id)
  | Outcome.cut c => s!"cut {c.id}"
  | Outcome.fail _ => "fail"
  | Outcome.miss => "miss"

def showReply : MsgReply → String
  | MsgReply.answer es => "hit " ++ ",".intercalate (es.map fun e => toString e.id)
  | MsgReply.nx [] c => s!"cut {c.id}"
  | MsgReply.nx es c => "hit " ++ ",".intercalate (es.map fun e => toString e.id) ++ s!" cut {c.id}"
  | MsgReply.failed (some _) => "fail"
  | MsgReply.failed none => "loop"
  | MsgReply.miss => "miss"

def joinOrDash (l : List String) : String := if l.isEmpty then "-" else ",".intercalate l

def sortStrings (l : List String) : List String := (l.toArray.qsort (· < ·)).toList

def listLookup {α} (l : List (UInt64 × α)) (k : UInt64) : Option α := (l.find? (·.1 == k)).map (·.2)

def listSet {α} (l : List (UInt64 × α)) (k : UInt64) (v : α) : List (UInt64 × α) := (k, v) :: l.filter (·.1 != k)

def world (s : State) : World :=
  { st := s.st.get, fs := s.fs.get, cs := { entries := s.cuts, byHash := listLookup s.byHash } }

/-- the cut maps after a lookup pruned `entries` down to `cuts'`: `removeEntryLocked` also drops the
removed cut's OWN hash slot, and only while it still points at it. -/
def withCuts (s : State) (cuts' : List Cut) : State :=
  let gone := s.cuts.filter fun c => !cuts'.contains c
  { s with cuts := cuts', byHash := s.byHash.filter fun (k, c) => !(gone.contains c && k == cutHash c.name c.qclass) }

def dumpStr (s : State) : String :=
  let a := sortStrings (s.st.map fun (k, e) => s!"{hex16 k}:{e.id}")
  let f := sortStrings (s.fs.map fun (k, e) => s!"{hex16 k}:{e.id}")
  let c := ((s.cuts.map (·.id)).toArray.qsort (· < ·)).toList.map toString
  let h := sortStrings (s.byHash.map fun (k, c) => s!"{hex16 k}:{c.id}")
  s!"a={joinOrDash a} f={joinOrDash f} c={joinOrDash c} h={joinOrDash h}"

/-! ### purge validation (the implementation's choice is an argument; see Model.purgeAnswers) -/

def isASCII (b : Bytes) : Bool := b.all (· < 0x80)

/-- the narrowest fold `strings.EqualFold` can be: ASCII letters only. -/
def efMin (a b : Bytes) : Bool := foldName a == foldName b

/-- the widest it can be on these inputs: anything goes once a non-ASCII byte is involved. -/
def efMax (a b : Bytes) : Bool := efMin a b || !isASCII a || !isASCII b

def parseList (s : String) : List String :=
  match s.splitOn "=" with
  | [_, v] => if v == "-" then [] else v.splitOn ","
  | _ => []

def applyPurged (s : State) (name : Bytes) (qtype qclass : UInt16) (a f c h : List String) : State × String :=
  let showA := fun (p : UInt64 × Entry) => s!"{hex16 p.1}:{p.2.id}"
  let showF := fun (p : UInt64 × FEntry) => s!"{hex16 p.1}:{p.2.id}"
  let showH := fun (p : UInt64 × Cut) => s!"{hex16 p.1}:{p.2.id}"
  -- answers: between the two envelopes
  let mustKeep := purgeAnswers H efMax s.st name qtype qclass
  let mayKeep := purgeAnswers H efMin s.st name qtype qclass
  let st' := s.st.filter fun p => !a.contains (showA p)
  let removedKnown := a.all fun x => (s.st.map showA).contains x
  let keepsRequired := mustKeep.all fun p => (st'.map showA).contains (showA p)
  let removesRequired := st'.all fun p => (mayKeep.map showA).contains (showA p)
  -- failures, cuts: exact
  let fs' := purgeFailures s.fs name qtype qclass
  let wantF := sortStrings ((s.fs.filter fun p => !(fs'.map showF).contains (showF p)).map showF)
  let cuts' := purgeCutsLoop s.cuts name qclass
  let gone := s.cuts.filter fun c => !cuts'.contains c
  let wantC := ((gone.map (·.id)).toArray.qsort (· < ·)).toList.map toString
  -- removeEntryLocked drops only the cut's OWN hash slot, and only while it still points at it
  let byHash' := s.byHash.filter fun (k, c) => !(gone.contains c && k == cutHash c.name c.qclass)
  let wantH := sortStrings ((s.byHash.filter fun p => !(byHash'.map showH).contains (showH p)).map showH)
  if !removedKnown then (s, "bad-purge:removed-something-that-was-not-stored")
  else if !keepsRequired then (s, "bad-purge:removed-an-entry-purge-may-not-touch")
  else if !removesRequired then (s, "bad-purge:kept-an-entry-of-the-purged-question")
  else if sortStrings f != wantF then (s, s!"bad-purge:failures want={joinOrDash wantF}")
  else if c != wantC then (s, s!"bad-purge:cuts want={joinOrDash wantC}")
  else if sortStrings h != wantH then (s, s!"bad-purge:cut-hash-index want={joinOrDash wantH}")
  else ({ s with st := st', fs := fs', cuts := cuts', byHash := byHash', pending := none }, "ok")

/-! ### step -/

/-- the harness' default peer: 198.51.100.77 as a 4-byte address. -/
def defaultPeer : Prefix := { v6 := false, bits := 32, addr := [198, 51, 100, 77] }

/-- `peer=4:<hex> | m:<hex> | 6:<hex>` among `+`-joined flavour tokens. -/
def parsePeer (toks : List String) : Prefix :=
  match (toks.flatMap (·.splitOn "+")).find? (·.startsWith "peer=") with
  | some t =>
    match ((t.drop 5).toString).splitOn ":" with
    | [fam, h] =>
      match hexBytes h with
      | some b =>
        if fam == "4" then { v6 := false, bits := 32, addr := b }
        else if fam == "m" then { v6 := true, bits := 128, addr := [0, 0, 0, 0, 0, 0, 0, 0, 0, 0, 0xFF, 0xFF] ++ b }
        else { v6 := true, bits := 128, addr := b }
      | none => defaultPeer
    | _ => defaultPeer
  | none => defaultPeer

def clientScopes (s : State) (client : Scope) (peer : Prefix := defaultPeer) : Scope × Bool :=
  match client with
  | none => (none, false)
  | some c => (if s.ecs && policyAllows s.nets peer then some (clampSource s.policy c) else none, true)

/-- `ShouldPrefetch ∧ PrefetchEligible` for the harness' notion of age. -/
def due (s : State) (e : Entry) : Bool :=
  shouldQueuePrefetch s.prefetchOn (s.aged.contains e.id && !s.claimed.contains e.id) e

/-- one client request through the pipeline model: outcome, presentation name, request
scope, ECS flag; a hit served by the decoded body on an entry that is due claims and
queues its refresh (`handleCacheHit`). -/
def runRequest (s : State) (route : String) (i : Ident) (client : Scope) (peer : Prefix := defaultPeer) :
    Option (State × MsgReply × Bytes × Scope × Bool) :=
  let (cs, hasECS) := clientScopes s client peer
  let W := world s
  -- `handleCacheHit` claims and queues the refresh right after verifying a hit, before any chase, with
  -- a copy of the request at hand — for the client's own hit and for every hop the decoded chase hits
  let queued := fun (p : Bytes) (viaDecoded : Bool) =>
    if !viaDecoded then s else
    (msgVisitsAt H W i.qtype i.cd hasECS maxCnameChaseDepth p i.qclass cs).foldl (fun (acc : State) (v : Bytes × Entry) =>
      let (n, e) := v
      if due acc e then
        { acc with claimed := e.id :: acc.claimed,
                   queue := acc.queue ++ [((CacheKey.mk n i.qtype i.qclass i.cd none).hash H, e,
                                           ({ name := n, qtype := i.qtype, qclass := i.qclass, cd := i.cd, hasECS := hasECS } : Req))] }
      else acc) s
  match route, i.name with
  | "wire", Name.wire wn =>
    match present wn with
    | some p =>
      if hasECS then
        some (withCuts (queued p true) (serveMsgCutsAfter H W p i.qtype i.qclass i.cd cs hasECS),
              serveMsgFull H W p i.qtype i.qclass i.cd cs hasECS, p, cs, hasECS)
      else
        let core := serveWireCore H W wn i.qtype i.qclass i.cd (due s)
        some (withCuts (queued p core.isNone) (serveWireCutsAfter H W wn i.qtype i.qclass i.cd (due s)),
              serveWireFull H W wn i.qtype i.qclass i.cd (due s), p, cs, hasECS)
    | none => none
  | "msg", n =>
    match n.presentation with
    | some p =>
      some (withCuts (queued p true) (serveMsgCutsAfter H W p i.qtype i.qclass i.cd cs hasECS),
            serveMsgFull H W p i.qtype i.qclass i.cd cs hasECS, p, cs, hasECS)
    | none => none
  | "store", n =>
    match n.presentation with
    | some p =>
      some (withCuts s (storeGetCutsAfter H W p i.qtype i.qclass i.cd hasECS),
            MsgReply.ofOutcome (storeGet H W p i.qtype i.qclass i.cd hasECS), p, cs, hasECS)
    | none => none
  | _, _ => none

def parsePolicy (cfg : String) : Option (Policy × Bool) :=
  match (cfg.splitOn ",").mapM (·.toNat?) with
  | some [f4, f6, m4, m6, pf] => some (buildPolicy f4 f6 m4 m6, pf > 0)
  | _ => none

def stepKey (w : List String) : String :=
  match w with
  | ["key", "new"] => "ok"
  | ["key", "of", ids] =>
    match parseIdent ids with
    | none => "bad-op"
    | some i =>
      let fromPres (p : Bytes) : String × String × String :=
        (hex16 (H (keyWithPrefixPreimage p i.qtype i.qclass i.cd i.scope)),
         (if i.scope.isNone then hex16 (H (keyPreimage p i.qtype i.qclass i.cd)) else "-"),
         hex16 ((CacheKey.mk p i.qtype i.qclass i.cd i.scope).hash H))
      match i.name with
      | Name.pres p =>
        let (k, ks, ck) := fromPres p
        s!"kw=- k={k} ks={ks} ck={ck}"
      | Name.wire wn =>
        match keyWireWithPrefixPreimage wn i.qtype i.qclass i.cd i.scope, present wn with
        | some pre, some p =>
          let (k, ks, ck) := fromPres p
          s!"kw={hex16 (H pre)} k={k} ks={ks} ck={ck}"
        | _, _ => "kw=bad k=- ks=- ck=-"
  | _ => "bad-op"

def mkEntry (i : Ident) (p : Bytes) : Entry :=
  { id := 0, name := p, qtype := i.qtype, qclass := i.qclass, cd := i.cd, scope := i.scope }

def stepVer (w : List String) : String :=
  match w with
  | ["ver", "new"] => "ok"
  | ["ver", "key", e, wn] =>
    match parseIdent e, parseIdent wn with
    | some e, some k =>
      match e.name.presentation, k.name.presentation with
      | some ep, some kp => boolStr (entryMatchesKey (mkEntry e ep) ⟨kp, k.qtype, k.qclass, k.cd, k.scope⟩)
      | _, _ => "bad-op"
    | _, _ => "bad-op"
  | ["ver", "wire", e, wn] =>
    match parseIdent e, parseIdent wn with
    | some e, some k =>
      match e.name.presentation, k.name with
      | some ep, Name.wire kw => boolStr (entryMatchesWireQuestion (mkEntry e ep) kw k.qtype k.qclass k.cd)
      | _, _ => "bad-op"
    | _, _ => "bad-op"
  | ["ver", "wname", a, b] =>
    match parseName a, parseName b with
    | some (Name.wire wn), some (Name.pres p) => boolStr (wireNameEqualsPresentation wn p)
    | _, _ => "bad-op"
  | ["ver", "fold", a, b] =>
    match parseName a, parseName b with
    | some (Name.pres x), some (Name.pres y) => boolStr (equalNameASCIIFold x y)
    | _, _ => "bad-op"
  | ["ver", "wfold", a, b] =>
    match parseName a, parseName b with
    | some (Name.wire x), some (Name.wire y) => boolStr (foldWireNamesEqual x y)
    | _, _ => "bad-op"
  | ["ver", "walk", a] =>
    match parseName a with
    | some (Name.pres p) =>
      let n := canonicalName p
      let sh := fun (l : List Bytes) => joinOrDash (l.map fun b => if b.isEmpty then "" else bytesHex b)
      s!"z={sh (failureZones n.length n)} s={sh (cutSuffixes n)}"
    | _ => "bad-op"
  | ["ver", "norm", sc] =>
    match parseScope sc with
    | some p => fmtScope (normalizeKeyScope p)
    | none => "bad-op"
  | _ => "bad-op"

def stepPipe (s : State) (w : List String) : State × String :=
  match w with
  | ["pipe", "new", e] => ({ ecs := e == "on" }, "ok")
  | "pipe" :: "new" :: e :: cfg :: more =>
    let nets : Option (List Prefix) :=
      match more.find? (·.startsWith "nets=") with
      | none => some []
      | some t => (((t.drop 5).toString.splitOn ";").mapM parseScope).map fun l => l.filterMap id
    match parsePolicy cfg, nets with
    | some (pol, pf), some nets =>
      ({ ecs := e == "on", policy := pol, prefetchOn := pf, nets := nets, fwd := more.contains "fwd" }, "ok")
    | _, _ => (s, "bad-op")
  | ["pipe", "age", idn] =>
    match idn.toNat? with
    | some id => if s.st.any (·.2.id == id) then ({ s with aged := id :: s.aged }, "ok") else (s, "no-such-entry")
    | none => (s, "bad-op")
  | "pipe" :: "drain" :: first :: more =>
    let rq : Option (Bytes × UInt16 × UInt16) :=
      match more with
      | [t] => if t.startsWith "rq=" then
                 (parseIdent (t.drop 3).toString).bind fun i => i.name.presentation.map fun p => (p, i.qtype, i.qclass)
               else none
      | _ => none
    match first.toNat? with
    | some id0 =>
      let (st, _, parts) := s.queue.foldl (fun (acc : AStore × Nat × List String) (item : UInt64 × Entry × Req) =>
        let (st, id, parts) := acc
        let (key, e, trig) := item
        let asked := prefetchRequest trig
        let (st', ok) := processPrefetch st key e trig id rq
        (st', id + 1, parts ++ [s!"asked=p:{bytesHex asked.name},{asked.qtype.toNat},{asked.qclass.toNat},{boolStr asked.cd} id={id} r={boolStr ok}"]))
        (s.st, id0, [])
      ({ s with st := st, queue := [], claimed := [] }, if parts.isEmpty then "none" else ";".intercalate parts)
    | none => (s, "bad-op")
  | "pipe" :: "ask" :: route :: ids :: cl :: idn :: sb :: more =>
    match parseIdent ids, parseScope cl, idn.toNat? with
    | some i, some client, some id =>
      let flip := more.contains "flipcd" && !s.fwd
      let rq : Option (Bytes × UInt16 × UInt16) :=
        (more.find? (·.startsWith "rq=")).bind fun t =>
          (parseIdent (t.drop 3).toString).bind fun i => i.name.presentation.map fun p => (p, i.qtype, i.qclass)
      let aliasT : Option Bytes :=
        (more.find? (·.startsWith "alias=")).bind fun t =>
          match parseName (t.drop 6).toString with
          | some (Name.wire w) => some w
          | _ => none
      let noSubnet := (more.find? (·.startsWith "opt=")).any fun t => !(t.drop 4).toString.contains 'S' 
      match runRequest s route i client (parsePeer more) with
      | some (s', o, p, cs, _) =>
        match o with
        | MsgReply.miss =>
          if more.contains "servfail" then
            -- the upstream fails: `WriteMsg` files an RFC 9520 state for this question and audience
            let n := canonicalName p
            let sc := normalizeKeyScope cs
            let fs := recordFailure H s.fs id p i.qtype i.qclass i.cd cs
            match fs.find? (·.2.id == id) with
            | some (h, _) => ({ s with fs := fs }, s!"servfail {id} f={hex16 h}")
            | none => let _ := (n, sc); ({ s with fs := fs }, s!"servfail {id} unrecorded")
          else
          -- the miss reaches the upstream; `WriteMsg` admits its answer.  The ECS option of the
          -- response: SCOPE `bits`, ADDRESS the forwarded source unless the op names another one
          let echo : Option (Option Prefix) :=
            if sb == "-" || noSubnet then some none else
            match sb.splitOn "@", cs with
            | [b], some src => b.toNat?.map fun n => some { src with bits := n }
            | [b, a], some _ =>
              match b.toNat?, parseScope (a ++ "/0") with
              | some n, some (some ap) => some (some { ap with bits := n })
              | _, _ => none
            | [_], none => some none
            | [_, _], none => some none
            | _, _ => none
          match echo with
          | none => (s, "bad-op")
          | some echo =>
            let respCD := if flip then !i.cd else i.cd
            -- `WriteMsg` files the answer under the question the RESPONSE carries
            let (rn, rt, rc) := rq.getD (p, i.qtype, i.qclass)
            let sc := admitScope s.policy cs echo
            let key := (CacheKey.mk rn rt rc respCD sc).hash H
            let st := (admitAnswer H s.policy s.st id rn rt rc respCD cs echo).map fun (k, e) =>
              if e.id == id then (k, { e with alias := aliasT }) else (k, e)
            let fs := if (normalizeKeyScope sc).isNone then resetQuestion H s.fs rn rt rc respCD none else s.fs
            let fs := resetMatching H fs rn rt rc respCD cs
            -- the reply to the asking client: the upstream's answer completed by `additionalAnswer`
            -- (write-back chase, before the entry is stored: sub-queries see the cache as it was)
            let fresh : Entry := { id := id, name := rn, qtype := rt, qclass := rc, cd := respCD,
                                   scope := normalizeKeyScope sc, alias := aliasT }
            let W := world s
            let hasECS := client.isSome
            let reply := additionalAnswer (fun t => msgReplyAt H W rt respCD hasECS (maxCnameChaseDepth - 1) t rc none) rn rt fresh
            let rs := (showReply reply).replace " " "_"
            let hops := additionalVisits (fun t => msgReplyAt H W rt respCD hasECS (maxCnameChaseDepth - 1) t rc none)
              (fun t => msgVisitsAt H W rt respCD hasECS (maxCnameChaseDepth - 1) t rc none) rn rt fresh
            let s := hops.foldl (fun (acc : State) (v : Bytes × Entry) =>
              let (n, e) := v
              if due acc e then
                { acc with claimed := e.id :: acc.claimed,
                           queue := acc.queue ++ [((CacheKey.mk n rt rc respCD none).hash H, e,
                                                   ({ name := n, qtype := rt, qclass := rc, cd := respCD, hasECS := hasECS } : Req))] }
              else acc) s
            ({ s with st := st, fs := fs }, s!"ans {id} key={hex16 key} scope={fmtScope (normalizeKeyScope sc)} reply={rs}")
        | _ => (s', showReply o)
      | none => (s, "bad-op")
    | _, _, _ => (s, "bad-op")
  | "pipe" :: "set" :: spec :: ids :: idn :: al :: _rr =>
    match parseIdent ids, idn.toNat? with
    | some i, some id =>
      match i.name.presentation, resolveKey spec i with
      | some p, some key =>
        let alias : Option (Option Bytes) :=
          if al == "-" then some none else
          match parseName al with
          | some (Name.wire t) => some (some t)
          | _ => none
        match alias with
        | none => (s, "bad-op")
        | some alias =>
          let st := setFromResponse s.st key id p i.qtype i.qclass i.cd i.scope alias
          let fs := if (normalizeKeyScope i.scope).isNone
                    then resetQuestion H s.fs p i.qtype i.qclass i.cd none else s.fs
          ({ s with st := st, fs := fs }, "ok")
      | _, _ => (s, "bad-op")
    | _, _ => (s, "bad-op")
  | ["pipe", "sfr", ids, idn, kcd] =>
    match parseIdent ids, idn.toNat?, parseBool kcd with
    | some i, some id, some keyCD =>
      match i.name.presentation with
      | some p =>
        let key := (CacheKey.mk p i.qtype i.qclass keyCD none).hash H
        let st := setFromResponse s.st key id p i.qtype i.qclass keyCD none none
        let fs := resetQuestion H s.fs p i.qtype i.qclass keyCD none
        ({ s with st := st, fs := fs }, s!"ok key={hex16 key}")
      | none => (s, "bad-op")
    | _, _, _ => (s, "bad-op")
  | ["pipe", "zfail", qs, zn, idn] =>
    match parseIdent qs, parseName zn, idn.toNat? with
    | some q, some z, some id =>
      match z.presentation with
      | some zp =>
        let fs := recordZoneFailure H s.fs id zp q.qclass
        match fs.find? (·.2.id == id) with
        | some (h, _) => ({ s with fs := fs }, s!"ok f={hex16 h}")
        | none => ({ s with fs := fs }, "ok unrecorded")
      | none => (s, "bad-op")
    | _, _, _ => (s, "bad-op")
  | ["pipe", "zclear", qs, zn, _] =>
    match parseIdent qs, parseName zn with
    | some q, some z =>
      match z.presentation with
      | some zp => ({ s with fs := resetZone H s.fs (canonicalName zp) q.qclass }, "ok")
      | none => (s, "bad-op")
    | _, _ => (s, "bad-op")
  | ["pipe", "fset", spec, kind, ids, idn] =>
    match parseIdent ids, idn.toNat? with
    | some i, some id =>
      let zone := kind == "z"
      match i.name.presentation, resolveFHash spec zone i with
      | some p, some h =>
        let e : FEntry :=
          if zone then { id := id, kind := FKind.zone, name := canonicalName p, qtype := 0, qclass := i.qclass,
                         cd := false, scope := none, active := true }
          else { id := id, kind := FKind.question, name := canonicalName p, qtype := i.qtype, qclass := i.qclass,
                 cd := i.cd, scope := normalizeKeyScope i.scope, active := true }
        ({ s with fs := listSet s.fs h e }, "ok")
      | _, _ => (s, "bad-op")
    | _, _ => (s, "bad-op")
  | ["pipe", "cset", ids, idn, al] =>
    match parseIdent ids, idn.toNat? with
    | some i, some id =>
      match i.name.presentation with
      | some p =>
        let n := canonicalName p
        if n == [0x2E] then (s, "not-stored") else
        let cut : Cut := { id := id, name := n, qclass := i.qclass, active := true, wireOk := true }
        let own := cutHash n i.qclass
        -- a re-record replaces the previous cut of the same identity (and its own hash slot)
        let prev := findCut s.cuts n i.qclass
        let cuts := s.cuts.filter fun c => !(c.name == n && c.qclass == i.qclass)
        let byHash := match prev with
          | some pc => s.byHash.filter fun (k, c) => !(k == own && c == pc)
          | none => s.byHash
        let byHash := listSet byHash own cut
        let aliasHash : Option (Option UInt64) :=
          if al == "-" then some none
          else if al.startsWith "c=" then
            match parseIdent (al.drop 2).toString with
            | some o => o.name.presentation.map fun op => some (cutHash (canonicalName op) o.qclass)
            | none => none
          else if al.startsWith "raw=" then (parseHex64 (al.drop 4).toString).map some
          else none
        match aliasHash with
        | none => (s, "bad-op")
        | some ah =>
          let byHash := match ah with
            | some h => listSet byHash h cut
            | none => byHash
          ({ s with cuts := cut :: cuts, byHash := byHash }, "ok wire=t")
      | none => (s, "bad-op")
    | _, _ => (s, "bad-op")
  | "pipe" :: "get" :: route :: ids :: cl :: flavour =>
    match parseIdent ids, parseScope cl with
    | some i, some client =>
      match runRequest s route i client (parsePeer flavour) with
      | some (s', o, _, _, _) => (s', showReply o)
      | none => (s, "bad-op")
    | _, _ => (s, "bad-op")
  | ["pipe", "dkey", route, ids, cl] =>
    match parseIdent ids, parseScope cl with
    | some i, some client =>
      match runRequest s route i client with
      | some (s', o, p, cs, _) =>
        let dk := match o with
          | MsgReply.miss => hex16 (dedupKey H s.fs.get p i.qtype i.qclass i.cd cs)
          | _ => "-"
        (s', showReply o ++ " dk=" ++ dk)
      | none => (s, "bad-op")
    | _, _ => (s, "bad-op")
  | ["pipe", "rkey", ids] =>
    match parseIdent ids with
    | some i =>
      match i.name.presentation with
      | some p =>
        match retryKey H s.fs.get p i.qtype i.qclass i.cd i.scope with
        | some k => (s, hex16 k)
        | none => (s, "-")
      | none => (s, "bad-op")
    | none => (s, "bad-op")
  | ["pipe", "lbkv", spec, ids] =>
    match parseIdent ids with
    | some i =>
      match i.name.presentation, resolveKey spec i with
      | some p, some key =>
        match lookupByKeyVerified s.st.get key ⟨p, i.qtype, i.qclass, i.cd, i.scope⟩ with
        | some e => (s, s!"hit {e.id}")
        | none => (s, "miss")
      | _, _ => (s, "bad-op")
    | none => (s, "bad-op")
  | ["pipe", "scoped", ids, cl] =>
    match parseIdent ids, parseScope cl with
    | some i, some client =>
      match i.name.presentation with
      | some p =>
        match scopedLookup H s.st.get p i.qtype i.qclass i.cd client with
        | some (e, _, sc) => (s, s!"{e.id}@{sc.bits}")
        | none => (s, "none")
      | none => (s, "bad-op")
    | _, _ => (s, "bad-op")
  | ["pipe", "replace", spec, exp, ids, idn] =>
    match parseIdent ids, exp.toNat?, idn.toNat? with
    | some i, some expId, some id =>
      match i.name.presentation, resolveKey spec i with
      | some p, some key =>
        -- `expected` only matters when it is the live entry of `key`
        match s.st.get key with
        | some cur =>
          let expected : Entry := if cur.id = expId then cur else { cur with id := expId }
          let (st, ok) := replaceIfCurrent s.st key expected id p i.qtype i.qclass none
          ({ s with st := st }, boolStr ok)
        | none => (s, "f")
      | _, _ => (s, "bad-op")
    | _, _, _ => (s, "bad-op")
  | ["pipe", "purge", ids] =>
    match parseIdent ids with
    | some i =>
      match i.name.presentation with
      | some p => ({ s with pending := some (p, i.qtype, i.qclass) }, "ok")
      | none => (s, "bad-op")
    | none => (s, "bad-op")
  | ["pipe", "purged", a, f, c, h] =>
    match s.pending with
    | some (p, t, cl) => applyPurged s p t cl (parseList a) (parseList f) (parseList c) (parseList h)
    | none => (s, "bad-op")
  | ["pipe", "dump"] => (s, dumpStr s)
  | ["pipe", "fget", route, ids] =>
    match parseIdent ids with
    | some i =>
      let sh := fun (r : Option FEntry) => match r with
        | some e => (if e.kind == FKind.zone then "z" else "q") ++ toString e.id
        | none => "miss"
      match route, i.name with
      | "wire", Name.wire wn => (s, sh (failureLookupWire H s.fs.get wn i.qtype i.qclass i.cd))
      | "store", n =>
        match n.presentation with
        | some p => (s, sh (storeLookupFailure H s.fs.get p i.qtype i.qclass i.cd i.scope))
        | none => (s, "bad-op")
      | "msg", n =>
        match n.presentation with
        | some p => (s, sh (failureLookup H s.fs.get p i.qtype i.qclass i.cd i.scope))
        | none => (s, "bad-op")
      | _, _ => (s, "bad-op")
    | none => (s, "bad-op")
  | ["pipe", "cget", route, ids] =>
    match parseIdent ids with
    | some i =>
      let cs : CutStore := { entries := s.cuts, byHash := listLookup s.byHash }
      let sh := fun (r : Option Cut) => match r with
        | some c => s!"cut {c.id}"
        | none => "miss"
      match route, i.name with
      | "wire", Name.wire wn => (s, sh (cutLookupWire H cs wn i.qclass))
      | "msg", n =>
        match n.presentation with
        | some p => (withCuts s (cutLookupPrune s.cuts p i.qclass), sh (cutLookup cs p i.qclass))
        | none => (s, "bad-op")
      | _, _ => (s, "bad-op")
    | none => (s, "bad-op")
  | ["pipe", "cexp", ids] =>
    match parseIdent ids with
    | some i =>
      match i.name.presentation with
      | some p =>
        let n := canonicalName p
        match findCut s.cuts n i.qclass with
        | some c =>
          let ex := fun (x : Cut) => if x.id == c.id then { x with active := false } else x
          ({ s with cuts := s.cuts.map ex, byHash := s.byHash.map fun (k, x) => (k, ex x) }, "ok")
        | none => (s, "absent")
      | none => (s, "bad-op")
    | none => (s, "bad-op")
  | ["pipe", "fexp", idn] =>
    match idn.toNat? with
    | some id =>
      if s.fs.any (·.2.id == id) then
        ({ s with fs := s.fs.map fun (k, f) => (k, if f.id == id then { f with active := false } else f) }, "ok")
      else (s, "absent")
    | none => (s, "bad-op")
  | _ => (s, "bad-op")

def step (s : State) (w : List String) : State × String :=
  match w with
  | "key" :: _ => (s, stepKey w)
  | "ver" :: _ => (s, stepVer w)
  | "pipe" :: _ => stepPipe s w
  | "l3" :: _ => (s, "unmodelled")
  | _ => (s, "bad-op")

end Driver.C03
