import Driver.Loop
import Driver.C04
def main : IO Unit := Driver.runLoop ({} : Driver.C04.State) Driver.C04.step
