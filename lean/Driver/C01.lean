import SdnsVerif.Model.Util
import SdnsVerif.Model.Dnssec
/-! Line protocol for the C01 ops: `signer`, `rrsig`, `ds`, `wild`, `ad`, `err`; `l3` ops are
judged by the Go oracle only. -/
namespace Driver.C01
open SdnsVerif.Model SdnsVerif.Model.Dnssec SdnsVerif.Model.Util

structure State where
  unit : Unit := ()

/-- name token (labels in presentation order joined by `.`, root = `.`) → labels, root first. -/
def parseName (s : String) : Name :=
  if s == "." || s == "" then [] else (s.splitOn ".").reverse

def showName (n : Name) : String :=
  if n.isEmpty then "." else ".".intercalate n.reverse

def listOf (s : String) : List String := if s == "-" || s == "" then [] else s.splitOn ","

/-- `key=value` words of an op line. -/
def field (w : List String) (k : String) : String :=
  match w.find? (fun x => x.startsWith (k ++ "=")) with
  | some x => (x.drop (k.length + 1)).toString
  | none => "-"

def parseKey (s : String) : Option Key :=
  match s.splitOn "/" with
  | id :: owner :: cls :: flags :: proto :: alg :: tag :: _ => do
    some { id := ← id.toNat?, owner := parseName owner, cls := ← cls.toNat?, flags := ← flags.toNat?,
           proto := ← proto.toNat?, alg := ← alg.toNat?, tag := ← tag.toNat? }
  | _ => none

def parseRR (s : String) : Option RR :=
  match s.splitOn "/" with
  | owner :: spell :: typ :: cls :: rd :: target :: rank :: _ => do
    some { owner := parseName owner, spell := ← spell.toNat?, rtype := ← typ.toNat?, cls := ← cls.toNat?,
           rdata := ← rd.toNat?, target := if target == "-" then none else some (parseName target),
           rank := ← rank.toNat? }
  | _ => none

def parseSig (s : String) : Option Sig :=
  match s.splitOn "/" with
  | id :: owner :: cls :: cov :: alg :: labels :: ttl :: exp :: inc :: tag :: signer :: rank :: _ => do
    some { id := ← id.toNat?, owner := parseName owner, cls := ← cls.toNat?, covered := ← cov.toNat?,
           alg := ← alg.toNat?, labels := ← labels.toNat?, origTtl := ← ttl.toNat?, expiration := ← exp.toNat?,
           inception := ← inc.toNat?, tag := ← tag.toNat?, signer := parseName signer, rank := ← rank.toNat? }
  | _ => none

def parseDS (s : String) : Option DS :=
  match s.splitOn "/" with
  | id :: owner :: cls :: tag :: alg :: dtype :: dok :: rank :: _ => do
    some { id := ← id.toNat?, owner := parseName owner, cls := ← cls.toNat?, tag := ← tag.toNat?, alg := ← alg.toNat?,
           dtype := ← dtype.toNat?, digestOk := ← parseBool dok, rank := ← rank.toNat? }
  | _ => none

def parsePairs (s : String) : Option (List (Nat × Nat)) :=
  (listOf s).mapM fun p =>
    match p.splitOn ":" with
    | [a, b] => do some (← a.toNat?, ← b.toNat?)
    | _ => none

def insertNat (x : Nat) : List Nat → List Nat
  | [] => [x]
  | y :: t => if x ≤ y then x :: y :: t else y :: insertNat x t

def sortNat (l : List Nat) : List Nat := l.foldr insertNat []

def showNats (l : List Nat) : String := if l.isEmpty then "-" else ",".intercalate (l.map toString)

def resStr : Res → String
  | .ok => "ok"
  | .fail e => "fail:" ++ e.str

def bools (ws : List String) : Option (List Bool) := ws.mapM parseBool

def step (st : State) (w : List String) : State × String :=
  match w with
  | ["signer", "check", s, q, _] =>
    let r := validateSigner (s == "E") (if s == "E" then [] else parseName s) (parseName q)
    (st, if r then "ok" else "err")
  | "rrsig" :: "verify" :: _ =>
    let r : Option String := do
      let now ← (field w "now").toInt?
      let keys ← (listOf (field w "K")).mapM parseKey
      let a ← (listOf (field w "A")).mapM parseRR
      let n ← (listOf (field w "N")).mapM parseRR
      let sa ← (listOf (field w "SA")).mapM parseSig
      let sn ← (listOf (field w "SN")).mapM parseSig
      let tv ← parsePairs (field w "tv")
      let sv : Key → Sig → List RR → Bool := fun k s _ => tv.contains (s.id, k.id)
      some (resStr (verifyRRSIG sv now (parseName (field w "z")) keys
        { answer := a, ns := n, ansSigs := sa, nsSigs := sn }))
    (st, r.getD "bad-op")
  | "ds" :: "verify" :: _ =>
    let r : Option String := do
      let keys ← (listOf (field w "K")).mapM parseKey
      let dss ← (listOf (field w "D")).mapM parseDS
      let tbl ← parsePairs (field w "dm")
      let dm : Key → DS → Bool := fun k d => tbl.contains (d.id, k.id)
      match verifyDS dm keys dss with
      | .matched => some ("matched anchored=" ++ showNats (sortNat ((anchoredKeys dm keys dss).map Key.id)))
      | .unsupportedOnly => some "unsup"
      | .bogus e => some ("fail:" ++ e.str)
    (st, r.getD "bad-op")
  | "wild" :: "verify" :: _ =>
    let r : Option String := do
      let sa ← (listOf (field w "SA")).mapM fun t =>
        match t.splitOn "/" with
        | [id, owner, labels] => do
          some ({ id := ← id.toNat?, owner := parseName owner, covered := 16, alg := 13, labels := ← labels.toNat?,
                  expiration := 0, inception := 0, tag := 1, signer := parseName (field w "z") } : Sig)
        | _ => none
      let ns ← (listOf (field w "NS")).mapM fun t =>
        match t.splitOn "/" with
        | [id, owner, next] => do some ({ id := ← id.toNat?, owner := parseName owner, next := parseName next } : NSEC)
        | _ => none
      let cov := listOf (field w "cov")
      let covers : NSEC → Name → Bool := fun n name => cov.contains (toString n.id ++ ":" ++ showName name)
      match verifyWildcard covers sa ns with
      | .ok => some "ok"
      | .fail _ => some "fail"
    (st, r.getD "bad-op")
  | ["ad", "hitchase", cd, dob, ad, opt, _proto, route, hops, _cached] =>
    match bools [cd, dob, ad, opt], bools (listOf hops) with
    | some [cd, dob, ad, opt], some (h0 :: rest) =>
      let r : ReqFlags := { cd := cd, doBit := dob && opt, ad := ad, hasOPT := opt }
      -- the byte path folds with `wireChaseAD`, the Msg path with `chaseAD`: one verdict
      let stored := if route == "msg" then chaseAD h0 rest else wireChaseAD (h0 :: rest)
      let a := ednsWriteAD (cacheHitAD stored r.cd) (ednsNoAD r) false
      (st, s!"ad={boolStr a} n={rest.length + 1}")
    | _, _ => (st, "bad-op")
  | "signers" :: "find" :: _ =>
    let r : Option String := do
      let recs ← (listOf (field w "R")).mapM fun t =>
        match t.splitOn "/" with
        | [o, ty] => do some (parseName o, ← ty.toNat?)
        | _ => none
      let sigs ← (listOf (field w "S")).mapM fun t =>
        match t.splitOn "/" with
        | [o, c, sg] => do some (parseName o, ← c.toNat?, parseName sg)
        | _ => none
      let inA ← parseBool (field w "in")
      let out := findRRSIGSigners recs sigs (parseName (field w "q")) inA
      some (if out.isEmpty then "-" else ",".intercalate (out.map showName))
    (st, r.getD "bad-op")
  | "wild" :: "answer" :: _ =>
    let r : Option String := do
      let z := parseName (field w "z")
      let sa ← (listOf (field w "SA")).mapM fun t =>
        match t.splitOn "/" with
        | [id, owner, labels] => do
          some ({ id := ← id.toNat?, owner := parseName owner, covered := 16, alg := 13, labels := ← labels.toNat?,
                  expiration := 0, inception := 0, tag := 1, signer := z } : Sig)
        | _ => none
      let ns ← (listOf (field w "NS")).mapM fun t =>
        match t.splitOn "/" with
        | [id, owner, next] => do some ({ id := ← id.toNat?, owner := parseName owner, next := parseName next } : NSEC)
        | _ => none
      let cov := listOf (field w "cov")
      let covers : NSEC → Name → Bool := fun n name => cov.contains (toString n.id ++ ":" ++ showName name)
      let kept := sortNat ((filterNSEC z ns).map NSEC.id)
      let v := match answerWildcard covers z sa ns with | .ok => "ok" | .fail _ => "fail"
      some (v ++ " kept=" ++ showNats kept)
    (st, r.getD "bad-op")
  | "nodata" :: "nsec" :: _ =>
    let r : Option String := do
      let isDS ← parseBool (field w "ds")
      let ns ← (listOf (field w "N")).mapM fun t =>
        match t.splitOn "/" with
        | [o, bits] =>
          -- for a DS question the DS bit IS the query type
          some (parseName o, (bits.contains 'q' || bits.contains 'c' || (isDS && bits.contains 'd')), bits.contains 's', bits.contains 'n')
        | _ => none
      match verifyNodataExact isDS ns (parseName (field w "q")) with
      | some .ok => some "ok"
      | some .nsMissing => some "fail:typeexists"
      | some .badDelegation => some "fail:baddelegation"
      | _ => some "noexact"
    (st, r.getD "bad-op")
  | "nsec3" :: "nodata" :: _ =>
    let r : Option String := do
      let t ← (field w "t").toNat?
      let vs := field w "V"
      let cs := vs.toList
      let view : Option N3View :=
        match cs with
        | ['x', a, b, c] => some { exact := some (a == 'q', b == 's', c == 'n') }
        | 'm' :: rest =>
          match (String.ofList rest).splitOn ":" with
          | [ce, cv, wv] =>
            let cover := if cv == "n" then none else some (cv == "1")
            let wild := if wv == "n" then none else some (wv.startsWith "q", wv.endsWith "1")
            some { ceFound := ce != "0", ceBad := ce == "b", cover := cover, wild := wild }
          | _ => none
        | _ => none
      let v ← view
      match verifyNODATA3 (t == 43) v with
      | .secure => some "secure" | .insecure => some "insecure" | .typeExists => some "fail:typeexists"
      | .badDelegation => some "fail:baddelegation" | .noCover => some "fail:nocover" | .optOut => some "fail:optout"
    (st, r.getD "bad-op")
  | "nsec3" :: "deleg" :: _ =>
    let r : Option String := do
      let vs := field w "V"
      let view : Option N3View :=
        match vs.toList with
        | ['x', a, b, c] => some { exact := some (a == 'n', b == 'D', c == 's') }
        | 'm' :: rest =>
          match (String.ofList rest).splitOn ":" with
          | [ce, cv, _wv] => some { ceFound := ce != "0", ceBad := ce == "b", cover := if cv == "n" then none else some (cv == "1") }
          | _ => none
        | _ => none
      let v ← view
      match verifyDelegation3 v, v.exact with
      | .insecure, _ => some "ok"
      | .noCover, some _ => some "fail:nsmissing"
      | .noCover, none => some "fail:nocover"
      | .badDelegation, _ => some "fail:baddelegation"
      | .optOut, _ => some "fail:optout"
      | _, _ => some "bad-op"
    (st, r.getD "bad-op")
  | "authfilter" :: "check" :: _ =>
    let r : Option String := do
      let ts ← (listOf (field w "R")).mapM fun t => t.toNat?
      let idx := (List.range ts.length).filter fun i => match ts[i]? with | some t => denialRecordType t | none => false
      some (showNats idx)
    (st, r.getD "bad-op")
  | "ttl" :: "calc" :: _ =>
    let parseItem : String → Option TTLItem := fun t =>
      let k := t.take 1
      match (t.drop 1).toString.splitOn ":" with
      | [a] => if k == "r" then a.toNat?.map TTLItem.rr else none
      | [a, b] => do
        let ttl ← a.toNat?
        if k == "g" then some (.sig ttl (← b.toInt?)) else if k == "s" then some (.soa ttl (← b.toNat?)) else none
      | _ => none
    let r : Option String := do
      let a ← (listOf (field w "A")).mapM parseItem
      let n ← (listOf (field w "N")).mapM parseItem
      let e ← (listOf (field w "E")).mapM parseItem
      some (toString (cacheTTL a n e))
    (st, r.getD "bad-op")
  | ["proofname", "check", q, ds] =>
    match parseBool ds with
    | some d => (st, showName (insecureProofName (parseName q) d))
    | none => (st, "bad-op")
  | "filter" :: "zone" :: _ =>
    let r : Option String := do
      let z := parseName (field w "z")
      let rs ← (listOf (field w "R")).mapM fun t =>
        match t.splitOn "/" with
        | [o, ty] => do some ({ owner := parseName o, rtype := ← ty.toNat? } : SecRR)
        | [o, ty, nx] => do some ({ owner := parseName o, rtype := ← ty.toNat?, next := some (parseName nx) } : SecRR)
        | _ => none
      let idx := (List.range rs.length).filter fun i => match rs[i]? with | some x => keepInZone z x | none => false
      some (showNats idx)
    (st, r.getD "bad-op")
  | "rootds" :: "check" :: _ =>
    let r : Option String := do
      let on ← parseBool (field w "on")
      let keys ← (field w "keys").toNat?
      let npds ← (field w "pds").toNat?
      let mk : Nat → Nat → List DS := fun base n => (List.range n).map fun i => ({ id := base + i, owner := [], tag := 1, alg := 13, dtype := 2 } : DS)
      match rootParentDS on (mk 100 npds) (mk 0 keys) (parseName (field w "zone")) with
      | none => some "err"
      | some l => if l.all (fun d => decide (100 ≤ d.id)) then some "same" else some s!"anchors={l.length}"
    (st, r.getD "bad-op")
  | "supds" :: "check" :: _ =>
    let r : Option String := do
      let dss ← (listOf (field w "D")).mapM fun t =>
        match t.splitOn "/" with
        | [a, d] => do some ({ id := 0, owner := [], tag := 7, alg := ← a.toNat?, dtype := ← d.toNat? } : DS)
        | _ => none
      some (boolStr (hasSupportedDS dss))
    (st, r.getD "bad-op")
  | "synth" :: "check" :: _ =>
    let r : Option String := do
      let ds ← (listOf (field w "D")).mapM fun t =>
        match t.splitOn "/" with
        | [o, tg] => some ({ owner := parseName o, rtype := tDNAME, target := some (parseName tg) } : RR)
        | _ => none
      let c : RR := { owner := parseName (field w "owner"), rtype := tCNAME, target := some (parseName (field w "target")) }
      some (boolStr (isSynthesizedCNAME c ds))
    (st, r.getD "bad-op")
  | "deleg" :: "nsec" :: _ =>
    let r : Option String := do
      let ns ← (listOf (field w "N")).mapM fun t =>
        match t.splitOn "/" with
        | [o, bits] => some ({ owner := parseName o, ns := bits.contains 'n', ds := bits.contains 'd', soa := bits.contains 's' } : DelegNSEC)
        | _ => none
      match verifyDelegationNSEC (parseName (field w "q")) ns with
      | .ok => some "ok"
      | .nsMissing => some "fail:nsmissing"
      | .badDelegation => some "fail:baddelegation"
      | .noCover => some "fail:nocover"
    (st, r.getD "bad-op")
  | ["ad", "edns", cd, dob, ad, opt, proto, _born, respAD, big, _wire] =>
    match bools [cd, dob, ad, opt, respAD, big] with
    | some [cd, dob, ad, opt, respAD, big] =>
      let r : ReqFlags := { cd := cd, doBit := dob && opt, ad := ad, hasOPT := opt }
      let tc := big && proto == "udp"
      (st, s!"ad={boolStr (ednsWriteAD respAD (ednsNoAD r) tc)} tc={boolStr tc}")
    | _ => (st, "bad-op")
  | ["ad", "tomsg", stored, reqCD, _path] =>
    match bools [stored, reqCD] with
    | some [stored, reqCD] => (st, s!"ad={boolStr (cacheHitAD stored reqCD)}")
    | _ => (st, "bad-op")
  | ["ad", "chase", outer, hops] =>
    match parseBool outer, bools (listOf hops) with
    | some o, some hs => (st, s!"ad={boolStr (chaseAD o hs)}")
    | _, _ => (st, "bad-op")
  | ["ad", "pipe", validated, cd, dob, ad, opt, _proto, _born, _transport] =>
    match bools [validated, cd, dob, ad, opt] with
    | some [validated, cd, dob, ad, opt] =>
      let r : ReqFlags := { cd := cd, doBit := dob && opt, ad := ad, hasOPT := opt }
      let a1 := clientAD validated [] false r false false
      let a2 := clientAD validated [] true r false false
      (st, s!"ad1={boolStr a1} ad2={boolStr a2} hit=t")
    | _ => (st, "bad-op")
  | ["err", "ede", cls, opt, _do] =>
    let all : List Err := [.nokey, .missing, .nosigs, .period, .alg, .badsig, .noksk, .mismatchds, .convert,
      .nodnskey, .emptyds, .dsrecords, .anchors, .wildcard, .nsecmissing, .denial]
    match all.find? (fun e => e.str == cls), parseBool opt with
    | some e, some o =>
      let r := errorReply e o
      let ede := match r.ede with | some c => toString c | none => "none"
      (st, s!"rcode={r.rcode} ede={ede} ad={boolStr r.ad} ans={r.answers}")
    | _, _ => (st, "bad-op")
  | ["store", "priv", _kind, _qt, stored, ask] =>
    match parseBool ask with
    | some a =>
      let ps := listOf stored
      match privateLookup (ps.contains "0") (ps.contains "1") a with
      | some p => (st, s!"hit:{if p then 1 else 0}")
      | none => (st, "miss")
    | none => (st, "bad-op")
  | ["ad", "cut", cd, dob, ad, opt, _proto, _route, _depth, _qt] =>
    match bools [cd, dob, ad, opt] with
    | some [cd, dob, ad, opt] =>
      let r : ReqFlags := { cd := cd, doBit := dob && opt, ad := ad, hasOPT := opt }
      let c := cutServe r
      (st, s!"cut={boolStr c.hit} rcode={if c.hit then 3 else 5} ad={boolStr c.ad} dnssec={boolStr c.dnssec}")
    | _ => (st, "bad-op")
  | ["ad", "hitfail", _cd, _dob, _ad, opt, _proto, _route, _n, kind] =>
    match parseBool opt with
    | some o =>
      let r := hitChaseFailReply (if kind == "servfail-ede" then some 6 else none) o
      let ede := match r.ede with | some c => toString c | none => "none"
      (st, s!"rcode={r.rcode} ad={boolStr r.ad} n={r.answers} ede={ede} opt={boolStr o}")
    | none => (st, "bad-op")
  | ["keycache", "run", evs] =>
    let parse : String → Option KeyEv := fun e =>
      match e with
      | "x" => some .expire
      | "q0a" => some (.ask false true) | "q0b" => some (.ask false false)
      | "q1a" => some (.ask true true) | "q1b" => some (.ask true false)
      | _ => none
    match (listOf evs).mapM parse with
    | some es =>
      let c0 : KeyCache := { e0 := none, e1 := none }
      let show' : Option KV → String := fun o => match o with | some v => v.str | none => "none"
      let rs := (c0.replies es).map fun o => match o with | some v => v.str | none => "-"
      let c := c0.run es
      (st, s!"replies={",".intercalate rs} v0={show' (c.fetch false)} v1={show' (c.fetch true)}")
    | none => (st, "bad-op")
  | "window" :: "check" :: _ =>
    let r : Option String := do
      let now ← (field w "now").toInt?
      let inc ← (field w "inc").toNat?
      let exp ← (field w "exp").toNat?
      let sg : Sig := { id := 0, owner := [], covered := 1, alg := 13, labels := 0, expiration := exp, inception := inc, tag := 0, signer := [] }
      some s!"valid={boolStr (inWindow now sg)}"
    (st, r.getD "bad-op")
  | "l3" :: _ => (st, "unmodelled")
  | _ => (st, "bad-op")

end Driver.C01
