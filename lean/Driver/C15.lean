import SdnsVerif.Model.Util
import SdnsVerif.Model.Packer
/-! Line protocol for the `hdr` / `opt` / `msg decide` ops of C15.

* `hdr bits <flags:8×t|f QR AA TC RD RA Z AD CD> <opcode> <rcode>` → the header word (4 hex digits)
* `opt select <kinds>` — Extra as a list of record kinds (`n` nil, `a` ordinary record,
  `o` a `*dns.OPT`, `w` an OPT-typed header on something that is not a `*dns.OPT`,
  `x` a `*dns.OPT` whose header type is not OPT) → `idx=<i|-> safe=<t|f>`
* `opt ttl <ttl:8 hex> <rcode>` → the rewritten TTL (8 hex digits)
* `msg decide r=<rcode> c=<t|f> q=<q,…> an=<slot,…> ns=… ex=… N=<buffer>` — a message
  skeleton; a slot is `<kind>[id]:<packed len|E>:<uncompressed len>` (`f` = inadmissible, `s` = a library record the packer refuses because its packing skips bytes,
  `n` = nil; equal ids = the same pointer), a question `<packed len|E>:<uncompressed len>`.
  The packed lengths are what the library produced for each piece; the model's `tryPack`
  runs over the primitive "emit that many bytes if they fit" → `handled=t len=<n>` | `handled=f`.
* `msg write <directPack> <internal> lib=<outcome>` → the model's `writeMsg` on the skeleton of the preceding
  `msg decide`: `direct:ok/<n> size=<n>` | `lib:<outcome>`
* `msg serve <ub|ud|ts|tl> <directPack> <-|abort|abort2|commit> lib=<outcome> ulen=<n>` → the model's `udpWrite`/`udpWriteMsg`/`tcpStage` beneath
  `writeMsg` on the same skeleton: `sent=ok/<n>` | `sent=none err` | `panic`
* `cache flags qd=… qt=… rc=… an=… ns=… ar=…` → the model's `wireServeFlags`: `e=<t|f> s=<t|f> c=<t|f>`
* `cache strip <an> <ns>` → the model's `prepareStripped`: `an=<n> ns=<n>` | `none`
* `cache view <kinds>` → what admission keeps for that additional section: `ar=<n> compress=t` | `not-admitted` | `panic`
* `pool own <events>` → `dup=f|t`: the ownership model run over the endings `ok|err|werr|panic|fail|decl`
* `pool inspect` → `clean` (the model's pool invariant)
* everything else (`msg new|pack|clone|write`, `pool dirty`, `conc …`) is judged by the Go oracle only.
-/
namespace Driver.C15
open SdnsVerif.Model SdnsVerif.Model.Packer SdnsVerif.Model.Util

def hex4 (n : Nat) : String :=
  String.ofList [nibble (n / 4096 % 16), nibble (n / 256 % 16), nibble (n / 16 % 16), nibble (n % 16)]

def hex8 (n : Nat) : String := hex4 (n / 65536 % 65536) ++ hex4 (n % 65536)

def parseFlags (s : String) : Option (List Bool) := s.toList.mapM fun c => parseBool (String.singleton c)

/-- what the line protocol knows about a record besides its header. -/
structure Rest where
  plen : Option Nat := none
  adm : Bool := true
  ulen : Nat := 0
deriving Inhabited

/-- the primitives of the line protocol: the "dictionary" is the list of
piece lengths the library produced, in packing order; each call consumes the
next one (so the same record packed twice may come out with two lengths, as
it does when its owner name compresses the second time). -/
def lineLib (pieces : List (Option Nat)) : Lib Rest (Option Nat × Nat) (List (Option Nat)) where
  adm := fun o => o.rest.adm
  packRR := fun _ L off d => match d with
    | some n :: t => if off + n ≤ L then .ok (List.replicate n 0) t 0 else .fail t
    | _ => .fail []
  packName := fun _ L off d => match d with
    | some n :: t => if off + n ≤ L then .ok (List.replicate n 0) t 0 else .fail t
    | _ => .fail []
  rrLen := fun o => o.rest.ulen
  qLen := fun q => q.name.2
  nilDict := pieces
  emptyDict := pieces
  dictLen := fun _ => 0

def kv (key : String) (w : String) : Option String :=
  if w.startsWith (key ++ "=") then some ((w.drop (key.length + 1)).toString) else none

def parseLen (s : String) : Option (Option Nat) :=
  if s == "E" then some none else s.toNat?.map some

/-- a slot → (pointer or nil, object).  Pointers: records with an id use
`100000 + id`, the others their running index. -/
def parseSlot (idx : Nat) (s : String) : Option (Slot × Obj Rest) :=
  let dflt : Obj Rest := { isOPT := false, hdr := { rrtype := 1, ttl := 0, rdlength := 0 }, rest := {} }
  if s == "n" then some (none, dflt) else
  match s.splitOn ":" with
  | [k, pl, ul] => do
    let plen ← parseLen pl
    let ulen ← ul.toNat?
    let kind := (k.take 1).toString
    let idS := (k.drop 1).toString
    let ptr ← (if idS.isEmpty then some idx else idS.toNat?.map (· + 100000))
    let mk (isOPT : Bool) (ty : Nat) (adm : Bool) : Obj Rest :=
      { isOPT := isOPT, hdr := { rrtype := ty, ttl := 0, rdlength := 0 }, rest := { plen := plen, adm := adm, ulen := ulen } }
    let o ← (if kind == "a" then some (mk false 1 true)
             else if kind == "f" || kind == "s" then some (mk false 1 false)
             else if kind == "o" then some (mk true typeOPT true)
             else if kind == "w" then some (mk false typeOPT true)
             else if kind == "x" then some (mk true 1 true)
             else none)
    some (some ptr, o)
  | _ => none

def parseSlots (base : Nat) (s : String) : Option (List (Slot × Obj Rest)) :=
  if s == "-" then some [] else
  let parts := s.splitOn ","
  (parts.zipIdx).mapM fun (p, i) => parseSlot (base + i) p

def parseQs (s : String) : Option (List (Question (Option Nat × Nat))) :=
  if s == "-" then some [] else
  (s.splitOn ",").mapM fun p => match p.splitOn ":" with
    | [pl, ul] => do
      let plen ← parseLen pl
      let ulen ← ul.toNat?
      some { name := (plen, ulen), qtype := 1, qclass := 1 }
    | _ => none

instance : Inhabited (Obj Rest) := ⟨{ isOPT := false, hdr := { rrtype := 0, ttl := 0, rdlength := 0 }, rest := {} }⟩

def heapOf (l : List (Slot × Obj Rest)) : Heap Rest := fun p =>
  match l.find? (fun e => e.1 == some p) with
  | some e => e.2
  | none => default

/-- a parsed message skeleton (`msg decide`), kept for the ops that follow it. -/
structure Skel where
  m : Msg (Option Nat × Nat)
  objs : List (Slot × Obj Rest)
  pieces : List (Option Nat)

structure State where
  last : Option Skel := none

def decide (w : List String) : Option (String × Skel) :=
  match w with
  | [r, c, q, an, ns, ex, n] => do
    let rcode ← (← kv "r" r).toInt?
    let compress ← parseBool (← kv "c" c)
    let qs ← parseQs (← kv "q" q)
    let anL ← parseSlots 0 (← kv "an" an)
    let nsL ← parseSlots 10000 (← kv "ns" ns)
    let exL ← parseSlots 20000 (← kv "ex" ex)
    let N ← (← kv "N" n).toNat?
    if N ≠ packBufferSize then none else
    let heap := heapOf (anL ++ nsL ++ exL)
    let m : Msg (Option Nat × Nat) :=
      { hdr := { rcode := rcode }, compress := compress, question := qs,
        answer := anL.map (·.1), ns := nsL.map (·.1), extra := exL.map (·.1) }
    let pieces : List (Option Nat) :=
      qs.map (·.name.1) ++ (anL ++ nsL ++ exL).filterMap fun e => e.1.map fun _ => e.2.rest.plen
    let st : PState Rest (List (Option Nat)) := { buf := List.replicate packBufferSize 0xAA }
    let res := tryPack (lineLib pieces) m heap st
    match res.handled, res.consumed with
    | true, some s => some (s!"handled=t len={s.data.length}", { m := m, objs := anL ++ nsL ++ exL, pieces := pieces })
    | false, none => some ("handled=f", { m := m, objs := anL ++ nsL ++ exL, pieces := pieces })
    | _, _ => some ("model-inconsistent", { m := m, objs := anL ++ nsL ++ exL, pieces := pieces })
  | _ => none

def step (st : State) (w : List String) : State × String :=
  match w with
  | ["hdr", "bits", fl, op, rc] =>
    match parseFlags fl, op.toInt?, rc.toInt? with
    | some [qr, aa, tc, rd, ra, z, ad, cd], some o, some r =>
      let h : Hdr := { response := qr, opcode := o, authoritative := aa, truncated := tc, recursionDesired := rd,
                       recursionAvailable := ra, zero := z, authenticatedData := ad, checkingDisabled := cd, rcode := r }
      (st, hex4 (msgBits h))
    | _, _, _ => (st, "bad-op")
  | ["opt", "select", kinds] =>
    let ks := if kinds == "-" then [] else kinds.splitOn ","
    let objs : List (Slot × Obj Rest) := ks.zipIdx.map fun (k, i) =>
      let mk (isOPT : Bool) (ty : Nat) : Obj Rest := { isOPT := isOPT, hdr := { rrtype := ty, ttl := 0, rdlength := 0 }, rest := {} }
      if k == "n" then (none, mk false 0)
      else if k == "o" then (some i, mk true typeOPT)
      else if k == "w" then (some i, mk false typeOPT)
      else if k == "x" then (some i, mk true 1)
      else (some i, mk false 1)
    if ks.any (fun k => !(["n", "a", "o", "w", "x"].contains k)) then (st, "bad-op") else
    let (o, safe) := selectOPT (heapOf objs) (objs.map (·.1))
    let idx := match o with | some i => toString i | none => "-"
    (st, s!"idx={idx} safe={boolStr safe}")
  | ["opt", "ttl", t, rc] =>
    match hexNat t, rc.toNat? with
    | some ttl, some r => if r ≤ 4095 ∧ ttl < 4294967296 then (st, hex8 (extTtl ttl r)) else (st, "bad-op")
    | _, _ => (st, "bad-op")
  | "msg" :: "decide" :: rest =>
    match decide rest with
    | some (o, sk) => ({ st with last := some sk }, o)
    | none => (st, "bad-op")
  -- `msg serve <ub|ud|ts|tl> <directPack> <-|abort|abort2|commit> lib=<outcome> ulen=<n>`: `udpReply` / `tcpReply` on the last skeleton;
  -- the library's outcome for the message is an observation (`ok/<len>`: that many bytes)
  | ["msg", "serve", tr, dp, hist, libo, ul] =>
    if st.last.isNone then (st, "unmodelled") else   -- no skeleton (a shrunk replay): the oracle alone judges
    match st.last, parseBool dp, kv "lib" libo, (kv "ulen" ul).bind String.toNat? with
    | some sk, some d, some lo, some ulen =>
      let pst : PState Rest (List (Option Nat)) := { buf := List.replicate packBufferSize 0x55 }
      let lib := lineLib sk.pieces
      let heap := heapOf sk.objs
      let libOut : LibOut :=
        if lo.startsWith "ok/" then
          match (lo.drop 3).toString.toNat? with
          | some n => .ok (List.replicate n 0)
          | none => .err .pack
        else if lo == "panic" then .panic else .err .pack
      if !(["-", "abort", "abort2", "commit"].contains hist) then (st, "bad-op") else
      -- a committed lease IS the reply (the library's bytes, built in the slab); an aborted one leaves junk in the slab
      let commit := hist == "commit" && lo.startsWith "ok/"
      if lo == "panic" && !(d && (tryPack lib sk.m heap pst).handled) then (st, "panic") else
      -- the transport's own pack of a declined message is the observed library outcome
      let viaWrite := match (writeMsg lib sk.m heap pst d false).events with
        | [.write b] => some b
        | _ => none
      if tr == "ub" || tr == "ud" then
        let j : UdpJob := { tx := if hist == "-" || commit then List.replicate 4096 0xEE
                                  else List.replicate 900 0xDD ++ List.replicate 3196 0xEE }
        let r := if commit then (match libOut with
            | .ok b => udpCommit j b
            | _ => (j, false))
          else match viaWrite with
          | some b => udpWrite j b false
          | none => udpWriteMsg j libOut ulen
        if r.2 then (st, s!"sent=ok/{r.1.staged.length}") else (st, "sent=none err")
      else if tr == "ts" || tr == "tl" then
        let r := match (if commit then none else viaWrite) with
          | some b => tcpStage {} b
          | none => match libOut with
            | .ok b => tcpStage {} b
            | _ => ({}, false)
        match r.2, r.1.frames with
        | true, [b] => (st, s!"sent=ok/{b.length}")
        | _, _ => (st, "sent=none err")
      else (st, "bad-op")
    | _, _, _, _ => (st, "bad-op")
  -- `msg doq lib=<outcome of the library for the message with Id 0>`: the DoQ writer sends that frame, id 0
  -- `msg doh <get|post> lib=<outcome>`: `dohResponse` — the library's outcome decides, the packer is not on this path
  | ["msg", "doh", _method, libo] =>
    match kv "lib" libo with
    | some lo =>
      if lo.startsWith "ok/" then (st, s!"200 {lo}")
      else if lo == "panic" then (st, "panic") else (st, "500")
    | none => (st, "bad-op")
  | ["msg", "stripped"] => (st, "unmodelled")
  | ["msg", "doq", libo] =>
    match kv "lib" libo with
    | some lo =>
      if lo.startsWith "ok/" then
        match (lo.drop 3).toString.toNat? with
        | some n => if n ≤ 65535 then (st, s!"sent=ok/{n} id=0") else (st, "sent=none")
        | none => (st, "bad-op")
      else if lo == "panic" then (st, "panic") else (st, "sent=none")
    | none => (st, "bad-op")
  | ["msg", "new", _, _] => ({ st with last := none }, "unmodelled")
  -- `msg write <directPack> <internal> lib=<library outcome>`: the model's `writeMsg` on the last skeleton
  | ["msg", "write", dp, int, libo] =>
    if st.last.isNone then (st, "unmodelled") else
    match st.last, parseBool dp, parseBool int, kv "lib" libo with
    | some sk, some d, some i, some lo =>
      let pst : PState Rest (List (Option Nat)) := { buf := List.replicate packBufferSize 0x55 }
      let out := writeMsg (lineLib sk.pieces) sk.m (heapOf sk.objs) pst d i
      match out.events with
      | [.write b] => (st, s!"direct:ok/{b.length} size={out.size}")
      | [.writeMsg] => (st, s!"lib:{lo}")
      | _ => (st, "model-inconsistent")
    | _, _, _, _ => (st, "bad-op")
  -- `cache flags qd=<n> qt=<t> rc=<r> an=<types> ns=<types> ar=<n>`: the model's `wireServeFlags`
  | ["cache", "flags", qd, qt, rc, an, ns, _ar] =>
    let types (x : String) : Option (List Nat) := if x == "-" then some [] else (x.splitOn ",").mapM String.toNat?
    match (kv "qd" qd).bind String.toNat?, (kv "qt" qt).bind String.toNat?, (kv "rc" rc).bind String.toNat?,
          (kv "an" an).bind types, (kv "ns" ns).bind types with
    | some q, some t, some r, some a, some n =>
      let fl := wireServeFlags q t (r % 16) a n
      (st, s!"e={boolStr fl.eligible} s={boolStr fl.hasDNSSEC} c={boolStr fl.chaseSafe}")
    | _, _, _, _, _ => (st, "bad-op")
  -- `cache strip <answer kinds> <authority kinds>`: the model's `prepareStripped` (t TXT, s SOA, r RRSIG, c NSEC, 3 NSEC3)
  | ["cache", "strip", an, ns] =>
    let chars (x : String) : List Char := if x == "-" then [] else x.toList
    if (chars an ++ chars ns).any (fun c => !(['t', 's', 'r', 'c', '3'].contains c)) then (st, "bad-op") else
    let mkObj (c : Char) : Obj Rest :=
      -- rrtype: 46 RRSIG, 47 NSEC, 50 NSEC3, 6 SOA, 16 TXT
      let ty := if c == 'r' then 46 else if c == 'c' then 47 else if c == '3' then 50 else if c == 's' then 6 else 16
      { isOPT := false, hdr := { rrtype := ty, ttl := 60, rdlength := 0 }, rest := { plen := some 20, adm := true, ulen := 20 } }
    let anO : List (Slot × Obj Rest) := (chars an).zipIdx.map fun (c, i) => (some (i + 1), mkObj c)
    let nsO : List (Slot × Obj Rest) := (chars ns).zipIdx.map fun (c, i) => (some (i + 101), mkObj c)
    let heap := heapOf (anO ++ nsO)
    let isSec : Obj Rest → Bool := fun o => o.hdr.rrtype == 46 || o.hdr.rrtype == 47 || o.hdr.rrtype == 50
    let m : Msg (Option Nat × Nat) :=
      { hdr := {}, compress := false, question := [{ name := (some 15, 19), qtype := 16, qclass := 1 }],
        answer := anO.map (·.1), ns := nsO.map (·.1), extra := [] }
    let anT := anO.map (·.2.hdr.rrtype)
    let nsT := nsO.map (·.2.hdr.rrtype)
    -- due and servable are `prepareWireServe`'s verdicts (model: `wireServeFlags`) on the full and the stripped body
    let due := (wireServeFlags 1 16 0 anT nsT).hasDNSSEC
    let servable := (wireServeFlags 1 16 0 (stripTypes anT) (stripTypes nsT)).servable
    let sv := strippedView isSec heap m
    let pieces : List (Option Nat) := List.replicate (sv.records.length + 1) (some 20)
    let pst : PState Rest (List (Option Nat)) := { buf := List.replicate packBufferSize 0x55 }
    match (prepareStripped (lineLib pieces) isSec (fun _ => servable) due m heap pst 9999).1 with
    | some _ => (st, s!"an={sv.answer.length} ns={sv.ns.length}")
    | none => (st, "none")
  -- `cache view <kinds of Extra>`: what admission stores for a message with that additional section
  | ["cache", "view", kinds] =>
    let ks := if kinds == "-" then [] else kinds.splitOn ","
    if ks.any (fun k => !(["n", "a", "o", "w", "x", "e"].contains k)) then (st, "bad-op") else
    let objs : List (Slot × Obj Rest) := ks.zipIdx.map fun (k, i) =>
      let mk (isOPT : Bool) (ty : Nat) : Obj Rest :=
        { isOPT := isOPT, hdr := { rrtype := ty, ttl := 0, rdlength := 0 }, rest := { plen := some 20, adm := true, ulen := 20 } }
      if k == "n" then (none, mk false 0)
      else if k == "o" || k == "e" then (some (i + 1), mk true typeOPT)
      else if k == "w" then (some (i + 1), mk false typeOPT)
      else if k == "x" then (some (i + 1), mk true 1)
      else (some (i + 1), mk false 1)
    let heap := heapOf objs
    let m : Msg (Option Nat × Nat) :=
      { hdr := {}, compress := false, question := [{ name := (some 10, 14), qtype := 1, qclass := 1 }],
        answer := [], ns := [], extra := objs.map (·.1) }
    let view := storableView heap m
    let pieces : List (Option Nat) := List.replicate (view.extra.length + 1) (some 20)
    let pst : PState Rest (List (Option Nat)) := { buf := List.replicate packBufferSize 0x55 }
    match (admitWire (lineLib pieces) m heap pst 9999).1 with
    | .ok _ => (st, s!"ar={view.extra.length} compress={boolStr view.compress}")
    | .err _ => (st, "not-admitted")
    | .panic => (st, "panic")
  | "msg" :: _ => (st, "unmodelled")
  -- `pool own <events>`: each earlier pack takes the state on top of the pool (or a new one) and ends
  -- through the named exit; afterwards no state may rest in the pool twice
  | ["pool", "own", evs] =>
    let names := if evs == "-" then [] else evs.splitOn ","
    let exitOf (n : String) : Option (Option Exit) :=
      if n == "ok" then some (some .consumed) else if n == "err" || n == "werr" then some (some .consumerError)
      else if n == "panic" then some (some .consumerPanic) else if n == "fail" then some (some .packFailed)
      else if n == "decl" then some none else none
    match names.mapM exitOf with
    | none => (st, "bad-op")
    | some exits =>
      let s := exits.foldl (fun (s : Own) (e : Option Exit) => match e with
        | none => s
        | some x =>
          let s1 := ownStep tryPackPuts s (.get s.pool.head? 1)
          ownStep tryPackPuts s1 (.finish (s1.borrowed.headD 0) x)) {}
      let rec dupB : List Nat → Bool
        | [] => false
        | x :: t => t.contains x || dupB t
      (st, s!"dup={boolStr (dupB s.pool)}")
  -- every state resting in the pool is `Clean` (theorem `pool_reuse_clean`)
  | ["pool", "inspect"] => (st, "clean")
  | "pool" :: _ => (st, "unmodelled")
  | "conc" :: _ => (st, "unmodelled")
  | "lib" :: _ => (st, "unmodelled")
  | _ => (st, "bad-op")

end Driver.C15
