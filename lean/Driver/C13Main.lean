import Driver.Loop
import Driver.C13
def main : IO Unit := Driver.runLoop ({} : Driver.C13.State) Driver.C13.step
