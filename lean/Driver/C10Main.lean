import Driver.Loop
import Driver.C10
def main : IO Unit := Driver.runLoop ({} : Driver.C10.State) Driver.C10.step
