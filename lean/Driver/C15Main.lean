import Driver.Loop
import Driver.C15
def main : IO Unit := Driver.runLoop ({} : Driver.C15.State) Driver.C15.step
