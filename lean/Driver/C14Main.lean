import Driver.Loop
import Driver.C14
def main : IO Unit := Driver.runLoop ({} : Driver.C14.State) Driver.C14.step
