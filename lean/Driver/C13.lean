import SdnsVerif.Model.Util
import SdnsVerif.Model.FailCache
/-! Line protocol for the `fail …` ops of C13 (see harness/c13/main.go).

The model functions take the hash as a parameter; the driver instantiates it
with FNV-1a over the SAME key preimage the Go code feeds to xxhash
(`internal/cache.Key` / `KeyWithPrefix`: class, type, cd, folded name, then
family / bits / address bytes with no framing) xor the kind salt, so keys that
alias in the implementation alias in the model as well. -/
namespace Driver.C13
open SdnsVerif.Model SdnsVerif.Model.FailCache SdnsVerif.Model.Util

def fnv (bs : List Nat) : UInt64 :=
  bs.foldl (fun h b => (h ^^^ UInt64.ofNat b) * 0x100000001b3) 0xcbf29ce484222325

def be16 (n : Nat) : List Nat := [n / 256 % 256, n % 256]

def addrBytes (width addr n : Nat) : List Nat :=
  (List.range n).map fun i => addr / 2 ^ (width - 8 * (i + 1)) % 256

def preimageQ (k : QKey) : List Nat :=
  be16 k.qclass ++ be16 k.qtype ++ [if k.cd then 1 else 0] ++ foldStr k.name ++
    (match k.scope with
     | none => []
     | some p => [if p.v6 then 6 else 4, p.bits % 256] ++ addrBytes p.width p.addr (min ((p.bits + 7) / 8) (p.width / 8)))

def H : Hash where
  q := fun k => fnv (preimageQ k) ^^^ 0x53a927c4d8816e0b
  z := fun k => fnv (preimageQ ⟨k.zone, 6, k.qclass, false, none⟩) ^^^ 0xb9e314f72ca580d6

structure State where
  store : Option Store := none
  cb : Option Breaker := none
  /-- the breaker case's virtual clock (whole seconds; ops happen at the half second) -/
  cbNow : Int := 1000000

/-! parsing -/

def parseName (s : String) : Option Str := (hexBytes s).map (·.map (·.toNat))

def parseInt (s : String) : Option Int := s.toInt?

def parseScope (s : String) : Option Scope :=
  if s == "-" then some none else
  match s.splitOn ":" with
  | [fam, rest] =>
    match rest.splitOn "/" with
    | [h, b] => do
      let a ← hexNat h
      let bits ← b.toNat?
      let v6 ← (if fam == "4" then some false else if fam == "6" then some true else none)
      let width := if v6 then 128 else 32
      -- netip.PrefixFrom with bits > width is the invalid prefix
      if bits > width then some none else some (some ⟨v6, bits, a⟩)
    | _ => none
  | _ => none

def parseQ : List String → Option QKey
  | [n, t, c, cd, sc] => do
    some ⟨← parseName n, ← t.toNat?, ← c.toNat?, ← parseBool cd, ← parseScope sc⟩
  | _ => none

def parseZ : List String → Option ZKey
  | [z, c] => do some ⟨← parseName z, ← c.toNat?⟩
  | _ => none

/-! formatting -/

def hexName (s : Str) : String := bytesHex (s.map UInt8.ofNat)

def hexPad (n digits : Nat) : String :=
  String.ofList ((List.range digits).map fun i => nibble (n / 16 ^ (digits - 1 - i) % 16))

def fmtScope : Scope → String
  | none => "-"
  | some p => (if p.v6 then "6:" else "4:") ++ hexPad p.addr (p.width / 4) ++ "/" ++ toString p.bits

def fmtHit (e : Entry) : String :=
  let head := s!"streak={e.streak} retry={e.retryAfter} prov={e.prov} wit={e.witness}"
  match e.kind with
  | .question => s!"q {head} key={hexName e.q.name}/{e.q.qtype}/{e.q.qclass}/{boolStr e.q.cd}/{fmtScope e.q.scope}"
  | .zone => s!"z {head} key={hexName e.z.zone}/{e.z.qclass}"

def fmtLookup : Option Entry → String
  | none => "miss"
  | some e => fmtHit e

/-- which retained state a retry key names (mirror of the Go canonicalisation). -/
def fmtRetry (k : QKey) : Option UInt64 → String
  | none => "none"
  | some h =>
    let nk := normalizeQ k
    if h == H.q nk then "q" else
    let name := nk.name
    let rec tails : Str → List Str
      | [] => []
      | c :: t => (if c = dot ∧ t ≠ [] then [t] else []) ++ tails t
    let cands := [name, [dot]] ++ tails name
    match cands.find? (fun z => h == H.z (normalizeZ ⟨z, k.qclass⟩)) with
    | some z => "z:" ++ hexName z
    | none => "?"

def parseCtx (flags mark : String) : Option Ctx :=
  let fs := flags.toList
  let marked : Option Cause :=
    if mark.startsWith "else:" then some .none else
    let m := if mark.startsWith "w:" then (mark.drop 2).toString else mark
    if m == "none" then some .none else if m == "work" then some .workLimit
    else if m == "attempt" then some .attemptLimit else if m == "probe" then some .probeLimit
    else if m == "shed" then some .loadShed
    else if m == "maxrec" then some .maxRecursion else if m == "canceled" then some .canceled
    else if m == "deadline" then some .deadline else if m == "other" then some .other else none
  marked.map fun mk =>
    { ended := fs.contains 'e' || fs.contains 'd' || fs.contains 'p', bestEffort := fs.contains 'b', workLimit := fs.contains 'w', marked := mk }

def parseCause (c : String) : Option Cause :=
  (parseCtx "-" c).map (·.marked)

def causeStr : Cause → String
  | .none => "none" | .workLimit => "work" | .attemptLimit => "attempt" | .probeLimit => "probe" | .loadShed => "shed"
  | .maxRecursion => "maxrec" | .canceled => "canceled" | .deadline => "deadline" | .other => "other"

def parseCsv (s : String) : List String := if s == "-" then [] else s.splitOn ","

def fmtResp (r : Resp) : String :=
  let opt := match r.opt with
    | none => "-"
    | some o => s!"{o.udp}/{boolStr o.dobit}/" ++ ",".intercalate (o.options.map fun (p : Nat × Nat) => s!"{p.1}:{p.2}")
  s!"qr={boolStr r.qr} rcode={r.rcode} ra={boolStr r.ra} aa={boolStr r.aa} ad={boolStr r.ad} tc={boolStr r.tc} rd={boolStr r.rd} cd={boolStr r.cd} an={r.answers} ns={r.authority} opt={opt}"

def respClass (s : String) : Option RespClass :=
  if s == "useful" || s == "nxdomain" || s == "nodata" then some .useful
  else if s == "servfail" || s == "refused" then some .servfail
  else if s == "other" then some .other else none

/-! stateless ops -/

def stateless (w : List String) : Option String :=
  match w with
  | ["fail", "backoffcfg", mn, mx, s] => do
    let mn ← parseInt mn; let mx ← parseInt mx; let s ← s.toNat?
    match newCfg 8 mn mx with
    | .ok c => some (toString (backoff c s))
    | .error _ => some "nocache"
  | ["fail", "cacheable", flags, mark] => do
    let c ← parseCtx flags mark
    some (boolStr (cacheableResolutionFailure c))
  | ["fail", "zonerec", flags, ze, cause] => do
    let c ← parseCtx flags "none"; let ze ← parseBool ze; let cs ← parseCause cause
    some (boolStr (zoneFailureAdmitted c ze cs))
  | ["fail", "hle", flags, ze, nsl, fatal, cause] => do
    let c ← parseCtx flags "none"; let ze ← parseBool ze; let nsl ← parseBool nsl
    let fatal ← parseBool fatal; let cs ← parseCause cause
    -- a nil cause is replaced by a plain transport error in the Go driver
    let cs := if cs == .none then .other else cs
    some (boolStr (handleLookupErrorRecords c ze nsl ⟨fatal, cs⟩))
  | ["fail", "pick", rcs, nc, fts] => do
    let rcs ← (parseCsv rcs).mapM (·.toNat?)
    let nc ← nc.toNat?
    let fts ← (parseCsv fts).mapM parseCause
    match pickFallback rcs nc fts with
    | .resp rc => some s!"resp:{rc}"
    | .error e => some s!"err:{boolStr e.fatal}:{causeStr e.cause}"
  | ["fail", "nss", outs] => do
    let os ← (parseCsv outs).mapM fun o =>
      if o == "a" then some NSAddr.found
      else if o == "f" || o == "e" then some (NSAddr.failed .other)
      else if o.startsWith "l:" || o.startsWith "x:" then (parseCause (o.drop 2).toString).map NSAddr.failed
      else none
    let r := lookupV4NssProv os false none false
    let prov := " prov=" ++ boolStr r.2
    match r.1 with
    | .servers => some ("servers" ++ prov)
    | .noServers => some ("noservers" ++ prov)
    | .error c => some ("err:" ++ causeStr c ++ prov)
  | ["fail", "l3zone", spec, _delay] => do
    -- the result loop of Resolver.lookup + the tail of resolve, on the servers' scripted outcomes
    let outs ← (parseCsv spec).mapM fun b =>
      if b == "s" then some (Outcome.rcode 2) else if b == "r" then some (Outcome.rcode 5)
      else if b == "n" then some (Outcome.rcode 4) else if b == "x" then some (Outcome.rcode 3)
      else if b == "d" then some (Outcome.err .other) else if b == "h" || b == "f" then some Outcome.good else none
    let res := lookupFold false outs [] 0 []
    let cls := match res with
      | .resp 0 => "answer"
      | .resp 3 => "nxdomain"
      | _ => "failure"
    some s!"class={cls} zone={boolStr (resolveRecordsZone ⟨false, false, false, .none⟩ false false res)}"
  | "fail" :: "l3shed" :: _ => some "unmodelled"
  | "fail" :: "l3trunc" :: _ => some "unmodelled"
  | ["fail", "qs", outcome] => do
    let (at_, res) ← (
      if outcome.startsWith "reply" then (outcome.drop 5).toString.toNat?.map (fun rc => (Attempt.reply rc, s!"resp:{rc}"))
      else if outcome == "drop" then some (Attempt.silent, "err")
      else if outcome == "attempt" then some (Attempt.refused .attemptLimit, "local")
      else if outcome == "work" then some (Attempt.refused .workLimit, "local")
      else if outcome == "ended" || outcome == "pastdeadline" then some (Attempt.endedBefore, "local")
      else if outcome == "cancelmid" || outcome == "deadlinemid" then some (Attempt.endedDuring, "local")
      else none)
    let feed := match breakerFeed at_ with
      | .failure => "failure" | .success => "success" | .nothing => "none"
    some s!"feed={feed} result={res}"
  | ["fail", "nss6", _ledger, n] =>
    -- every AAAA sub-lookup of the optional job runs under `v6JobCtx`
    if (v6JobCtx ⟨false, false, false, .none⟩).bestEffort then some s!"asked={n} besteffort={n}" else some s!"asked={n} besteffort=0"
  | "fail" :: "l3v6" :: _ => some "answer retained=-"
  | "fail" :: "l3deadline" :: _ => some "patient=answer retained=-"
  | ["fail", "l3id", _dnssec, cd, scenario, qtype] => do
    -- whatever the dnssec switch and the outcome path, a failure is filed under the client's own question
    let cd ← parseBool cd; let qtype ← qtype.toNat?
    if scenario == "ok" then some "rcode=0 recorded=-"
    else some s!"rcode=2 recorded=www.ident.test./{qtype}/1/{boolStr cd}/-"
  | ["fail", "response", kind, rd, cd, udp, dobit, codes] => do
    let rd ← parseBool rd; let cd ← parseBool cd; let udp ← udp.toNat?; let dobit ← parseBool dobit
    let codes ← (parseCsv codes).mapM (·.toNat?)
    let req : Option Req :=
      if kind == "nil" then none
      else if kind == "opt" then some ⟨rd, cd, some ⟨udp, dobit, codes⟩⟩
      else some ⟨rd, cd, none⟩
    some (fmtResp (response req))
  | _ => none

/-! ops on the current cache -/

def lenLookup (s : Store) (now : Int) (k : QKey) : String :=
  s!"len={s.tab.length} {fmtLookup (lookup H s.tab now k)}"

def stateful (s : Store) (w : List String) : Option (Store × String) :=
  match w with
  | "recq" :: n :: t :: c :: cd :: sc :: [now, prov, wit] => do
    let k ← parseQ [n, t, c, cd, sc]; let now ← parseInt now; let prov ← prov.toNat?; let wit ← wit.toNat?
    let r := recordQuestion H s.cfg s.tab now k prov wit
    some ({ s with tab := r.1 }, fmtHit r.2)
  | "race" :: n :: t :: c :: cd :: sc :: [now, _n] => do
    -- n concurrent recorders at one instant: one CAS wins, the losers reload and see an active generation
    let k ← parseQ [n, t, c, cd, sc]; let now ← parseInt now
    let r := recordQuestion H s.cfg s.tab now k 3 0
    some ({ s with tab := r.1 }, fmtHit r.2)
  | ["recz", z, c, now, prov] => do
    let k ← parseZ [z, c]; let now ← parseInt now; let prov ← prov.toNat?
    let r := recordZone H s.cfg s.tab now k prov 0
    some ({ s with tab := r.1 }, fmtHit r.2)
  | "lookup" :: n :: t :: c :: cd :: sc :: [now] => do
    let k ← parseQ [n, t, c, cd, sc]; let now ← parseInt now
    some (s, fmtLookup (lookup H s.tab now k))
  | ["lookupw", wire, t, c, cd, now] => do
    let wn ← parseName wire; let t ← t.toNat?; let c ← c.toNat?; let cd ← parseBool cd; let now ← parseInt now
    some (s, fmtLookup (lookupWire H s.tab now wn t c cd))
  | "retrykey" :: n :: t :: c :: cd :: sc :: [now] => do
    let k ← parseQ [n, t, c, cd, sc]; let now ← parseInt now
    some (s, fmtRetry k (retryKey H s.tab now k))
  | "resetq" :: rest => do
    let k ← parseQ rest
    let r := resetQuestion H s.tab k
    some ({ s with tab := r.1 }, boolStr r.2)
  | "resetz" :: rest => do
    let k ← parseZ rest
    let r := resetZone H s.tab k
    some ({ s with tab := r.1 }, boolStr r.2)
  | "resetm" :: rest => do
    let k ← parseQ rest
    let r := resetMatching H s.tab k
    some ({ s with tab := r.1 }, toString r.2)
  | ["purge", n, t, c] => do
    let n ← parseName n; let t ← t.toNat?; let c ← c.toNat?
    let r := purgeQuestion s.tab n t c
    some ({ s with tab := r.1 }, toString r.2)
  | "evictq" :: rest => do
    let k ← parseQ rest
    some ({ s with tab := s.tab.del (H.q (normalizeQ k)) }, "ok")
  | "evictz" :: rest => do
    let k ← parseZ rest
    some ({ s with tab := s.tab.del (H.z (normalizeZ k)) }, "ok")
  | "seed" :: rest => do
    let (h, rest) ← (match rest with
      | "q" :: n :: t :: c :: cd :: sc :: r => (parseQ [n, t, c, cd, sc]).map fun k => (H.q (normalizeQ k), r)
      | "z" :: z :: c :: r => (parseZ [z, c]).map fun k => (H.z (normalizeZ k), r)
      | _ => none)
    match rest with
    | "q" :: n :: t :: c :: cd :: sc :: [streak, ra] => do
      let k ← parseQ [n, t, c, cd, sc]; let streak ← streak.toNat?; let ra ← parseInt ra
      let e : Entry := { kind := .question, prov := 9, streak := streak, retryAfter := ra, q := normalizeQ k, z := zeroZ, witness := 0 }
      some ({ s with tab := s.tab.set h e }, "ok")
    | ["z", z, c, streak, ra] => do
      let k ← parseZ [z, c]; let streak ← streak.toNat?; let ra ← parseInt ra
      let e : Entry := { kind := .zone, prov := 9, streak := streak, retryAfter := ra, q := zeroQ, z := normalizeZ k, witness := 0 }
      some ({ s with tab := s.tab.set h e }, "ok")
    | _ => none
  | ["backoff", n] => do
    let n ← n.toNat?
    some (s, toString (backoff s.cfg n))
  | ["len"] => some (s, toString s.tab.length)
  | ["audit"] => some (s, "unmodelled")
  -- Store level
  | "srecq" :: n :: t :: c :: cd :: sc :: [now, wit] => do
    let k ← parseQ [n, t, c, cd, sc]; let now ← parseInt now; let wit ← wit.toNat?
    let s' := s.recordFailure H now k 1 wit
    some (s', lenLookup s' now k)
  | ["srecz", c, z, now] => do
    let c ← c.toNat?; let z ← parseName z; let now ← parseInt now
    let s' := s.recordZoneFailure H now c z
    some (s', s!"len={s'.tab.length}")
  | ["sclearz", c, z] => do
    let c ← c.toNat?; let z ← parseName z
    let s' := s.clearZoneFailure H c z
    some (s', s!"len={s'.tab.length}")
  | "slookup" :: n :: t :: c :: cd :: sc :: [now] => do
    let k ← parseQ [n, t, c, cd, sc]; let now ← parseInt now
    some (s, fmtLookup (s.lookupFailure H now k))
  | ["slookupw", wire, t, c, cd, now] => do
    let wn ← parseName wire; let t ← t.toNat?; let c ← c.toNat?; let cd ← parseBool cd; let now ← parseInt now
    some (s, fmtLookup (s.lookupFailureWire H now wn t c cd))
  | "sget" :: n :: t :: c :: cd :: now :: opt :: tree => do
    -- Store.GetWithContext: whatever request tree the sub-query runs in (CD, client ECS)
    let k ← parseQ [n, t, c, cd, "-"]; let now ← parseInt now; let opt ← parseBool opt
    match s.lookupFailure H now k with
    | none => some (s, "miss")
    | some _ =>
      let ecsopt := tree == ["ecsopt"]
      let req : Req := ⟨true, k.cd, if opt then some ⟨1232, true, []⟩ else if ecsopt then some ⟨1232, false, [8]⟩ else none⟩
      some (s, "hit " ++ fmtResp (response (some req)))
  | ["fserve", n, t, c, cd, opt, now, primary, fallback] => do
    let k ← parseQ [n, t, c, cd, "-"]; let opt ← parseBool opt; let now ← parseInt now
    let up : String → Option Upstream := fun o =>
      if o == "servfail" then some .servfail else if o == "refused" then some .refused
      else if o == "useful" then some .useful else if o == "nxdomain" then some .nxdomain
      else if o.startsWith "local:" then (parseCause (o.drop 6).toString).map Upstream.localFail else none
    let p ← up primary; let f ← up fallback
    match s.lookupFailure H now k with
    | some _ =>
      let req : Req := ⟨true, k.cd, if opt then some ⟨1232, true, []⟩ else none⟩
      some (s, "hit upstream=0 " ++ fmtResp (response (some req)))
    | none =>
      let o := failoverWrite p f
      let s' := s.serveViaFailover H now k p f
      some (s', s!"miss upstream=1 fallback={if o.fallbackAsked then 1 else 0} rcode={o.rcode} {lenLookup s' now k}")
  | ["wserve", n, t, c, cd, opt, now] => do
    -- a wire-born request: the packed name is what the decoder re-spells (case kept, rooted);
    -- served without upstream iff the shared audience has an active exact / ancestor-zone failure
    let k ← parseQ [n, t, c, cd, "-"]; let now ← parseInt now; let opt ← parseBool opt
    match s.lookupFailure H now k with
    | some _ => let _ := opt; some (s, "hit upstream=0 rcode=2")
    | none => some (s, "miss upstream=1 rcode=2")
  | "cohort" :: now :: _n :: n :: t :: c :: cd :: [sc] => do
    -- n identical requests: one leader asks upstream and records the SERVFAIL, the followers are
    -- served from that state; an already active failure serves everybody
    let k ← parseQ [n, t, c, cd, sc]; let now ← parseInt now
    if s.disabled then some (s, s!"disabled len={s.tab.length}") else
    match s.lookupFailure H now k with
    | some e => some (s, s!"upstream=0 len={s.tab.length} {fmtHit e}")
    | none =>
      let s' := s.writeBackFailure H now ⟨false, false, false, .none⟩ k 0
      some (s', s!"upstream=1 {lenLookup s' now k}")
  | "probe" :: now :: _n :: rest => do
    let now ← parseInt now
    let rec keys : Nat → List String → Option (List QKey)
      | _, [] => some []
      | 0, _ => none
      | f + 1, n :: t :: c :: cd :: sc :: more => do
        let k ← parseQ [n, t, c, cd, sc]
        let ks ← keys f more
        some (k :: ks)
      | _, _ => none
    let ks ← keys rest.length rest
    let r := s.probeBatch H now ks
    some (s, s!"leaders={r.1} hits={r.2}")
  | "sretrykey" :: n :: t :: c :: cd :: sc :: [now] => do
    let k ← parseQ [n, t, c, cd, sc]; let now ← parseInt now
    some (s, fmtRetry k (s.failureRetryKey H now k))
  | "sresetm" :: rest => do
    let k ← parseQ rest
    let s' := s.resetMatchingFailures H k
    some (s', s!"len={s'.tab.length}")
  | ["spurge", n, t, c] => do
    let n ← parseName n; let t ← t.toNat?; let c ← c.toNat?
    let s' := s.purge n t c
    some (s', s!"len={s'.tab.length}")
  | "sset" :: n :: t :: c :: cd :: sc :: [cls, now] => do
    let k ← parseQ [n, t, c, cd, sc]; let cls ← respClass cls; let now ← parseInt now
    let s' := s.setFromResponse H now k.name k.qtype k.qclass k.cd (normalizeScope k.scope).isSome cls
    some (s', lenLookup s' now { k with scope := none })
  | ["serve", n, t, c, cd, opt, now, outcome] => do
    let k ← parseQ [n, t, c, cd, "-"]; let opt ← parseBool opt; let now ← parseInt now
    match s.lookupFailure H now k with
    | some _ =>
      let req : Req := ⟨true, k.cd, if opt then some ⟨1232, true, [10]⟩ else none⟩
      some (s, "hit upstream=0 " ++ fmtResp (response (some req)))
    | none =>
      let (rc, cls, mark) ← (if outcome == "servfail" then some (2, RespClass.servfail, "none")
        else if outcome == "refused" then some (5, RespClass.servfail, "none")
        else if outcome == "nxdomain" then some (3, RespClass.useful, "none")
        else if outcome == "useful" then some (0, RespClass.useful, "none")
        else if outcome.startsWith "local:" then some (2, RespClass.servfail, (outcome.drop 6).toString)
        else none)
      let ctx ← parseCtx "-" mark
      let s' := match cls with
        | .servfail => s.writeBackFailure H now ctx k 0
        | _ => s.writeBackAnswer H now k false
      some (s', s!"miss upstream=1 rcode={rc} {lenLookup s' now k}")
  | "eserve" :: n :: t :: c :: cd :: sc :: [now, outcome, rs] => do
    let k ← parseQ [n, t, c, cd, sc]; let now ← parseInt now; let rs ← rs.toInt?
    match s.lookupFailure H now k with
    | some _ =>
      let req : Req := ⟨true, k.cd, some ⟨1232, false, [8]⟩⟩
      some (s, "hit upstream=0 " ++ fmtResp (response (some req)))
    | none =>
      let (rc, cls, mark) ← (if outcome == "servfail" then some (2, RespClass.servfail, "none")
        else if outcome == "refused" then some (5, RespClass.servfail, "none")
        else if outcome == "nxdomain" then some (3, RespClass.useful, "none")
        else if outcome == "useful" then some (0, RespClass.useful, "none")
        else if outcome.startsWith "local:" then some (2, RespClass.servfail, (outcome.drop 6).toString)
        else none)
      let ctx ← parseCtx "-" mark
      let s' := match cls with
        | .servfail => s.writeBackFailure H now ctx k 0
        | _ =>
          -- ecs.ReadResponseScope: SCOPE 0, no option, or a SCOPE longer than the family's
          -- address is a global answer; otherwise the (clamped, non-zero) SCOPE files it scoped
          let width : Int := match normalizeScope k.scope with
            | some p => p.width
            | none => 0
          s.writeBackAnswer H now k (decide (rs > 0) && decide (rs ≤ width))
      some (s', s!"miss upstream=1 rcode={rc} {lenLookup s' now k}")
  | ["alias", n, c, cd, _opt, now, outcome] => do
    let k ← parseQ [n, "1", c, cd, "-"]; let now ← parseInt now
    match s.lookupFailure H now k with
    | some _ => some (s, "hit upstream=0 target=0 rcode=2")
    | none =>
      if outcome == "ok" then
        let s' := s.writeBackAnswer H now k false
        some (s', s!"miss upstream=1 target=1 rcode=0 {lenLookup s' now k}")
      else
        let mark := if outcome.startsWith "local:" then (outcome.drop 6).toString
                    else if outcome == "err:attempt" then "attempt" else "none"
        let ctx ← parseCtx "-" mark
        -- the failing hop's provenance is carried to the outer SERVFAIL; a request-local one is not shared,
        -- and the driver then sends a second, independent client
        let s' := s.writeBackFailure H now ctx k 0
        let cnt := if ctx.marked.isRequestLocal then 2 else 1
        some (s', s!"miss upstream={cnt} target={cnt} rcode=2 {lenLookup s' now k}")
  | "write" :: flags :: mark :: n :: t :: c :: cd :: sc :: [now, wit, cls] => do
    let ctx ← parseCtx flags mark
    let k ← parseQ [n, t, c, cd, sc]; let now ← parseInt now; let wit ← wit.toNat?; let cls ← respClass cls
    let s' := match cls with
      | .servfail => s.writeBackFailure H now ctx k wit
      | _ =>
        -- a useful answer: the unscoped write resets the shared exact question,
        -- then ResponseWriter resets exact + covering zones for the client's audience
        s.writeBackAnswer H now k false
    some (s', lenLookup s' now k)
  | _ => none

def fmtSF (b : Breaker) (a : String) : String :=
  match b.get a with
  | none => "none"
  | some sf => s!"count={sf.count} disabled={boolStr sf.disabled}"

def stepCB (st : State) (w : List String) : Option (State × String) :=
  match w with
  | ["new"] => some ({ st with cb := some [], cbNow := 1000000 }, "ok")
  | adv :: op :: rest =>
    match st.cb, adv.toInt? with
    | some b, some adv =>
      let now := st.cbNow + adv
      let nowMs := now * 1000 + 500
      let st := { st with cbNow := now }
      match op, rest with
      | "can", [a] =>
        let r := b.canQuery nowMs a
        some ({ st with cb := some r.1 }, boolStr r.2 ++ " " ++ fmtSF r.1 a)
      | "fail", [a] =>
        let b' := b.recordFailure nowMs a
        some ({ st with cb := some b' }, fmtSF b' a)
      | "ok", [a] =>
        let b' := b.recordSuccess a
        some ({ st with cb := some b' }, fmtSF b' a)
      | "clean", [] =>
        let b' := b.cleanupOnce now
        some ({ st with cb := some b' }, s!"len={b'.length}")
      | _, _ => none
    | none, _ => some (st, "nocb")
    | _, _ => none
  | _ => none

def step (st : State) (w : List String) : State × String :=
  match w with
  | "fail" :: "cb" :: rest =>
    match stepCB st rest with
    | some r => r
    | none => (st, "bad-op")
  | _ =>
  match stateless w with
  | some o => (st, o)
  | none =>
    match w with
    | "fail" :: "new" :: size :: mn :: mx :: en :: _expire =>
      match size.toInt?, parseInt mn, parseInt mx, parseBool en with
      | some size, some mn, some mx, some en =>
        -- the cache Cache.New builds from the configuration (independent of `expire`)
        let b := cacheNewCfg size mn mx
        let built := s!" cache={b.initial}/{b.max}"
        match newCfg size mn mx with
        | .ok c => ({ store := some ⟨!en, c, []⟩ }, s!"ok {c.initial} {c.max}" ++ built)
        | .error e =>
          ({ store := none }, "err=" ++ (match e with
            | .size => "size" | .initial => "initial" | .max => "max" | .ceiling => "ceiling") ++ built)
      | _, _, _, _ => (st, "bad-op")
    | "fail" :: rest =>
      match st.store with
      | none => (st, "nocache")
      | some s =>
        match stateful s rest with
        | some (s', o) => ({ store := some s' }, o)
        | none => (st, "bad-op")
    | _ => (st, "bad-op")

end Driver.C13
