import SdnsVerif.Model.Util
import SdnsVerif.Model.AutoTA
import SdnsVerif.Gen.C09
/-! Line protocol for the `autota` ops of C09 (see harness/c09/main.go). -/
namespace Driver.C09
open SdnsVerif.Model SdnsVerif.Model.AutoTA SdnsVerif.Model.Util

structure State where
  cfg : List Key := []
  sys : Sys := {}
  started : Bool := false

/-- hold-downs as found in the tree (the Props file pins their direction). -/
def params : Params :=
  { addHold := SdnsVerif.Gen.C09.add_holddown_hours * 3600,
    remHold := SdnsVerif.Gen.C09.missing_holddown_hours * 3600 }

def flagsOf (k : Key) : Nat := k.other + (if k.sep then 1 else 0) + (if k.revoke then 128 else 0)

def mkKey (mat flags tag owner : Nat) : Key :=
  let sep := flags % 2 == 1
  let rev := (flags / 128) % 2 == 1
  { mat := mat, sep := sep, revoke := rev,
    other := flags - (if sep then 1 else 0) - (if rev then 128 else 0), tag := tag, owner := owner }

/-- `<mat>.<flags>.<tag>` (owner ".") or `<mat>.<flags>.<tag>@<n>` (owner name number n). -/
def parseRef (s : String) : Option Key :=
  let (body, owner) := match s.splitOn "@" with
    | [b, o] => (b, o.toNat?)
    | _ => (s, some 0)
  match body.splitOn ".", owner with
  | [m, f, t], some o => do
    let m ← m.toNat?
    let f ← f.toNat?
    let t ← t.toNat?
    some (mkKey m f t o)
  | _, _ => none

def parseRefs (s : String) : Option (List Key) :=
  if s == "-" then some [] else (s.splitOn ",").mapM parseRef

def refStr (k : Key) : String :=
  if k.owner == 0 then s!"{k.mat}.{flagsOf k}.{k.tag}" else s!"{k.mat}.{flagsOf k}.{k.tag}@{k.owner}"

/-- `x=<keys|->:<signers|->;...`: the other RRsets of the answer section. -/
def parseExtras (s : String) : Option (List Extra) :=
  (s.splitOn ";").mapM fun e =>
    match e.splitOn ":" with
    | [ks, ss] => do
      let ks ← parseRefs ks
      let ss ← parseRefs ss
      some { keys := ks, signers := ss }
    | [ks, ss, ns] => do
      -- third field: RRSIGs over this RRset with an explicit signer name, `<keyref>/<n>,...`
      let ks ← parseRefs ks
      let ss ← parseRefs ss
      let ns ← (ns.splitOn ",").mapM fun x =>
        match x.splitOn "/" with
        | [k, n] => do
          let k ← parseRef k
          let n ← n.toNat?
          some ({ key := k, signer := n } : NamedSig)
        | _ => none
      some { keys := ks, signers := ss ++ namedSigners ns }
    | _ => none

def insertBy {α : Type} (le : α → α → Bool) (a : α) : List α → List α
  | [] => [a]
  | x :: t => if le a x then a :: x :: t else x :: insertBy le a t

def sortBy {α : Type} (le : α → α → Bool) : List α → List α
  | [] => []
  | x :: t => insertBy le x (sortBy le t)

def keyLe (a b : Key) : Bool :=
  if a.tag != b.tag then a.tag < b.tag
  else if a.mat != b.mat then a.mat < b.mat
  else flagsOf a ≤ flagsOf b

def stStr : St → String
  | .start => "S" | .addPend => "P" | .valid => "V" | .missing => "M" | .revoked => "R" | .removed => "X"

def parseSt (s : String) : Option St :=
  if s == "S" then some .start else if s == "P" then some .addPend else if s == "V" then some .valid
  else if s == "M" then some .missing else if s == "R" then some .revoked else if s == "X" then some .removed
  else none

def liveStr (s : Sys) : String :=
  match s.proc with
  | none => "dead"
  | some [] => "-"
  | some l => ",".intercalate ((sortBy keyLe l).map refStr)

def stateStr (s : Sys) : String :=
  match s.disk.state with
  | .absent => "absent"
  | .corrupt => "corrupt"
  | .empty => "zero"
  | .ok [] => "empty"
  | .ok tas =>
    let srt := sortBy (fun (a b : TA) => a.key.tag ≤ b.key.tag) tas
    ",".intercalate (srt.map fun ta => s!"{refStr ta.key}/{stStr ta.st}/{(s.now - ta.firstSeen) / 60}")

def tombStr (s : Sys) : String :=
  match s.disk.tomb with
  | .absent => "absent"
  | .corrupt => "corrupt"
  | .empty => "zero"
  | .ok [] => "empty"
  | .ok ms => ",".intercalate ((sortBy (fun (a b : Nat) => a ≤ b) ms).map toString)

def obs (s : Sys) : String := s!"live={liveStr s} state={stateStr s} tomb={tombStr s}"

def parseEntry (now : Nat) (s : String) : Option TA :=
  match s.splitOn "/" with
  | [r, st, age] => do
    let k ← parseRef r
    let st ← parseSt st
    let age ← age.toNat?
    some { key := k, st := st, firstSeen := now - age * 60 }
  | _ => none

def parseFaults (s : String) : Option Faults :=
  s.toList.foldl (fun acc c => match acc with
    | none => none
    | some fl =>
      if c == 's' then some { fl with stateRead := true }
      else if c == 't' then some { fl with tombRead := true }
      else if c == 'T' then some { fl with tombWrite := true }
      else if c == 'S' then some { fl with stateWrite := true }
      else if c == '-' then some fl
      else none) (some {})

def outcomeStr : Outcome → String
  | .ok => "ok" | .verr => "verr" | .perr => "perr"

/-- `ts=<keyref>/<notBefore>/<notAfter>[/<signer name number>],...` (seconds relative to now, signed). -/
def parseTimed (rest : List String) : Option (List TimedSig) :=
  match rest.find? (fun w => w.startsWith "ts=") with
  | none => some []
  | some w => (((w.drop 3).toString).splitOn ",").mapM fun e =>
    match e.splitOn "/" with
    | [k, a, b] => do
      let k ← parseRef k
      let a ← a.toInt?
      let b ← b.toInt?
      some { key := k, notBefore := a, notAfter := b }
    | [k, a, b, n] => do
      let k ← parseRef k
      let a ← a.toInt?
      let b ← b.toInt?
      let n ← n.toNat?
      some { key := k, notBefore := a, notAfter := b, signer := n }
    | _ => none

def doRun (st : State) (fs sg fl cr : String) (rest : List String := []) : State × String :=
  let xs : Option (List Extra) :=
    match rest.find? (fun w => w.startsWith "x=") with
    | some w => parseExtras (w.drop 2).toString
    | none => some []
  let fetch : Option (Option Fetch) :=
    if fs == "none" then some none else
    match parseRefs fs, parseRefs sg, xs, parseTimed rest with
    | some ks, some ss, some xs, some ts => some (some { keys := ks, signers := effectiveSigners ss ts, extras := xs })
    | _, _, _, _ => none
  let crash : Option (Option Nat) := if cr == "-" then some none else cr.toNat?.map some
  match fetch, parseFaults fl, crash with
  | some f, some fl, some cr =>
    let r := runResult params st.cfg st.sys f fl
    let sys' := step params st.cfg st.sys (.run f fl cr)
    let preStr := match r.pre with
      | none => "none"
      | some [] => "-"
      | some l => ",".intercalate ((sortBy keyLe l).map refStr)
    let wStr := String.join (r.writes.map fun w => match w with | .tomb _ => "t" | .state _ => "s")
    let wStr := if wStr == "" then "-" else wStr
    let pre := match cr with
      | none => s!"res={outcomeStr r.outcome} pre={preStr} w={wStr} "
      | some _ => ""
    ({ st with sys := sys' }, pre ++ obs sys')
  | _, _, _ => (st, "bad-op")

def step (st : State) (w : List String) : State × String :=
  match w with
  | ["autota", "new", ks] =>
    match parseRefs ks with
    | some l =>
      -- the clock starts late enough for seeded files to carry old FirstSeen stamps
      let st' : State := { cfg := l, sys := { now := 4000000000 }, started := true }
      (st', obs st'.sys)
    | none => (st, "bad-op")
  | ["autota", "seed", ss, ts] =>
    if !st.started then (st, "bad-op") else
    let stateF : Option (Option (List TA)) :=
      if ss == "-" then some none
      else if ss == "empty" then some (some [])
      else ((ss.splitOn ",").mapM (parseEntry st.sys.now)).map some
    let tombF : Option (Option (List Nat)) :=
      if ts == "-" then some none
      else if ts == "empty" then some (some [])
      else ((ts.splitOn ",").mapM String.toNat?).map some
    match stateF, tombF with
    | some sf, some tf =>
      let d := st.sys.disk
      let d := match sf with | some v => { d with state := .ok v } | none => d
      let d := match tf with | some v => { d with tomb := .ok v } | none => d
      let st' := { st with sys := { st.sys with disk := d } }
      (st', obs st'.sys)
    | _, _ => (st, "bad-op")
  | ["autota", "tick", d] =>
    if !st.started then (st, "bad-op") else
    match d.toNat? with
    | some dt =>
      let st' := { st with sys := AutoTA.step params st.cfg st.sys (.tick dt) }
      (st', obs st'.sys)
    | none => (st, "bad-op")
  | ["autota", "l3", wd, route, cd] =>
    -- the consumer side over a scripted signed hierarchy: the trust set is what the model's
    -- AutoTA / startupKeys leave with one configured anchor and the given tombstone store
    let k0 : Key := mkKey 1 257 1000 0
    let tomb : Option (FileC (List Nat)) :=
      if wd == "none" then some .absent
      else if wd == "corrupt" || wd == "start-corrupt" then some .corrupt
      else if wd == "zero" || wd == "start-zero" then some .empty
      else if wd == "unreadable" || wd == "start-unreadable" then some .absent
      else none
    match tomb, parseBool cd with
    | some t, some cdb =>
      let d : Disk := { tomb := t }
      let live :=
        if wd.startsWith "start-" then startupKeys [k0] d { tombRead := wd == "start-unreadable" }
        else (autoTA params [k0] d [k0] (some { keys := [k0], signers := [k0] })
                { tombRead := wd == "unreadable" } 0).live
      let secure := route != "insecure"
      (st, match serve live cdb secure with
        | .answered ad => s!"answered ad={boolStr ad}"
        | .servfail => "servfail")
    | _, _ => (st, "bad-op")
  | ["autota", "boot"] =>
    if !st.started then (st, "bad-op") else
    let st' := { st with sys := AutoTA.step params st.cfg st.sys (.boot {}) }
    (st', obs st'.sys)
  | ["autota", "boot", fl] =>
    -- the process starts while the files cannot be read (s: state file, t: tombstone store)
    if !st.started then (st, "bad-op") else
    match parseFaults fl with
    | some fl =>
      let st' := { st with sys := AutoTA.step params st.cfg st.sys (.boot fl) }
      (st', obs st'.sys)
    | none => (st, "bad-op")
  | ["autota", "restart"] =>
    if !st.started then (st, "bad-op") else
    let st' := { st with sys := AutoTA.step params st.cfg st.sys .restart }
    (st', obs st'.sys)
  | ["autota", "damage", what] =>
    if !st.started then (st, "bad-op") else
    -- a truncated gob stream is undecodable like garbage; a zero-length file is its own outcome
    let d : Option Damage :=
      if what == "tomb" || what == "tomb-trunc" then some .tomb
      else if what == "state" || what == "state-trunc" then some .state
      else if what == "tomb-empty" then some .tombEmpty
      else if what == "state-empty" then some .stateEmpty
      else none
    match d with
    | some d =>
      let st' := { st with sys := AutoTA.step params st.cfg st.sys (.damage d) }
      (st', obs st'.sys)
    | none => (st, "bad-op")
  | "autota" :: "probe" :: fs :: sg :: rest =>
    -- a validated client lookup of ". DNSKEY" with the current live trust set
    if !st.started then (st, "bad-op") else
    let xs : Option (List Extra) :=
      match rest.find? (fun w => w.startsWith "x=") with
      | some w => parseExtras (w.drop 2).toString
      | none => some []
    match st.sys.proc, parseRefs fs, (parseRefs sg).bind (fun ss => (parseTimed rest).map (effectiveSigners ss)), xs with
    | some live, some ks, some ss, some xs =>
      -- a DNSKEY of another owner name in the trust set (only reachable when an anchor signed it for
      -- 30 days): verifyRootKeys' DS step over mixed owner names is not modelled
      if live.any (fun k => k.owner != 0) then (st, "unmodelled") else
      (st, if validates live { keys := ks, signers := ss, extras := xs } then "answered ad=t" else "refused")
    | _, _, _, _ => (st, "bad-op")
  | ["autota", "killrun", fs, sg, k] =>
    -- a new process runs the refresh and is SIGKILLed on entry to its (k+1)-th rename
    if !st.started then (st, "bad-op") else
    let st' := { st with sys := AutoTA.step params st.cfg st.sys .restart }
    doRun st' fs sg "-" k
  | "autota" :: "run" :: fs :: sg :: fl :: cr :: rest =>
    if !st.started then (st, "bad-op") else doRun st fs sg fl cr rest
  | _ => (st, "bad-op")

end Driver.C09
