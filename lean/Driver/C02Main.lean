import Driver.Loop
import Driver.C02
def main : IO Unit := Driver.runLoop ({} : Driver.C02.State) Driver.C02.step
