import Driver.Loop
import Driver.C18
def main : IO Unit := Driver.runLoop ({} : Driver.C18.State) Driver.C18.step
