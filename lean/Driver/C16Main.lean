import Driver.Loop
import Driver.C16
def main : IO Unit := Driver.runLoop ({} : Driver.C16.State) Driver.C16.step
