import Driver.IPSet
/-!
`sdnsmodel`: reads one op per line on stdin, runs the executable model of the
addressed subsystem, prints exactly one result line per op.  Ops of unknown
subsystems print `bad-op` (the model never defaults).
-/
structure St where
  ipset : Driver.IPSet.State := {}

def step (st : St) (line : String) : St × String :=
  let w := (line.splitOn " ").filter (· ≠ "")
  match w with
  | [] => (st, "bad-op")
  | sub :: _ =>
    if sub == "ipset" || sub == "acl" || sub == "views" || sub == "sub" then
      let (s, o) := Driver.IPSet.step st.ipset w; ({ st with ipset := s }, o)
    else (st, "bad-op")

partial def loop (h : IO.FS.Stream) (out : IO.FS.Stream) (st : St) : IO Unit := do
  let line ← h.getLine
  if line.isEmpty then return ()
  let l := (line.dropEndWhile (fun c => c == '\n' || c == '\r')).toString
  let (st', o) := step st l
  out.putStrLn o
  loop h out st'

def main : IO Unit := do
  let stdin ← IO.getStdin
  let stdout ← IO.getStdout
  loop stdin stdout {}
