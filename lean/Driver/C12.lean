import SdnsVerif.Model.Util
import SdnsVerif.Model.Work
/-! Line protocol for the `ledger` / `guard` / `fail` / `pipe` / `sub` / `loop` / `min` ops of C12
(`l3` ops are judged by the Go oracle only). -/
namespace Driver.C12
open SdnsVerif.Model SdnsVerif.Model.Work SdnsVerif.Model.Util

structure State where
  valid : Bool := false
  pol : Policy := { mode := .off, caps := KTab.const 0 }
  sh : Shared := {}
  handles : Nat := 0
  guard : Guard := []
  guardN : Nat := 0
  pipeValid : Bool := false
  pipePol : Policy := { mode := .off, caps := KTab.const 0 }
  failed : List Nat := []
  pipeFlat : Bool := false        -- the cache's internal queries go to an executor that does not chase aliases
  pipeFwd : Bool := false         -- forwarder mode
  pipeFO : Bool := false          -- failover middleware with one fallback server
  answered : List Nat := []       -- names a fallback answer is cached for
  loops : List (Nat × List String) := []
  n3memo : List String := []      -- the request tree's NSEC3 hash memo (once a context carrying one was used)

/-- owner names of the fixture ring of `n3 nx` / `n3 nodata` (harness/c12/n3ops.go). -/
def n3Ring : List String := ["n3.test.", "host.n3.test.", "other.n3.test."]

def parseCsv (s : String) : Option (KTab Nat) := do
  let l ← (s.splitOn ",").mapM String.toNat?
  if l.length = 8 then some (KTab.ofList 0 l) else none

def parseKind (s : String) : Option Kind := s.toNat? >>= Kind.ofIdx

def modeStr : Mode → String
  | .off => "off" | .shadow => "shadow" | .enforce => "enforce"

def csv (l : List Nat) : String := ",".intercalate (l.map toString)

def resStr : Res → String
  | .ok => "ok"
  | .limit k lim => s!"limit:{k.idx}:{lim}:{edeCode k}"

def polStr (p : Policy) : String := s!"mode={modeStr p.mode} caps={csv p.caps.toList}"

def bits (t : KTab Bool) : String := String.ofList (t.toList.map fun b => if b then '1' else '0')

def labelCount (name : String) : Nat := ((name.splitOn ".").filter (· ≠ "")).length

def loopGet (l : List (Nat × List String)) (t : Nat) : List String :=
  match l with
  | [] => []
  | (k, v) :: r => if k = t then v else loopGet r t

def loopSet (l : List (Nat × List String)) (t : Nat) (v : List String) : List (Nat × List String) :=
  match l with
  | [] => [(t, v)]
  | (k, w) :: r => if k = t then (k, v) :: r else (k, w) :: loopSet r t v

def step (st : State) (w : List String) : State × String :=
  match w with
  | ["ledger", "new", mode, raw, dflt] =>
    match parseCsv raw, parseCsv dflt with
    | some r, some d =>
      match policyFromConfig mode r d with
      | some p => ({ st with valid := true, pol := p, sh := {}, handles := 0, n3memo := [] }, polStr p)
      | none => ({ st with valid := false }, "invalid")
    | _, _ => (st, "bad-op")
  | ["ledger", "debit", _tid, k] =>
    match parseKind k with
    | some k => let (sh, r) := apiStep st.pol st.sh (.debit k true); ({ st with sh := sh }, resStr r)
    | none => (st, "bad-op")
  | ["ledger", "debitbe", _tid, k] =>
    match parseKind k with
    | some k => let (sh, r) := apiStep st.pol st.sh (.debit k false); ({ st with sh := sh }, resStr r)
    | none => (st, "bad-op")
  | ["ledger", "check", k, used, latch] =>
    match parseKind k, used.toNat?, parseBool latch with
    | some k, some u, some l => let (sh, r) := apiStep st.pol st.sh (.check k u l); ({ st with sh := sh }, resStr r)
    | _, _, _ => (st, "bad-op")
  | ["ledger", "reject", k, latch] =>
    match parseKind k, parseBool latch with
    | some k, some l => let (sh, r) := apiStep st.pol st.sh (.reject k l); ({ st with sh := sh }, resStr r)
    | _, _ => (st, "bad-op")
  | ["ledger", "enf"] =>
    match enforcementError st.pol st.sh with
    | .ok => (st, "nil")
    | r => (st, resStr r)
  | ["ledger", "snap"] =>
    if !st.pol.enabled then (st, "none") else
    let s := st.sh
    (st, s!"ctr={s.ctr.a0},{s.ctr.a1},{s.ctr.a4},{s.ctr.a5},{s.ctr.a6} exh={bits s.exh} first={s.first} refs={s.refs} pub={boolStr s.published}")
  | ["ledger", "retain"] =>
    let (sh, ok) := retain st.pol st.sh
    if ok then ({ st with sh := sh, handles := st.handles + 1 }, "ok") else (st, "no")
  | ["ledger", "release"] =>
    if st.handles = 0 then (st, "none")
    else ({ st with sh := release st.sh, handles := st.handles - 1 }, "ok")
  | ["ledger", "finish"] => ({ st with sh := finish st.pol st.sh }, "ok")
  | ["ledger", "storm", g, per, k, _rounds] =>
    match g.toNat?, per.toNat?, parseKind k with
    | some g, some per, some k =>
      let total := g * per
      if st.pol.mode = .enforce then
        let a := min total (st.pol.caps.get k)
        (st, s!"accepted={a} used={a}")
      else if st.pol.mode = .shadow then (st, s!"accepted={total} used={total}")
      else (st, s!"accepted={total} used=0")
    | _, _, _ => (st, "bad-op")
  | ["guard", "new", n] =>
    match n.toNat? with
    | some n =>
      -- the limit is observed from the implementation and validated: RFC 9520 allows at most three
      if 1 ≤ n ∧ n ≤ 3 then ({ st with guard := [], guardN := n }, "ok") else ({ st with guard := [], guardN := n }, "bad-limit")
    | none => (st, "bad-op")
  | "guard" :: "begin" :: key :: _ =>
    match (key.drop 1).toNat? with
    | some k =>
      let (g, ok) := Guard.begin st.guardN st.guard k
      ({ st with guard := g }, if ok then "ok" else "limit")
    | none => (st, "bad-op")
  | ["fail", "classify", ctx, be, mode, latch, mark] =>
    match parseBool be, parseMode mode with
    | some be, some m =>
      let hard := latch.startsWith "hard"
      let localMark := mark ≠ "none" ∧ mark ≠ "other"
      let c : FailCtx := { ctxErr := ctx ≠ "live", bestEffort := be, enforced := m = .enforce ∧ hard, localMark := localMark }
      (st, boolStr (cacheableFailure c))
    | _, _ => (st, "bad-op")
  | "pipe" :: "new" :: mode :: raw :: dflt :: opts =>
    match parseCsv raw, parseCsv dflt with
    | some r, some d =>
      match policyFromConfig mode r d with
      | some p => ({ st with pipeValid := true, pipePol := p, failed := [], answered := [], pipeFO := opts == ["failover"], pipeFwd := opts == ["forwarder"], pipeFlat := opts == ["flatq"] }, polStr p)
      | none => ({ st with pipeValid := false }, "invalid")
    | _, _ => (st, "bad-op")
  | ["pipe", "rho", _id, tail, cyc, _edns, _client] =>
    if !st.pipeFlat then (st, "unmodelled") else
    match tail.toNat?, cyc.toNat? with
    | some tail, some cyc =>
      -- one chase level: the queried name is node s, its alias target s-1; node 0 points back at node cyc-1
      let s := tail + cyc - 1
      let next : Nat → Option Nat := fun t => if t = 0 then some (cyc - 1) else some (t - 1)
      let vis := chaseLevel next 10 [s] (s - 1)
      let hops := vis.length - 1
      -- SERVFAIL when the level stopped at a target it had seen, or when the last exchange revealed the
      -- queried name itself (`target == q.Name` is tested before the hop budget); otherwise the hop
      -- budget ran out and the partial answer goes out
      let backToStart := match vis.head? with
        | some t => hops ≥ 1 && next t == some s
        | none => false
      (st, s!"rcode={if hops < 10 || backToStart then 2 else 0} hops={hops}")
    | _, _ => (st, "bad-op")
  | ["pipe", "late", _id, k, during, after] =>
    match parseKind k, during.toNat?, after.toNat? with
    | some k, some during, some after =>
      let ops1 : List PinOp := (List.range during).map fun _ => .debit k true
      let (pin1, _) := pinRun st.pipePol .pending (ops1 ++ [.finish])
      let ops2 : List PinOp := (List.range after).map fun _ => .debit k true
      let (_, rs) := pinRun st.pipePol pin1 ops2
      let okN := (rs.filter (· == .ok)).length
      let canc := (rs.filter (· == .canceled)).length
      let lim := rs.length - okN - canc
      let retain := match pin1 with
        | .live sh => boolStr (retain st.pipePol sh).2
        | _ => "none"
      (st, s!"after={okN}/{canc}/{lim} retain={retain}")
    | _, _, _ => (st, "bad-op")
  | ["pipe", "chain", _id, len, edns, warm, _client] =>
    match len.toNat?, parseBool edns, parseBool warm with
    | some len, some edns, some warm =>
      if warm then (st, "warmed") else
      if st.pipeFwd then
        let (sh, up, ok) := runOps st.pipePol {} (forwardOps len)
        if ok then (st, s!"rcode=0 an={len + 1} ede=- up={up}") else
        let r := servfailReply st.pipePol sh edns none
        (st, s!"rcode={r.rcode} an=0 ede={match r.ede with | some e => toString e | none => "-"} up={up}")
      else
      -- every hop of the alias chain is one internal sub-query of the cache's chase, cached or not
      let ops : List ApiOp := (List.range len).map fun _ => .debit .internal true
      let sh := ops.foldl (fun sh op => (apiStep st.pipePol sh op).1) ({} : Shared)
      match enforcementError st.pipePol sh with
      | .ok => (st, s!"rcode=0 an={len + 1} ede=-")
      | _ =>
        let r := servfailReply st.pipePol sh edns none
        (st, s!"rcode={r.rcode} an=0 ede={match r.ede with | some e => toString e | none => "-"}")
    | _, _, _ => (st, "bad-op")
  | ["pipe", "query", name, edns, _do, _client, k, nd] =>
    match name.toNat?, parseBool edns, parseKind k, nd.toNat? with
    | some name, some edns, some k, some nd =>
      if st.pipeFO then
        if st.answered.contains name then (st, "rcode=0 ede=- stub=f fb=f") else
        let ops : List ApiOp := (List.range nd).map fun i => if k.isAggregate then .debit k true else .check k i true
        let sh := ops.foldl (fun sh op => (apiStep st.pipePol sh op).1) ({} : Shared)
        let (r, asked) := failoverReply st.pipePol sh edns
        let st' := if asked then { st with answered := name :: st.answered } else st
        (st', s!"rcode={r.rcode} ede={match r.ede with | some e => toString e | none => "-"} stub=t fb={boolStr asked}")
      else
      if st.failed.contains name then
        (st, s!"rcode=2 ede={if edns then "13" else "-"} stub=f")
      else
        -- the stub spends `nd` units of kind `k` on a fresh request-tree ledger, then writes SERVFAIL
        let ops : List ApiOp := (List.range nd).map fun i => if k.isAggregate then .debit k true else .check k i true
        let sh := ops.foldl (fun sh op => (apiStep st.pipePol sh op).1) ({} : Shared)
        let r := servfailReply st.pipePol sh edns none
        let over := enforcementError st.pipePol sh != .ok
        let c : FailCtx := { ctxErr := false, bestEffort := false, enforced := over, localMark := false }
        let st' := if cacheableFailure c then { st with failed := name :: st.failed } else st
        (st', s!"rcode={r.rcode} ede={match r.ede with | some e => toString e | none => "-"} stub=t")
    | _, _, _, _ => (st, "bad-op")
  | ["pipe", "alias", id, edns, _client, k, nd] =>
    match id.toNat?, parseBool edns, parseKind k, nd.toNat? with
    | some id, some edns, some k, some nd =>
      let name := 1000 + id
      if st.failed.contains name then
        (st, s!"rcode=2 ede={if edns then "13" else "-"} stub=0")
      else
        -- the stub answers the alias with a bare CNAME; the cache's own chase resolves the target,
        -- which spends `nd` units and fails; the decision is taken on the ledger after the chase
        let ops : List ApiOp := .debit .internal true ::
          (List.range nd).map fun i => if k.isAggregate then .debit k true else .check k i true
        let sh := ops.foldl (fun sh op => (apiStep st.pipePol sh op).1) ({} : Shared)
        let r := servfailReply st.pipePol sh edns (some 0)
        let st' := if chasedFailureCacheable st.pipePol {} ops false false false then { st with failed := name :: st.failed } else st
        (st', s!"rcode={r.rcode} ede={match r.ede with | some e => toString e | none => "-"} stub=2")
    | _, _, _, _ => (st, "bad-op")
  | ["sub", "nest", mode, cap, dflt, maxq] =>
    match parseMode mode, cap.toNat?, dflt.toNat?, maxq.toNat? with
    | some m, some cap, some d, some maxq =>
      if maxq > 32 then (st, "bad-bound") else
      let c := normCap cap d
      if m = .enforce ∧ c < maxq then (st, s!"depth={c} err=limit") else (st, s!"depth={maxq} err=maxrec")
    | _, _, _, _ => (st, "bad-op")
  | ["pick", "fallback", rcs, ncfg, errs] =>
    match (if rcs == "-" then some [] else (rcs.splitOn ",").mapM String.toNat?), ncfg.toNat? with
    | some rcodes, some n =>
      let es : List LookupErr := if errs == "-" then [] else errs.toList.map fun c =>
        if c == 'w' then .workLimit else if c == 'a' then .attemptLimit else .other
      match pickFallback rcodes n es with
      | .work => (st, "work")
      | .attempt => (st, "attempt")
      | .resp i => (st, s!"resp{i}")
      | .config => (st, "config0")
      | .conn => (st, "conn")
      | .none => (st, "none")
    | _, _ => (st, "bad-op")
  | ["loop", "new"] => ({ st with loops := [] }, "ok")
  | ["loop", "check", name, qtype] =>
    match qtype.toNat? with
    | some t =>
      let (l, loop) := checkLoop (loopGet st.loops t) name
      ({ st with loops := loopSet st.loops t l }, boolStr loop)
    | none => (st, "bad-op")
  | ["min", "check", ml, name, lvl, nomin] =>
    match ml.toNat?, lvl.toNat?, parseBool nomin with
    | some ml, some lvl, some nm =>
      let lb := labelCount name
      if minimized ml lb lvl nm then (st, s!"t {lvl + 1}") else (st, s!"f {lb}")
    | _, _, _ => (st, "bad-op")
  | "n3" :: kind :: base :: labels :: memo :: rest =>
    if !st.valid then (st, "no-ledger") else
    let itersOpt : Option Nat := match rest with
      | [] => some 0
      | [i] => i.toNat?
      | _ => none
    match parseBool memo, (if kind = "nx" then some false else if kind = "nodata" then some true else none), itersOpt with
    | some useMemo, some nodata, some iters =>
      -- the memo key holds the hash parameters: names of rings with different iteration counts never meet
      let sfx := s!"#{iters}"
      let b := (if base = "host" then "host.n3.test." else "n3.test.") ++ sfx
      let ls := if labels = "-" then [] else labels.splitOn "."
      let (sh, memo', out) := n3VerifyIter st.pol 64 150 iters nodata (n3Ring.map (· ++ sfx)) b ls st.sh
        (if useMemo then some st.n3memo else none)
      let st' := { st with sh := sh, n3memo := if useMemo then memo'.getD st.n3memo else st.n3memo }
      let r := match out with
        | .secure => "secure"
        | .bogus => "bogus"
        | .work k lim => resStr (.limit k lim)
      (st', s!"res={r} n3={sh.ctr.a6}")
    | _, _, _ => (st, "bad-op")
  | "ds" :: "new" :: _ => (st, "unmodelled")
  | ["ds", "verify", mode, cand, dsc, anch, dpos, kpos, d, k] =>
    match parseMode mode, cand.toNat?, dsc.toNat?, parseBool anch, d.toNat?, k.toNat? with
    | some m, some cand, some dsc, some anch, some d, some k =>
      let hitAt : Option Nat := match dpos.toNat?, kpos.toNat? with
        | some _, some kp => some kp
        | _, _ => none
      let recs := (List.range d).map fun j => (k, if dpos.toNat? = some j then hitAt else none)
      let (ops, ok, err) := dsWalk (m = .enforce) anch cand dsc recs 0 false
      let nAnch := if anch && ok then 1 else 0
      match err with
      | some .dnskeyCand => (st, s!"err=cand ops={ops} anchored=0")
      | some _ => (st, s!"err=ds ops={ops} anchored=0")
      | none => (st, s!"err={if ok then "-" else "bogus"} ops={ops} anchored={nAnch}")
    | _, _, _, _, _, _ => (st, "bad-op")
  | "sigs" :: "new" :: _ => (st, "unmodelled")
  | ["sigs", "verify", mode, cand, rrset, sig, gpos, kpos, s, k] =>
    match parseMode mode, cand.toNat?, rrset.toNat?, sig.toNat?, s.toNat?, k.toNat? with
    | some m, some cand, some rrset, some sig, some s, some k =>
      let hitAt : Option Nat := match gpos.toNat?, kpos.toNat? with
        | some _, some kp => some kp
        | _, _ => none
      let sigs := (List.range s).map fun j => (k, if gpos.toNat? = some j then hitAt else none)
      let (_, ops, out) := verifyRRset (m = .enforce) { cand := cand, rrset := rrset, budget := sig } sigs 0 0
      match out with
      | .verified => (st, s!"ok=t err=- ops={ops}")
      | .failed => (st, s!"ok=f err=bogus ops={ops}")
      | .work .dnskeyCand => (st, s!"ok=f err=cand ops={ops}")
      | .work .rrsetSig => (st, s!"ok=f err=rrset ops={ops}")
      | .work _ => (st, s!"ok=f err=sig ops={ops}")
    | _, _, _, _, _, _ => (st, "bad-op")
  | "l3" :: _ => (st, "unmodelled")
  | _ => (st, "bad-op")

end Driver.C12
