import SdnsVerif.Model.Util
import SdnsVerif.Model.OneReply
/-! Line protocol for the `rw` (responseWriter) and `wg` (WaitGroup) ops of
C11.  `dedup` and `sys` ops are judged by the Go oracle only. -/
namespace Driver.C11
open SdnsVerif.Model SdnsVerif.Model.OneReply SdnsVerif.Model.Util

structure State where
  sw : Writer := {}
  scache : Bool := false
  scfg : EdnsCfg := { doBit := true, noedns := false, udp := true, size := 1232 }
  w : Writer := {}
  wg : WG := {}
  qto : Nat := 1000
  zl : ZL := {}
  zq : Nat := 16

def txStr (l : List Tx) : String :=
  if l.isEmpty then "-" else
  ",".intercalate (l.map fun t => match t with | .bytes => "b" | .msg => "m")

def retStr : Ret → String
  | .ok => "ok"
  | .already => "already"
  | .unpackErr => "unpack"
  | .transportErr => "terr"
  | .lease c => s!"lease:{c}"
  | .noLease => "nolease"
  | .unit => "unit"

def sretStr : SRet → String
  | .base r => retStr r
  | .fallback => "fallback"
  | .notWire => "notwire"

def showW (w : Writer) (r : String) : String :=
  s!"ret={r} written={boolStr w.written} tx={txStr w.tx}"

def parseLease (s : String) : Option (Option Nat) :=
  if s == "-" then some none else (s.toNat?).map some

def parseCall : List String → Option Call
  | ["write", k, t] => do
    let d ← (if k == "ok" then some true else if k == "bad" then some false else none)
    some (.write d (← parseBool t))
  | ["writemsg", k, t] => do
    let p ← (if k == "plain" then some true else if k == "exotic" then some false else none)
    some (.writeMsg p (← parseBool t))
  | ["writewire", t] => do some (.writeWire (← parseBool t))
  | ["begin", s, r, l] => do some (.beginWire (← s.toNat?) (← r.toNat?) (← parseLease l))
  | ["commit", t] => do some (.commitWire (← parseBool t))
  | ["abort"] => some .abortWire
  | _ => none

def endStr : End → String
  | .live => "live"
  | .canceled => "canceled"
  | .deadline => "deadline"

def curStr (w : WG) (k : Nat) : String :=
  match w.groups k with
  | some g => s!"g{g}"
  | none => "-"

def genStr (w : WG) (g : Nat) : String :=
  match w.gens[g]? with
  | some gg =>
    let nx := match gg.next with | some n => s!"g{n}" | none => "-"
    s!"ctx={endStr gg.ctx} next={nx}"
  | none => "ctx=? next=?"

def parseGen (s : String) : Option Nat :=
  if s.startsWith "g" then (s.drop 1).toNat? else none

def roleStr (b : Bool) : String := if b then "L" else "F"

def ctxErrStr : CtxErr → String
  | .none => "none"
  | .deadline => "deadline"
  | .canceled => "canceled"

def step (st : State) (w : List String) : State × String :=
  match w with
  | ["rw", "new", dp, internal] =>
    match parseBool dp, parseBool internal with
    | some d, some i => ({ st with w := ({} : Writer).reset d i }, "ok")
    | _, _ => (st, "bad-op")
  | ["rw", "reset", dp, internal] =>
    match parseBool dp, parseBool internal with
    | some d, some i =>
      let w' := st.w.reset d i
      ({ st with w := w' }, showW w' "reset")
    | _, _ => (st, "bad-op")
  | "rw" :: rest =>
    match parseCall rest with
    | some c =>
      let r := st.w.call c
      ({ st with w := r.1 }, showW r.1 (retStr r.2))
    | none => (st, "bad-op")
  | ["wg", "new"] => ({ st with wg := {} }, "ok")
  | ["wg", "join", k] =>
    match k.toNat? with
    | some k =>
      let r := st.wg.join k
      ({ st with wg := r.1 }, s!"g{r.2.1} {roleStr r.2.2} cur={curStr r.1 k}")
    | none => (st, "bad-op")
  | ["wg", "regroup", k, p] =>
    match k.toNat?, (if p == "nil" then some none else (parseGen p).map some) with
    | some k, some prev =>
      match prev with
      | some pp => if pp ≥ st.wg.gens.length then (st, "bad-op") else
        let r := st.wg.regroup k prev
        ({ st with wg := r.1 }, s!"g{r.2.1} {roleStr r.2.2} cur={curStr r.1 k} prev:{genStr r.1 pp}")
      | none =>
        let r := st.wg.regroup k prev
        ({ st with wg := r.1 }, s!"g{r.2.1} {roleStr r.2.2} cur={curStr r.1 k} prev:-")
    | _, _ => (st, "bad-op")
  | ["wg", "done", k, g] =>
    match k.toNat?, parseGen g with
    | some k, some g => if g ≥ st.wg.gens.length then (st, "bad-op") else
      let w' := st.wg.done k g
      ({ st with wg := w' }, s!"cur={curStr w' k} {genStr w' g}")
    | _, _ => (st, "bad-op")
  | ["wg", "timeout", g] =>
    match parseGen g with
    | some g => if g ≥ st.wg.gens.length then (st, "bad-op") else
      let w' := st.wg.timeout g
      ({ st with wg := w' }, genStr w' g)
    | none => (st, "bad-op")
  | ["wg", "peek", k] =>
    match k.toNat? with
    | some k => (st, s!"cur={curStr st.wg k}")
    | none => (st, "bad-op")
  | ["wg", "realtimer", _ms] =>
    -- one leader, one follower, the bounded wait expires: the follower is released with DeadlineExceeded
    let r := ({} : WG).join 0
    let r2 := r.1.join 0
    let w' := r2.1.timeout r.2.1
    (st, s!"follower={roleStr r2.2.2} closed={boolStr (genClosed w' r.2.1)} {genStr w' r.2.1}")
  | ["eff", "new"] => (st, "ok")
  | ["proc", "new"] => (st, "ok")
  | ["eff", e, hd, past] =>
    match (if e == "none" then some CtxErr.none else if e == "deadline" then some CtxErr.deadline
           else if e == "canceled" then some CtxErr.canceled else none), parseBool hd, parseBool past with
    | some err, some h, some p => (st, ctxErrStr (effectiveError err h p))
    | _, _, _ => (st, "bad-op")
  | ["proc", role, ctx] =>
    -- ctx kinds of the driver: live | late (deadline passed, timer not fired) | expired | lazy | canceled
    let c : Option (CtxErr × Bool) :=   -- (EffectiveError, Done channel closed)
      if ctx == "live" then some (effectiveError .none true false, false)
      else if ctx == "late" then some (effectiveError .none true true, false)
      else if ctx == "expired" || ctx == "lazy" then some (effectiveError .deadline true true, true)
      else if ctx == "canceled" then some (effectiveError .canceled false false, true)
      else none
    match c, (if role == "leader" then some true else if role == "follower" then some false else none) with
    | some (e, doneClosed), some leader =>
      let p := procScenario 1 leader e (!doneClosed)
      let out := match p.pc with
        | .terminated .timeoutFail => "servfail"
        | .terminated .downstream => "down"
        | .terminated .canceled => "none"
        | .terminated .hit => "hit"
        | .terminated .probeLimit => "probelimit"
        | _ => "running"
      (st, s!"writes={p.writes} out={out}")
    | _, _ => (st, "bad-op")
  | ["zl", "new", q] =>
    match q.toNat? with
    | some q => ({ st with zl := {}, zq := q }, "ok")
    | none => (st, "bad-op")
  | ["zl", "enter", n] =>
    match n.toNat? with
    | some n =>
      let r := (List.range n).foldl (fun (acc : ZL × Nat) _ =>
        let e := acc.1.enter st.zq
        (e.1, if e.2 then acc.2 + 1 else acc.2)) (st.zl, 0)
      ({ st with zl := r.1 }, s!"admitted={r.2} shed={n - r.2} count={r.1.count}")
    | none => (st, "bad-op")
  | ["zl", "leave", n] =>
    match n.toNat? with
    | some n =>
      let z := (List.range n).foldl (fun (acc : ZL) _ => acc.leave) st.zl
      ({ st with zl := z }, s!"left={st.zl.held - z.held} count={z.count}")
    | none => (st, "bad-op")
  | "gl" :: _ => (st, "unmodelled")
  | ["ing", "new", q] =>
    match q.toNat? with
    | some q => ({ st with qto := q }, "ok")
    | none => (st, "bad-op")
  | ["ing", "serve", entry, shape, _proto, age] =>
    let i : Option Ingress :=
      if entry == "raw" then some .raw else if entry == "inline" then some .inlineReplay
      else if entry == "replay" then some .replay else if entry == "msg" then some .msg else none
    match i, age.toNat? with
    | some i, some age =>
      -- readTime = 1000000, pickup = readTime + age (msg: pickup is "now")
      let rt := 1000000
      let strict := shape == "strict" || shape == "noedns"
      if ingressServes i strict rt (rt + age) st.qto then
        let anchor := if i == .msg then rt + age else rt
        (st, s!"down=1 writes=1 dl={ingressDeadline i strict rt (rt + age) st.qto - anchor}")
      else (st, "down=0 writes=0 dl=-")
    | _, _ => (st, "bad-op")
  | ["ing", "pipeline", _slow, n] =>
    match n.toNat? with
    | some n => (st, "budgets=" ++ ",".intercalate (List.replicate n "full"))
    | none => (st, "bad-op")
  | ["ing", "end"] => (st, "closed")
  | ["accept", "new"] => (st, "ok")
  | ["accept", ks] =>
    let rs : List AcceptRes := if ks == "-" then [] else (ks.splitOn ",").map fun k =>
      if k == "timeout" then AcceptRes.err true true
      else if k == "emfile" || k == "econnaborted" || k == "nettemp" then AcceptRes.err false true
      else AcceptRes.err false false
    (st, s!"admitted={boolStr (acceptLoop (rs ++ [.conn]) == 1)}")
  | ["ws", "new", dp, proto, dob, noedns, size, cl] =>
    match parseBool dp, parseBool dob, parseBool noedns, size.toNat?, parseBool cl with
    | some d, some dobit, some ne, some sz, some c =>
      ({ st with sw := ({} : Writer).reset d false, scache := c,
                 scfg := { doBit := dobit, noedns := ne, udp := proto == "udp", size := sz } }, "ok")
    | _, _, _, _, _ => (st, "bad-op")
  | ["ws", "writemsg", k, t] =>
    match (if k == "plain" then some true else if k == "exotic" then some false else none), parseBool t with
    | some p, some t =>
      let r := stackCall st.scache st.scfg st.sw (.writeMsg p t)
      ({ st with sw := r.1 }, showW r.1 (sretStr r.2))
    | _, _ => (st, "bad-op")
  | ["ws", kind, len, dnssec, t] =>
    match len.toNat?, parseBool dnssec, parseBool t with
    | some l, some ds, some t =>
      let b : WireBody := { len := l, hasDNSSEC := ds }
      if kind == "writewire" then
        let r := stackCall st.scache st.scfg st.sw (.writeWire b t)
        ({ st with sw := r.1 }, showW r.1 (sretStr r.2))
      else if kind == "commit" then
        let r := stackCall st.scache st.scfg st.sw (.commitWire b t)
        ({ st with sw := r.1 }, showW r.1 (sretStr r.2))
      else (st, "bad-op")
    | _, _, _ => (st, "bad-op")
  | ["drain", "new"] => (st, "ok")
  | ["drain", script] =>
    let toks := script.splitOn ","
    let ops : Option (List DOp) := (toks.zipIdx).mapM fun (t, i) =>
      if t == "f" then some DOp.flush
      else if t == "x" then some DOp.break
      else if t.startsWith "s" then (t.drop 1).toNat?.map (fun l => DOp.stage i l)
      else none
    match ops with
    | some ops =>
      let r := Drain.run 8192 65535 {} ops
      let res := String.ofList (r.2.map fun b => if b then 'o' else 'e')
      let wire := if r.1.wire.isEmpty then "-" else ",".intercalate (r.1.wire.map toString)
      (st, s!"res={res} wire={wire}")
    | none => (st, "bad-op")
  | ["conncap", "new"] => (st, "ok")
  | ["conncap", c, b] =>
    match c.toNat?, b.toNat? with
    | some c, some b =>
      let z := (List.replicate b ZOp.enter).foldl (ZL.step c) {}
      let z' := (List.replicate b ZOp.leave).foldl (ZL.step c) z
      (st, s!"admitted={z.held} refused={b - z.held} after={z'.count} next={boolStr (z'.enter c).2}")
    | _, _ => (st, "bad-op")
  | ["fill", "new"] => (st, "ok")
  | ["fill", s, e, a] =>
    match s.toNat?, e.toNat?, a.toNat? with
    | some s, some e, some a =>
      match fillMore 4096 s (min e 4096) a with
      | some (ns, r) => (st, s!"start={ns} read={r} err=-")
      | none => (st, s!"start={s} read=0 err=short-buffer")
    | _, _, _ => (st, "bad-op")
  | ["dialer", "new"] => (st, "ok")
  | ["dialer", n, id, _proto] =>
    match n.toNat?, id.toNat? with
    | some n, some id => (st, s!"index={dialerIndex n id}")
    | _, _ => (st, "bad-op")
  | ["tcpclass", "new"] => (st, "ok")
  | ["tcpclass", l] =>
    match l.toNat? with
    | some l =>
      let c := if tcpLarge 2048 l then "large" else "small"
      (st, s!"token={c} slab={c}")
    | none => (st, "bad-op")
  | ["inl", a, b, c, d] =>
    match parseBool a, parseBool b, parseBool c, parseBool d with
    | some wrote, some handoff, some panics, some replayWrote =>
      let t := jobRun ⟨if wrote then 1 else 0, handoff, panics⟩ ⟨if replayWrote then 1 else 0, false, false⟩ true
      (st, s!"datagrams={t.datagrams} replays={t.replays} releases={t.releases}")
    | _, _, _, _ => (st, "bad-op")
  | ["inl", "new"] => (st, "ok")
  | ["bw", "new"] => (st, "ok")
  | ["bw", _prev] => (st, "armed=writewait")
  | ["burst", "new"] => (st, "ok")
  | ["burst", "send", ds] =>
    let refused := (ds.splitOn ",").map (· == "x")
    (st, "counts=" ++ ",".intercalate ((sendGroup refused).map toString))
  | ["burst", "flush", ds] =>
    let n := (ds.splitOn ",").length
    let w := ({} : Worker).run (((List.range n).map WEv.quick) ++ [.slow n])
    (st, s!"still={w.staged.length - 1} counts=" ++ ",".intercalate (w.sent.map (fun _ => "1")))
  | "dedup" :: _ => (st, "unmodelled")
  | "sys" :: _ => (st, "unmodelled")
  | ["res", "new", _] => (st, "ok")
  | ["res", "end"] => (st, "closed")
  | ["res", "lateworker", n] =>
    match n.toNat? with
    | some n => (st, s!"held={attemptSlots 0 (List.replicate n AttemptExit.contextDead)}")
    | none => (st, "bad-op")
  | "res" :: _ => (st, "unmodelled")
  | _ => (st, "bad-op")

end Driver.C11
