import Driver.Loop
import Driver.C17
def main : IO Unit := Driver.runLoop ({} : Driver.C17.State) Driver.C17.step
