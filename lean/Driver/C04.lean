import SdnsVerif.Model.Util
import SdnsVerif.Model.Lifetime
import SdnsVerif.Gen.C04
/-!
Line protocol for the `ttl` / `cas` / `c` ops of C04.

`ttl` and `cas` ops call the model functions of `Model/Lifetime.lean` one to
one.  The `c` ops interpret a history against an abstract cache whose entries
are `Model.Lifetime.Entry` values: every TTL, expiry, lineage fold and
admission bound is computed by the model functions the theorems are about;
the interpreter only mirrors the control flow of `Cache.ServeDNS`,
`handleCacheHit`, `additionalAnswer` and `ResponseWriter.WriteMsg`.
-/
namespace Driver.C04
open SdnsVerif.Model SdnsVerif.Model.Lifetime SdnsVerif.Model.Util

/-- the constants of the compiled tree (regenerated on every run). -/
def genCfg (ecsMax : Int) : Cfg :=
  { minC := SdnsVerif.Gen.C04.minCacheTTL_ns, maxC := SdnsVerif.Gen.C04.maxCacheTTL_ns,
    posMin := SdnsVerif.Gen.C04.positive_min_ns, posMax := SdnsVerif.Gen.C04.positive_max_ns,
    ecsMax := ecsMax }

def hardMaxProof : Int := SdnsVerif.Gen.C04.max_denial_proof_ns
def cutMaxTTL : Int := SdnsVerif.Gen.C04.hist_cut_max_ns
def proofMaxTTL : Int := SdnsVerif.Gen.C04.hist_proof_max_ns
def cutMaxTTLBig : Int := SdnsVerif.Gen.C04.hist_cut_max_big_ns
def proofMaxTTLBig : Int := SdnsVerif.Gen.C04.hist_proof_max_big_ns

/-- op spacing inside one virtual second (see harness/c04/hist.go). -/
def tau : Int := 20000000

/-! ### parsing -/

structure Item where
  kind : Char
  ttl : Nat := 0
  a : Int := 0
  b : Int := 0
deriving Repr

def parseItem (s : String) : Option Item :=
  match s.toList with
  | [] => none
  | 'o' :: [] => some { kind := 'o' }
  | k :: rest =>
    -- `G…` is an RRSIG with an inverted validity window: same expiration, nothing else the model reads
    let k := if k == 'G' then 'g' else k
    match (String.ofList rest).splitOn "/" with
    | [t] => do some { kind := k, ttl := ← t.toNat? }
    | [t, a] => do some { kind := k, ttl := ← t.toNat?, a := ← a.toInt? }
    | [t, a, b] => do some { kind := k, ttl := ← t.toNat?, a := ← a.toInt?, b := ← b.toInt? }
    | _ => none

def parseItems (s : String) : Option (List Item) :=
  if s == "-" then some [] else (s.splitOn ",").mapM parseItem

/-- an item as the record `CalculateCacheTTL` sees at `now`: an RRSIG `g<ttl>/<D>`
expires `D` seconds after `now`. -/
def Item.toRR (now : Int) (it : Item) : RR :=
  match it.kind with
  | 's' => { ttl := it.ttl, kind := .soa it.a.toNat }
  | 'g' => { ttl := it.ttl, kind := .rrsig (now + it.a * S) }
  | 'o' => { ttl := 0, kind := .opt }
  | _ => { ttl := it.ttl }

def ceilDiv (x : Int) : Int := if x ≥ 0 then (x + S - 1) / S else -((-x) / S)

def parseRel (s : String) : Option (Option Int) :=
  if s == "-" then some none else s.toInt?.map some

def parseFolds (s : String) : Option (List (Option Int)) :=
  if s == "." then some [] else (s.splitOn ",").mapM parseRel

def showOpt : Option Int → String
  | none => "-"
  | some x => toString x

def parseRT (s : String) : Option RespType :=
  match s with
  | "succ" => some .success | "nx" => some .nxdomain | "nodata" => some .norecords
  | "servfail" => some .servfail | "other" => some .other | _ => none

/-! ### history state -/

inductive NKind | plain | soa (mn : Nat) | sig (d : Int)
deriving Repr

/-- an authority record carried by a reply / stored in an entry.  `rid`
identifies the record (origin admission, index): `dns.IsDuplicate`. -/
structure NsRec where
  rid : Nat × Nat
  owner : String
  ttl : Nat
  kind : NKind
  fresh : Bool := false        -- relayed from the upstream answer of this op
deriving Repr

def NsRec.toRR (now : Int) (n : NsRec) : RR :=
  match n.kind with
  | .plain => { ttl := n.ttl }
  | .soa mn => { ttl := n.ttl, kind := .soa mn }
  | .sig d => { ttl := n.ttl, kind := .rrsig (now + d * S) }

structure HEntry where
  id : Nat
  e : Entry
  hasAns : Bool
  ns : List NsRec
  target : Option String
  nx : Bool
  claimed : Bool := false      -- CacheEntry.prefetch: a refresh has been claimed for this entry
  ansItems : List Item := []   -- the stored answer records (own records only: filterCacheableAnswer)
  extra : List NsRec := []     -- the stored additional section (the response's own; OPT stripped)
deriving Repr

structure Spec where
  name : String
  kind : Char
  tgt : String := ""
  ans : List Item := []
  ns : List Item := []
  lease : Option Int := none
  isScoped : Bool := false
  extra : List Item := []          -- additional section
deriving Repr

def parseSpec (s : String) : Option Spec :=
  match s.splitOn "=" with
  | [name, rest] =>
    let fields := rest.splitOn ":"
    let (fields, extraS) := match fields with
      | [k, ans, ns, lease, sc, ex] => ([k, ans, ns, lease, sc], ex)
      | f => (f, "-")
    match fields with
    | [k, ans, ns, lease, sc] => do
      let extra ← parseItems extraS
      let kc ← k.toList.head?
      let ans ← parseItems ans
      let ns ← parseItems ns
      let lease ← parseRel lease
      let rest := (k.drop 1).toString
      -- an alias is chased with the question's own type: the target stays on the name's side (n = A, m = AAAA)
      some { name := name, kind := kc, tgt := if rest.startsWith "p" || rest.startsWith "u" || rest.startsWith "q" then rest else (name.take 1).toString ++ rest, ans := ans, ns := ns, lease := lease, isScoped := sc == "s", extra := extra }
    | _ => none
  | _ => none

def parseUp (s : String) : Option (List (String × Spec)) :=
  if s == "-" then some [] else
  (s.splitOn ";").mapM fun p => (parseSpec p).map fun sp => (sp.name, sp)

structure Reply where
  ans : List String := []                 -- pieces with answer records, in order
  ansTTL : List (String × Nat) := []      -- shown TTL of the cached ones
  ns : List NsRec := []
  nx : Bool := false
  fresh : List String := []               -- pieces fetched from the upstream in this op
  expired : Bool := false                 -- carries an RRSIG with D < 0
  lastCname : Option String := none       -- target of the last CNAME of the answer section
  hasType : Bool := false                 -- the answer section holds a record of the question type
  synth : Option (String × Nat) := none   -- carries a validated RFC 8198 synthesis (owner index, TTL shown)
  cutProof : Option (String × Nat) := none  -- carries the provenance of a subtree-cut hit (cut, TTL shown)
  ansRRs : List (Nat × NKind) := []       -- the answer section as CalculateCacheTTL reads it (TTL, kind)
  extra : List NsRec := []                -- the additional section (never merged by the chase: the outer message's own)
  aliases : List String := []             -- answer pieces that are CNAMEs
  freshTTLs : List (String × List Nat) := []   -- TTLs of the answer records of pieces relayed from the upstream
deriving Repr

structure HState where
  ecsCap : Int := 0
  V : Int := 0
  j : Int := 0
  slots : List ((String × Bool) × HEntry) := []
  nextId : Nat := 0
  captured : List (String × Option Nat) := []
  cuts : List (String × Int) := []
  -- the proof of each recorded cut: (generation, SOA item, SOA RRSIG item, NSEC item, NSEC RRSIG item)
  cutItems : List (String × (Nat × Item × Item × Item × Item)) := []
  -- the RFC 8198 proof index of zone pz.test.: the one SOA entry and one NSEC entry per owner;
  -- (expires, generation, record item, signature item)
  pfPct : Nat := 0                       -- CacheConfig.Prefetch
  bigExpire : Bool := false              -- `expire` configured above 24 h (one week)
  pfq : List (String × Nat) := []         -- queued refreshes: (name, id of the entry that claimed it)
  -- keyed by zone letter ("p" = NSEC-signed pz.test., "q" = NSEC3-signed qz.test.) / by name token ("p1", "q2")
  proofSoa : List (String × (Int × Nat × Item × Item)) := []
  proofNsec : List (String × (Int × Nat × Item × Item)) := []

def getSlot (st : HState) (k : String × Bool) : Option HEntry := (st.slots.find? (fun p => p.1 == k)).map (·.2)
def delSlot (st : HState) (k : String × Bool) : HState := { st with slots := st.slots.filter (fun p => p.1 != k) }
def setSlot (st : HState) (k : String × Bool) (he : HEntry) : HState :=
  { st with slots := (st.slots.filter (fun p => p.1 != k)) ++ [(k, he)] }

/-- `PositiveCache.Get`: an expired entry is deleted and reported as absent. -/
def tryKey (st : HState) (k : String × Bool) (now : Int) : HState × Option HEntry :=
  match getSlot st k with
  | none => (st, none)
  | some he => if he.e.isExpired now then (delSlot st k, none) else (st, some he)

/-- `scopedLookup` then `checkCache`. -/
def lookupSlots (st : HState) (name : String) (ecs : Bool) (now : Int) : HState × Option HEntry :=
  if ecs then
    match tryKey st (name, true) now with
    | (st, some he) => (st, some he)
    | (st, none) => tryKey st (name, false) now
  else tryKey st (name, false) now

def itemExpired (it : Item) : Bool := it.kind == 'g' && it.a < 0
def nsExpired (n : NsRec) : Bool := match n.kind with | .sig d => d < 0 | _ => false
def nsIsSOA (n : NsRec) : Bool := match n.kind with | .soa _ => true | _ => false

def itemsToNs (id : Nat) (owner : String) (items : List Item) : List NsRec :=
  (items.zipIdx).map fun (it, i) =>
    { rid := (id, i), owner := owner, ttl := it.ttl, fresh := true,
      kind := match it.kind with
        | 's' => .soa it.a.toNat
        | 'g' => .sig it.a
        | _ => .plain }

def itemKind (it : Item) : NKind := if it.kind == 'g' then .sig it.a else .plain

def rrOf (now : Int) (x : Nat × NKind) : RR :=
  match x.2 with
  | .plain => { ttl := x.1 }
  | .soa mn => { ttl := x.1, kind := .soa mn }
  | .sig d => { ttl := x.1, kind := .rrsig (now + d * S) }

/-- the sub-query's answer as `additionalAnswer` hands it to `CalculateCacheTTL`. -/
def replyMsg (now : Int) (r : Reply) : Msg :=
  { answer := r.ansRRs.map (rrOf now), ns := r.ns.map (NsRec.toRR now), extra := r.extra.map (NsRec.toRR now) }

/-- `searchAdditionalAnswer`. -/
def mergeReply (r s : Reply) : Reply :=
  { ans := r.ans ++ s.ans, ansTTL := r.ansTTL ++ s.ansTTL,
    ns := r.ns ++ s.ns.filter (fun n => !(r.ns.any fun m => m.rid == n.rid)),
    nx := r.nx || s.nx, fresh := r.fresh ++ s.fresh, expired := r.expired || s.expired,
    lastCname := if s.lastCname.isSome then s.lastCname else r.lastCname, hasType := r.hasType || s.hasType,
    synth := if s.synth.isSome then s.synth else r.synth,
    cutProof := if s.cutProof.isSome then s.cutProof else r.cutProof,
    ansRRs := r.ansRRs ++ s.ansRRs, extra := r.extra,
    aliases := r.aliases ++ s.aliases, freshTTLs := r.freshTTLs ++ s.freshTTLs }

def sigPRR (now : Int) (ttl : Nat) (g : Item) : ProofRR :=
  { rr := { ttl := ttl, kind := .rrsig (now + g.b * S) }, orig := g.a.toNat }

/-- `RecordDenialProof` for owner `i` at `now`: records with the given TTLs
(the admitted ones, or the TTL a synthesis showed when its proof is re-recorded). -/
def zoneOf (tok : String) : String := (tok.take 1).toString

def recordProof (st : HState) (i : String) (now : Int) (cut : Option Int)
    (sTtl : Nat) (s g : Item) (pTtl : Nat) (p g2 : Item) (gsTtl g2Ttl : Nat) (gen : Nat) : Option HState :=
  let common : List ProofRR := [{ rr := { ttl := sTtl, kind := .soa s.a.toNat } }, sigPRR now gsTtl g]
  let set : List ProofRR := [{ rr := { ttl := pTtl } }, sigPRR now g2Ttl g2]
  match proofAdmit hardMaxProof now (if st.bigExpire then proofMaxTTLBig else proofMaxTTL) cut common set with
  | none => none
  | some (se, ne) =>
    some { st with proofSoa := (zoneOf i, (se, gen, s, g)) :: st.proofSoa.filter (·.1 != zoneOf i),
                   proofNsec := (i, (ne, gen, p, g2)) :: st.proofNsec.filter (·.1 != i) }

/-- `lookupDenialProof` + `denialProofEvaluate` + `denialProofResponse` for owner `i`.  A lookup that
finds the zone's SOA entry expired retires the whole zone (`denialProofPruneZone`): every proof
entry of the zone goes with it, whatever lifetime it had left. -/
def synthReply (st : HState) (i : String) (now : Int) : HState × Option (Reply × Int) :=
  -- reply pieces: "sz"/"s<k>" for the NSEC zone, "tz"/"t<k>" for the NSEC3 zone
  let z := if i.startsWith "x" then "p" else zoneOf i
  let zt := if z == "q" then "t" else "s"
  let k := (i.drop 1).toString
  match st.proofSoa.lookup z with
  | none => (st, none)
  | some (se, sgen, s, g) =>
    if now ≥ se then
      ({ st with proofSoa := st.proofSoa.filter (·.1 != z), proofNsec := st.proofNsec.filter (fun e => zoneOf e.1 != z) }, none)
    else
    -- the proof entries the evaluator selects: the owner's own NSEC/NSEC3 set for a NODATA; for the
    -- NXDOMAIN of x<k> (a name inside the span w<k> -> w<k>z) the covering set of owner k and the apex
    -- set (pz.test. -> w1.pz.test.), which covers the wildcard *.pz.test.
    let nx := i.startsWith "x"
    let picks : List (String × String) := if nx then [("p" ++ k, zt ++ k), ("p0", zt ++ "0")] else [(i, zt ++ k)]
    let found := picks.filterMap fun (key, tok) => (st.proofNsec.lookup key).map fun e => (tok, e)
    if found.length != picks.length then (st, none) else
    match synthServe se (found.map fun x => x.2.1) now with
    | none => (st, none)
    | some (ttl, exp) =>
      let soaRecs : List NsRec := [
        { rid := (1000000 + sgen, 0), owner := zt ++ "z", ttl := ttl, kind := .soa s.a.toNat },
        { rid := (1000000 + sgen, 1), owner := zt ++ "z", ttl := ttl, kind := .sig g.b }]
      let proofRecs : List NsRec := found.flatMap fun (tok, (_, ngen, _p, g2)) => [
        -- an NSEC record carries its admission in its RDATA, an NSEC3 record does not (same RDATA again)
        { rid := if zt == "t" then (4000000, (tok.drop 1).toString.toNat!) else (2000000 + ngen, 0), owner := tok, ttl := ttl, kind := .plain },
        { rid := (2000000 + ngen, 1), owner := tok, ttl := ttl, kind := .sig g2.b }]
      -- only a NODATA synthesis is re-recorded through an alias (aliases onto x-names are not generated)
      (st, some ({ ns := soaRecs ++ proofRecs, nx := nx, synth := if nx then none else some (i, ttl) }, exp))

def cutProofRecs (now : Int) (sTtl pTtl gTtl g2Ttl : Nat) (s g p g2 : Item) : List ProofRR :=
  [{ rr := { ttl := sTtl, kind := .soa s.a.toNat } }, { rr := { ttl := gTtl, kind := .rrsig (now + g.b * S) }, orig := g.a.toNat },
   { rr := { ttl := pTtl } }, { rr := { ttl := g2Ttl, kind := .rrsig (now + g2.b * S) }, orig := g2.a.toNat }]

/-- `lookupNXDomainCut` + `nxDomainCutEntry.response` for a name below cut `k`. -/
def cutReply (st : HState) (k : String) (now : Int) : HState × Option (Reply × Int) :=
  let tok := "d" ++ k
  match st.cuts.lookup tok, st.cutItems.lookup tok with
  | some exp, some (gen, s, g, _p, g2) =>
    match expiryServeTTL exp now with
    | none => ({ st with cuts := st.cuts.filter (·.1 != tok) }, none)
    | some t =>
      let ns : List NsRec := [
        { rid := (3000000 + gen, 0), owner := tok, ttl := t, kind := .soa s.a.toNat },
        { rid := (3000000 + gen, 1), owner := tok, ttl := t, kind := .sig g.b },
        { rid := (3000000 + gen, 2), owner := tok, ttl := t, kind := .plain },
        { rid := (3000000 + gen, 3), owner := tok, ttl := t, kind := .sig g2.b }]
      (st, some ({ ns := ns, nx := true, cutProof := some (k, t) }, exp))
  | _, _ => (st, none)

/-- `ResponseWriter.WriteMsg`: a response that adopted the NXDOMAIN of a cut hit records that cut
again (`RecordNXDomainCut` with the proof as it was shown) under the request tree's cut. -/
def rerecordCut (cutMax : Int) (st : HState) (r : Reply) (now : Int) (cut : Option Int) : HState :=
  match r.cutProof with
  | some (k, t) =>
    let tok := "d" ++ k
    match st.cutItems.lookup tok with
    | some (_, s, g, p, g2) =>
      match cutRecordTTL cutMax now t s.a.toNat (cutProofRecs now t t t t s g p g2) cut with
      | some ttl => { st with cuts := (tok, now + ttl) :: st.cuts.filter (·.1 != tok) }
      | none => st
    | none => st
  | none => st

/-- `ResponseWriter.WriteMsg`: a response that carries the provenance of a
validated synthesis re-records that proof (with the TTLs it was shown with)
under the request tree's cut. -/
def rerecord (st : HState) (r : Reply) (now : Int) (cut : Option Int) : HState :=
  match r.synth, r.synth.bind (fun x => st.proofSoa.lookup (zoneOf x.1)) with
  | some (i, ttl), some (_, sgen, s, g) =>
    match st.proofNsec.lookup i with
    | some (_, ngen, p, g2) =>
      -- the generations (record identities) stay: the same RDATA is stored again
      match recordProof st i now cut ttl s g ttl p g2 ttl ttl sgen with
      | some st' =>
        { st' with proofNsec := st'.proofNsec.map fun e => if e.1 == i then (e.1, (e.2.1, ngen, e.2.2.2.1, e.2.2.2.2)) else e }
      | none => st
    | none => st
  | _, _ => st

/-- `Cache.ServeDNS` for one (sub-)query at `now`; returns the reply (if any
was written) and the request tree's delegation-cut bound (`ResponseMeta.Cut`). -/
def serve (cfg : Cfg) (script : List (String × Spec)) (now : Int) :
    Nat → HState → String → Bool → Bool → Bool → Option Int → HState × Option Reply × Option Int
  | 0, st, _, _, _, _, m0 => (st, none, m0)
  | fuel + 1, st, name, ecs, internal, bypass, m0 =>
    -- one pass of the `lookup:` loop of `additionalAnswer`: query `t` through
    -- the sub-pipeline; the Bool says whether the loop is over, the String is
    -- the next target (`child && !respCnameHasType`)
    let chaseOnce (st : HState) (r : Reply) (t : String) (mcut : Option Int) :
        HState × Reply × Option Int × Option String :=
      -- internalExchange: the sub-query accumulates its own bound (ForkCut)
      match serve cfg script now fuel st t false true bypass none with
      | (st, none, _) => (st, r, mcut, none)
      | (st, some s, child) =>
        -- terminal NXDOMAIN: after the inherit the outer request tree is also bound to the lifetime the
        -- denial itself gets (94ad58d): boundRequestTo(ctx, now + CalculateCacheTTL(respCname, NXDOMAIN))
        let denial := some (adoptedDenialBound cfg (replyMsg now s) now)
        if s.ans.isEmpty && s.ns.isEmpty then
          if s.nx then (st, { r with nx := true }, boundCut (boundCut mcut child) denial, none) else (st, r, mcut, none)
        else
          -- lineage.inherit(): the sub-query's records reach the outer answer
          let r' := mergeReply r s
          let mcut' := (forkInherit mcut [child] true).1
          if s.nx then (st, r', boundCut mcut' denial, none)
          -- a validated NODATA proof on the target ends the chase (its provenance is propagated)
          else if s.synth.isSome then (st, r', mcut', none)
          else match s.lastCname with
            | some t' => if s.hasType then (st, r', mcut', none) else (st, r', mcut', some t')
            | none => (st, r', mcut', none)
    -- `additionalAnswer` for an outer reply `r` whose alias points at `tgt`
    let chase (st : HState) (r : Reply) (tgt : Option String) (mcut : Option Int) : HState × Reply × Option Int :=
      match tgt with
      | none => (st, r, mcut)
      | some t =>
        match chaseOnce st r t mcut with
        | (st, r, mcut, none) => (st, r, mcut)
        | (st, r, mcut, some t2) =>
          if t2 == t then (st, r, mcut) else
          match chaseOnce st r t2 mcut with
          | (st, r, mcut, none) => (st, r, mcut)
          | (st, r, mcut, some t3) =>
            if t3 == t || t3 == t2 then (st, r, mcut) else
            let (st, r, mcut, _) := chaseOnce st r t3 mcut
            (st, r, mcut)
    -- a name below a recorded subtree cut (never admitted itself): handleNXDomainCutHit
    if name.startsWith "u" then
      if bypass then (st, none, m0) else
      match cutReply st (name.drop 1).toString now with
      | (st, some (r, exp)) => (st, some r, boundCut m0 (some exp))       -- boundRequestTo(ctx, entry.expires)
      | (st, none) => (st, none, m0)
    else
    -- a name of the proof zone: never admitted itself; CD / ECS request trees bypass shared denial
    if name.startsWith "p" || name.startsWith "q" || name.startsWith "x" then
      if bypass then (st, none, m0) else
      match synthReply st name now with
      | (st, some (r, exp)) => (st, some r, boundCut m0 (some exp))     -- boundRequestTo(ctx, proofExpires)
      | (st, none) => (st, none, m0)
    else
    match lookupSlots st name (ecs && !internal) now with
    | (st, some he) =>
      -- handleCacheHit: ToMsg / serveWire / serveWireIntoRequest all stamp `secs (remaining now)`
      -- a hit reads the clock after whatever this op admitted: an entry stored in this very op is
      -- seen a moment later (whole-second readings of older entries do not depend on that moment)
      match he.e.toMsgTTL (now + 1) with
      | none => (st, none, m0)
      | some shown =>
        -- handleCacheHit: a shared entry inside the prefetch window claims one refresh (CAS on
        -- entry.prefetch) and queues it with the entry it set out to replace
        let isShared := match getSlot st (name, false) with | some x => x.id == he.id | none => false
        let st := if isShared && he.e.shouldPrefetch st.pfPct he.claimed (now + 1) then
            { setSlot st (name, false) { he with claimed := true } with pfq := st.pfq ++ [(name, he.id)] }
          else st
        -- boundRequestToEntryLifetime
        let mcut := boundCut m0 (some he.e.hardUntil)
        let r0 : Reply := { ans := if he.hasAns then [name] else [], ansTTL := if he.hasAns then [(name, shown)] else [],
                            ns := he.ns.map (fun n => { n with ttl := shown, fresh := false }), nx := he.nx,
                            expired := he.ns.any nsExpired, lastCname := he.target,
                            hasType := he.hasAns && he.target.isNone,
                            ansRRs := he.ansItems.map (fun it => (shown, itemKind it)),
                            extra := he.extra.map (fun n => { n with ttl := shown, fresh := false }),
                            aliases := if he.hasAns && he.target.isSome then [name] else [] }
        if he.nx then (st, some r0, mcut) else
        let (st, r, mcut) := chase st r0 he.target mcut
        (st, some r, mcut)
    | (st, none) =>
      match script.lookup name with
      | none => (st, none, m0)               -- the upstream stays silent
      | some sp =>
        let id := st.nextId
        let st := { st with nextId := id + 1 }
        -- the resolver folds the delegation lease into the request tree
        let mcut := boundCut m0 (sp.lease.map fun l => now + l * S)
        let r0 : Reply := { ans := if sp.ans.isEmpty then [] else [name], ns := itemsToNs id name sp.ns,
                            nx := sp.kind == 'x', fresh := [name],
                            expired := sp.ans.any itemExpired || sp.ns.any itemExpired,
                            lastCname := if sp.kind == 'c' then some sp.tgt else none,
                            hasType := sp.kind == 'p' && !sp.ans.isEmpty,
                            ansRRs := sp.ans.map (fun it => (it.ttl, itemKind it)),
                            extra := (itemsToNs id name sp.extra).map (fun n => { n with rid := (n.rid.1, 1000 + n.rid.2) }),
                            aliases := if sp.kind == 'c' && !sp.ans.isEmpty then [name] else [],
                            freshTTLs := [(name, (sp.ans.filter (·.kind == 'p')).map (·.ttl))] }
        -- ResponseWriter.WriteMsg: chase first, then read the mcut and store
        let (st, r, mcut) := if sp.kind == 'c' then chase st r0 (some sp.tgt) mcut else (st, r0, mcut)
        let st := if bypass then st else rerecord st r now mcut
        let st := if bypass then st else rerecordCut (if st.bigExpire then cutMaxTTLBig else cutMaxTTL) st r now mcut
        let hasAns := !sp.ans.isEmpty
        let rt : RespType :=
          if r.nx then .nxdomain
          else if hasAns then .success
          else if r.ns.any nsIsSOA then .norecords
          else .success
        let notStored := !r.nx && hasAns && r.expired      -- TypeExpiredSignature
        if notStored then (st, some r, mcut) else
        let isSc := ecs && !internal && sp.isScoped
        let msg : Msg := { answer := sp.ans.map (Item.toRR now), ns := r.ns.map (NsRec.toRR now),
                           extra := r.extra.map (NsRec.toRR now) }
        let ttl := admitTTL cfg msg rt now isSc
        let he : HEntry := { id := id, e := { stored := now, ttl := ttl, cut := mcut }, hasAns := hasAns,
                             ns := r.ns.map (fun n => { n with fresh := false }),
                             target := if sp.kind == 'c' then some sp.tgt else none, nx := r.nx, ansItems := sp.ans,
                             extra := r.extra.map (fun n => { n with fresh := false }) }
        (setSlot st (name, isSc) he, some r, mcut)

/-! ### printing -/

def insertSorted (x : Nat) : List Nat → List Nat
  | [] => [x]
  | y :: t => if x < y then x :: y :: t else if x == y then y :: t else y :: insertSorted x t

def joinWith (sep : String) : List String → String
  | [] => ""
  | [x] => x
  | x :: t => x ++ sep ++ joinWith sep t

def dedupStr (l : List String) : List String :=
  l.foldl (fun acc x => if acc.contains x then acc else acc ++ [x]) []

/-- a client without DO gets the reply with its DNSSEC records stripped: the
NSEC RRset of a synthesis (pieces `s<i>`) consists of nothing else. -/
def stripForDO (doBit : Bool) (r : Reply) : Reply :=
  if doBit then r else { r with ns := r.ns.filter fun n =>
    !((n.owner.startsWith "s" && n.owner != "sz") || (n.owner.startsWith "t" && n.owner != "tz")) }

def replyTokens (r : Reply) : String :=
  let ansToks := r.ans.map fun p =>
    if r.fresh.contains p then p ++ ":*"
    else match r.ansTTL.lookup p with
      | some t => p ++ ":" ++ toString t
      | none => p ++ ":?"
  let owners := dedupStr ((r.ns ++ r.extra).map (·.owner))
  let nsToks := owners.map fun o =>
    let mine := (r.ns ++ r.extra).filter (·.owner == o)
    let ttls := (mine.filter (!·.fresh)).foldl (fun acc n => insertSorted n.ttl acc) []
    let vals := (if mine.any (·.fresh) then ["*"] else []) ++ ttls.map toString
    o ++ "~" ++ joinWith "/" vals
  joinWith " " (ansToks ++ nsToks)

def names : List String := ["n0", "n1", "n2", "n3", "n4", "n5", "m0", "m1", "m2", "m3", "m4", "m5"]

/-- `dns64.responseWriter.WriteMsg` for the reply `r6` of the AAAA side:
NXDOMAIN and replies that carry an AAAA pass through; otherwise the A side is
asked (`aLookup`, the internal sub-pipeline) and its answer becomes the reply —
as it is when it has no address (RFC 6147 §5.1.6), else with every address
turned into a synthetic AAAA whose TTL is `dns64TTL` and the chain capped. -/
def dns64Compose (r6 : Reply) (r4 : Option Reply) : Reply :=
  if r6.nx || r6.hasType then r6 else
  match r4 with
  | none => r6
  | some r4 =>
    -- the A lookup carries no OPT: the sub-pipeline's edns layer strips the DNSSEC records of its answer
    let r4 := stripForDO false r4
    if r4.nx || !r4.hasType then r4
    else
      let soa := (r6.ns.filterMap fun n => match n.kind with | .soa mn => some (n.ttl, mn) | _ => none).head?
      let addrTTLs := r4.ans.flatMap fun p =>
        if r4.aliases.contains p then [] else
        match r4.freshTTLs.lookup p with
        | some l => l
        | none => match r4.ansTTL.lookup p with | some t => [t] | none => []
      let ttl := dns64TTL noSOACeiling (negativeAAAATTL soa) addrTTLs
      { r4 with ansTTL := r4.ansTTL.map fun (p, t) => (p, dns64ChainTTL ttl t) }


def listing (st : HState) (idFrom : Nat) (now : Int) : String :=
  let parts := names.flatMap fun n => [false, true].filterMap fun sc =>
    match getSlot st (n, sc) with
    | some he =>
      if he.id ≥ idFrom then
        let cut := match he.e.cut with | none => "-" | some c => toString (ceilDiv (c - now))
        some (n ++ (if sc then "@" else "") ++ "=" ++ toString (ceilDiv he.e.ttl) ++ "/" ++ cut)
      else none
    | none => none
  if parts.isEmpty then "" else " adm " ++ joinWith " " parts

structure State where
  h : HState := {}
  cas : CasState := {}

def nowOf (h : HState) : Int := h.V * S + h.j * tau

/-- `PrefetchQueue.processPrefetch` for the claim `(name, capId)`: resolve through the
cache-less sub-pipeline, `Store.ReplaceIfCurrent` (CAS on the stored entry's identity),
release the claim on the entry that made it. -/
def completeRefresh (h : HState) (script : List (String × Spec)) (now : Int) (name : String) (capId : Nat) : HState :=
  let release (h : HState) : HState :=
    match getSlot h (name, false) with
    | some cur => if cur.id == capId then setSlot h (name, false) { cur with claimed := false } else h
    | none => h
  match script.lookup name with
  | none => release h
  | some sp =>
    let id := h.nextId
    let h := { h with nextId := id + 1 }
    let hasAns := !sp.ans.isEmpty
    let nsRecs := itemsToNs id name sp.ns
    let exRecs := (itemsToNs id name sp.extra).map (fun n => { n with rid := (n.rid.1, 1000 + n.rid.2), fresh := false })
    let expired := sp.ans.any itemExpired || sp.ns.any itemExpired
    let nx := sp.kind == 'x'
    let rt : RespType := if nx then .nxdomain else if hasAns then .success
      else if nsRecs.any nsIsSOA then .norecords else .success
    if !nx && hasAns && expired then release h else
    match getSlot h (name, false) with
    | some cur =>
      if cur.id == capId then
        let msg : Msg := { answer := sp.ans.map (Item.toRR now), ns := nsRecs.map (NsRec.toRR now),
                           extra := exRecs.map (NsRec.toRR now) }
        let ttl := replaceTTL (genCfg h.ecsCap) msg rt now
        let he : HEntry := { id := id, e := { stored := now, ttl := ttl, cut := sp.lease.map fun l => now + l * S },
                             hasAns := hasAns, ns := nsRecs.map (fun n => { n with fresh := false }),
                             target := if sp.kind == 'c' then some sp.tgt else none, nx := nx, ansItems := sp.ans,
                             extra := exRecs }
        setSlot h (name, false) he
      else h
    | none => h

/-- `c cutrec`: `Store.RecordNXDomainCut`. -/
def stepCutrec (st : State) (k items lease : String) : State × String :=
  let h := st.h
    match parseItems items, parseRel lease with
  | some [s, g1, p, g2], some lease =>
    let h := { h with j := h.j + 1 }
    let now := nowOf h
    let sigRR (g : Item) : ProofRR := { rr := { ttl := g.ttl, kind := .rrsig (now + g.b * S) }, orig := g.a.toNat }
    let recs : List ProofRR := [{ rr := { ttl := s.ttl, kind := .soa s.a.toNat } }, sigRR g1, { rr := { ttl := p.ttl } }, sigRR g2]
    match cutRecordTTL (if h.bigExpire then cutMaxTTLBig else cutMaxTTL) now s.ttl s.a.toNat recs (lease.map fun l => now + l * S) with
    | none => ({ st with h := h }, "f")
    | some ttl =>
      let tok := "d" ++ k
      let id := h.nextId
      ({ st with h := { h with nextId := id + 1, cuts := (tok, now + ttl) :: h.cuts.filter (·.1 != tok),
                                cutItems := (tok, (id, s, g1, p, g2)) :: h.cutItems.filter (·.1 != tok) } },
        "t exp=" ++ toString (ceilDiv ttl))
  | _, _ => (st, "bad-op")

def stepHist (st : State) (w : List String) : State × String :=
  let h := st.h
  match w with
  | ["c", "new", cap, _] =>
    match cap.toInt? with
    | some c => ({ st with h := { ecsCap := c * S } }, "ok")
    | none => (st, "bad-op")
  | ["c", "new", cap, _, pf, expire, _size] =>
    -- a cachesize below 1024 makes cache.New take its fallback; nothing of the lifetime rules may change
    match cap.toInt?, pf.toNat? with
    | some c, some pf => ({ st with h := { ecsCap := c * S, pfPct := pf, bigExpire := expire != "7200" } }, "ok")
    | _, _ => (st, "bad-op")
  | ["c", "new", cap, _, pf, expire] =>
    match cap.toInt?, pf.toNat? with
    | some c, some pf => ({ st with h := { ecsCap := c * S, pfPct := pf, bigExpire := expire != "7200" } }, "ok")
    | _, _ => (st, "bad-op")
  | ["c", "new", cap, _, pf] =>
    match cap.toInt?, pf.toNat? with
    | some c, some pf => ({ st with h := { ecsCap := c * S, pfPct := pf } }, "ok")
    | _, _ => (st, "bad-op")
  | ["c", "adv", d] =>
    match d.toInt? with
    | some d => ({ st with h := { h with V := h.V + d } }, "ok")
    | none => (st, "bad-op")
  | ["c", "q", _route, name, ecs, doS, up] =>
    match parseBool ecs, parseUp up with
    | some ecs, some script =>
      let doBit := doS == "t"
      let h := { h with j := h.j + 1 }
      let now := nowOf h
      if false then ({ st with h := h }, "miss")
      else
        let id0 := h.nextId
        let (h', r, root) := serve (genCfg h.ecsCap) script now 14 h name ecs false ecs none
        let qFresh := match r with | some r => r.fresh.contains name | none => false
        -- an AAAA question passes the dns64 middleware in front of the cache
        let (h', r) :=
          if name.startsWith "m" then
            match r with
            | none => (h', r)
            | some r6 =>
              if r6.nx || r6.hasType then (h', some r6) else
              -- the A lookup is not forked: it runs in the request tree of the AAAA question and
              -- shares its ResponseMeta (every deadline folded so far bounds what it admits)
              let (h'', r4, _) := serve (genCfg h.ecsCap) script now 14 h' ("n" ++ (name.drop 1).toString) false true ecs root
              (h'', some (dns64Compose r6 r4))
          else (h', r)
        let head := match r with
          | none => "miss"
          | some r =>
            if qFresh then "fwd"
            else
              let t := replyTokens (stripForDO doBit r)
              if t == "" then "hit" else "hit " ++ t
        ({ st with h := h' }, head ++ listing h' id0 now)
    | _, _ => (st, "bad-op")
  | ["c", "get", name] =>
    -- Store.GetWithContext: exact entry (ToMsg, no chase), else subtree cut, else synthesis;
    -- the answer binds the request tree: boundRequestToEntryLifetime / boundRequestTo
    let h := { h with j := h.j + 1 }
    let now := nowOf h
    let showBound (b : Option Int) : String := match b with
      | some c => toString (ceilDiv (c - now))
      | none => "-"
    if name.startsWith "u" then
      let tok := "d" ++ (name.drop 1).toString
      match h.cuts.lookup tok with
      | none => ({ st with h := h }, "miss")
      | some exp =>
        match expiryServeTTL exp now with
        | none => ({ st with h := { h with cuts := h.cuts.filter (·.1 != tok) } }, "miss")
        | some t => ({ st with h := h }, "hit " ++ tok ++ "~" ++ toString t ++ " bound=" ++ showBound (boundCut none (some exp)))
    else if name.startsWith "p" || name.startsWith "q" || name.startsWith "x" then
      match synthReply h name now with
      | (h, some (r, exp)) => ({ st with h := h }, "hit " ++ replyTokens r ++ " bound=" ++ showBound (boundCut none (some exp)))
      | (h, none) => ({ st with h := h }, "miss")
    else
      match tryKey h (name, false) now with
      | (h, none) => ({ st with h := h }, "miss")
      | (h, some he) =>
        match he.e.toMsgTTL now with
        | none => ({ st with h := h }, "miss")
        | some shown =>
          let r : Reply := { ans := if he.hasAns then [name] else [], ansTTL := if he.hasAns then [(name, shown)] else [],
                             ns := he.ns.map (fun n => { n with ttl := shown, fresh := false }),
                             extra := he.extra.map (fun n => { n with ttl := shown, fresh := false }) }
          let t := replyTokens r
          ({ st with h := h }, (if t == "" then "hit" else "hit " ++ t) ++ " bound=" ++ showBound (boundCut none (some he.e.hardUntil)))
  | ["c", "purge", name] =>
    let h := { h with j := h.j + 1 }
    ({ st with h := delSlot (delSlot h (name, false)) (name, true) }, "ok")
  | ["c", "cap", name] =>
    let h := { h with j := h.j + 1 }
    let (h, found) := tryKey h (name, false) (nowOf h)
    let h := { h with captured := (name, found.map (·.id)) :: h.captured.filter (·.1 != name) }
    ({ st with h := h }, "cap=" ++ boolStr found.isSome)
  | ["c", "pfdone", name, up] =>
    match parseUp up with
    | some script =>
      let h := { h with j := h.j + 1 }
      let now := nowOf h
      let id0 := h.nextId
      match (h.captured.lookup name).join with
      | some capId =>
        let h := completeRefresh h script now name capId
        ({ st with h := h }, "pf" ++ listing h id0 now)
      | none => ({ st with h := h }, "pf")
    | none => (st, "bad-op")
  | ["c", precOp, k, items, lease] =>
    if precOp != "prec" && precOp != "prec3" && precOp != "cutrec" then (st, "bad-op") else
    if precOp == "cutrec" then stepCutrec st k items lease else
    let k := (if precOp == "prec3" then "q" else "p") ++ k
    match parseItems items, parseRel lease with
    | some [s, g, p, g2], some lease =>
      let h := { h with j := h.j + 1 }
      let now := nowOf h
      let id := h.nextId
      let h := { h with nextId := id + 1 }
      match recordProof h k now (lease.map fun l => now + l * S) s.ttl s g p.ttl p g2 g.ttl g2.ttl id with
      | none => ({ st with h := h }, "f")
      | some h' =>
        let se := match h'.proofSoa.lookup (zoneOf k) with | some (e, _, _, _) => e | none => now
        let ne := match h'.proofNsec.lookup k with | some (e, _, _, _) => e | none => now
        ({ st with h := h' }, "t soa=" ++ toString (ceilDiv (se - now)) ++ " nsec=" ++ toString (ceilDiv (ne - now)))
    | _, _ => (st, "bad-op")
  | ["c", "pfrun", up] =>
    match parseUp up with
    | some script =>
      let h := { h with j := h.j + 1 }
      let now := nowOf h
      let id0 := h.nextId
      let q := h.pfq
      let h := q.foldl (fun h (c : String × Nat) => completeRefresh h script now c.1 c.2) { h with pfq := [] }
      ({ st with h := h }, "pf n=" ++ toString q.length ++ listing h id0 now)
    | none => (st, "bad-op")
  | _ => (st, "bad-op")

def stepTTL (st : State) (w : List String) : State × String :=
  let cfg := genCfg 0
  match w with
  | ["ttl", "new"] => (st, "ok")
  | ["ttl", "calc", rt, a, n, e] =>
    match parseRT rt, parseItems a, parseItems n, parseItems e with
    | some rt, some a, some n, some e =>
      let msg : Msg := { answer := a.map (Item.toRR 0), ns := n.map (Item.toRR 0), extra := e.map (Item.toRR 0) }
      (st, toString (ceilDiv (calculateCacheTTL cfg msg rt 0)))
    | _, _, _, _ => (st, "bad-op")
  | ["ttl", "neg64", items] =>
    match parseItems items with
    | some items =>
      let soa := (items.filterMap fun it => if it.kind == 's' then some (it.ttl, it.a.toNat) else none).head?
      match negativeAAAATTL soa with
      | some n => (st, toString n)
      | none => (st, "none")
    | none => (st, "bad-op")
  | ["ttl", "sig", ttl, tue, _inv] =>
    match ttl.toNat?, tue.toInt? with
    | some ttl, some tue => (st, toString (getRRSIGTTL cfg.minC ttl tue 0))
    | _, _ => (st, "bad-op")
  | ["ttl", "sig", ttl, tue] =>
    match ttl.toNat?, tue.toInt? with
    | some ttl, some tue => (st, toString (getRRSIGTTL cfg.minC ttl tue 0))
    | _, _ => (st, "bad-op")
  | ["ttl", "mgr", mn, mx, x] =>
    match mn.toInt?, mx.toInt?, x.toInt? with
    | some mn, some mx, some x => (st, toString (ttlManagerCalculate mn mx x))
    | _, _, _ => (st, "bad-op")
  | ["ttl", "rem", ttl, el, cut] =>
    match ttl.toInt?, el.toInt?, parseRel cut with
    | some ttl, some el, some cut => (st, toString (({ stored := 0, ttl := ttl, cut := cut } : Entry).remaining el))
    | _, _, _ => (st, "bad-op")
  | ["ttl", "hard", ttl, cut] =>
    match ttl.toInt?, parseRel cut with
    | some ttl, some cut => (st, toString (({ stored := 0, ttl := ttl, cut := cut } : Entry).hardUntil))
    | _, _ => (st, "bad-op")
  | ["ttl", "bound", folds] =>
    match parseFolds folds with
    | some f => (st, showOpt (boundAll none f))
    | none => (st, "bad-op")
  | ["ttl", "fork", pf, cf, used] =>
    match parseFolds pf, parseFolds cf, parseBool used with
    | some pf, some cf, some used =>
      let (p, c) := forkInherit (boundAll none pf) cf used
      (st, "p=" ++ showOpt p ++ " c=" ++ showOpt c)
    | _, _, _ => (st, "bad-op")
  | ["ttl", "proof", maxTTL, cut, recs] =>
    match maxTTL.toInt?, parseRel cut, parseItems recs with
    | some maxTTL, some cut, some items =>
      let recs : List ProofRR := items.map fun it =>
        match it.kind with
        | 's' => { rr := { ttl := it.ttl, kind := .soa it.a.toNat } }
        | 'g' => { rr := { ttl := it.ttl, kind := .rrsig it.b }, orig := it.a.toNat }
        | _ => { rr := { ttl := it.ttl } }
      match denialProofExpiry hardMaxProof 0 maxTTL cut recs with
      | none => (st, "none")
      | some e => (st, toString e)
    | _, _, _ => (st, "bad-op")
  | _ => (st, "bad-op")

def showCur : Option Nat → String
  | none => "-"
  | some i => toString i

def stepCAS (st : State) (w : List String) : State × String :=
  match w with
  | ["cas", "new"] => ({ st with cas := {} }, "ok")
  | ["cas", "set", _] =>
    let (s, _) := casStep st.cas .set
    ({ st with cas := s }, "cur=" ++ showCur s.cur)
  | ["cas", "evict"] =>
    let (s, _) := casStep st.cas .evict
    ({ st with cas := s }, "cur=" ++ showCur s.cur)
  | ["cas", "capture", p] =>
    match p.toNat? with
    | some p =>
      let (s, _) := casStep st.cas (.capture p)
      ({ st with cas := s }, "cap=" ++ showCur (s.captured p))
    | none => (st, "bad-op")
  | ["cas", "cas", p, _] =>
    match p.toNat? with
    | some p =>
      let (s, ok) := casStep st.cas (.cas p)
      ({ st with cas := s }, "ok=" ++ boolStr ok ++ " cur=" ++ showCur s.cur)
    | none => (st, "bad-op")
  | ["cas", "stress", _, _] =>
    -- judged by the oracle only; the driver leaves the slot purged
    let (s, _) := casStep st.cas .evict
    ({ st with cas := s }, "unmodelled")
  | _ => (st, "bad-op")

def step (st : State) (w : List String) : State × String :=
  match w with
  | "ttl" :: _ => stepTTL st w
  | "cas" :: _ => stepCAS st w
  | "c" :: _ => stepHist st w
  | _ => (st, "bad-op")

end Driver.C04
