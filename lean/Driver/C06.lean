import SdnsVerif.Model.Util
import SdnsVerif.Model.Edns
import SdnsVerif.Gen.C06
/-! Line protocol for the `edns` / `accept` / `srv` ops of C06 (syntax: harness/c06/abs.go). -/
namespace Driver.C06
open SdnsVerif.Model SdnsVerif.Model.Edns SdnsVerif.Model.Util

structure State where
  cfg : Cfg := {}
  secretLen : Nat := 0

/-- the size constants of the compiled tree (regenerated every run). -/
def consts : Consts :=
  { minSize := SdnsVerif.Gen.C06.min_msg_size, defSize := SdnsVerif.Gen.C06.default_msg_size,
    maxSize := SdnsVerif.Gen.C06.max_msg_size }

def parseOption (s : String) : Option EOpt :=
  match s.splitOn "." with
  | [c, h] => do
    let code ← c.toNat?
    let d ← hexBytes h
    some (.raw code d)
  | _ => none

def parseOptions (s : String) : Option (List EOpt) :=
  if s == "-" then some [] else (s.splitOn ";").mapM parseOption

/-- `-` ↦ no OPT; `@` ↦ marker (second component true). -/
def parseOpt (s : String) : Option (Option Opt × Bool) :=
  if s == "-" then some (none, false)
  else if s == "@" then some (none, true)
  else match s.splitOn "/" with
    | [u, d, v, os] => do
      let udp ← u.toNat?
      let db ← parseBool d
      let ver ← v.toNat?
      let opts ← parseOptions os
      some (some { udp, doBit := db, version := ver, options := opts }, false)
    | _ => none

def parseQ (s : String) : Option Query :=
  match s.splitOn ":" with
  | ["Q", idm, op, fl, qt, ql, opt] => do
    let (id, mask) ← (match idm.splitOn "~" with
      | [i] => some (i, "0")
      | [i, m] => some (i, m)
      | _ => none)
    let mask ← mask.toNat?
    let id ← id.toNat?
    let (qt, qc) ← (match qt.splitOn "." with
      | [t] => some (t, "0")
      | [t, c] => some (t, c)
      | _ => none)
    let qc ← qc.toNat?
    let op ← op.toNat?
    let qt ← qt.toNat?
    let ql ← ql.toNat?
    let (o, same) ← parseOpt opt
    if same then none else
    some { id, opcode := op, rd := fl.contains 'r', ad := fl.contains 'a', cd := fl.contains 'c',
           question := { name := id + 65536 * mask + 4294967296 * qc, qtype := qt, qlen := ql }, opt := o }
  | _ => none

def parseKind (s : String) : Option DKind :=
  if s == "S" then some .rrsig else if s == "N" then some .nsec
  else if s == "3" then some .nsec3 else if s == "A" then some .other
  else if s == "C" then some .cname else none

/-- a record token; `O` becomes the OPT given as `optRR`. -/
def parseRR (optRR : Option RR) (s : String) : Option (List RR) :=
  if s == "O" then some (match optRR with | some r => [r] | none => [])
  else match s.splitOn "." with
    | [k, id, pp, _o, cl, ul] => do
      let k ← parseKind k
      -- an alias is identified by the query name it points to (its `p` field)
      let id ← (if k == .cname then pp.toNat? else id.toNat?)
      let cl ← cl.toNat?
      let ul ← ul.toNat?
      some [.data k id cl ul]
    | _ => none

def parseRRs (optRR : Option RR) (s : String) : Option (List RR) :=
  if s == "-" then some [] else do
    let parts ← (s.splitOn ";").mapM (parseRR optRR)
    some parts.flatten

structure Up where
  mode : String
  rcode : Nat
  ad : Bool
  aa : Bool
  tc : Bool
  ra : Bool
  z : Bool
  an : String
  ns : String
  ex : String
  opt : Option Opt
  same : Bool

def parseR (s : String) : Option Up :=
  match s.splitOn ":" with
  | ["R", mode, rc, fl, an, ns, ex, opt] => do
    let rc ← rc.toNat?
    let (o, same) ← parseOpt opt
    some { mode, rcode := rc, ad := fl.contains 'a', aa := fl.contains 'A', tc := fl.contains 't',
           ra := fl.contains 'R', z := fl.contains 'z', an, ns, ex, opt := o, same }
  | _ => none

/-- the scripted handler: `SetReply(request as seen)` + the scripted content.
`ownOpt`: the request's OPT is the writer's `w.opt` object (decoded path). -/
def upstream (u : Up) (ownOpt : Bool) (q : Query) : Option Msg :=
  if u.mode == "n" || u.mode == "p" || u.mode == "P" then none else
  let optRR : Option RR :=
    if u.same then (match q.opt with | some o => some (.opt o ownOpt) | none => none)
    else (match u.opt with | some o => some (.opt o false) | none => none)
  match parseRRs none u.an, parseRRs none u.ns, parseRRs optRR u.ex with
  | some an, some ns, some ex =>
    let base := setReply {} q
    some { base with rcode := u.rcode,
                     fl := { base.fl with ad := u.ad, aa := u.aa, tc := u.tc, ra := u.ra, z := u.z },
                     answer := an, ns := ns, extra := ex }
  | _, _, _ => none

def hex2 (n : Nat) : String := String.ofList [nibble (n / 16 % 16), nibble (n % 16)]

def natsHex (l : List Nat) : String := if l.isEmpty then "-" else String.join (l.map hex2)

def showOption : EOpt → String
  | .raw c d => s!"{c}.{bytesHex d}"
  | .srvCookie c => s!"10.{bytesHex c}S"
  | .srvNsid d => s!"3.{bytesHex d}"
  | .srvKeepalive u => s!"11.{hex2 (u / 256)}{hex2 (u % 256)}"

def showOptions (os : List EOpt) : String :=
  if os.isEmpty then "-" else ";".intercalate (os.map showOption)

/-- insertion sort of rendered options (the `edns hit` op compares the option list as a set). -/
def insertStr (s : String) : List String → List String
  | [] => [s]
  | x :: t => if s ≤ x then s :: x :: t else x :: insertStr s t

def sortStrs : List String → List String
  | [] => []
  | x :: t => insertStr x (sortStrs t)

def showOptionsSorted (os : List EOpt) : String :=
  if os.isEmpty then "-" else ";".intercalate (sortStrs (os.map showOption))

def showOpt (o : Opt) : String :=
  s!"{o.udp}/{boolStr o.doBit}/{o.version}/{showOptions o.options}"

def showRR : RR → String
  | .data .rrsig id _ _ => s!"S{id}"
  | .data .nsec id _ _ => s!"N{id}"
  | .data .nsec3 id _ _ => s!"3{id}"
  | .data .other id _ _ => s!"A{id}"
  | .data .cname id _ _ => s!"C{id}"
  | .opt _ _ => "O"

def showRRs (l : List RR) : String := if l.isEmpty then "-" else ",".intercalate (l.map showRR)

def showFlags (f : Flags) : String :=
  let s := (if f.qr then "q" else "") ++ (if f.aa then "A" else "") ++ (if f.tc then "t" else "")
    ++ (if f.rd then "r" else "") ++ (if f.ra then "R" else "") ++ (if f.z then "z" else "")
    ++ (if f.ad then "a" else "") ++ (if f.cd then "c" else "")
  if s.isEmpty then "-" else s

def showReplyWith (sorted : Bool) (q : Query) : Option Msg → String
  | none => "none"
  | some m =>
    let qs := match m.question with
      | none => "0"
      | some x => if x == q.question then "e" else "x"
    let showO := fun (o : Opt) => if sorted then s!"{o.udp}/{boolStr o.doBit}/{o.version}/{showOptionsSorted o.options}" else showOpt o
    let opts := m.extra.filterMap (fun r => match r with | .opt o _ => some (showO o) | _ => none)
    let opt := if opts.isEmpty then "-" else "|".intercalate opts
    s!"id={m.id} op={m.opcode} rc={m.rcode} fl={showFlags m.fl} q={qs} an={showRRs m.answer} ns={showRRs m.ns} ex={showRRs m.extra} opt={opt}"

def showReply (q : Query) (m : Option Msg) : String := showReplyWith false q m

def parseProto (s : String) : Option Proto :=
  if s == "udp" then some .udp else if s == "tcp" then some .tcp
  else if s == "doh" then some .doh else if s == "doq" then some .doq else none

/-- `Request.ParseWire` eligibility as far as the abstract query shows it. -/
def wireEligible (q : Query) : Bool :=
  q.opcode == 0 && (match q.opt with
    | none => true
    | some o =>
      (o.options.filter (fun x => x.code == codeCookie)).length ≤ 1 &&
      o.options.all (fun x => match x with
        | .raw c d =>
          if c == codeCookie then decide (8 ≤ d.length ∧ d.length ≤ 40)
          else if c == codeNSID || c == codePadding then true
          else if c == codeECS then decide (d.length ≥ 4)
          else if c == codeKeepalive then (d.length == 0 || d.length == 2)
          else false
        | _ => false))

def verdictName : Verdict → String
  | .ok => "ok" | .ignore => "ignore" | .notimp => "notimp" | .formerr => "formerr"

def step (st : State) (w : List String) : State × String :=
  match w with
  | ["edns", "new", nsid, secret, ecs, ka] =>
    match hexBytes nsid, parseBool ecs, ka.toNat? with
    | some n, some e, some k =>
      ({ st with cfg := { nsid := n, ecs := e, kaUnits := k }, secretLen := if secret == "t" then 17 else 0 }, "ok")
    | _, _, _ => (st, "bad-op")
  | ["edns", "set0", q] =>
    match parseQ q with
    | some q =>
      let s := setEdns0 consts st.cfg.ecs q.opt
      let ck := match s.cookie with | some c => bytesHex c | none => "-"
      (st, s!"size={s.size} cookie={ck} nsid={boolStr s.nsid} do={boolStr s.do_} opt={showOpt s.opt} attached=t")
    | none => (st, "bad-op")
  | ["edns", "serve", path, proto, q, r] =>
    match parseProto proto, parseQ q, parseR r with
    | some p, some q, some u =>
      let L := msgLen true
      let Lu := msgLen false
      let wire := path == "w" && wireEligible q
      let wb := wire && (q.opt.isNone || (q.opt.map (·.version)) == some 0)
      let res :=
        if u.mode == "p" || u.mode == "P" then
          serveGuarded L Lu consts st.cfg p q wb (fun _ => if u.mode == "P" && wb then .panicUndecoded else .panic)
        else if wb then
          serveWireBorn L Lu consts st.cfg p q (upstream u false)
        else serveDNS L Lu consts st.cfg p q (upstream u (!wire))
      (st, showReply q res)
    | _, _, _ => (st, "bad-op")
  | ["edns", "wirewrite", path, proto, blen, q, r] =>
    match parseProto proto, parseQ q, parseR r, blen.toNat? with
    | some p, some q, some u, some bodyLen =>
      let s0 := setEdns0 consts st.cfg.ecs q.opt
      let wire := path == "w" && wireEligible q
      let w := if wire then writerWire consts p q else writerDecoded consts p q s0
      match upstream u false (normalised q s0) with
      | none => (st, "bad-op")
      | some m =>
        let body := { m with extra := m.extra.filter (fun r => !r.isOpt) }
        let info : WireInfo :=
          { rcode := m.rcode, ad := m.fl.ad,
            hasDnssec := (m.answer ++ m.ns).any RR.isDnssec && q.question.qtype != typeRRSIG,
            ede := (match u.opt with
                    | some o => if u.ex.contains 'O' then
                        o.options.find? (fun x => match x with | .raw c d => c == codeEDE && d.length ≥ 2 | _ => false)
                      else none
                    | none => none) }
        match wireReady st.cfg st.secretLen w (p == .udp || p == .tcp) with
        | none => (st, "notready")
        | some cp =>
          let head := s!"ready do={boolStr cp.do_} reserve={cp.reserve} max={cp.maxSize}"
          -- the packed body length is measured by the harness; the OPT adds its exact encoding
          let L := fun (x : Msg) => bodyLen + ((x.extra.filter RR.isOpt).map (rrLen true)).sum
          (match writeWire L st.cfg w body info with
           | none => (st, head ++ " fallback")
           | some r => (st, head ++ " " ++ showReply q (some r)))
    | _, _, _, _ => (st, "bad-op")
  | "edns" :: "cachewire" :: d :: q :: r :: rest =>
    match parseBool d, parseQ q, parseR r with
    | some d, some q, some u =>
      let admitQ : Query := match rest with
        | [m] => { q with question := { q.question with name := q.question.name % 65536 + 65536 * (m.toNat?.getD 0) } }
        | _ => q
      (match upstream u false admitQ with
       | none => (st, "bad-op")
       | some m =>
         match newWEntry m with
         | none => (st, "nocache")
         | some e =>
           let head := s!"has={boolStr e.hasDnssec} stripped={boolStr e.stripped.isSome}"
           (match serveWireInto e q d with
            | none => (st, head ++ " none")
            | some (b, info) =>
              let ede := match info.ede with | some (.raw _ dd) => bytesHex dd | _ => "-"
              (st, head ++ s!" info rc={info.rcode} ad={boolStr info.ad} dnssec={boolStr info.hasDnssec} ede={ede} body " ++ showReply q (some b))))
    | _, _, _ => (st, "bad-op")
  | ["edns", "hit", path, proto, pl, q, r] =>
    match parseProto proto, parseQ q, parseR r, (pl.splitOn ",").map String.toNat? with
    | some p, some q, some u, [some plFull, some plStripped] =>
      (match upstream u false q with
       | none => (st, "bad-op")
       | some m =>
         if q.opcode > 0 then (st, "bad-op") else
         let s0 := setEdns0 consts st.cfg.ecs q.opt
         let wire := path == "w" && wireEligible q
         let w := if wire then writerWire consts p q else writerDecoded consts p q s0
         -- packed lengths are measured by the harness: the stored body, and the one stripped for DO=0
         let Lp := fun (b : Msg) => if (b.answer ++ b.ns).any RR.isDnssec then plFull else plStripped
         match cacheHit (msgLen true) (msgLen false) Lp st.cfg st.secretLen w (p == .udp || p == .tcp) m (normalised q s0) with
         | none => (st, "miss")
         | some r => (st, showReplyWith true q (some r)))
    | _, _, _, _ => (st, "bad-op")
  | ["edns", "failover", path, proto, q, r, f1, f2] =>
    match parseProto proto, parseQ q, parseR r, parseR f1, parseR f2 with
    | some p, some q, some u, some u1, some u2 =>
      let wire := path == "w" && wireEligible q
      let wb := wire && (q.opt.isNone || (q.opt.map (·.version)) == some 0)
      let next := fun (q' : Query) =>
        match upstream u (!wire) q' with
        | none => Outcome.done none
        | some m =>
          -- the query failover sends: the reply's question, RD, EDNS 1232 with DO, the reply's CD
          let fq : Query := { id := 0, opcode := 0, rd := true, ad := false, cd := m.fl.cd, question := q'.question,
                              opt := some { udp := consts.defSize, doBit := true } }
          Outcome.done (some (failover m [upstream u1 false fq, upstream u2 false fq]))
      (st, showReply q (serveGuarded (msgLen true) (msgLen false) consts st.cfg p q wb next))
    | _, _, _, _, _ => (st, "bad-op")
  | ["edns", "hitchase", path, proto, q, ra, tq, rt] =>
    match parseProto proto, parseQ q, parseR ra, parseQ tq, parseR rt with
    | some p, some q, some ua, some tq, some ut =>
      (match upstream ua false q, upstream ut false tq with
       | some am, some tm =>
         let s0 := setEdns0 consts st.cfg.ecs q.opt
         let wire := path == "w" && wireEligible q
         let w := if wire then writerWire consts p q else writerDecoded consts p q s0
         -- the byte-route chase exists for wire-born requests only; a decoded one chases through the queryer
         if !wire then (st, "declined") else
         (match chaseHit st.cfg st.secretLen w (p == .udp || p == .tcp) am tm (normalised q s0) with
          | none => (st, "declined")
          | some r => (st, showReplyWith true q (some r)))
       | _, _ => (st, "bad-op"))
    | _, _, _, _, _ => (st, "bad-op")
  | ["edns", "as112", path, proto, q] =>
    match parseProto proto, parseQ q with
    | some p, some q =>
      let wire := path == "w" && wireEligible q
      let wb := wire && (q.opt.isNone || (q.opt.map (·.version)) == some 0)
      (st, showReply q (serveGuarded (msgLen true) (msgLen false) consts st.cfg p q wb (fun q' => .done (some (as112Reply q')))))
    | _, _ => (st, "bad-op")
  | ["edns", "ratelimit", path, proto, ks, _q1, q2, r] =>
    match parseProto proto, parseQ q2, parseR r with
    | some p, some q, some u =>
      let known := ks.startsWith "k=t"
      let same := ks.endsWith "s=t"
      let wire := path == "w" && wireEligible q
      let wb := wire && (q.opt.isNone || (q.opt.map (·.version)) == some 0)
      let next := fun (q' : Query) => Outcome.done (upstream u (!wire) q')
      (st, showReply q (ratelimitServe (msgLen true) (msgLen false) consts st.cfg p q wb known same true next))
    | _, _, _ => (st, "bad-op")
  | "edns" :: "tomsg" :: q :: r :: rest =>
    match parseQ q, parseR r with
    | some q, some u =>
      -- the entry was admitted from the answer to the same name in the spelling `rest` gives
      let admitQ : Query := match rest with
        | [m] => { q with question := { q.question with name := q.question.name % 65536 + 65536 * (m.toNat?.getD 0) } }
        | _ => q
      match upstream u false admitQ with
      | some m =>
        (match newCacheEntry m with
         | some e => (st, showReply q (some (toMsg e q)))
         | none => (st, "nocache"))
      | none => (st, "bad-op")
    | _, _ => (st, "bad-op")
  | ["edns", "parsewire", pkt] =>
    match hexBytes pkt with
    | some b =>
      (match parseWire (b.map (·.toNat)) with
       | none => (st, "no")
       | some f =>
         let has := fun c => f.options.any (fun o => o.1 == c)
         let cookie := match f.options.find? (fun o => o.1 == codeCookie) with
           | some o => natsHex o.2 | none => "-"
         let opt := if f.hasOPT then s!"{f.udp}/{boolStr f.doBit}/{f.version}" else "-"
         (st, s!"ok id={f.id} op={flagOpcode f.flags} rd={boolStr (f.flags / 256 % 2 == 1)} ad={boolStr (flagAD f.flags)} cd={boolStr (f.flags / 16 % 2 == 1)} qt={f.qtype} qc={f.qclass} nl={f.nameLen} opt={opt} ecs={boolStr (has codeECS)} nsid={boolStr (has codeNSID)} ka={boolStr (has codeKeepalive)} cookie={cookie}"))
    | none => (st, "bad-op")
  | ["accept", "hdr", fl, qd, an, ns, ar] =>
    match fl.toNat?, qd.toNat?, an.toNat?, ns.toNat?, ar.toNat? with
    | some fl, some qd, some an, some ns, some ar => (st, verdictName (acceptHeader fl qd an ns ar))
    | _, _, _, _, _ => (st, "bad-op")
  | "srv" :: "new" :: _ => (st, "ok")
  | ["srv", "stop"] => (st, "ok")
  | "srv" :: "seed" :: _ => (st, "unmodelled")
  | "srv" :: "q" :: _ => (st, "unmodelled")
  | ["srv", "raw", entry, pkt, _r, dec] =>
    if entry == "sockudp" || entry == "socktcp" then
      match hexBytes pkt with
      | some b =>
        (match listenerStep (b.map (·.toNat)) (dec != "dec=f") with
         | none => (st, "unmodelled")
         | some none => (st, "silent")
         | some (some bytes) => (st, s!"bytes={natsHex bytes}"))
      | none => (st, "bad-op")
    else (st, "unmodelled")
  | _ => (st, "bad-op")

end Driver.C06
