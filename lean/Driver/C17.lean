import SdnsVerif.Model.Util
import SdnsVerif.Model.IPSet
import SdnsVerif.Model.Chain
/-! Line protocol for the `ipset` / `acl` / `views` / `sub` ops of C17. -/
namespace Driver.C17
open SdnsVerif.Model SdnsVerif.Model.IPSet SdnsVerif.Model.Util

structure State where
  set : Set := {}
  setBad : Nat := 0
  acl : Set := {}
  dacl : Set := {}
  views : List Set := []
  vtypes : List (List Nat) := []

def parseEntry (s : String) : Option Entry :=
  if s.startsWith "bad:" then some none else
  match s.splitOn ":" with
  | [fam, rest] =>
    match rest.splitOn "/" with
    | [h, b] => do
      let a ← hexNat h
      let bits ← b.toNat?
      let f ← (if fam == "4" then some Fam.v4 else if fam == "6" then some Fam.v6 else none)
      some (some (f, a, bits))
    | _ => none
  | _ => none

def parseEntries (s : String) : Option (List Entry) :=
  if s == "-" then some [] else (s.splitOn ",").mapM parseEntry

def parseAddr (s : String) : Option (Fam × Nat) :=
  match s.splitOn ":" with
  | [fam, h] => do
    let a ← hexNat h
    let f ← (if fam == "4" then some Fam.v4 else if fam == "6" then some Fam.v6
             else if fam == "m" then some Fam.mapped else none)
    -- a 16-octet address inside ::ffff:0:0/96 IS the IPv4-mapped form (`netip.Addr.Is4In6`)
    if f == Fam.v6 && a / 2 ^ 32 == 0xffff then some (Fam.mapped, a % 2 ^ 32) else
    some (f, a)
  | _ => none

def typeCode (s : String) : Option Nat :=
  if s == "a" then some 1 else if s == "aaaa" then some 28 else if s == "txt" then some 16 else none

def parseScript (s : String) : Option Chain.Script :=
  if s == "-" then some [] else
  s.toList.mapM fun c =>
    if c == 'n' then some Chain.Act.next else if c == 'c' then some Chain.Act.cancel
    else if c == 'w' then some Chain.Act.write else none

def natList (l : List Nat) : String := ",".intercalate (l.map toString)

def parseH (s : String) : Option Chain.H :=
  match s.splitOn ":" with
  | [n, f] => if f == "t" then some ⟨n, true⟩ else if f == "f" || f == "x" then some ⟨n, false⟩ else none
  | _ => none

def openList : List Entry := [some (Fam.v4, 0, 0), some (Fam.v6, 0, 0)]

def step (st : State) (w : List String) : State × String :=
  match w with
  | ["ipset", "new", es] =>
    match parseEntries es with
    | some l =>
      let s := Set.new l
      let bad := (l.filter (·.isNone)).length
      ({ st with set := s, setBad := bad }, s!"len={s.len} bad={bad}")
    | none => (st, "bad-op")
  | ["ipset", "contains", a] =>
    match parseAddr a with
    | some (f, v) => (st, boolStr (st.set.contains f v))
    | none => (st, "bad-op")
  | ["acl", "new", es] =>
    match parseEntries es with
    | some l => ({ st with acl := Set.new (if l.isEmpty then openList else l) }, "ok")
    | none => (st, "bad-op")
  | ["acl", "serve", a, internal, _proto] =>
    match parseAddr a, parseBool internal with
    | some (f, v), some i =>
      let nxt := aclNext st.acl i f v
      -- the stub behind the access list writes the reply when it is reached
      (st, s!"next={boolStr nxt} written={boolStr nxt}")
    | _, _ => (st, "bad-op")
  | ["views", "new", vs] =>
    let parts := (vs.splitOn ";").map fun p => p.splitOn "|"
    let parsed := parts.mapM fun p => match p with
      | [es, ts] => do
        let l ← parseEntries es
        let tys ← (if ts == "none" then some [] else (ts.splitOn "+").mapM typeCode)
        some (l, tys)
      | [es, ts, _label] => do   -- the view's free-form label plays no part in the decision
        let l ← parseEntries es
        let tys ← (if ts == "none" then some [] else (ts.splitOn "+").mapM typeCode)
        some (l, tys)
      | _ => none
    match parsed with
    | some ls => ({ st with views := ls.map (fun x => Set.new x.1), vtypes := ls.map (·.2) }, "ok")
    | none => (st, "bad-op")
  | ["views", "serve", a, internal, qt] =>
    match parseAddr a, parseBool internal, typeCode qt with
    | some (f, v), some i, some t =>
      match viewAnswer st.views st.vtypes i f v t with
      | some k => (st, s!"view={k}")
      | none => (st, "view=none")
    | _, _, _ => (st, "bad-op")
  | ["dchain", "new", es, _rl] =>
    match parseEntries es with
    | some l => ({ st with dacl := Set.new (if l.isEmpty then openList else l) }, "ok")
    | none => (st, "bad-op")
  | ["dchain", "serve", a, _proto, _ver, _opc, _ck] =>
    -- default chain prefix, rate limiter off: whatever the query carries, a
    -- reply exists iff the access list lets the source through
    match parseAddr a with
    | some (f, v) => (st, s!"reply={boolStr (aclNext st.dacl false f v)}")
    | none => (st, "bad-op")
  | ["dchain", "slab", _proto, as] =>
    -- one chain and one transport object reused for several peers: each query
    -- is judged by its own source ("i" = the internal sentinel)
    let rs := (as.splitOn ",").mapM fun a =>
      if a == "i" then some true else
      (parseAddr a).map fun (f, v) => aclNext st.dacl false f v
    match rs with
    | some l => (st, "reply=" ++ String.join (l.map boolStr))
    | none => (st, "bad-op")
  | "dchain" :: "rlserve" :: _ => (st, "unmodelled")
  | ["dchain", "subq", n] =>
    -- internal sub-queries run on the sub-pipelines, which hold no client policy
    -- (`internal_pipelines_hold_no_client_policy`): every one is answered
    match n.toNat? with
    | some k => (st, s!"answered={k} prefetch={k}")
    | none => (st, "bad-op")
  | "live" :: "tls" :: _ => (st, "unmodelled")
  | ["cfg", "load", labels] =>
    -- the configuration file is a list: views keep their declaration order, the
    -- first declared view containing the client answers
    let n := (labels.splitOn ",").length
    (st, s!"views={labels} first=1 acl={n}")
  | ["ident", "raw", a, _port] =>
    -- the batched reader hands the chain the datagram's own source: a 16-byte
    -- address counts as IPv4 only in its genuine ::ffff:a.b.c.d form
    match parseAddr a with
    | some (f, v) =>
      let (f', v') := if f == Fam.v6 && v / 2 ^ 32 == 0xffff then (Fam.mapped, v % 2 ^ 32) else (f, v)
      (st, s!"next={boolStr (aclNext st.acl false f' v')}")
    | none => (st, "bad-op")
  | "sub" :: "cachehit" :: _ => (st, "unmodelled")
  | ["views", "slab", _proto, as, qt] =>
    -- one chain and one transport reused across peers: every query is answered
    -- from the view of its own source
    match typeCode qt with
    | some t =>
      let rs := (as.splitOn ",").mapM fun a =>
        (parseAddr a).map fun (f, v) =>
          match viewAnswer st.views st.vtypes false f v t with
          | some k => toString k
          | none => "none"
      match rs with
      | some l => (st, "view=" ++ ",".intercalate l)
      | none => (st, "bad-op")
    | none => (st, "bad-op")
  | ["live", "run", es, peers, _hdr] =>
    -- the real server: UDP and TCP sockets are reached from 127.0.0.1, DoH from
    -- the listed peers; a reply exists iff the access list holds the source,
    -- whatever forwarding header the request carries
    match parseEntries es, (peers.splitOn ",").mapM parseAddr with
    | some l, some ps =>
      let acl := Set.new (if l.isEmpty then openList else l)
      let lo := boolStr (aclNext acl false Fam.v4 0x7f000001)
      let doh := String.join (ps.map fun (f, v) => boolStr (aclNext acl false f v))
      let pipelined := if aclNext acl false Fam.v4 0x7f000001 then 3 else 0
      -- overlapping requests: the harness picks the LAST allowed and the LAST denied
      -- peer; with both present the allowed one is answered and the denied one is not
      let verdicts := ps.map fun (f, v) => aclNext acl false f v
      let overlap := if verdicts.contains true && verdicts.contains false then "tf" else "-"
      (st, s!"udp={lo} tcp={lo} tcpp={pipelined} udpx={lo} doh={doh} overlap={overlap} raw={doh}")
    | _, _ => (st, "bad-op")
  | ["chain", "run", scs] =>
    match (scs.splitOn ";").mapM parseScript with
    | some hs =>
      let r := Chain.run hs
      if r.oof then (st, "model-out-of-fuel") else
      (st, s!"ran={natList r.ran} writer={match r.writer with | some w => toString w | none => "-"}")
    | none => (st, "bad-op")
  | ["wire", "build", spec] =>
    match (spec.splitOn ",").mapM parseH with
    | some hs =>
      -- the capture handler the driver appends is not client-only
      let all := hs ++ [⟨"stub", false⟩]
      let names := fun (l : List Chain.H) => ",".intercalate (l.map (·.name))
      (st, s!"q={names (Chain.queryerSub all)} pq={names (Chain.prefetchSub all)}")
    | none => (st, "bad-op")
  | ["ident", "derive", kind, a, port, tproto, tint] =>
    match parseAddr a, port.toNat? with
    | some (f, v), some p =>
      let k := if kind == "udp" then Chain.AddrKind.udp else if kind == "tcp" then Chain.AddrKind.tcp else Chain.AddrKind.other
      let sentinel := (f == Fam.v4 || f == Fam.mapped) && v == 0x7f0000ff
      let peer : Chain.Peer := { kind := k, sentinelIP := sentinel, port := p,
                                 transportProto := if tproto == "-" || tproto == "e" then "" else tproto,
                                 transportInternal := tint == "t" }
      (st, s!"proto={Chain.derivedProto peer} internal={boolStr (Chain.derivedInternal peer)}")
    | _, _ => (st, "bad-op")
  | "sub" :: _ => (st, "unmodelled")
  | _ => (st, "bad-op")

end Driver.C17
