import SdnsVerif.Model.Util
import SdnsVerif.Model.IPSet
/-! Line protocol for the `ipset` / `acl` / `views` / `sub` ops of C17. -/
namespace Driver.C17
open SdnsVerif.Model SdnsVerif.Model.IPSet SdnsVerif.Model.Util

structure State where
  set : Set := {}
  setBad : Nat := 0
  acl : Set := {}
  views : List Set := []

def parseEntry (s : String) : Option Entry :=
  if s.startsWith "bad:" then some none else
  match s.splitOn ":" with
  | [fam, rest] =>
    match rest.splitOn "/" with
    | [h, b] => do
      let a ← hexNat h
      let bits ← b.toNat?
      let f ← (if fam == "4" then some Fam.v4 else if fam == "6" then some Fam.v6 else none)
      some (some (f, a, bits))
    | _ => none
  | _ => none

def parseEntries (s : String) : Option (List Entry) :=
  if s == "-" then some [] else (s.splitOn ",").mapM parseEntry

def parseAddr (s : String) : Option (Fam × Nat) :=
  match s.splitOn ":" with
  | [fam, h] => do
    let a ← hexNat h
    let f ← (if fam == "4" then some Fam.v4 else if fam == "6" then some Fam.v6
             else if fam == "m" then some Fam.mapped else none)
    some (f, a)
  | _ => none

def openList : List Entry := [some (Fam.v4, 0, 0), some (Fam.v6, 0, 0)]

def step (st : State) (w : List String) : State × String :=
  match w with
  | ["ipset", "new", es] =>
    match parseEntries es with
    | some l =>
      let s := Set.new l
      let bad := (l.filter (·.isNone)).length
      ({ st with set := s, setBad := bad }, s!"len={s.len} bad={bad}")
    | none => (st, "bad-op")
  | ["ipset", "contains", a] =>
    match parseAddr a with
    | some (f, v) => (st, boolStr (st.set.contains f v))
    | none => (st, "bad-op")
  | ["acl", "new", es] =>
    match parseEntries es with
    | some l => ({ st with acl := Set.new (if l.isEmpty then openList else l) }, "ok")
    | none => (st, "bad-op")
  | ["acl", "serve", a, internal, _proto] =>
    match parseAddr a, parseBool internal with
    | some (f, v), some i =>
      let nxt := aclNext st.acl i f v
      -- the stub behind the access list writes the reply when it is reached
      (st, s!"next={boolStr nxt} written={boolStr nxt}")
    | _, _ => (st, "bad-op")
  | ["views", "new", vs] =>
    match (vs.splitOn ";").mapM parseEntries with
    | some ls => ({ st with views := ls.map Set.new }, "ok")
    | none => (st, "bad-op")
  | ["views", "serve", a, internal] =>
    match parseAddr a, parseBool internal with
    | some (f, v), some i =>
      match viewPick st.views i f v with
      | some k => (st, s!"view={k}")
      | none => (st, "view=none")
    | _, _ => (st, "bad-op")
  | "sub" :: _ => (st, "unmodelled")
  | _ => (st, "bad-op")

end Driver.C17
