import SdnsVerif.Model.Util
import SdnsVerif.Model.IPSet
/-! Line protocol for the `ipset` / `acl` / `views` / `sub` ops of C17. -/
namespace Driver.C17
open SdnsVerif.Model SdnsVerif.Model.IPSet SdnsVerif.Model.Util

structure State where
  set : Set := {}
  setBad : Nat := 0
  acl : Set := {}
  dacl : Set := {}
  views : List Set := []
  vtypes : List (List Nat) := []

def parseEntry (s : String) : Option Entry :=
  if s.startsWith "bad:" then some none else
  match s.splitOn ":" with
  | [fam, rest] =>
    match rest.splitOn "/" with
    | [h, b] => do
      let a ← hexNat h
      let bits ← b.toNat?
      let f ← (if fam == "4" then some Fam.v4 else if fam == "6" then some Fam.v6 else none)
      some (some (f, a, bits))
    | _ => none
  | _ => none

def parseEntries (s : String) : Option (List Entry) :=
  if s == "-" then some [] else (s.splitOn ",").mapM parseEntry

def parseAddr (s : String) : Option (Fam × Nat) :=
  match s.splitOn ":" with
  | [fam, h] => do
    let a ← hexNat h
    let f ← (if fam == "4" then some Fam.v4 else if fam == "6" then some Fam.v6
             else if fam == "m" then some Fam.mapped else none)
    some (f, a)
  | _ => none

def typeCode (s : String) : Option Nat :=
  if s == "a" then some 1 else if s == "aaaa" then some 28 else if s == "txt" then some 16 else none

def openList : List Entry := [some (Fam.v4, 0, 0), some (Fam.v6, 0, 0)]

def step (st : State) (w : List String) : State × String :=
  match w with
  | ["ipset", "new", es] =>
    match parseEntries es with
    | some l =>
      let s := Set.new l
      let bad := (l.filter (·.isNone)).length
      ({ st with set := s, setBad := bad }, s!"len={s.len} bad={bad}")
    | none => (st, "bad-op")
  | ["ipset", "contains", a] =>
    match parseAddr a with
    | some (f, v) => (st, boolStr (st.set.contains f v))
    | none => (st, "bad-op")
  | ["acl", "new", es] =>
    match parseEntries es with
    | some l => ({ st with acl := Set.new (if l.isEmpty then openList else l) }, "ok")
    | none => (st, "bad-op")
  | ["acl", "serve", a, internal, _proto] =>
    match parseAddr a, parseBool internal with
    | some (f, v), some i =>
      let nxt := aclNext st.acl i f v
      -- the stub behind the access list writes the reply when it is reached
      (st, s!"next={boolStr nxt} written={boolStr nxt}")
    | _, _ => (st, "bad-op")
  | ["views", "new", vs] =>
    let parts := (vs.splitOn ";").map fun p => p.splitOn "|"
    let parsed := parts.mapM fun p => match p with
      | [es, ts] => do
        let l ← parseEntries es
        let tys ← (if ts == "none" then some [] else (ts.splitOn "+").mapM typeCode)
        some (l, tys)
      | _ => none
    match parsed with
    | some ls => ({ st with views := ls.map (fun x => Set.new x.1), vtypes := ls.map (·.2) }, "ok")
    | none => (st, "bad-op")
  | ["views", "serve", a, internal, qt] =>
    match parseAddr a, parseBool internal, typeCode qt with
    | some (f, v), some i, some t =>
      match viewAnswer st.views st.vtypes i f v t with
      | some k => (st, s!"view={k}")
      | none => (st, "view=none")
    | _, _, _ => (st, "bad-op")
  | ["dchain", "new", es, _rl] =>
    match parseEntries es with
    | some l => ({ st with dacl := Set.new (if l.isEmpty then openList else l) }, "ok")
    | none => (st, "bad-op")
  | ["dchain", "serve", a, _proto, _ver, _opc, _ck] =>
    -- default chain prefix, rate limiter off: whatever the query carries, a
    -- reply exists iff the access list lets the source through
    match parseAddr a with
    | some (f, v) => (st, s!"reply={boolStr (aclNext st.dacl false f v)}")
    | none => (st, "bad-op")
  | ["dchain", "slab", _proto, as] =>
    -- one chain and one transport object reused for several peers: each query
    -- is judged by its own source ("i" = the internal sentinel)
    let rs := (as.splitOn ",").mapM fun a =>
      if a == "i" then some true else
      (parseAddr a).map fun (f, v) => aclNext st.dacl false f v
    match rs with
    | some l => (st, "reply=" ++ String.join (l.map boolStr))
    | none => (st, "bad-op")
  | "dchain" :: "rlserve" :: _ => (st, "unmodelled")
  | "sub" :: _ => (st, "unmodelled")
  | _ => (st, "bad-op")

end Driver.C17
