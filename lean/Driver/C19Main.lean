import Driver.Loop
import Driver.C19
def main : IO Unit := Driver.runLoop ({} : Driver.C19.State) Driver.C19.step
