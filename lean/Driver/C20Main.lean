import Driver.Loop
import Driver.C20
def main : IO Unit := Driver.runLoop ({} : Driver.C20.State) Driver.C20.step
