import Driver.Loop
import Driver.C08
def main : IO Unit := Driver.runLoop ({} : Driver.C08.State) Driver.C08.step
