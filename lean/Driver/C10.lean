import SdnsVerif.Model.Util
import SdnsVerif.Model.Slab
import SdnsVerif.Gen.C10
/-! Line protocol of the C10 model: `udp` / `tcp` / `lease` / `chain` / `share`
ops are computed by the model; `usrv` / `tsrv` / `stress` are judged by the Go
oracle only. -/
namespace Driver.C10
open SdnsVerif.Model SdnsVerif.Model.Slab SdnsVerif.Model.Util

/-- buffer classes of the compiled tree (regenerated facts) -/
def sz : Sizes :=
  { udpBuf := SdnsVerif.Gen.C10.size_udp_buf, udpBatch := SdnsVerif.Gen.C10.size_udp_batch,
    udpTxMax := SdnsVerif.Gen.C10.size_udp_tx_max, tcpBuf := SdnsVerif.Gen.C10.size_tcp_buf,
    tcpSmallRx := SdnsVerif.Gen.C10.size_tcp_small_rx, tcpSmallTx := SdnsVerif.Gen.C10.size_tcp_small_tx,
    tcpDrain := SdnsVerif.Gen.C10.size_tcp_drain, tcpMinFrame := SdnsVerif.Gen.C10.size_tcp_min_frame }

structure URig where
  inline : Bool := false
  cap : Nat := 0
  sock : List (Nat × Bytes) := []
  pending : List UdpJob := []
  wburst : List UdpJob := []
  plan : List TxAns := []      -- what the kernel will answer to the next sendmmsg calls
  retired : Bool := false      -- batched TX retired (ENOSYS)

structure State where
  udp : Option URig := none

def URig.leased (r : URig) : Nat := r.pending.length + r.wburst.length

/-- lexicographic `≤` on byte strings -/
def bytesLe : Bytes → Bytes → Bool
  | [], _ => true
  | _ :: _, [] => false
  | a :: s, b :: t => if a < b then true else if b < a then false else bytesLe s t

def dgLe (d x : Datagram) : Bool := d.dest < x.dest || (d.dest == x.dest && bytesLe d.body x.body)

def insertByClient (d : Datagram) : List Datagram → List Datagram
  | [] => [d]
  | x :: t => if dgLe d x then d :: x :: t else x :: insertByClient d t

/-- canonical order of what the clients received: by client, then by bytes
(datagram order between two replies to one client carries no meaning) -/
def sortByClient (l : List Datagram) : List Datagram := l.foldr insertByClient []

def fmtSent (l : List Datagram) : String :=
  if l.isEmpty then "sent=-" else
  "sent=" ++ "|".intercalate ((sortByClient l).map fun d => s!"c{d.dest}:{bytesHex d.body}")

/-- `flushTX` of one burst under the scripted kernel; an empty burst makes no call -/
def flushAll (r : URig) (js : List UdpJob) : URig × List Datagram :=
  if js.isEmpty then (r, []) else
  let (o, plan, ret) := sendGroupPlan r.retired r.plan js
  ({ r with plan := plan, retired := r.retired || ret }, o)

def fateName : InlineFate → String
  | .staged => "inline" | .released => "inline" | .handoff => "handoff"

/-- one `ReadBatch` of the rig (take, recvmmsg, finishRecv …, reader burst flush) -/
def readBatch (r : URig) (m : Nat) : URig × String × List Datagram :=
  if r.sock.isEmpty then (r, "empty", []) else
  let avail := if r.cap = 0 then 100000 else r.cap - r.leased
  let held := min (min m sz.udpBatch) avail
  if held = 0 then
    let k := min sz.udpBatch r.sock.length
    ({ r with sock := r.sock.drop k }, s!"n=0 - shed={k} sent=-", [])
  else
  let n := min held r.sock.length
  let pkts := r.sock.take n
  let step := fun (acc : List UdpJob × List UdpJob × List String) (p : Nat × Bytes) =>
    let (pend, rb, fates) := acc
    let (c, pkt) := p
    if pkt.length > sz.udpBuf then (pend, rb, fates ++ [s!"c?:{sz.udpBuf}:dropped"]) else
    let j := (({} : UdpJob)).fill true pkt c []
    let j := { j with state := .reading }
    if r.inline then
      match j.serveInline sz program with
      | (j, .staged) => (pend, rb ++ [j], fates ++ [s!"c{c}:{pkt.length}:inline"])
      | (_, .released) => (pend, rb, fates ++ [s!"c{c}:{pkt.length}:inline"])
      | (j, .handoff) => (pend ++ [{ j with state := .queued }], rb, fates ++ [s!"c{c}:{pkt.length}:handoff"])
    else (pend ++ [{ j with state := .queued }], rb, fates ++ [s!"c{c}:{pkt.length}:queued"])
  let (pend, rb, fates) := pkts.foldl step (r.pending, [], [])
  let (r, sent) := flushAll r rb
  ({ r with sock := r.sock.drop n, pending := pend },
   s!"n={n} {",".intercalate fates} shed=0 {fmtSent sent}", sent)

def readPortable (r : URig) : URig × String :=
  if r.sock.isEmpty then (r, "empty") else
  let good := r.sock.filter fun p => decide (p.2.length ≤ sz.udpBuf)
  let jobs := good.map fun p => { (({} : UdpJob)).fill false p.2 p.1 [] with state := .queued }
  let fates := good.map fun p => s!"c{p.1}:{p.2.length}:queued"
  ({ r with sock := [], pending := r.pending ++ jobs },
   s!"n={good.length} {if fates.isEmpty then "-" else ",".intercalate fates} shed=0 sent=-")

def serveNext (r : URig) (overflow : Bool) : URig × String × List Datagram :=
  match r.pending with
  | [] => (r, "idle", [])
  | j :: rest =>
    if overflow then
      let (_, o, _) := j.serve sz program false
      ({ r with pending := rest }, s!"staged=f burst=0 flushed=f {fmtSent o}", o)
    else
      let (j', o, staged) := j.serve sz program true
      let wb := if staged then r.wburst ++ [j'] else r.wburst
      if wb.length = sz.udpTxMax then
        let (r, fl) := flushAll r wb
        let sent := o ++ fl
        ({ r with pending := rest, wburst := [] }, s!"staged={boolStr staged} burst=0 flushed=t {fmtSent sent}", sent)
      else
        ({ r with pending := rest, wburst := wb }, s!"staged={boolStr staged} burst={wb.length} flushed=f {fmtSent o}", o)

def flushW (r : URig) : URig × List Datagram :=
  let (r', o) := flushAll r r.wburst
  ({ r' with wburst := [] }, o)

def serveAll : Nat → URig → List Datagram → URig × List Datagram
  | 0, r, acc => (r, acc)
  | fuel + 1, r, acc =>
    if r.pending.isEmpty then (r, acc) else
    let (r, _, o) := serveNext r false
    serveAll fuel r (acc ++ o)

def drainLoop : Nat → URig → List Datagram → URig × List Datagram
  | 0, r, acc => (r, acc)
  | fuel + 1, r, acc =>
    let (r, acc) := if r.sock.isEmpty then (r, acc) else
      let (r, _, o) := readBatch r 16
      (r, acc ++ o)
    let (r, acc) := serveAll (r.pending.length + 1) r acc
    let (r, o) := flushW r
    let acc := acc ++ o
    if r.sock.isEmpty && r.pending.isEmpty then (r, acc) else drainLoop fuel r acc

def fnv64 (b : Bytes) : UInt64 :=
  b.foldl (fun h x => (h ^^^ x.toUInt64) * 0x100000001b3) 0xcbf29ce484222325

def hex16 (v : UInt64) : String :=
  String.ofList ((List.range 16).map fun i => nibble ((v.toNat / 16 ^ (15 - i)) % 16))

def connOut (input : Bytes) : String :=
  let o := serveStream sz program (input.length / 2 + 2) input [] {}
  s!"n={o.total.length} h={hex16 (fnv64 o.total)}"

def parseInt (s : String) : Option Int :=
  if s.startsWith "-" then (s.drop 1).toNat?.map fun n => -(n : Int) else s.toNat?.map fun n => (n : Int)

/-! chain scaffolding: one handler, `AllowDirectPack` + `SetInlineOnly` +
`SetReplay` after the first bind, `Next`, optional `Finish`, second bind. -/

def chainAct (c : Chain) (wire : Bool) (act : String) : Chain :=
  let c := { c with pos := 1, count := 0 }
  let wmsg (c : Chain) : Chain := { c with base := { c.base with size := 12, hasMsg := true, hasWire := false, rcode := 2 } }
  match act with
  | "msg" => wmsg c
  | "wire" => { c with base := { c.base with size := 0, hasMsg := false, hasWire := true, rcode := 3 } }
  | "handoff" => { c with handoff := true }
  | "wrap" => { wmsg c with wrapped := true }
  | "cut" => { wmsg c with metaCut := true }
  | "mat" => if wire then { c with reqMsg := 99, detach := true } else c
  | _ => c

def chainStr (c : Chain) : String :=
  let proto := if c.base.proto = 1 then "udp" else if c.base.proto = 2 then "tcp" else ""
  let req := (if c.reqOwn then "own" else "other") ++ ":" ++
    (if c.reqMsg = 0 then "undecoded" else if c.reqMsg = 99 then "other" else s!"m{c.reqMsg}")
  s!"pos={c.pos};count={c.count};inline={boolStr c.inlineOnly};handoff={boolStr c.handoff};replay={boolStr c.replay};" ++
  s!"detach={boolStr c.detach};writer={if c.wrapped then "wrapped" else "base"};tr=w{c.base.transport};" ++
  s!"written={boolStr (c.base.size != -1)};msg={boolStr c.base.hasMsg};wire={boolStr c.base.hasWire};rcode={c.base.rcode};" ++
  s!"direct={boolStr c.base.directPack};internal={boolStr c.base.internal};proto={proto};req={req};meta={boolStr c.metaCut}"

def chainRun (m1 act : String) (fin : Bool) (m2 : String) : String :=
  let c0 : Chain := { handlers := 1, count := 1 }
  let c := if m1 == "wire" then c0.resetWire 1 1 else c0.reset 1 1 1
  let c := { c with base := { c.base with directPack := true }, inlineOnly := true, replay := true }
  let c := chainAct c (m1 == "wire") act
  let c := if fin then c.finish else c
  let s1 := chainStr c
  let c := if m2 == "wire" then c.resetWire 2 2 else c.reset 2 2 2
  s1 ++ " " ++ chainStr c

def step (st : State) (w : List String) : State × String :=
  match w with
  | ["udp", "new", mode, cap, _pat] =>
    match cap.toNat? with
    | some c =>
      let inl := mode == "inline" || mode == "winline"
      ({ st with udp := some { inline := inl, cap := c } }, s!"ok inline={boolStr inl}")
    | none => (st, "bad-op")
  | "udp" :: rest =>
    match st.udp with
    | none => (st, "no-rig")
    | some r =>
      match rest with
      | ["send", c, h] =>
        match c.toNat?, hexBytes h with
        | some c, some b => ({ st with udp := some { r with sock := r.sock ++ [(c, b)] } }, "ok")
        | _, _ => (st, "bad-op")
      | ["read", "batch", m] =>
        match m.toNat? with
        | some m => let (r, s, _) := readBatch r m; ({ st with udp := some r }, s)
        | none => (st, "bad-op")
      | ["read", "portable"] => let (r, s) := readPortable r; ({ st with udp := some r }, s)
      | ["serve"] => let (r, s, _) := serveNext r false; ({ st with udp := some r }, s)
      | ["serve", "overflow"] => let (r, s, _) := serveNext r true; ({ st with udp := some r }, s)
      | ["txplan", pl] =>
        let plan := (pl.splitOn ",").map fun x =>
          if x == "x" then TxAns.refused else if x == "r" then TxAns.retired else TxAns.sent ((x.toNat?).getD 1)
        ({ st with udp := some { r with plan := plan } }, "ok")
      | ["flush"] => let (r, o) := flushW r; ({ st with udp := some r }, fmtSent o)
      | ["drain"] =>
        let (r, o) := drainLoop 256 r []
        ({ st with udp := some r }, fmtSent o)
      | ["end"] => (st, s!"leased={r.leased} inflight={r.leased} pending={r.pending.length}")
      | _ => (st, "bad-op")
  | ["tcp", "conn", _pat, _chunks, h] =>
    match hexBytes h with
    | some b => (st, connOut b)
    | none => (st, "bad-op")
  | ["tcp", "stall", w, acc, h] =>
    match w.toNat?, acc.toNat?, hexBytes h with
    | some wi, some a, some b =>
      let o := serveStreamS sz program (b.length / 2 + 2) b { failAt := wi, accept := a }
      (st, s!"n={o.wire.length} h={hex16 (fnv64 o.wire)}")
    | _, _, _ => (st, "bad-op")
  | ["tcp", "abort", _k, _s1, s2] =>
    match hexBytes s2 with
    | some b => (st, connOut b)
    | none => (st, "bad-op")
  | ["lease", "begin", avail, size, reserve, written] =>
    match parseInt avail, size.toNat?, reserve.toNat?, parseBool written with
    | some a, some s, some rs, some wr =>
      let tr : Option Slice := if a < 0 then none else some { off := 7, len := 0, cap := a.toNat, fresh := false }
      match beginWire wr tr s rs with
      | none => (st, "nil")
      | some sl => (st, s!"len={sl.len} cap={sl.cap} backing={if sl.fresh || sl.cap == 0 then "fresh" else "slab"}")
    | _, _, _, _ => (st, "bad-op")
  | ["lease", "udpjob", c] =>
    match c.toNat? with
    | some c => match leaseWire sz.udpBuf 0 c with
      | none => (st, "nil")
      | some sl => (st, s!"len={sl.len} cap={sl.cap}")
    | none => (st, "bad-op")
  | ["lease", "tcpjob", large, c] =>
    match parseBool large, c.toNat? with
    | some l, some c => match leaseWire (2 + (if l then sz.tcpBuf else sz.tcpSmallTx)) 2 c with
      | none => (st, "nil")
      | some sl => (st, s!"len={sl.len} cap={sl.cap}")
    | _, _ => (st, "bad-op")
  | ["lease", "pack", _n] =>
    let s := tryPackSlice 100
    (st, s!"handled=t pinned={boolStr (s.len == s.cap)}")
  | ["chain", "run", m1, act, fin, m2] =>
    match parseBool fin with
    | some f => (st, chainRun m1 act f m2)
    | none => (st, "bad-op")
  | ["share", "walk", _hold, ids] =>
    -- every client of a shared minimised probe gets its own copy: own id, own question
    let idl := (ids.splitOn ",").filterMap String.toNat?
    let res := shareAll { addr := 1, id := 0, body := 7 } (idl.map fun i => (i, true)) 2
    (st, s!"ids={",".intercalate (res.map fun m => toString m.id)} ownq=t")
  | ["usrv", "spell", _mode, _seed, kinds] =>
    -- every ask — miss or hit, whatever spelling the entry was admitted under — echoes its own question
    let n := (kinds.splitOn ",").length * 3
    let outs := (List.range n).map fun i =>
      let stored : Bytes := [UInt8.ofNat (i / 3)]          -- the spelling the entry was admitted under
      let mine : Bytes := [UInt8.ofNat (i / 3), UInt8.ofNat (i % 3)]
      if (hitReply { id := i, question := mine } { question := stored, answers := [] }).question == mine then "q" else "x"
    (st, "".intercalate outs)
  | ["usrv", "rl", _mode, pat] =>
    -- behind the limiter too — answered or told BADCOOKIE — a reply's cookie is its own query's
    let outs := (pat.toList.zipIdx).map fun (c, i) =>
      match rlReplyCookie (if c == 'c' then some (i + 1) else none) (some 999) with
      | some v => "c00c1e" ++ String.ofList ((List.range 10).map fun d => nibble ((v / 16 ^ (9 - d)) % 16))
      | none => "-"
    (st, ",".intercalate outs)
  | ["usrv", "cookie", _mode, pat] =>
    let qs : List EdnsReq := (pat.toList.zipIdx).map fun (c, i) =>
      if c == 'c' then { hasOpt := true, cookie := some (i + 1), doBit := i % 3 == 0 }
      else if c == 'n' then { hasOpt := true } else { hasOpt := false }
    let outs := (ednsMany {} qs).map fun o => match o with
      | some v => "c00c1e" ++ String.ofList ((List.range 10).map fun d => nibble ((v / 16 ^ (9 - d)) % 16))
      | none => "-"
    (st, ",".intercalate outs)
  | ["carrier", "run", ops] =>
    let step := fun (acc : Carrier × List String) (op : String) =>
      let (c, out) := acc
      let k := ((op.drop 1).toString.toNat?).getD 0
      if op.startsWith "p" then let (c', ok) := c.tryPin k (k + 100); (c', out ++ [boolStr ok])
      else if op.startsWith "q" then (c, out ++ [match c.pinned k with | some v => s!"some{v - 100}" | none => "none"])
      else if op == "v" then let (c', ok) := c.trySetProvider; (c', out ++ [boolStr ok])
      else if op == "w" then (c, out ++ [boolStr c.provider])
      else (c.reset 0, out ++ ["ok"])
    (st, ",".intercalate ((ops.splitOn ",").foldl step ({}, [])).2)
  | ["fo", "run", id, rd, prc, modes, _proto] =>
    match id.toNat?, parseBool rd, prc.toNat? with
    | some i, some r, some rc =>
      let ml := if modes == "-" then [] else modes.splitOn ","
      let outs : List FoOutcome := (ml.zipIdx).map fun (m, k) =>
        if m == "sf" then FoOutcome.resp (50000 + k) 2 0
        else if m == "ok" then FoOutcome.resp (50000 + k) 0 (10 + k)
        else if m == "nx" then FoOutcome.resp (50000 + k) 3 0
        else FoOutcome.err
      let w := failoverWrite outs { id := i, rcode := rc, mark := 0 } r
      (st, s!"n=1 id={w.id} rcode={w.rcode} a={w.mark}")
    | _, _, _ => (st, "bad-op")
  | ["pool", "escape", _seed, _rounds] => (st, "unmodelled")
  | ["upool", "read", toks] =>
    -- every read draws one buffer and returns it exactly once; then four holders at a time
    let tl := toks.splitOn ","
    let res := tl.map fun t =>
      let kind := (t.drop 1).take 1 |>.toString
      let n := ((t.drop 2).toString.toNat?).getD 0
      -- fewer than 12 bytes is a short read; a bare 12-byte header unpacks (the library tolerates lying counts); longer garbage does not
      if kind == "v" || n == 12 then "ok" else "err"
    let steps : List PoolStep := tl.flatMap (fun _ => [PoolStep.get, PoolStep.put 0]) ++ [.get, .get, .get, .get]
    let p := ({} : ChainPool).run steps
    (st, s!"{",".intercalate res} distinct={boolStr (p.held.eraseDups.length == p.held.length)}")
  | ["retain", "seq", _seed, kinds] =>
    -- every served request allocates its own reply; nothing served later touches it
    let kl := kinds.splitOn ","
    let h := retainMany [] ((kl.zipIdx).map fun (k, i) => (((i + 1) % 3) * 1024 + (i + 1), k != "nr"))
    (st, ",".intercalate (h.map fun o => match o with | some m => toString m.id | none => "none"))
  | ["doq", "conn", order, behs] =>
    -- goroutine i serves stream i; handlers complete in the scripted order
    let bl := behs.splitOn ","
    let ol := (order.splitOn ",").filterMap String.toNat?
    let evs : List DoqEvent := (List.range bl.length).map (fun i => DoqEvent.accept (i + 1)) ++
      ol.map fun k => DoqEvent.complete k (if bl.getD k "" == "nr" then none else some [0, 0, UInt8.ofNat k])
    let c := ({} : DoqConn).run evs
    let parts := (List.range bl.length).map fun i =>
      let fr := c.out.filter fun p => p.1 == i + 1
      let own := fr.length == 1 && fr.all fun p => p.2 == doqFrame [0, 0, UInt8.ofNat i]
      s!"s{i}={fr.length}:{boolStr own}"
    (st, " ".intercalate parts)
  | "doq" :: _ => (st, "unmodelled")
  | ["share", "run", _delay, ids, owned] =>
    let idl := (ids.splitOn ",").filterMap String.toNat?
    let leader : Msg := { addr := 1, id := 0, body := 7 }
    let res := shareAll leader (idl.map fun i => (i, owned == "t")) 2
    let addrs := leader.addr :: res.map (·.addr)
    let alias := addrs.length != addrs.eraseDups.length
    (st, s!"ids={",".intercalate (res.map fun m => toString m.id)} alias={boolStr alias} errs=0")
  | ["fw", "run", id, modes, _proto] =>
    match id.toNat? with
    | some i =>
      let outs : List FoOutcome := ((modes.splitOn ",").zipIdx).map fun (m, k) =>
        if m == "sf" then FoOutcome.resp (50000 + k) 2 0
        else if m == "ok" then FoOutcome.resp (50000 + k) 0 (10 + k)
        else if m == "nx" then FoOutcome.resp (50000 + k) 3 0
        else FoOutcome.err
      let w := forwardWrite outs i
      (st, s!"n=1 id={w.id} rcode={w.rcode} a={w.mark}")
    | none => (st, "bad-op")
  | ["pool", "subq", pat] =>
    -- a sub-query whose handler writes nothing returns no response, whatever the pooled writer carried before
    let qs : List (SubKind × Nat) := (pat.toList.zipIdx).map fun (c, i) =>
      ((if c == 'w' then SubKind.wrote else if c == 'e' then SubKind.localFail else SubKind.silent), 100 + i)
    let outs := (subMany {} qs).map fun o => match o with | some v => toString v | none => "none"
    (st, ",".intercalate outs)
  | "usrv" :: _ => (st, "unmodelled")
  | "tsrv" :: _ => (st, "unmodelled")
  | "stress" :: _ => (st, "unmodelled")
  | _ => (st, "bad-op")

end Driver.C10
