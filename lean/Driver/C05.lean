import SdnsVerif.Model.Util
import SdnsVerif.Model.WirePath
/-! Line protocol for the `pw` / `ar` / `opt` / `hit` / `lad` ops of C05
(`e2e` ops are judged by the Go oracle only). -/
namespace Driver.C05
open SdnsVerif.Model SdnsVerif.Model.WirePath SdnsVerif.Model.Util

structure State where
  /-- `Store.sharedDenialImpossible` of the running `lad` instance -/
  denialImpossible : Bool := false

def kvGet (ws : List String) (k : String) : Option String :=
  ws.findSome? fun w =>
    match w.splitOn "=" with
    | [a, b] => if a == k then some b else none
    | _ => none

def natBytes (s : String) : Option Bytes := (hexBytes s).map (·.map UInt8.toNat)
def bytesStr (b : Bytes) : String := bytesHex (b.map UInt8.ofNat)

def bflag (s : Option String) : Bool := s == some "t" || s == some "1"

def factsStr (f : Facts) : String :=
  let nl := (encName f.labels).length
  let o := f.opt.getD {}
  s!"ok id={f.id} fl={f.flags} qt={f.qtype} qc={f.qclass} nl={nl} qe={12 + nl + 4} opt={boolStr f.opt.isSome} " ++
  s!"udp={o.udpSize} do={boolStr o.dnssecOK} ver={o.version} ecs={boolStr o.hasECS} nsid={boolStr o.hasNSID} " ++
  s!"ka={boolStr o.hasKeepalive} ck={bytesStr o.cookie}"

def rungStr : Rung → String
  | .scoped => "scoped" | .exact => "exact" | .cut => "cut" | .denial => "denial"
  | .failure => "failure" | .miss => "miss"

def outStr : Out → String
  | .served r => rungStr r
  | .dropped => "dropped"
  | .decline => "decline"

def stampStr (r : Option (List Nat × Bool)) : String :=
  match r with
  | none => "x"
  | some (ttls, ad) =>
    let t := match ttls with
      | [] => "none"
      | a :: rest => if rest.all (· == a) then toString a else "mixed"
    s!"{t}/{boolStr ad}/{ttls.length}"

def step (st : State) (w : List String) : State × String :=
  match w with
  | [_, "new"] => (st, "ok")
  | "e2e" :: _ => (st, "unmodelled")
  | ["pw", "parse", h] =>
    match natBytes h with
    | some b =>
      match parseWire b with
      | some f => (st, factsStr f)
      | none => (st, "rej")
    | none => (st, "bad-op")
  | ["ar", "apply", fl, id, op, rd, cd] =>
    match fl.toNat?, id.toNat?, op.toNat?, parseBool rd, parseBool cd with
    | some fl, some id, some op, some rd, some cd => (st, s!"id={id % 65536} fl={applyReply fl op rd cd}")
    | _, _, _, _, _ => (st, "bad-op")
  | ["ar", "clearad", fl] =>
    match fl.toNat? with
    | some fl => (st, s!"fl={clearAD fl}")
    | none => (st, "bad-op")
  | ["ar", "set", what, fl, v] =>
    match fl.toNat?, v.toNat? with
    | some fl, some v =>
      if what == "rcode" then (st, s!"fl={setRcode fl v}")
      else if what == "ra" then (st, s!"fl={setRA fl}")
      else if what == "ad" then (st, s!"fl={setAD fl}")
      else (st, "bad-op")
    | _, _ => (st, "bad-op")
  | "opt" :: "build" :: kv =>
    let g := kvGet kv
    match (g "udp").bind String.toNat?, (g "al").bind String.toNat?, (g "sl").bind String.toNat?,
          (g "ck").bind natBytes, (g "dg").bind natBytes, (g "nsid").bind natBytes, (g "et").bind natBytes with
    | some udp, some al, some sl, some ck, some dg, some nsid, some et =>
      let c : OptCfg := { noedns := bflag (g "ne"), udpSize := udp, dnssecOK := bflag (g "do"),
                          cookie := if ck.isEmpty then none else some ck, addrLen := al, secretLen := sl,
                          nsid := nsid, nsidAsked := bflag (g "nq"), keepalive := bflag (g "ka") }
      let e : EDE := match (g "ec").bind String.toNat? with
        | some code => some (code, et)
        | none => none
      let l := match wireOPTLen c with | some n => toString n | none => "x"
      let o := if c.noedns then "-" else match appendWireOPT c e dg with | some b => bytesStr b | none => "x"
      (st, s!"len={l} opt={o}")
    | _, _, _, _, _, _, _ => (st, "bad-op")
  | "hit" :: "serve" :: kv =>
    let g := kvGet kv
    match (g "ttl").bind String.toNat?, (g "el").bind String.toNat?, (g "n").bind String.toNat? with
    | some ttl, some el, some n =>
      let rem : Int := (ttl : Int) * 1000000000 - (el : Int) * 1000000
      let ttls := List.replicate n 0
      let ad := bflag (g "ad")
      let cd := bflag (g "cd")
      (st, s!"w={stampStr (wireStamp rem ad cd ttls)} m={stampStr (msgStamp rem ad cd ttls)}")
    | _, _, _ => (st, "bad-op")
  | "lad" :: "new" :: kv =>
    ({ st with denialImpossible := !(bflag (kvGet kv "r8198")) }, "ok")
  | "lad" :: "run" :: kv =>
    let g := kvGet kv
    let ex := bflag (g "ex")
    let cut := bflag (g "cut")
    let fk : Option FailKind := match g "fail" with
      | some "q" => some .question
      | some "z" => some .zone
      | _ => none
    let q : Req := { rd := true, hasECS := false, cd := bflag (g "cd"), typeKnown := true, classKnown := true }
    let l : Lookups := { exactHit := ex, cut := cut, cutWire := cut, denial := false, failure := fk, failureWire := fk,
                         witnessHolds := true, denialImpossible := st.denialImpossible }
    let s := wireLadder q l {}
    (st, s!"wire={outStr s.out} msg={rungStr (msgLadder q l)}")
  | _ => (st, "bad-op")

end Driver.C05
