import SdnsVerif.Model.Util
import SdnsVerif.Model.WirePath
/-! Line protocol for the `pw` / `ar` / `opt` / `hit` / `lad` ops of C05
(`e2e` ops are judged by the Go oracle only). -/
namespace Driver.C05
open SdnsVerif.Model SdnsVerif.Model.WirePath SdnsVerif.Model.Util

structure State where
  /-- `Store.sharedDenialImpossible` of the running `lad` instance -/
  denialImpossible : Bool := false
  rlWire : RLState := {}
  rlMsg : RLState := {}
  rlRate : Nat := 0
  zones : List (List String) := []

def lowerAscii (s : String) : String := s.map fun c => if 'A' ≤ c ∧ c ≤ 'Z' then Char.ofNat (c.toNat + 32) else c

/-- presentation name (no escapes) to lower-cased labels -/
def labelsOf (name : String) : List String := ((lowerAscii name).splitOn ".").filter (· ≠ "")

/-- the table of harness/c05 `hsContent`, as the hosts loader indexes it -/
def hsDB : HostsDB :=
  { hosts := [⟨"host1.zt".toList, true, true, false⟩, ⟨"host2.zt".toList, true, false, false⟩,
              ⟨"canon.zt".toList, true, false, false⟩, ⟨"alias.zt".toList, true, false, true⟩],
    wildcards := [⟨"wild.zt".toList, true, false⟩, ⟨"wild6.zt".toList, false, true⟩],
    ptrs := ["10.2.0.192.in-addr.arpa.".toList, "11.2.0.192.in-addr.arpa.".toList, "14.2.0.192.in-addr.arpa.".toList] }

def hostsStr : HostsOut → String
  | .next => "next"
  | .reply ts => s!"reply/rc=0/aa=t/an={if ts.isEmpty then "-" else "+".intercalate (ts.map toString)}/echo=t"

def wfStr (w : WriterFacts) : String :=
  s!"next/size={w.size}/do={boolStr w.dnssecOK}/ne={boolStr w.noedns}/nsid={boolStr w.nsidAsked}/ka={boolStr w.keepalive}" ++
  s!"/noad={boolStr w.noad}/rus={w.respUDPSize}/ck={bytesHex (w.cookie.map UInt8.ofNat)}"

def ednsStr : EdnsOut → String
  | .next w => wfStr w
  | .notimp => "reply/rcode=4"
  | .badvers => "reply/rcode=16"

def rlStr : RLOut → String
  | .next => "next" | .drop => "drop" | .badcookie => "reply23"

def asStr (qtype : Nat) : ASOut → String
  | .next => "next"
  | .reply whole zone =>
    let z := ".".intercalate zone ++ "."
    let (an, ns) := if qtype == 2 then (if whole then ("2", "-") else ("-", "6"))
                    else if qtype == 6 then (if whole then ("6", "-") else ("-", "6"))
                    else ("-", "6")
    s!"reply/rc={if whole then 0 else 3}/aa=t/an={an}/ns={ns}/zone={z}"

def kvGet (ws : List String) (k : String) : Option String :=
  ws.findSome? fun w =>
    match w.splitOn "=" with
    | [a, b] => if a == k then some b else none
    | _ => none

def natBytes (s : String) : Option Bytes := (hexBytes s).map (·.map UInt8.toNat)
def bytesStr (b : Bytes) : String := bytesHex (b.map UInt8.ofNat)

def bflag (s : Option String) : Bool := s == some "t" || s == some "1"

def factsStr (f : Facts) : String :=
  let nl := (encName f.labels).length
  let o := f.opt.getD {}
  s!"ok id={f.id} fl={f.flags} qt={f.qtype} qc={f.qclass} nl={nl} qe={12 + nl + 4} opt={boolStr f.opt.isSome} " ++
  s!"udp={o.udpSize} do={boolStr o.dnssecOK} ver={o.version} ecs={boolStr o.hasECS} nsid={boolStr o.hasNSID} " ++
  s!"ka={boolStr o.hasKeepalive} ck={bytesStr o.cookie}"

def rungStr : Rung → String
  | .scoped => "scoped" | .exact => "exact" | .cut => "cut" | .denial => "denial"
  | .failure => "failure" | .miss => "miss"

def outStr : Out → String
  | .served r => rungStr r
  | .dropped => "dropped"
  | .decline => "decline"

def stampStr (r : Option (List Nat × Bool)) : String :=
  match r with
  | none => "x"
  | some (ttls, ad) =>
    let t := match ttls with
      | [] => "none"
      | a :: rest => if rest.all (· == a) then toString a else "mixed"
    s!"{t}/{boolStr ad}/{ttls.length}"

def step (st : State) (w : List String) : State × String :=
  match w with
  | "rl" :: "new" :: kv =>
    match (kvGet kv "rate").bind String.toNat? with
    | some n => ({ st with rlWire := { tokens := n }, rlMsg := { tokens := n }, rlRate := n }, "ok")
    | none => (st, "bad-op")
  | "rl" :: "step" :: kv =>
    let g := kvGet kv
    let ck : Option (Option (Nat × Half)) := match g "ck" with
      | some "-" => some none
      | some c => match c.splitOn ":" with
        | [cid, h] => match cid.toNat?, h with
          | some n, "n" => some (some (n, Half.none))
          | some n, "g" => some (some (n, Half.good))
          | some n, "b" => some (some (n, Half.bad))
          | _, _ => none
        | _ => none
      | none => none
    match ck with
    | some ck =>
      let replay := bflag (g "replay")
      let i : RLIn := { udp := g "proto" == some "udp", ck := ck, replay := replay,
                        exempt := st.rlRate == 0 || bflag (g "lo"), otherVersion := (g "ver").isSome && g "ver" != some "0" }
      let (sw, ow) := rlWire st.rlWire i
      if replay then ({ st with rlWire := sw }, s!"w={rlStr ow} m=-")
      else
        let (sm, om) := rlMsg st.rlMsg i
        ({ st with rlWire := sw, rlMsg := sm }, s!"w={rlStr ow} m={rlStr om}")
    | none => (st, "bad-op")
  | "as" :: "new" :: kv =>
    match kvGet kv "zones" with
    | some z => ({ st with zones := (z.splitOn ",").map labelsOf }, "ok")
    | none => (st, "bad-op")
  | "as" :: "run" :: kv =>
    match kvGet kv "name", (kvGet kv "qt").bind String.toNat? with
    | some name, some qt =>
      let ls := labelsOf name
      (st, s!"w={asStr qt (asWire st.zones ls qt)} m={asStr qt (asMsg st.zones ls qt)}")
    | _, _ => (st, "bad-op")
  | "sock" :: "probe" :: kv =>
    match (kvGet kv "pkt").bind natBytes with
    | some (_ :: _ :: f1 :: f0 :: q1 :: q0 :: a1 :: a0 :: n1 :: n0 :: r1 :: r0 :: _) =>
      let fl := u16 f1 f0
      let v := acceptVerdict fl (u16 q1 q0) (u16 a1 a0) (u16 n1 n0) (u16 r1 r0)
      let reply := if v == 0 then "served" else if v == 1 then "silent"
        else s!"rcode={rejectRcode v}/qr=1/op={(fl >>> 11) &&& 0xF}"
      (st, s!"verdict={v} udp={reply} tcp={reply}")
    | _ => (st, "bad-op")
  | "mz" :: "run" :: kv =>
    match (kvGet kv "pkt").bind natBytes with
    | some b =>
      match parseWire b with
      | some f =>
        let showC : ContOut → String
          | .notimp => "reply/rcode=4"
          | .badvers => "reply/rcode=16"
          | .seen c =>
            let name := if c.labels.isEmpty then "." else String.join (c.labels.map fun l => String.ofList (l.map Char.ofNat) ++ ".")
            s!"ecs={boolStr c.ecsMarker}/id={c.id}/fl={c.flags}/q={name}/{c.qtype}/{c.qclass}/an=0/ns=0/ar=1/" ++
            s!"udp={c.optUDPSize},do={boolStr c.optDO},ver={c.optVersion},xr=0,opts={c.optOptions}"
        -- the decoded form of an admitted packet: its facts ARE the specification message's (parseWire_refines_spec)
        let asMsg : SMsg := { id := f.id, flags := f.flags, labels := f.labels, qtype := f.qtype, qclass := f.qclass,
                              opt := f.opt.map fun o => { udpSize := o.udpSize, version := o.version, zflags := if o.dnssecOK then 2 ^ 15 else 0,
                                                          options := if o.hasECS then [{ code := 8, data := [] }] else [] } }
        (st, s!"w={showC (contWire f)} m={showC (contMsg asMsg)}")
      | none => (st, "w=none m=skip")
    | none => (st, "bad-op")
  | "hs" :: "run" :: kv =>
    match kvGet kv "name", (kvGet kv "qt").bind String.toNat? with
    | some name, some qt =>
      -- the client's own spelling, label by label
      let ls : List Str := ((name.splitOn ".").filter (· ≠ "")).map String.toList
      (st, s!"w={hostsStr (hostsWire hsDB ls qt)} m={hostsStr (hostsMsg hsDB ls qt)}")
    | _, _ => (st, "bad-op")
  | "rx" :: "facts" :: kv =>
    match (kvGet kv "pkt").bind natBytes with
    | some b =>
      match parseWire b with
      -- reflex sizes a request by the packet the client sent, on both kinds of request
      | some f => (st, s!"w={f.qtype}/{b.length}/t m={f.qtype}/{b.length}/t")
      | none => (st, "w=none m=skip")
    | none => (st, "bad-op")
  | "sx" :: "walk" :: kv =>
    match kvGet kv "name" with
    | some name =>
      let ls : List Bytes := (labelsOf name).map fun l => l.toList.map Char.toNat
      let showName (labs : List Bytes) : String :=
        if labs.isEmpty then "." else String.join (labs.map fun l => String.ofList (l.map Char.ofNat) ++ ".")
      -- the wire walk yields byte suffixes: read each back through the strict-path name walk
      let wire := (walkWireSuffixes ((encName ls).length + 1) (encName ls)).map fun b =>
        match walkName (b.length + 1) b with
        | some (labs, _) => showName labs
        | none => "?"
      let dec := "|".intercalate ((decodedAncestors ls).map showName)
      (st, s!"w={"|".intercalate wire} f={dec} d={dec}")
    | none => (st, "bad-op")
  | "ch" :: "run" :: kv =>
    let g := kvGet kv
    let parseHop (h : String) : Option Hop :=
      match h.splitOn ":" with
      | ["x"] => some { kind := .missing, ad := false, ttl := 0, target := 0 }
      | [k, ad, ttl, tgt] =>
        match ttl.toNat?, tgt.toNat? with
        | some ttl, some tgt =>
          let kind : Option HopKind := if k == "c" then some .cname else if k == "a" then some .terminal
            else if k == "n" then some .nxdomain else if k == "e" then some .nodata else if k == "s" then some .baggage else none
          kind.map fun kd => { kind := kd, ad := ad == "1", ttl := ttl, target := tgt }
        | _, _ => none
      | _ => none
    match (g "hops").bind (fun h => (h.splitOn ",").mapM parseHop), (g "el").bind String.toNat?, (g "qt").bind String.toNat? with
    | some hops, some el, some qt =>
      -- an uncached name is simply absent from the cache
      let cache := hops
      let qtOK := recomposableTypes.contains qt
      match cache[0]? with
      | some h0 =>
        if h0.kind == .missing then (st, "noentry") else
        match wireChase (cache.map fun h => h) qtOK el (bflag (g "cd")) with
        | some r =>
          let ttls := ",".intercalate (r.ttls.map toString)
          (st, s!"ok hops={r.hops} an={r.ttls.length} ad={boolStr r.ad} iad={boolStr r.infoAD} ttls={ttls}")
        | none => (st, "decline")
      | none => (st, "bad-op")
    | _, _, _ => (st, "bad-op")
  | "ed" :: "serve" :: kv =>
    let p : Proto := match kvGet kv "proto" with
      | some "udp" => .udp
      | some "tcp" => .tcp
      | _ => .other
    match (kvGet kv "pkt").bind natBytes with
    | some b =>
      match parseWire b with
      | some f => (st, s!"w={ednsStr (ednsServeWireBorn f p)} m={ednsStr (ednsMsg (dreqOfFacts f) p)}")
      | none => (st, "w=none m=skip")
    | none => (st, "bad-op")
  | [_, "new"] => (st, "ok")
  | "e2e" :: _ => (st, "unmodelled")
  | ["pw", "parse", h] =>
    match natBytes h with
    | some b =>
      match parseWire b with
      | some f => (st, factsStr f)
      | none => (st, "rej")
    | none => (st, "bad-op")
  | ["ar", "apply", fl, id, op, rd, cd] =>
    match fl.toNat?, id.toNat?, op.toNat?, parseBool rd, parseBool cd with
    | some fl, some id, some op, some rd, some cd => (st, s!"id={id % 65536} fl={applyReply fl op rd cd}")
    | _, _, _, _, _ => (st, "bad-op")
  | ["ar", "clearad", fl] =>
    match fl.toNat? with
    | some fl => (st, s!"fl={clearAD fl}")
    | none => (st, "bad-op")
  | ["ar", "set", what, fl, v] =>
    match fl.toNat?, v.toNat? with
    | some fl, some v =>
      if what == "rcode" then (st, s!"fl={setRcode fl v}")
      else if what == "ra" then (st, s!"fl={setRA fl}")
      else if what == "ad" then (st, s!"fl={setAD fl}")
      else (st, "bad-op")
    | _, _ => (st, "bad-op")
  | "opt" :: "build" :: kv =>
    let g := kvGet kv
    match (g "udp").bind String.toNat?, (g "al").bind String.toNat?, (g "sl").bind String.toNat?,
          (g "ck").bind natBytes, (g "dg").bind natBytes, (g "nsid").bind natBytes, (g "et").bind natBytes with
    | some udp, some al, some sl, some ck, some dg, some nsid, some et =>
      let c : OptCfg := { noedns := bflag (g "ne"), udpSize := udp, dnssecOK := bflag (g "do"),
                          cookie := if ck.isEmpty then none else some ck, addrLen := al, secretLen := sl,
                          nsid := nsid, nsidAsked := bflag (g "nq"), keepalive := bflag (g "ka") }
      let e : EDE := match (g "ec").bind String.toNat? with
        | some code => some (code, et)
        | none => none
      let l := match wireOPTLen c with | some n => toString n | none => "x"
      let o := if c.noedns then "-" else match appendWireOPT c e dg with | some b => bytesStr b | none => "x"
      (st, s!"len={l} opt={o}")
    | _, _, _, _, _, _, _ => (st, "bad-op")
  | "hit" :: "serve" :: kv =>
    let g := kvGet kv
    match (g "ttl").bind String.toNat?, (g "el").bind String.toNat?, (g "n").bind String.toNat? with
    | some ttl, some el, some n =>
      let rem : Int := (ttl : Int) * 1000000000 - (el : Int) * 1000000
      let ttls := List.replicate n 0
      let ad := bflag (g "ad")
      let cd := bflag (g "cd")
      (st, s!"w={stampStr (wireStamp rem ad cd ttls)} m={stampStr (msgStamp rem ad cd ttls)}")
    | _, _, _ => (st, "bad-op")
  | "lad" :: "new" :: kv =>
    ({ st with denialImpossible := !(bflag (kvGet kv "r8198")) }, "ok")
  | "lad" :: "hdr" :: kv =>
    let g := kvGet kv
    match (g "fl").bind String.toNat?, (g "p").bind String.toNat? with
    | some fl, some poison =>
      let rd := fl.testBit 8
      let cd := fl.testBit 4
      let ad := fl.testBit 5
      let noad := ednsNoAD cd ad (bflag (g "do"))
      let r : Option (Nat × Nat) := match g "kind" with
        | some "exact" => some (ednsWriteWireFlags noad (wireHitFlags 0x8180 rd cd), msgHitFlags 0x8180 rd cd noad)
        | some "exactad" => some (ednsWriteWireFlags noad (wireHitFlags 0x81A0 rd cd), msgHitFlags 0x81A0 rd cd noad)
        | some "cut" => some (ednsWriteWireFlags noad (wireCutFlags rd cd), msgCutFlags rd noad)
        | some "fail" => some (ednsWriteWireFlags noad (wireFailureFlags (poison * 257) rd cd), msgFailureFlags rd cd)
        | _ => none
      match r with
      | some (w, m) => (st, s!"wire={w} msg={m}")
      | none => (st, "bad-op")
    | _, _ => (st, "bad-op")
  | "lad" :: "run" :: kv =>
    let g := kvGet kv
    let ex := bflag (g "ex")
    let cut := bflag (g "cut")
    let fk : Option FailKind := match g "fail" with
      | some "q" => some .question
      | some "z" => some .zone
      | _ => none
    let pre := (g "pre").getD "ok"
    let q : Req := { rd := pre != "nord", hasECS := pre == "ecs", cd := bflag (g "cd"), typeKnown := pre != "utype",
                     classKnown := pre != "uclass" }
    -- den=1: a cached NSEC3 proof covers the name — synthesis succeeds, and no failure recorded over
    -- that zone carries a witness that holds
    let den := bflag (g "den")
    -- rm=purge removes everything recorded for the question, rm=flood evicts the (oldest) cut
    let rm := (g "rm").getD ""
    let ex := ex && rm != "purge"
    let cut := cut && rm == ""
    -- (Cache.Purge drops the question's own failure state; a zone-wide failure is not the question's)
    let fk := if rm == "purge" && fk == some FailKind.question then none else fk
    let l : Lookups := { exactHit := ex, cut := cut, cutWire := cut, denial := den, failure := fk, failureWire := fk,
                         witnessHolds := !den, denialImpossible := st.denialImpossible }
    -- the signed proof of a cut does not fit a DO client's 512-octet UDP buffer (the
    -- stripped DO=0 template is a lone SOA and fits): the cut's byte serve declines on size
    let cutFits := !(bflag (g "small") && bflag (g "do"))
    let s := wireLadder q l { sizeOK := cutFits }
    -- a cut reply shows which proof template went out: 4 records signed, 1 (the SOA) stripped;
    -- a signed proof truncated for a 512-octet buffer has empty sections
    let qt := ((g "qt").bind String.toNat?).getD 1
    let cdo := bflag (g "do")
    let cutStr (full truncated : Bool) : String := s!"cut:{if truncated then 0 else if full then 4 else 1}"
    let m := match msgServe q false l with
      | .drop => "drop"
      | .noRecursion => "norec"
      | .rung .cut => cutStr (cutMsgFull cdo qt) (cdo && bflag (g "small"))
      | .rung r => rungStr r
    let w := match s.out with
      | .served .cut => cutStr (cutWireFull cdo qt) false
      | o => outStr o
    -- srvh instances run with a 3 s query timeout
    if budgetExhausted (((g "age").bind String.toNat?).getD 0) 3000 then (st, "wire=drop msg=drop") else
    (st, s!"wire={w} msg={m}")
  | _ => (st, "bad-op")

end Driver.C05
