-- This module serves as the root of the `SdnsVerif` library.
-- Import modules here that should be built as part of the library.
import SdnsVerif.Basic
