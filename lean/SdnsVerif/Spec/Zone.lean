/-
Reference specification of a signed DNS zone for property C02 (denial of
existence).  Core Lean only (this file is linked into `model_c02`: the
driver prints the genuine NSEC chain and the reference answer class so that
the Go oracle and this specification are compared on every generated zone).

Names are label lists stored ROOT SIDE FIRST: `a.sub.example.` is
`[example, sub, a]`.  Hence

* "`p` is an ancestor of (or equal to) `q`"  is  `p <+: q`  (list prefix);
* RFC 4034 §6.1 canonical order is the plain lexicographic order on lists of
  labels, labels being ordered as octet strings (shorter-is-smaller);
* the closest encloser is a longest common prefix.

Octets are `Nat` (the wire value); names in this file are in canonical
(ASCII lower-case) form — `foldName` is applied where names enter.
-/
namespace SdnsVerif.Spec.Zone

abbrev Label := List Nat
abbrev Name := List Label

/-! ### ASCII case folding (RFC 4034 §6.2) -/

def foldByte (b : Nat) : Nat := if 65 ≤ b ∧ b ≤ 90 then b + 32 else b
def foldLabel (l : Label) : Label := l.map foldByte
def foldName (n : Name) : Name := n.map foldLabel

/-! ### canonical order -/

def cmpNat (a b : Nat) : Ordering :=
  if a < b then .lt else if a = b then .eq else .gt

/-- lexicographic comparison, a proper prefix sorts first. -/
def cmpList {α : Type} (c : α → α → Ordering) : List α → List α → Ordering
  | [], [] => .eq
  | [], _ :: _ => .lt
  | _ :: _, [] => .gt
  | a :: as, b :: bs =>
    match c a b with
    | .eq => cmpList c as bs
    | o => o

/-- RFC 4034 §6.1 order of two labels (octet strings). -/
def cmpLabel : Label → Label → Ordering := cmpList cmpNat
/-- RFC 4034 §6.1 canonical order of two names (root-side-first label lists). -/
def cmpName : Name → Name → Ordering := cmpList cmpLabel

/-- number of leading labels two names share (`dnsname.CompareSuffix` on the
textual, leaf-first spelling). -/
def lcp : Name → Name → Nat
  | a :: as, b :: bs => if a = b then lcp as bs + 1 else 0
  | _, _ => 0

/-! ### record types used by the denial rules -/

def tNS : Nat := 2
def tCNAME : Nat := 5
def tSOA : Nat := 6
def tDNAME : Nat := 39
def tDS : Nat := 43
def tRRSIG : Nat := 46
def tNSEC : Nat := 47
def star : Label := [42]

/-! ### zones -/

structure Node where
  name : Name
  types : List Nat
deriving Repr, DecidableEq

structure Zone where
  apex : Name
  cls : Nat := 1
  nodes : List Node
deriving Repr

/-- NS without SOA: the type set of a delegation point as the parent sees it. -/
def delegTypes (ts : List Nat) : Bool := ts.contains tNS && !ts.contains tSOA
/-- a zone cut or a DNAME: names strictly below are not this zone's to deny. -/
def cutTypes (ts : List Nat) : Bool := delegTypes ts || ts.contains tDNAME

/-- `q` lies strictly below a delegation point or a DNAME owner. -/
def Zone.occluded (z : Zone) (q : Name) : Bool :=
  z.nodes.any fun n => cutTypes n.types && n.name.isPrefixOf q && n.name != q

/-- the authoritative nodes: everything not hidden below a cut (the
delegation points and DNAME owners themselves are authoritative owners). -/
def Zone.auth (z : Zone) : List Node := z.nodes.filter fun n => !z.occluded n.name

def Zone.authNames (z : Zone) : List Name := z.auth.map (·.name)

def Zone.find (z : Zone) (q : Name) : Option Node := z.auth.find? fun n => n.name == q

/-- empty non-terminal: owns nothing, but an authoritative name lies below. -/
def Zone.isENT (z : Zone) (q : Name) : Bool :=
  z.apex.isPrefixOf q && (z.find q).isNone && z.auth.any fun n => q.isPrefixOf n.name && n.name != q

/-- the name is in the zone's tree: it owns data or is an empty non-terminal. -/
def Zone.inTree (z : Zone) (q : Name) : Bool := (z.find q).isSome || z.isENT q

/-- longest proper ancestor of `q` that is in the tree, searched downwards
from `q`'s parent (`fuel = q.length`). -/
def Zone.ceLen (z : Zone) (q : Name) : Nat → Nat
  | 0 => 0
  | k + 1 => if z.inTree (q.take k) then k else z.ceLen q k

def Zone.closestEncloser (z : Zone) (q : Name) : Name := q.take (z.ceLen q q.length)

inductive Answer
  | outOfZone   -- not below the apex
  | parentSide  -- DS at the apex: the parent's to answer, never this zone's NSEC
  | delegated   -- below (or, for types other than DS, at) a zone cut / below a DNAME
  | answer      -- the type is there (directly or through a wildcard)
  | cname       -- a CNAME is there instead
  | nodata      -- name (or ENT, or wildcard source) exists, neither type nor CNAME
  | nxdomain    -- no name, no ENT, no wildcard expansion
deriving Repr, DecidableEq

def answerAt (n : Node) (t : Nat) : Answer :=
  if n.types.contains t then .answer
  else if n.types.contains tCNAME then .cname
  else .nodata

/-- what the zone says about `(q, t)` — the ground truth of the property. -/
def Zone.answerClass (z : Zone) (q : Name) (t : Nat) : Answer :=
  if !z.apex.isPrefixOf q then .outOfZone
  else if q == z.apex && t == tDS then .parentSide
  else if z.occluded q then .delegated
  else match z.find q with
    | some n => if delegTypes n.types && t != tDS then .delegated else answerAt n t
    | none =>
      if z.isENT q then .nodata
      else
        let w := z.closestEncloser q ++ [star]
        match z.find w with
        | some n => answerAt n t
        | none => if z.isENT w then .nodata else .nxdomain

/-! ### the genuine NSEC chain -/

structure Nsec where
  owner : Name
  next : Name
  cls : Nat := 1
  types : List Nat
deriving Repr, DecidableEq

def insertNode (x : Node) : List Node → List Node
  | [] => [x]
  | y :: t => if cmpName x.name y.name = .gt then y :: insertNode x t else x :: y :: t

def sortNodes : List Node → List Node
  | [] => []
  | x :: t => insertNode x (sortNodes t)

/-- link consecutive owners; the last one wraps to `first`. -/
def mkChain (cls : Nat) (first : Name) : List Node → List Nsec
  | [] => []
  | [n] => [{ owner := n.name, next := first, cls := cls, types := n.types }]
  | n :: m :: t => { owner := n.name, next := m.name, cls := cls, types := n.types } :: mkChain cls first (m :: t)

/-- the NSEC chain a signer produces for the zone: one record per
authoritative owner in canonical order, the bitmap is the owner's type set,
the last record points back to the first owner (the apex). -/
def Zone.chain (z : Zone) : List Nsec :=
  match sortNodes z.auth with
  | [] => []
  | n :: t => mkChain z.cls n.name (n :: t)

/-- well-formed signed zone. -/
structure Zone.WF (z : Zone) : Prop where
  /-- the apex is a node and carries SOA -/
  apex_soa : ∃ n ∈ z.nodes, n.name = z.apex ∧ tSOA ∈ n.types
  /-- only the apex carries SOA -/
  soa_apex : ∀ n ∈ z.nodes, tSOA ∈ n.types → n.name = z.apex
  /-- every node is at or below the apex -/
  in_zone : ∀ n ∈ z.nodes, z.apex <+: n.name
  /-- one node per owner name -/
  nodup : z.nodes.Pairwise fun a b => a.name ≠ b.name

end SdnsVerif.Spec.Zone
