import SdnsVerif.Model.Blocklist
/-! Helper lemmas for C18. -/
namespace SdnsVerif.Lemmas.Blocklist
open SdnsVerif.Model.Blocklist

/-! ### characters and case folding -/

theorem toNat_ofNat_small (n : Nat) (h : n < 55296) : (Char.ofNat n).toNat = n := by
  unfold Char.ofNat
  have hv : n.isValidChar := Or.inl h
  simp [hv, Char.toNat, Char.ofNatAux]

theorem char_le_iff (a b : Char) : a ≤ b ↔ a.toNat ≤ b.toNat := by
  rw [Char.le_def, UInt32.le_iff_toNat_le]; rfl

theorem lowerChar_toNat (c : Char) :
    (lowerChar c).toNat = if 65 ≤ c.toNat ∧ c.toNat ≤ 90 then c.toNat + 32 else c.toNat := by
  unfold lowerChar
  simp only [char_le_iff]
  have hA : 'A'.toNat = 65 := by decide
  have hZ : 'Z'.toNat = 90 := by decide
  rw [hA, hZ]
  split
  · rename_i h
    exact toNat_ofNat_small _ (by omega)
  · rfl

/-- a character that is not a letter is the image of itself only. -/
theorem lowerChar_eq_iff (c d : Char)
    (hd : d.toNat < 65 ∨ (90 < d.toNat ∧ d.toNat < 97) ∨ 122 < d.toNat) :
    lowerChar c = d ↔ c = d := by
  rw [← Char.toNat_inj, lowerChar_toNat, ← Char.toNat_inj]
  split <;> omega

theorem lowerChar_idem (c : Char) : lowerChar (lowerChar c) = lowerChar c := by
  rw [← Char.toNat_inj, lowerChar_toNat, lowerChar_toNat]
  by_cases h : 65 ≤ c.toNat ∧ c.toNat ≤ 90
  · simp only [h, and_self, if_true]
    have : ¬ (65 ≤ c.toNat + 32 ∧ c.toNat + 32 ≤ 90) := by omega
    simp only [this, if_false]
  · simp only [h, if_false]

theorem lowerChar_dot (c : Char) : lowerChar c = '.' ↔ c = '.' := lowerChar_eq_iff c '.' (by decide)
theorem lowerChar_bs (c : Char) : lowerChar c = '\\' ↔ c = '\\' := lowerChar_eq_iff c '\\' (by decide)
theorem lowerChar_star (c : Char) : lowerChar c = '*' ↔ c = '*' := lowerChar_eq_iff c '*' (by decide)

theorem lower_idem (s : Str) : lower (lower s) = lower s := by
  unfold lower
  rw [List.map_map]
  apply List.map_congr_left
  intro c _
  exact lowerChar_idem c

theorem lower_append (a b : Str) : lower (a ++ b) = lower a ++ lower b := by
  unfold lower; exact List.map_append

theorem dot_mem_lower (s : Str) : '.' ∈ lower s ↔ '.' ∈ s := by
  unfold lower
  rw [List.mem_map]
  constructor
  · rintro ⟨c, hc, h⟩
    rw [(lowerChar_dot c).mp h] at hc; exact hc
  · intro h; exact ⟨'.', h, (lowerChar_dot '.').mpr rfl⟩

theorem lower_eq_nil (s : Str) : lower s = [] ↔ s = [] := by
  unfold lower; exact List.map_eq_nil_iff

theorem takeWhile_bs_lower (r : Str) :
    ((lower r).takeWhile (· == '\\')).length = (r.takeWhile (· == '\\')).length := by
  induction r with
  | nil => rfl
  | cons c t ih =>
    unfold lower at *
    simp only [List.map_cons, List.takeWhile_cons]
    by_cases h : c = '\\'
    · subst h
      have h' : lowerChar '\\' = '\\' := (lowerChar_bs _).mpr rfl
      simp only [h', beq_self_eq_true, if_true, List.length_cons]
      rw [ih]
    · have h' : ¬ lowerChar c = '\\' := fun e => h ((lowerChar_bs c).mp e)
      simp [h, h']

theorem isFqdn_lower (s : Str) : isFqdn (lower s) = isFqdn s := by
  unfold isFqdn
  have hr : (lower s).reverse = lower s.reverse := by unfold lower; exact List.map_reverse.symm
  rw [hr]
  cases hs : s.reverse with
  | nil => rfl
  | cons c r =>
    have : lower (c :: r) = lowerChar c :: lower r := rfl
    rw [this]
    by_cases hc : c = '.'
    · subst hc
      have : lowerChar '.' = '.' := (lowerChar_dot '.').mpr rfl
      rw [this]
      simp only [takeWhile_bs_lower]
    · have h' : ¬ lowerChar c = '.' := fun e => hc ((lowerChar_dot c).mp e)
      split
      · rename_i heq
        simp only [List.cons.injEq] at heq
        exact absurd heq.1 h'
      · split
        · rename_i heq
          simp only [List.cons.injEq] at heq
          exact absurd heq.1 hc
        · rfl

/-- `CanonicalName` depends only on the case-folded spelling. -/
theorem canonical_congr (q q' : Str) (h : lower q = lower q') : canonical q = canonical q' := by
  have hf : isFqdn q = isFqdn q' := by rw [← isFqdn_lower q, ← isFqdn_lower q', h]
  unfold canonical fqdn
  rw [hf]
  split
  · exact h
  · rw [lower_append, lower_append, h]

theorem canonical_of_fqdn (s : Str) (h : isFqdn s = true) : canonical s = lower s := by
  unfold canonical fqdn; simp [h]

/-- `CanonicalName` is idempotent on every name whose canonical form is fully
qualified (i.e. that does not end in an unescaped backslash). -/
theorem canonical_idem (s : Str) (h : isFqdn (fqdn s) = true) : canonical (canonical s) = canonical s := by
  have h1 : isFqdn (canonical s) = true := by unfold canonical; rw [isFqdn_lower]; exact h
  rw [canonical_of_fqdn _ h1]
  unfold canonical
  exact lower_idem _

/-! ### the suffix walk -/

/-- escape state after reading `s` from state `e` (a dot is an ordinary octet here). -/
def escAfter : Bool → Str → Bool
  | e, [] => e
  | true, _ :: t => escAfter false t
  | false, c :: t => if c = '\\' then escAfter true t else escAfter false t

theorem escAfter_append (e : Bool) (a b : Str) : escAfter e (a ++ b) = escAfter (escAfter e a) b := by
  induction a generalizing e with
  | nil => rfl
  | cons c t ih =>
    cases e with
    | true => simp only [List.cons_append, escAfter]; exact ih false
    | false =>
      simp only [List.cons_append, escAfter]
      split
      · exact ih true
      · exact ih false

/-- the candidates of the walk: the non-empty remainders behind a dot that is
reached with no escape open. -/
theorem mem_dotSuffixesAux (e : Bool) (k s : Str) :
    s ∈ dotSuffixesAux e k ↔ s ≠ [] ∧ ∃ pre, k = pre ++ '.' :: s ∧ escAfter e pre = false := by
  induction k generalizing e with
  | nil => simp [dotSuffixesAux]
  | cons c t ih =>
    cases e with
    | true =>
      simp only [dotSuffixesAux, ih false]
      constructor
      · rintro ⟨hs, pre, rfl, hp⟩
        exact ⟨hs, c :: pre, rfl, by simpa [escAfter] using hp⟩
      · rintro ⟨hs, pre, h, hp⟩
        cases pre with
        | nil => simp [escAfter] at hp
        | cons a p =>
          simp only [List.cons_append, List.cons.injEq] at h
          exact ⟨hs, p, h.2, by simpa [escAfter] using hp⟩
    | false =>
      simp only [dotSuffixesAux]
      by_cases hb : c = '\\'
      · subst hb
        simp only [if_true, ih true]
        constructor
        · rintro ⟨hs, pre, rfl, hp⟩
          exact ⟨hs, '\\' :: pre, rfl, by simpa [escAfter] using hp⟩
        · rintro ⟨hs, pre, h, hp⟩
          cases pre with
          | nil => simp at h
          | cons a p =>
            simp only [List.cons_append, List.cons.injEq] at h
            obtain ⟨rfl, h2⟩ := h
            exact ⟨hs, p, h2, by simpa [escAfter] using hp⟩
      · simp only [hb, if_false]
        by_cases hc : c = '.'
        · subst hc
          simp only [if_true]
          by_cases ht : t = []
          · subst ht
            simp only [if_true, List.not_mem_nil, false_iff, not_and, not_exists]
            intro hs pre h
            cases pre with
            | nil => simp only [List.nil_append, List.cons.injEq, true_and] at h; exact absurd h.symm hs
            | cons a p =>
              simp only [List.cons_append, List.cons.injEq] at h
              have := congrArg List.length h.2
              simp at this
          · simp only [ht, if_false, List.mem_cons, ih false]
            constructor
            · rintro (rfl | ⟨hs, pre, rfl, hp⟩)
              · exact ⟨ht, [], rfl, rfl⟩
              · exact ⟨hs, '.' :: pre, rfl, by simpa [escAfter] using hp⟩
            · rintro ⟨hs, pre, h, hp⟩
              cases pre with
              | nil =>
                simp only [List.nil_append, List.cons.injEq, true_and] at h
                exact Or.inl h.symm
              | cons a p =>
                simp only [List.cons_append, List.cons.injEq] at h
                obtain ⟨rfl, h2⟩ := h
                exact Or.inr ⟨hs, p, h2, by simpa [escAfter] using hp⟩
        · simp only [hc, if_false, ih false]
          constructor
          · rintro ⟨hs, pre, rfl, hp⟩
            exact ⟨hs, c :: pre, rfl, by simpa [escAfter, hb] using hp⟩
          · rintro ⟨hs, pre, h, hp⟩
            cases pre with
            | nil => simp only [List.nil_append, List.cons.injEq] at h; exact absurd h.1 hc
            | cons a p =>
              simp only [List.cons_append, List.cons.injEq] at h
              obtain ⟨rfl, h2⟩ := h
              exact ⟨hs, p, h2, by simpa [escAfter, hb] using hp⟩

theorem mem_dotSuffixes (k s : Str) :
    s ∈ dotSuffixes k ↔ s ≠ [] ∧ ∃ pre, k = pre ++ '.' :: s ∧ escAfter false pre = false :=
  mem_dotSuffixesAux false k s

theorem dotSuffixes_trans (k s t : Str) (h1 : s ∈ dotSuffixes k) (h2 : t ∈ dotSuffixes s) :
    t ∈ dotSuffixes k := by
  rw [mem_dotSuffixes] at *
  obtain ⟨_, p1, rfl, e1⟩ := h1
  obtain ⟨ht, p2, rfl, e2⟩ := h2
  refine ⟨ht, p1 ++ '.' :: p2, by simp, ?_⟩
  rw [escAfter_append, e1]
  simpa [escAfter] using e2

theorem dotSuffixes_length_lt (k s : Str) (h : s ∈ dotSuffixes k) : s.length < k.length := by
  rw [mem_dotSuffixes] at h
  obtain ⟨_, p, rfl, _⟩ := h
  simp; omega

/-- text without a dot glued in front of `e`: every candidate is a proper remainder of `e`. -/
theorem dotSuffixes_glued_lt (pre e s : Str) (h : '.' ∉ pre) (hs : s ∈ dotSuffixes (pre ++ e)) :
    s.length < e.length := by
  rw [mem_dotSuffixes] at hs
  obtain ⟨_, p, hp, _⟩ := hs
  rcases List.append_eq_append_iff.mp hp with ⟨a', _, he⟩ | ⟨c', hpre, hc⟩
  · rw [he]; simp; omega
  · cases c' with
    | nil => simp only [List.nil_append] at hc; rw [← hc]; simp
    | cons x r =>
      simp only [List.cons_append, List.cons.injEq] at hc
      exact absurd (by rw [hpre, ← hc.1]; simp) h

theorem dotSuffixesAux_lower (e : Bool) (k : Str) :
    dotSuffixesAux e (lower k) = (dotSuffixesAux e k).map lower := by
  induction k generalizing e with
  | nil => cases e <;> rfl
  | cons c t ih =>
    have hcons : lower (c :: t) = lowerChar c :: lower t := rfl
    rw [hcons]
    cases e with
    | true => simp only [dotSuffixesAux]; exact ih false
    | false =>
      simp only [dotSuffixesAux]
      by_cases hb : c = '\\'
      · subst hb
        have : lowerChar '\\' = '\\' := (lowerChar_bs _).mpr rfl
        simp only [this, if_true]
        exact ih true
      · have hb' : ¬ lowerChar c = '\\' := fun e => hb ((lowerChar_bs c).mp e)
        simp only [hb, hb', if_false]
        by_cases hc : c = '.'
        · subst hc
          have : lowerChar '.' = '.' := (lowerChar_dot '.').mpr rfl
          simp only [this, if_true]
          by_cases ht : t = []
          · subst ht; rfl
          · have ht' : lower t ≠ [] := fun e => ht ((lower_eq_nil t).mp e)
            simp only [ht, ht', if_false, List.map_cons, ih false]
        · have h' : ¬ lowerChar c = '.' := fun e => hc ((lowerChar_dot c).mp e)
          simp only [hc, h', if_false, ih false]

theorem dotSuffixes_lower (k : Str) : dotSuffixes (lower k) = (dotSuffixes k).map lower :=
  dotSuffixesAux_lower false k

/-! ### `matchHierarchy` and `Exists` as plain statements -/

/-- `k` or one of the walk's candidates is a key of `l`. -/
def Hit (k : Str) (l : List Str) : Prop := k ∈ l ∨ ∃ s ∈ dotSuffixes k, s ∈ l

theorem matchHierarchy_iff (k : Str) (m : List Str) : matchHierarchy k m = true ↔ Hit k m := by
  unfold matchHierarchy Hit
  by_cases h0 : m.length = 0
  · have : m = [] := List.eq_nil_of_length_eq_zero h0
    subst this
    simp
  · simp only [h0, if_false]
    by_cases hk : k ∈ m
    · simp [hk]
    · simp only [hk, if_false, false_or, List.any_eq_true, decide_eq_true_eq]

theorem existsCanon_iff (b : Mem) (k : Str) :
    existsCanon b k = true ↔ ¬ Hit k b.w ∧ (Hit k b.m ∨ ∃ s ∈ dotSuffixes k, s ∈ b.wild) := by
  unfold existsCanon
  by_cases hw : matchHierarchy k b.w = true
  · have := (matchHierarchy_iff k b.w).mp hw
    simp [hw, this]
  · have hnw : ¬ Hit k b.w := fun h => hw ((matchHierarchy_iff k b.w).mpr h)
    simp only [hw, if_false, hnw, not_false_eq_true, true_and, Bool.false_eq_true]
    by_cases hk : k ∈ b.m
    · simp only [hk, if_true, true_iff]
      exact Or.inl (Or.inl hk)
    · simp only [hk, if_false]
      by_cases he : b.m.length = 0 ∧ b.wild.length = 0
      · have hm : b.m = [] := List.eq_nil_of_length_eq_zero he.1
        have hwd : b.wild = [] := List.eq_nil_of_length_eq_zero he.2
        simp [Hit, hm, hwd]
      · simp only [he, if_false, List.any_eq_true, Bool.or_eq_true, decide_eq_true_eq]
        unfold Hit
        constructor
        · rintro ⟨s, hs, h | h⟩
          · exact Or.inl (Or.inr ⟨s, hs, h⟩)
          · exact Or.inr ⟨s, hs, h⟩
        · rintro ((h | ⟨s, hs, h⟩) | ⟨s, hs, h⟩)
          · exact absurd h hk
          · exact ⟨s, hs, Or.inl h⟩
          · exact ⟨s, hs, Or.inr h⟩

/-- a hit on a candidate of `k` is a hit on `k`. -/
theorem Hit_of_suffix (k s : Str) (l : List Str) (hs : s ∈ dotSuffixes k) (h : Hit s l) : Hit k l := by
  rcases h with h | ⟨t, ht, h⟩
  · exact Or.inr ⟨s, hs, h⟩
  · exact Or.inr ⟨t, dotSuffixes_trans k s t hs ht, h⟩

/-! ### label lists and their presentation form -/

/-- the escape automaton of the walk run over ONE label: `none` if it meets an
unescaped dot, otherwise the escape state at the end of the label. -/
def labelScan : Bool → Str → Option Bool
  | e, [] => some e
  | true, _ :: t => labelScan false t
  | false, c :: t => if c = '\\' then labelScan true t else if c = '.' then none else labelScan false t

/-- a label in presentation form, as `miekg/dns` renders and accepts it: not
empty, every dot inside it escaped, no dangling backslash at its end.  Escaped
dots (`x\.y`), escaped backslashes and `\DDD` are all allowed. -/
def LabelOK (l : Str) : Prop := l ≠ [] ∧ labelScan false l = some false

def NameOK (n : Name) : Prop := ∀ l ∈ n, LabelOK l

theorem NameOK_tail {l : Str} {t : Name} (h : NameOK (l :: t)) : NameOK t :=
  fun x hx => h x (List.mem_cons_of_mem _ hx)

theorem NameOK_suffix {a n : Name} (h : NameOK n) (hs : a <:+ n) : NameOK a :=
  fun x hx => h x (hs.subset hx)

theorem join_eq_nil (n : Name) : join n = [] ↔ n = [] := by
  cases n with
  | nil => simp [join]
  | cons l t => simp [join]

theorem append_dot_inj (e : Bool) (l l' x y : Str) (hl : labelScan e l = some false)
    (hl' : labelScan e l' = some false) (h : l ++ '.' :: x = l' ++ '.' :: y) : l = l' ∧ x = y := by
  induction l generalizing l' e with
  | nil =>
    simp only [labelScan, Option.some.injEq] at hl
    subst hl
    cases l' with
    | nil => simpa using h
    | cons c t =>
      simp only [List.nil_append, List.cons_append, List.cons.injEq] at h
      rw [← h.1] at hl'
      simp [labelScan] at hl'
  | cons c t ih =>
    cases l' with
    | nil =>
      simp only [labelScan, Option.some.injEq] at hl'
      subst hl'
      simp only [List.nil_append, List.cons_append, List.cons.injEq] at h
      rw [h.1] at hl
      simp [labelScan] at hl
    | cons c' t' =>
      simp only [List.cons_append, List.cons.injEq] at h
      obtain ⟨rfl, h2⟩ := h
      cases e with
      | true =>
        simp only [labelScan] at hl hl'
        have := ih false t' hl hl' h2
        exact ⟨by rw [this.1], this.2⟩
      | false =>
        simp only [labelScan] at hl hl'
        by_cases hb : c = '\\'
        · simp only [hb, if_true] at hl hl'
          have := ih true t' hl hl' h2
          exact ⟨by rw [this.1], this.2⟩
        · simp only [hb, if_false] at hl hl'
          by_cases hc : c = '.'
          · simp [hc] at hl
          · simp only [hc, if_false] at hl hl'
            have := ih false t' hl hl' h2
            exact ⟨by rw [this.1], this.2⟩

theorem join_inj (a b : Name) (ha : NameOK a) (hb : NameOK b) (h : join a = join b) : a = b := by
  induction a generalizing b with
  | nil =>
    cases b with
    | nil => rfl
    | cons l t => simp [join] at h
  | cons l t ih =>
    cases b with
    | nil => simp [join] at h
    | cons l' t' =>
      simp only [join] at h
      have := append_dot_inj false l l' _ _ (ha l (by simp)).2 (hb l' (by simp)).2 h
      rw [this.1, ih t' (NameOK_tail ha) (NameOK_tail hb) this.2]

/-- reading a whole label leaves the walk where the label's own automaton ends. -/
theorem dotSuffixesAux_label_append (e e' : Bool) (l rest : Str) (h : labelScan e l = some e') :
    dotSuffixesAux e (l ++ rest) = dotSuffixesAux e' rest := by
  induction l generalizing e with
  | nil => simp only [labelScan, Option.some.injEq] at h; subst h; rfl
  | cons c t ih =>
    cases e with
    | true =>
      simp only [labelScan] at h
      simp only [List.cons_append, dotSuffixesAux]
      exact ih false h
    | false =>
      simp only [labelScan] at h
      simp only [List.cons_append, dotSuffixesAux]
      by_cases hb : c = '\\'
      · simp only [hb, if_true] at h ⊢
        exact ih true h
      · simp only [hb, if_false] at h ⊢
        by_cases hc : c = '.'
        · simp [hc] at h
        · simp only [hc, if_false] at h ⊢
          exact ih false h

theorem dotSuffixes_join_cons (l : Str) (t : Name) (hl : labelScan false l = some false) :
    dotSuffixes (join (l :: t)) = if t = [] then [] else join t :: dotSuffixes (join t) := by
  simp only [join]
  unfold dotSuffixes
  rw [dotSuffixesAux_label_append false false l _ hl, dotSuffixesAux]
  simp only [if_true, join_eq_nil]
  have : ¬ ('.' = '\\') := by decide
  simp only [this, if_false]

theorem dotSuffixes_nil : dotSuffixes [] = [] := rfl
theorem dotSuffixes_dot : dotSuffixes ['.'] = [] := by decide

/-- the candidates of the walk over a well-formed name are exactly the
presentation forms of its non-root strict parents. -/
theorem mem_dotSuffixes_join (n : Name) (hn : NameOK n) (s : Str) :
    s ∈ dotSuffixes (join n) ↔ ∃ a : Name, a ≠ [] ∧ a <:+ n ∧ a ≠ n ∧ s = join a := by
  induction n with
  | nil =>
    simp only [join, dotSuffixes_nil, List.not_mem_nil, false_iff, not_exists, not_and]
    intro a ha hs
    exact absurd (List.suffix_nil.mp hs) ha
  | cons l t ih =>
    rw [dotSuffixes_join_cons l t (hn l (by simp)).2]
    by_cases ht : t = []
    · subst ht
      simp only [if_true, List.not_mem_nil, false_iff, not_exists, not_and]
      intro a ha hs hne
      rcases List.suffix_cons_iff.mp hs with h | h
      · exact absurd h hne
      · exact absurd (List.suffix_nil.mp h) ha
    · simp only [ht, if_false, List.mem_cons, ih (NameOK_tail hn)]
      constructor
      · rintro (rfl | ⟨a, ha, hs, hne, rfl⟩)
        · refine ⟨t, ht, List.suffix_cons _ _, ?_, rfl⟩
          intro e
          have := congrArg List.length e
          simp at this
        · refine ⟨a, ha, hs.trans (List.suffix_cons _ _), ?_, rfl⟩
          intro e
          have := hs.length_le
          rw [e] at this
          simp at this
          omega
      · rintro ⟨a, ha, hs, hne, rfl⟩
        rcases List.suffix_cons_iff.mp hs with h | h
        · exact absurd h hne
        · by_cases e : a = t
          · exact Or.inl (by rw [e])
          · exact Or.inr ⟨a, ha, h, e, rfl⟩

theorem lower_join (n : Name) : lower (join n) = join (lowerName n) := by
  induction n with
  | nil => rfl
  | cons l t ih =>
    simp only [join, lowerName, List.map_cons]
    rw [lower_append]
    have : lower ('.' :: join t) = '.' :: lower (join t) := by
      show lowerChar '.' :: lower (join t) = _
      rw [(lowerChar_dot '.').mpr rfl]
    rw [this, ih]
    rfl

theorem lower_pres (n : Name) : lower (pres n) = pres (lowerName n) := by
  unfold pres
  by_cases h : n = []
  · subst h; simp [lowerName, lower]; exact (lowerChar_dot '.').mpr rfl
  · have : lowerName n ≠ [] := by unfold lowerName; simpa using h
    simp only [h, this, if_false]
    exact lower_join n

theorem labelScan_lower (e : Bool) (l : Str) : labelScan e (lower l) = labelScan e l := by
  induction l generalizing e with
  | nil => cases e <;> rfl
  | cons c t ih =>
    have hcons : lower (c :: t) = lowerChar c :: lower t := rfl
    rw [hcons]
    cases e with
    | true => simp only [labelScan]; exact ih false
    | false =>
      simp only [labelScan]
      by_cases hb : c = '\\'
      · subst hb
        have : lowerChar '\\' = '\\' := (lowerChar_bs _).mpr rfl
        simp only [this, if_true]; exact ih true
      · have hb' : ¬ lowerChar c = '\\' := fun e => hb ((lowerChar_bs c).mp e)
        simp only [hb, hb', if_false]
        by_cases hc : c = '.'
        · subst hc
          have : lowerChar '.' = '.' := (lowerChar_dot '.').mpr rfl
          simp [this]
        · have h' : ¬ lowerChar c = '.' := fun e => hc ((lowerChar_dot c).mp e)
          simp only [hc, h', if_false]; exact ih false

theorem NameOK_lower (n : Name) (h : NameOK n) : NameOK (lowerName n) := by
  intro l hl
  unfold lowerName at hl
  obtain ⟨x, hx, rfl⟩ := List.mem_map.mp hl
  have := h x hx
  exact ⟨fun e => this.1 ((lower_eq_nil x).mp e), by rw [labelScan_lower]; exact this.2⟩

/-- an entry the spec theorem speaks about: at least one label (not the root),
well-formed labels, stored lower case. -/
def EntryOK (e : Name) : Prop := e ≠ [] ∧ NameOK e ∧ lowerName e = e

theorem pres_of_ne_nil (n : Name) (h : n ≠ []) : pres n = join n := by
  unfold pres; simp [h]

/-- the root `"."` is never the presentation of a proper name. -/
theorem join_ne_dot (a : Name) (ha : NameOK a) : join a ≠ ['.'] := by
  cases a with
  | nil => simp [join]
  | cons l t =>
    intro h
    simp only [join] at h
    have hl := ha l (by simp)
    cases l with
    | nil => exact hl.1 rfl
    | cons c r =>
      simp only [List.cons_append, List.cons.injEq] at h
      have := congrArg List.length h.2
      simp at this

/-- **string walk = label walk** on every well-formed name:
`Hit` on presentation forms is "some entry is the name or a parent of it". -/
theorem Hit_pres_iff (n : Name) (hn : NameOK n) (L : List Name) (hL : ∀ e ∈ L, e ≠ [] ∧ NameOK e) :
    Hit (pres n) (L.map pres) ↔ ∃ e ∈ L, e <:+ n := by
  unfold Hit
  by_cases h0 : n = []
  · subst h0
    have : pres [] = ['.'] := rfl
    rw [this]
    constructor
    · rintro (h | ⟨s, hs, _⟩)
      · obtain ⟨e, he, hp⟩ := List.mem_map.mp h
        rw [pres_of_ne_nil e (hL e he).1] at hp
        exact absurd hp (join_ne_dot e (hL e he).2)
      · simp [dotSuffixes_dot] at hs
    · rintro ⟨e, he, hs⟩
      exact absurd (List.suffix_nil.mp hs) (hL e he).1
  · rw [pres_of_ne_nil n h0]
    constructor
    · rintro (h | ⟨s, hs, h⟩)
      · obtain ⟨e, he, hp⟩ := List.mem_map.mp h
        rw [pres_of_ne_nil e (hL e he).1] at hp
        exact ⟨e, he, by rw [join_inj e n (hL e he).2 hn hp]; exact List.suffix_refl _⟩
      · obtain ⟨e, he, hp⟩ := List.mem_map.mp h
        rw [pres_of_ne_nil e (hL e he).1] at hp
        obtain ⟨a, ha, has, hne, rfl⟩ := (mem_dotSuffixes_join n hn s).mp hs
        have hea := join_inj e a (hL e he).2 (NameOK_suffix hn has) hp
        exact ⟨e, he, hea ▸ has⟩
    · rintro ⟨e, he, hs⟩
      by_cases heq : e = n
      · left
        exact List.mem_map.mpr ⟨e, he, by rw [heq, pres_of_ne_nil n h0]⟩
      · right
        refine ⟨join e, (mem_dotSuffixes_join n hn _).mpr ⟨e, (hL e he).1, hs, heq, rfl⟩, ?_⟩
        exact List.mem_map.mpr ⟨e, he, pres_of_ne_nil e (hL e he).1⟩

/-- the walk's candidates alone: strict parents. -/
theorem suffixHit_pres_iff (n : Name) (hn : NameOK n) (L : List Name) (hL : ∀ e ∈ L, e ≠ [] ∧ NameOK e) :
    (∃ s ∈ dotSuffixes (pres n), s ∈ L.map pres) ↔ ∃ e ∈ L, e <:+ n ∧ e ≠ n := by
  by_cases h0 : n = []
  · subst h0
    have : pres [] = ['.'] := rfl
    rw [this]
    constructor
    · rintro ⟨s, hs, _⟩
      simp [dotSuffixes_dot] at hs
    · rintro ⟨e, he, hs, _⟩
      exact absurd (List.suffix_nil.mp hs) (hL e he).1
  · rw [pres_of_ne_nil n h0]
    constructor
    · rintro ⟨s, hs, h⟩
      obtain ⟨e, he, hp⟩ := List.mem_map.mp h
      rw [pres_of_ne_nil e (hL e he).1] at hp
      obtain ⟨a, ha, has, hne, rfl⟩ := (mem_dotSuffixes_join n hn s).mp hs
      have hea := join_inj e a (hL e he).2 (NameOK_suffix hn has) hp
      exact ⟨e, he, hea ▸ has, hea ▸ hne⟩
    · rintro ⟨e, he, hs, hne⟩
      refine ⟨join e, (mem_dotSuffixes_join n hn _).mpr ⟨e, (hL e he).1, hs, hne, rfl⟩, ?_⟩
      exact List.mem_map.mpr ⟨e, he, pres_of_ne_nil e (hL e he).1⟩

theorem specBlocked_iff (P Wd Wh : List Name) (n : Name) :
    specBlocked P Wd Wh n = true ↔
      ¬ (∃ e ∈ Wh, e <:+ n) ∧ ((∃ e ∈ P, e <:+ n) ∨ ∃ e ∈ Wd, e <:+ n ∧ e ≠ n) := by
  unfold specBlocked isSelfOrParent isStrictParent
  simp only [Bool.and_eq_true, Bool.not_eq_true', Bool.or_eq_true, List.any_eq_true,
    decide_eq_true_eq, List.any_eq_false, not_exists, not_and]

/-! ### persistence -/

theorem setLocked_false (b : Mem) (k : Str) (h : (setLocked b k).2 = false) : (setLocked b k).1 = b := by
  unfold setLocked at *
  simp only at *
  split at h
  · split; rfl; rename_i h'; exact absurd ‹_› h'
  · split at h <;> simp at h

theorem removeLocked_false (b : Mem) (k : Str) (h : (removeLocked b k).2 = false) : (removeLocked b k).1 = b := by
  unfold removeLocked at *
  simp only at *
  split at h
  · simp at h
  · split at h
    · simp at h
    · rename_i h1 h2
      simp [h1, h2]

theorem setBatchLocked_zero (b : Mem) (ks : List Str) (h : (setBatchLocked b ks).2 = 0) :
    (setBatchLocked b ks).1 = b := by
  induction ks generalizing b with
  | nil => rfl
  | cons k t ih =>
    simp only [setBatchLocked] at *
    have h1 : (setLocked b k).2 = false := by
      cases hh : (setLocked b k).2 with
      | false => rfl
      | true => rw [hh] at h; simp at h
    rw [h1] at h
    simp only [Bool.false_eq_true, if_false, Nat.zero_add] at h
    rw [ih _ h, setLocked_false b k h1]

theorem removeBatchLocked_zero (b : Mem) (ks : List Str) (h : (removeBatchLocked b ks).2 = 0) :
    (removeBatchLocked b ks).1 = b := by
  induction ks generalizing b with
  | nil => rfl
  | cons k t ih =>
    simp only [removeBatchLocked] at *
    have h1 : (removeLocked b k).2 = false := by
      cases hh : (removeLocked b k).2 with
      | false => rfl
      | true => rw [hh] at h; simp at h
    rw [h1] at h
    simp only [Bool.false_eq_true, if_false, Nat.zero_add] at h
    rw [ih _ h, removeLocked_false b k h1]

/-- a call that reports "nothing changed" left the maps alone (so no snapshot is owed). -/
theorem applyOp_false (b : Mem) (op : MutOp) (h : (applyOp b op).2 = false) : (applyOp b op).1 = b := by
  cases op with
  | set k => exact setLocked_false b k h
  | remove k => exact removeLocked_false b k h
  | setBatch ks =>
    simp only [applyOp, decide_eq_false_iff_not, Nat.not_lt, Nat.le_zero_eq] at *
    exact setBatchLocked_zero b ks h
  | removeBatch ks =>
    simp only [applyOp, decide_eq_false_iff_not, Nat.not_lt, Nat.le_zero_eq] at *
    exact removeBatchLocked_zero b ks h

/-! ### the persistence invariant (DESIGN Appendix A.5) -/

/-- start of a process: nothing snapshotted, nothing persisted, `saveMu` free.
Memory and the main file are arbitrary. -/
def Init (s : PState) : Prop :=
  s.version = 0 ∧ s.lastPersisted = 0 ∧ s.pending = [] ∧ s.inflight = none ∧ s.taken = [] ∧ s.failed = [] ∧
    s.dirty = false

/-- the invariant of Appendix A.5 (`main0` = the main file the process started with). -/
structure Inv (main0 : Option (List Str)) (s : PState) : Prop where
  lp_le : s.lastPersisted ≤ s.version
  taken_le : ∀ x ∈ s.taken, 1 ≤ x.version ∧ x.version ≤ s.version
  top_exists : s.version > 0 → ∃ x ∈ s.taken, x.version = s.version
  top : s.dirty = false → s.version > 0 →
      ({ version := s.version, exact := s.mem.m, wild := s.mem.wild } : Snap) ∈ s.taken
  top_unique : s.dirty = false → ∀ x ∈ s.taken, x.version = s.version → x.exact = s.mem.m ∧ x.wild = s.mem.wild
  pending_sub : ∀ x ∈ s.pending, x ∈ s.taken
  inflight_ok : ∀ f, s.inflight = some f → f.snap ∈ s.taken ∧ s.lastPersisted < f.snap.version ∧
      f.written = (render f.snap).take f.written.length ∧
      (f.stage ≠ .writing → f.written = render f.snap) ∧
      (f.stage = .renamed → s.main = some (render f.snap))
  file : (∀ f, s.inflight = some f → f.stage ≠ .renamed) →
      (s.lastPersisted = 0 ∧ s.main = main0) ∨
      (∃ x ∈ s.taken, x.version = s.lastPersisted ∧ s.main = some (render x))
  accounted : ∀ x ∈ s.taken, x ∈ s.pending ∨ (∃ f, s.inflight = some f ∧ f.snap = x) ∨
      x.version ≤ s.lastPersisted ∨ x.version ∈ s.failed

theorem inv_init (s : PState) (h : Init s) : Inv s.main s := by
  obtain ⟨h1, h2, h3, h4, h5, h6, _⟩ := h
  refine ⟨by omega, by simp [h5], by omega, by intro _; omega, by simp [h5], by simp [h3], by simp [h4], ?_, by simp [h5]⟩
  intro _; exact Or.inl ⟨h2, rfl⟩

theorem mem_of_mem_eraseIdx {α} (l : List α) (i : Nat) (x : α) (h : x ∈ l.eraseIdx i) : x ∈ l :=
  List.mem_of_mem_eraseIdx h

theorem mem_eraseIdx_or {α} (l : List α) (i : Nat) (a x : α) (hi : l[i]? = some a) (h : x ∈ l) :
    x ∈ l.eraseIdx i ∨ x = a := by
  induction l generalizing i with
  | nil => simp at h
  | cons b t ih =>
    cases i with
    | zero =>
      simp only [List.getElem?_cons_zero, Option.some.injEq] at hi
      simp only [List.eraseIdx_cons_zero]
      rcases List.mem_cons.mp h with h | h
      · right; rw [h, hi]
      · left; exact h
    | succ j =>
      simp only [List.getElem?_cons_succ] at hi
      simp only [List.eraseIdx_cons_succ, List.mem_cons]
      rcases List.mem_cons.mp h with h | h
      · left; left; exact h
      · rcases ih j hi h with h' | h'
        · left; right; exact h'
        · right; exact h'


theorem inv_mutate (m0 : Option (List Str)) (s : PState) (op : MutOp) (h : Inv m0 s) :
    Inv m0 (step s (.mutate op)) := by
  unfold step
  simp only
  by_cases hc : (applyOp s.mem op).2 = true
  · simp only [hc, if_true]
    refine ⟨?_, ?_, ?_, ?_, ?_, ?_, ?_, ?_, ?_⟩
    · have := h.lp_le; simp only; omega
    · intro x hx
      simp only [List.mem_cons] at hx
      rcases hx with rfl | hx
      · simp
      · have := h.taken_le x hx; simp only; omega
    · intro _; exact ⟨_, List.mem_cons_self, rfl⟩
    · intro _ _; simp
    · intro _ x hx hv
      simp only [List.mem_cons] at hx
      rcases hx with rfl | hx
      · simp
      · have := h.taken_le x hx; simp only at hv; omega
    · intro x hx
      simp only [List.mem_append, List.mem_singleton] at hx
      rcases hx with hx | rfl
      · exact List.mem_cons_of_mem _ (h.pending_sub x hx)
      · simp
    · intro f hf
      obtain ⟨a, b, c, d, e⟩ := h.inflight_ok f hf
      exact ⟨List.mem_cons_of_mem _ a, b, c, d, e⟩
    · intro hf
      rcases h.file hf with h' | ⟨x, hx, h'⟩
      · exact Or.inl h'
      · exact Or.inr ⟨x, List.mem_cons_of_mem _ hx, h'⟩
    · intro x hx
      simp only [List.mem_cons] at hx
      rcases hx with rfl | hx
      · left; simp
      · rcases h.accounted x hx with h' | h' | h' | h'
        · left; simp [h']
        · right; left; exact h'
        · right; right; left; exact h'
        · right; right; right; exact h'
  · have hc' : (applyOp s.mem op).2 = false := by simpa using hc
    have hm := applyOp_false s.mem op hc'
    simp only [hc', Bool.false_eq_true, if_false, hm]
    exact ⟨h.lp_le, h.taken_le, h.top_exists, h.top, h.top_unique, h.pending_sub, h.inflight_ok, h.file, h.accounted⟩

theorem inv_begin (m0 : Option (List Str)) (s : PState) (i : Nat) (ok : Bool) (h : Inv m0 s) :
    Inv m0 (step s (.begin i ok)) := by
  unfold step
  simp only
  cases hin : s.inflight with
  | some f => simp only; exact h
  | none =>
    simp only
    cases hp : s.pending[i]? with
    | none => simp only; exact h
    | some snap =>
      simp only
      have hsnap_pending : snap ∈ s.pending := List.mem_of_getElem? hp
      have hsnap := h.pending_sub snap hsnap_pending
      have hver := h.taken_le snap hsnap
      have hfile : (s.lastPersisted = 0 ∧ s.main = m0) ∨
          (∃ x ∈ s.taken, x.version = s.lastPersisted ∧ s.main = some (render x)) :=
        h.file (by intro f hf; rw [hin] at hf; cases hf)
      have hacc : ∀ x ∈ s.taken, x ∈ s.pending.eraseIdx i ∨ x = snap ∨ x.version ≤ s.lastPersisted ∨ x.version ∈ s.failed := by
        intro x hx
        rcases h.accounted x hx with h' | ⟨f, hf, _⟩ | h' | h'
        · rcases mem_eraseIdx_or s.pending i snap x hp h' with h'' | h''
          · exact Or.inl h''
          · exact Or.inr (Or.inl h'')
        · rw [hin] at hf; cases hf
        · exact Or.inr (Or.inr (Or.inl h'))
        · exact Or.inr (Or.inr (Or.inr h'))
      have hpsub : ∀ x ∈ s.pending.eraseIdx i, x ∈ s.taken :=
        fun x hx => h.pending_sub x (List.mem_of_mem_eraseIdx hx)
      by_cases hstale : snap.version ≠ 0 ∧ snap.version ≤ s.lastPersisted
      · rw [if_pos hstale]
        refine ⟨h.lp_le, h.taken_le, h.top_exists, h.top, h.top_unique, hpsub, ?_, ?_, ?_⟩
        · intro f hf; simp only at hf; cases hf
        · intro _; exact hfile
        · intro x hx
          rcases hacc x hx with h' | h' | h' | h'
          · exact Or.inl h'
          · right; right; left; rw [h']; exact hstale.2
          · exact Or.inr (Or.inr (Or.inl h'))
          · exact Or.inr (Or.inr (Or.inr h'))
      · rw [if_neg hstale]
        have hlt : s.lastPersisted < snap.version := by omega
        generalize (ok && !s.dirMissing) = ok
        cases ok with
        | true =>
          simp only [if_true]
          refine ⟨h.lp_le, h.taken_le, h.top_exists, h.top, h.top_unique, hpsub, ?_, ?_, ?_⟩
          · intro f hf
            simp only [Option.some.injEq] at hf
            subst hf
            exact ⟨hsnap, hlt, by simp, by simp, by simp⟩
          · intro _; exact hfile
          · intro x hx
            rcases hacc x hx with h' | h' | h' | h'
            · exact Or.inl h'
            · right; left; exact ⟨_, rfl, h'.symm⟩
            · exact Or.inr (Or.inr (Or.inl h'))
            · exact Or.inr (Or.inr (Or.inr h'))
        | false =>
          simp only [Bool.false_eq_true, if_false]
          refine ⟨h.lp_le, h.taken_le, h.top_exists, h.top, h.top_unique, hpsub, ?_, ?_, ?_⟩
          · intro f hf; simp only at hf; cases hf
          · intro _; exact hfile
          · intro x hx
            rcases hacc x hx with h' | h' | h' | h'
            · exact Or.inl h'
            · right; right; right; rw [h']; simp
            · exact Or.inr (Or.inr (Or.inl h'))
            · right; right; right; simp [h']

theorem inv_fail (m0 : Option (List Str)) (s : PState) (f : Inflight) (h : Inv m0 s)
    (hf : s.inflight = some f) (hst : f.stage ≠ .renamed) : Inv m0 (failInflight s f) := by
  unfold failInflight
  refine ⟨h.lp_le, h.taken_le, h.top_exists, h.top, h.top_unique, h.pending_sub, ?_, ?_, ?_⟩
  · intro g hg; simp at hg
  · intro _
    exact h.file (by intro g hg; rw [hf] at hg; simp only [Option.some.injEq] at hg; rw [← hg]; exact hst)
  · intro x hx
    rcases h.accounted x hx with h' | ⟨g, hg, hgx⟩ | h' | h'
    · exact Or.inl h'
    · rw [hf] at hg; simp only [Option.some.injEq] at hg
      right; right; right
      simp only [List.mem_cons]; left; rw [← hgx, ← hg]
    · exact Or.inr (Or.inr (Or.inl h'))
    · right; right; right; simp only [List.mem_cons]; exact Or.inr h'

theorem inv_update (m0 : Option (List Str)) (s : PState) (f f' : Inflight) (h : Inv m0 s)
    (hf : s.inflight = some f) (hsnap : f'.snap = f.snap)
    (hst : f.stage ≠ .renamed) (hst' : f'.stage ≠ .renamed)
    (hw : f'.written = (render f.snap).take f'.written.length)
    (hw' : f'.stage ≠ .writing → f'.written = render f.snap) :
    Inv m0 { s with inflight := some f' } := by
  obtain ⟨a, b, _, _, _⟩ := h.inflight_ok f hf
  refine ⟨h.lp_le, h.taken_le, h.top_exists, h.top, h.top_unique, h.pending_sub, ?_, ?_, ?_⟩
  · intro g hg
    simp only [Option.some.injEq] at hg
    subst hg
    rw [hsnap]
    exact ⟨a, b, hw, hw', fun e => absurd e hst'⟩
  · intro _
    exact h.file (by intro g hg; rw [hf] at hg; simp only [Option.some.injEq] at hg; rw [← hg]; exact hst)
  · intro x hx
    rcases h.accounted x hx with h' | ⟨g, hg, hgx⟩ | h' | h'
    · exact Or.inl h'
    · rw [hf] at hg; simp only [Option.some.injEq] at hg
      right; left
      exact ⟨f', rfl, by rw [hsnap, hg]; exact hgx⟩
    · exact Or.inr (Or.inr (Or.inl h'))
    · exact Or.inr (Or.inr (Or.inr h'))

theorem inv_write (m0 : Option (List Str)) (s : PState) (ok : Bool) (h : Inv m0 s) :
    Inv m0 (step s (.write ok)) := by
  unfold step
  simp only
  cases hin : s.inflight with
  | none => simp only; exact h
  | some f =>
    simp only
    by_cases hc : f.stage = .writing ∧ f.written.length < (render f.snap).length
    · rw [if_pos hc]
      have hst : f.stage ≠ .renamed := by rw [hc.1]; decide
      cases ok with
      | false => simp only [Bool.false_eq_true, if_false]; exact inv_fail m0 s f h hin hst
      | true =>
        simp only [if_true]
        have := inv_update m0 s f { f with written := (render f.snap).take (f.written.length + 1) } h hin rfl hst
          (by simp only; exact hst)
          (by simp only [List.length_take]; rw [Nat.min_eq_left (by omega)])
          (by simp only; intro hne; exact absurd hc.1 hne)
        exact this
    · rw [if_neg hc]; exact h

theorem inv_sync (m0 : Option (List Str)) (s : PState) (ok : Bool) (h : Inv m0 s) :
    Inv m0 (step s (.sync ok)) := by
  unfold step
  simp only
  cases hin : s.inflight with
  | none => simp only; exact h
  | some f =>
    simp only
    by_cases hc : f.stage = .writing ∧ f.written.length = (render f.snap).length
    · rw [if_pos hc]
      have hst : f.stage ≠ .renamed := by rw [hc.1]; decide
      obtain ⟨_, _, hpre, _, _⟩ := h.inflight_ok f hin
      have hfull : f.written = render f.snap := by rw [hpre, hc.2, List.take_length]
      cases ok with
      | false => simp only [Bool.false_eq_true, if_false]; exact inv_fail m0 s f h hin hst
      | true =>
        simp only [if_true]
        have := inv_update m0 s f { f with stage := .synced } h hin rfl hst
          (by simp) (by simp only; exact hpre) (by simp only; intro _; exact hfull)
        exact this
    · rw [if_neg hc]; exact h

theorem inv_close (m0 : Option (List Str)) (s : PState) (ok : Bool) (h : Inv m0 s) :
    Inv m0 (step s (.close ok)) := by
  unfold step
  simp only
  cases hin : s.inflight with
  | none => simp only; exact h
  | some f =>
    simp only
    by_cases hc : f.stage = .synced
    · rw [if_pos hc]
      have hst : f.stage ≠ .renamed := by rw [hc]; decide
      obtain ⟨_, _, hpre, hfull, _⟩ := h.inflight_ok f hin
      cases ok with
      | false => simp only [Bool.false_eq_true, if_false]; exact inv_fail m0 s f h hin hst
      | true =>
        simp only [if_true]
        have := inv_update m0 s f { f with stage := .closed } h hin rfl hst
          (by simp) (by simp only; exact hpre) (by simp only; intro _; exact hfull (by rw [hc]; decide))
        exact this
    · rw [if_neg hc]; exact h

theorem inv_rename (m0 : Option (List Str)) (s : PState) (ok : Bool) (h : Inv m0 s) :
    Inv m0 (step s (.rename ok)) := by
  unfold step
  simp only
  cases hin : s.inflight with
  | none => simp only; exact h
  | some f =>
    simp only
    by_cases hc : f.stage = .closed
    · rw [if_pos hc]
      have hst : f.stage ≠ .renamed := by rw [hc]; decide
      obtain ⟨a, b, hpre, hfull, _⟩ := h.inflight_ok f hin
      have hw : f.written = render f.snap := hfull (by rw [hc]; decide)
      cases ok with
      | false => simp only [Bool.false_eq_true, if_false]; exact inv_fail m0 s f h hin hst
      | true =>
        simp only [if_true]
        refine ⟨h.lp_le, h.taken_le, h.top_exists, h.top, h.top_unique, h.pending_sub, ?_, ?_, ?_⟩
        · intro g hg
          simp only [Option.some.injEq] at hg
          subst hg
          exact ⟨a, b, hpre, fun _ => hw, fun _ => by rw [hw]⟩
        · intro hno
          exact absurd rfl (hno _ rfl)
        · intro x hx
          rcases h.accounted x hx with h' | ⟨g, hg, hgx⟩ | h' | h'
          · exact Or.inl h'
          · rw [hin] at hg; simp only [Option.some.injEq] at hg
            right; left
            exact ⟨_, rfl, by simp only; rw [hg]; exact hgx⟩
          · exact Or.inr (Or.inr (Or.inl h'))
          · exact Or.inr (Or.inr (Or.inr h'))
    · rw [if_neg hc]; exact h

theorem inv_commit (m0 : Option (List Str)) (s : PState) (h : Inv m0 s) :
    Inv m0 (step s .commit) := by
  unfold step
  simp only
  cases hin : s.inflight with
  | none => simp only; exact h
  | some f =>
    simp only
    by_cases hc : f.stage = .renamed
    · rw [if_pos hc]
      obtain ⟨a, b, _, _, hmain⟩ := h.inflight_ok f hin
      have hle := (h.taken_le f.snap a).2
      refine ⟨hle, h.taken_le, h.top_exists, h.top, h.top_unique, h.pending_sub, ?_, ?_, ?_⟩
      · intro g hg; simp at hg
      · intro _
        exact Or.inr ⟨f.snap, a, rfl, hmain hc⟩
      · intro x hx
        rcases h.accounted x hx with h' | ⟨g, hg, hgx⟩ | h' | h'
        · exact Or.inl h'
        · rw [hin] at hg; simp only [Option.some.injEq] at hg
          right; right; left
          simp only; rw [← hgx, hg]; exact Nat.le_refl _
        · right; right; left; simp only; omega
        · exact Or.inr (Or.inr (Or.inr h'))
    · rw [if_neg hc]; exact h

/-- a directory reload touches no file and no persistence bookkeeping; if it
changes memory the state is marked dirty (the newest snapshot is no longer the
memory) until the next snapshot. -/
theorem inv_dirLoad (m0 : Option (List Str)) (s : PState) (h : Inv m0 s) : Inv m0 (step s .dirLoad) := by
  unfold step
  simp only
  generalize hm : dirLoadMem s.mem s.main _ = mem'
  by_cases he : mem' = s.mem
  · rw [he]
    simp only [ne_eq, not_true_eq_false, decide_false, Bool.or_false]
    exact ⟨h.lp_le, h.taken_le, h.top_exists, h.top, h.top_unique, h.pending_sub, h.inflight_ok, h.file, h.accounted⟩
  · have hd : (s.dirty || decide (mem' ≠ s.mem)) = true := by simp [he]
    refine ⟨h.lp_le, h.taken_le, h.top_exists, ?_, ?_, h.pending_sub, h.inflight_ok, h.file, h.accounted⟩
    · intro hdirty; simp only [hd] at hdirty; cases hdirty
    · intro hdirty; simp only [hd] at hdirty; cases hdirty

theorem inv_step (m0 : Option (List Str)) (s : PState) (st : Step) (h : Inv m0 s) : Inv m0 (step s st) := by
  cases st with
  | mutate op => exact inv_mutate m0 s op h
  | begin i ok => exact inv_begin m0 s i ok h
  | write ok => exact inv_write m0 s ok h
  | sync ok => exact inv_sync m0 s ok h
  | close ok => exact inv_close m0 s ok h
  | rename ok => exact inv_rename m0 s ok h
  | commit => exact inv_commit m0 s h
  | dirLoad => exact inv_dirLoad m0 s h
  | mkdir =>
    exact ⟨h.lp_le, h.taken_le, h.top_exists, h.top, h.top_unique, h.pending_sub, h.inflight_ok, h.file, h.accounted⟩

theorem inv_run (m0 : Option (List Str)) (s : PState) (steps : List Step) (h : Inv m0 s) : Inv m0 (run s steps) := by
  induction steps generalizing s with
  | nil => exact h
  | cons st t ih => exact ih (step s st) (inv_step m0 s st h)

/-! ### reload -/

/-- the text of a wildcard entry whose stored suffix is `s`. -/
def wildName (s : Str) : Str := '*' :: '.' :: s

/-- what `setLocked` guarantees about the maps it builds (with a properly escaped
key: `canonical` is a fixpoint on it) -/
structure WF (b : Mem) : Prop where
  canon_m : ∀ e ∈ b.m, canonical e = e
  canon_w : ∀ s ∈ b.wild, canonical (wildName s) = wildName s
  nowild_m : ∀ e ∈ b.m, isWildKey e = false
  nowl_m : ∀ e ∈ b.m, ¬ Hit e b.w
  nowl_w : ∀ s ∈ b.wild, ¬ Hit (wildName s) b.w

/-- the block side of `Exists` (whitelist aside). -/
def Cov (r : Mem) (k : Str) : Prop := Hit k r.m ∨ ∃ s ∈ dotSuffixes k, s ∈ r.wild

theorem exists_iff_cov (r : Mem) (k : Str) (hc : canonical k = k) :
    «exists» r k = true ↔ ¬ Hit k r.w ∧ Cov r k := by
  unfold «exists»; rw [hc, existsCanon_iff]; rfl

/-- the names `b` stands for, as the file lists them. -/
def IsNameOf (b : Mem) (n : Str) : Prop := n ∈ b.m ∨ ∃ s ∈ b.wild, n = wildName s

theorem mem_insertKey (l : List Str) (k x : Str) : x ∈ insertKey l k ↔ x ∈ l ∨ x = k := by
  unfold insertKey
  split
  · rename_i h
    constructor
    · exact Or.inl
    · rintro (h' | rfl)
      · exact h'
      · exact h
  · simp

theorem isWildKey_wildName (s : Str) : isWildKey (wildName s) = true := rfl

theorem dotSuffixes_wildName (s : Str) :
    dotSuffixes (wildName s) = if s = [] then [] else s :: dotSuffixes s := by
  unfold wildName dotSuffixes
  have h1 : ¬ ('*' = '\\') := by decide
  have h2 : ¬ ('*' = '.') := by decide
  have h3 : ¬ ('.' = '\\') := by decide
  simp only [dotSuffixesAux, h1, h2, h3, if_false, if_true]

/-- `r` holds a subset of `b`'s entries under the same whitelist. -/
structure Sub (r b : Mem) : Prop where
  m : ∀ e ∈ r.m, e ∈ b.m
  wild : ∀ s ∈ r.wild, s ∈ b.wild
  w : r.w = b.w

theorem Cov_mono (r r' : Mem) (hm : ∀ e ∈ r.m, e ∈ r'.m) (hw : ∀ s ∈ r.wild, s ∈ r'.wild) (k : Str)
    (h : Cov r k) : Cov r' k := by
  rcases h with (h | ⟨s, hs, h⟩) | ⟨s, hs, h⟩
  · exact Or.inl (Or.inl (hm _ h))
  · exact Or.inl (Or.inr ⟨s, hs, hm _ h⟩)
  · exact Or.inr ⟨s, hs, hw _ h⟩

/-- one loader step for a name of `b`: stays inside `b`, only grows, and afterwards
the name is covered (or, for a wildcard, present). -/
theorem loadName_spec (b r : Mem) (hwf : WF b) (hsub : Sub r b) (n : Str) (hn : IsNameOf b n) :
    Sub (loadName r n) b ∧
    (∀ e ∈ r.m, e ∈ (loadName r n).m) ∧ (∀ s ∈ r.wild, s ∈ (loadName r n).wild) ∧
    (n ∈ b.m → Cov (loadName r n) n) ∧
    (∀ s ∈ b.wild, n = wildName s → Cov (loadName r n) n ∨ s ∈ (loadName r n).wild) ∧
    («exists» r n = false → (n ∈ b.m → n ∈ (loadName r n).m) ∧ (∀ s ∈ b.wild, n = wildName s → s ∈ (loadName r n).wild)) := by
  have hcn : canonical n = n := by
    rcases hn with h | ⟨s, hs, rfl⟩
    · exact hwf.canon_m n h
    · exact hwf.canon_w s hs
  have hnowl : ¬ Hit n r.w := by
    rw [hsub.w]
    rcases hn with h | ⟨s, hs, rfl⟩
    · exact hwf.nowl_m n h
    · exact hwf.nowl_w s hs
  unfold loadName
  simp only [hcn]
  cases hex : «exists» r n with
  | true =>
    simp only [if_true]
    have hcov := ((exists_iff_cov r n hcn).mp hex).2
    exact ⟨hsub, fun e h => h, fun s h => h, fun _ => hcov, fun s _ _ => Or.inl hcov, fun h => by cases h⟩
  | false =>
    simp only [Bool.false_eq_true, if_false]
    have hmh : matchHierarchy n r.w = false := by
      cases hh : matchHierarchy n r.w with
      | false => rfl
      | true => exact absurd ((matchHierarchy_iff n r.w).mp hh) hnowl
    unfold setLocked
    simp only [hcn, hmh, Bool.false_eq_true, if_false]
    rcases hn with h | ⟨s, hs, rfl⟩
    · have hnw := hwf.nowild_m n h
      simp only [hnw, Bool.false_eq_true, if_false]
      refine ⟨⟨?_, hsub.wild, hsub.w⟩, ?_, fun s h => h, ?_, ?_, ?_⟩
      · intro e he
        rcases (mem_insertKey _ _ _).mp he with h' | rfl
        · exact hsub.m e h'
        · exact h
      · intro e he; exact (mem_insertKey _ _ _).mpr (Or.inl he)
      · intro _; exact Or.inl (Or.inl ((mem_insertKey _ _ _).mpr (Or.inr rfl)))
      · intro s hs hns
        rw [hns, isWildKey_wildName] at hnw; cases hnw
      · intro _
        exact ⟨fun _ => (mem_insertKey _ _ _).mpr (Or.inr rfl),
               fun s hs hns => by rw [hns, isWildKey_wildName] at hnw; cases hnw⟩
    · simp only [isWildKey_wildName, if_true]
      have hdrop : (wildName s).drop 2 = s := rfl
      rw [hdrop]
      refine ⟨⟨hsub.m, ?_, hsub.w⟩, fun e h => h, ?_, ?_, ?_, ?_⟩
      · intro t ht
        rcases (mem_insertKey _ _ _).mp ht with h' | rfl
        · exact hsub.wild t h'
        · exact hs
      · intro t ht; exact (mem_insertKey _ _ _).mpr (Or.inl ht)
      · intro hm
        have := hwf.nowild_m _ hm
        rw [isWildKey_wildName] at this; cases this
      · intro s' _ hs'
        have : s' = s := by unfold wildName at hs'; simpa using hs'.symm
        right; rw [this]; exact (mem_insertKey _ _ _).mpr (Or.inr rfl)
      · intro _
        refine ⟨fun hm => ?_, fun s' _ hs' => ?_⟩
        · have := hwf.nowild_m _ hm
          rw [isWildKey_wildName] at this; cases this
        · have : s' = s := by unfold wildName at hs'; simpa using hs'.symm
          rw [this]; exact (mem_insertKey _ _ _).mpr (Or.inr rfl)

theorem loadNames_spec (b : Mem) (hwf : WF b) (names : List Str) (hall : ∀ n ∈ names, IsNameOf b n) :
    ∀ r, Sub r b →
    Sub (loadNames r names) b ∧
    (∀ e ∈ r.m, e ∈ (loadNames r names).m) ∧ (∀ s ∈ r.wild, s ∈ (loadNames r names).wild) ∧
    (∀ n ∈ names, n ∈ b.m → Cov (loadNames r names) n) ∧
    (∀ n ∈ names, ∀ s ∈ b.wild, n = wildName s → Cov (loadNames r names) n ∨ s ∈ (loadNames r names).wild) := by
  induction names with
  | nil => intro r hsub; exact ⟨hsub, fun e h => h, fun s h => h, by simp, by simp⟩
  | cons n t ih =>
    intro r hsub
    have hn := hall n (by simp)
    obtain ⟨hs1, hm1, hw1, hc1, hc2, _⟩ := loadName_spec b r hwf hsub n hn
    obtain ⟨hsR, hmR, hwR, hcR, hcR2⟩ := ih (fun x hx => hall x (List.mem_cons_of_mem _ hx)) (loadName r n) hs1
    have hfold : loadNames r (n :: t) = loadNames (loadName r n) t := rfl
    rw [hfold]
    refine ⟨hsR, fun e he => hmR e (hm1 e he), fun s hs => hwR s (hw1 s hs), ?_, ?_⟩
    · intro x hx hxm
      rcases List.mem_cons.mp hx with rfl | hx
      · exact Cov_mono _ _ hmR hwR _ (hc1 hxm)
      · exact hcR x hx hxm
    · intro x hx s hs hxs
      rcases List.mem_cons.mp hx with rfl | hx
      · rcases hc2 s hs hxs with h | h
        · exact Or.inl (Cov_mono _ _ hmR hwR _ h)
        · exact Or.inr (hwR s h)
      · exact hcR2 x hx s hs hxs

/-- no entry is covered by another one. -/
def NoCover (b : Mem) : Prop :=
  (∀ e ∈ b.m, ∀ t ∈ dotSuffixes e, t ∉ b.m ∧ t ∉ b.wild) ∧
  (∀ s ∈ b.wild, s ∉ b.m ∧ ∀ t ∈ dotSuffixes s, t ∉ b.m ∧ t ∉ b.wild)

theorem loadNames_exact (b : Mem) (hwf : WF b) (hnc : NoCover b) (names : List Str)
    (hall : ∀ n ∈ names, IsNameOf b n) :
    ∀ r, Sub r b →
    (∀ n ∈ names, n ∈ b.m → n ∈ (loadNames r names).m) ∧
    (∀ n ∈ names, ∀ s ∈ b.wild, n = wildName s → s ∈ (loadNames r names).wild) := by
  induction names with
  | nil => intro r _; simp
  | cons n t ih =>
    intro r hsub
    have hn := hall n (by simp)
    have hall' : ∀ x ∈ t, IsNameOf b x := fun x hx => hall x (List.mem_cons_of_mem _ hx)
    obtain ⟨hs1, hm1, hw1, _, _, hadd⟩ := loadName_spec b r hwf hsub n hn
    obtain ⟨_, hmR, hwR, _, _⟩ := loadNames_spec b hwf t hall' (loadName r n) hs1
    obtain ⟨ihm, ihw⟩ := ih hall' (loadName r n) hs1
    have hfold : loadNames r (n :: t) = loadNames (loadName r n) t := rfl
    rw [hfold]
    have hcn : canonical n = n := by
      rcases hn with h | ⟨s, hs, rfl⟩
      · exact hwf.canon_m n h
      · exact hwf.canon_w s hs
    constructor
    · intro x hx hxm
      rcases List.mem_cons.mp hx with rfl | hx
      · apply hmR
        cases hex : «exists» r x with
        | false => exact (hadd hex).1 hxm
        | true =>
          have hcov := ((exists_iff_cov r x hcn).mp hex).2
          rcases hcov with (h | ⟨s, hs, h⟩) | ⟨s, hs, h⟩
          · exact hm1 x h
          · exact absurd (hsub.m s h) (hnc.1 x hxm s hs).1
          · exact absurd (hsub.wild s h) (hnc.1 x hxm s hs).2
      · exact ihm x hx hxm
    · intro x hx s hs hxs
      rcases List.mem_cons.mp hx with rfl | hx
      · apply hwR
        cases hex : «exists» r x with
        | false => exact (hadd hex).2 s hs hxs
        | true =>
          have hcov := ((exists_iff_cov r x hcn).mp hex).2
          subst hxs
          have hns := hnc.2 s hs
          rw [Cov, Hit, dotSuffixes_wildName] at hcov
          by_cases hs0 : s = []
          · simp only [hs0, if_true, List.not_mem_nil, false_and, exists_false, or_false] at hcov
            have := hwf.nowild_m _ (hsub.m _ hcov)
            rw [isWildKey_wildName] at this; cases this
          · simp only [hs0, if_false, List.mem_cons] at hcov
            rcases hcov with (h | ⟨t', ht', h⟩) | ⟨t', ht', h⟩
            · have := hwf.nowild_m _ (hsub.m _ h)
              rw [isWildKey_wildName] at this; cases this
            · rcases ht' with rfl | ht'
              · exact absurd (hsub.m _ h) hns.1
              · exact absurd (hsub.m _ h) (hns.2 t' ht').1
            · rcases ht' with rfl | ht'
              · exact hw1 _ h
              · exact absurd (hsub.wild _ h) (hns.2 t' ht').2
      · exact ihw x hx s hs hxs


/-! ### `setLocked` / `removeLocked` keep the maps well-formed -/

theorem wildName_drop (k : Str) (h : isWildKey k = true) : k = wildName (k.drop 2) := by
  unfold isWildKey at h
  split at h
  · rfl
  · cases h

theorem wf_setLocked (b : Mem) (k : Str) (hwf : WF b) (hk : isFqdn (fqdn k) = true) :
    WF (setLocked b k).1 := by
  have hidem := canonical_idem k hk
  unfold setLocked
  simp only
  cases hmh : matchHierarchy (canonical k) b.w with
  | true => simp only [if_true]; exact hwf
  | false =>
    have hnowl : ¬ Hit (canonical k) b.w := fun h => by
      rw [(matchHierarchy_iff _ _).mpr h] at hmh; cases hmh
    simp only [Bool.false_eq_true, if_false]
    cases hwk : isWildKey (canonical k) with
    | true =>
      simp only [if_true]
      have hkey := wildName_drop _ hwk
      refine ⟨hwf.canon_m, ?_, hwf.nowild_m, hwf.nowl_m, ?_⟩
      · intro s hs
        rcases (mem_insertKey _ _ _).mp hs with h | rfl
        · exact hwf.canon_w s h
        · rw [← hkey]; exact hidem
      · intro s hs
        rcases (mem_insertKey _ _ _).mp hs with h | rfl
        · exact hwf.nowl_w s h
        · rw [← hkey]; exact hnowl
    | false =>
      simp only [Bool.false_eq_true, if_false]
      refine ⟨?_, hwf.canon_w, ?_, ?_, hwf.nowl_w⟩
      · intro e he
        rcases (mem_insertKey _ _ _).mp he with h | rfl
        · exact hwf.canon_m e h
        · exact hidem
      · intro e he
        rcases (mem_insertKey _ _ _).mp he with h | rfl
        · exact hwf.nowild_m e h
        · exact hwk
      · intro e he
        rcases (mem_insertKey _ _ _).mp he with h | rfl
        · exact hwf.nowl_m e h
        · exact hnowl

theorem wf_removeLocked (b : Mem) (k : Str) (hwf : WF b) : WF (removeLocked b k).1 := by
  unfold removeLocked
  simp only
  split
  · exact ⟨fun e he => hwf.canon_m e (List.mem_of_mem_erase he), hwf.canon_w,
           fun e he => hwf.nowild_m e (List.mem_of_mem_erase he),
           fun e he => hwf.nowl_m e (List.mem_of_mem_erase he), hwf.nowl_w⟩
  · split
    · exact ⟨hwf.canon_m, fun s hs => hwf.canon_w s (List.mem_of_mem_erase hs), hwf.nowild_m, hwf.nowl_m,
             fun s hs => hwf.nowl_w s (List.mem_of_mem_erase hs)⟩
    · exact hwf

/-! ### a well-formed name renders fully qualified -/

/-- number of backslashes at the end of `l`. -/
def trailingBs (l : Str) : Nat := (l.reverse.takeWhile (· == '\\')).length

theorem trailingBs_snoc (l : Str) (c : Char) :
    trailingBs (l ++ [c]) = if c = '\\' then trailingBs l + 1 else 0 := by
  unfold trailingBs
  simp only [List.reverse_append, List.reverse_cons, List.reverse_nil, List.nil_append, List.cons_append,
    List.takeWhile_cons]
  by_cases h : c = '\\'
  · simp [h]
  · simp [h]

theorem labelScan_snoc (e : Bool) (l : Str) (c : Char) :
    labelScan e (l ++ [c]) =
      match labelScan e l with
      | none => none
      | some true => some false
      | some false => if c = '\\' then some true else if c = '.' then none else some false := by
  induction l generalizing e with
  | nil =>
    cases e with
    | true => simp [labelScan]
    | false =>
      simp only [List.nil_append, labelScan]
  | cons a t ih =>
    cases e with
    | true => simp only [List.cons_append, labelScan]; exact ih false
    | false =>
      simp only [List.cons_append, labelScan]
      by_cases hb : a = '\\'
      · simp only [hb, if_true]; exact ih true
      · simp only [hb, if_false]
        by_cases hc : a = '.'
        · simp [hc]
        · simp only [hc, if_false]; exact ih false

/-- the automaton's final state is the parity of the trailing backslashes. -/
theorem labelScan_parity (r : Str) : ∀ s, labelScan false r.reverse = some s → (s = true ↔ trailingBs r.reverse % 2 = 1) := by
  induction r with
  | nil => intro s h; simp [labelScan] at h; subst h; simp [trailingBs]
  | cons c t ih =>
    intro s h
    simp only [List.reverse_cons] at h ⊢
    rw [labelScan_snoc] at h
    rw [trailingBs_snoc]
    cases hl : labelScan false t.reverse with
    | none => rw [hl] at h; cases h
    | some s' =>
      rw [hl] at h
      have ih' := ih s' hl
      cases s' with
      | true =>
        simp only [Option.some.injEq] at h
        subst h
        have : trailingBs t.reverse % 2 = 1 := ih'.mp rfl
        by_cases hb : c = '\\'
        · simp [hb]; omega
        · simp [hb]
      | false =>
        have hev : ¬ trailingBs t.reverse % 2 = 1 := fun e => by have := ih'.mpr e; cases this
        simp only at h
        by_cases hb : c = '\\'
        · simp only [hb, if_true, Option.some.injEq] at h ⊢
          subst h; simp; omega
        · simp only [hb, if_false] at h ⊢
          by_cases hc : c = '.'
          · simp [hc] at h
          · simp only [hc, if_false, Option.some.injEq] at h
            subst h; simp

theorem LabelOK_trailing_even (l : Str) (h : LabelOK l) : trailingBs l % 2 = 0 := by
  have := labelScan_parity l.reverse false (by rw [List.reverse_reverse]; exact h.2)
  rw [List.reverse_reverse] at this
  have h' : ¬ trailingBs l % 2 = 1 := fun e => by have := this.mpr e; cases this
  omega

/-- the rendered form of a well-formed name ends with its last label and a dot. -/
theorem join_snoc (n : Name) (hn : n ≠ []) : ∃ pre l, l ∈ n ∧ join n = pre ++ l ++ ['.'] ∧ (pre = [] ∨ ∃ p, pre = p ++ ['.']) := by
  induction n with
  | nil => exact absurd rfl hn
  | cons a t ih =>
    by_cases ht : t = []
    · subst ht
      exact ⟨[], a, by simp, by simp [join], Or.inl rfl⟩
    · obtain ⟨pre, l, hl, hj, hp⟩ := ih ht
      refine ⟨a ++ '.' :: pre, l, List.mem_cons_of_mem _ hl, by simp [join, hj], Or.inr ?_⟩
      rcases hp with rfl | ⟨p, rfl⟩
      · exact ⟨a, by simp⟩
      · exact ⟨a ++ '.' :: p, by simp⟩

/-- a well-formed name renders fully qualified in the sense of `dns.IsFqdn`. -/
theorem isFqdn_pres (n : Name) (hn : NameOK n) : isFqdn (pres n) = true := by
  by_cases h0 : n = []
  · subst h0; decide
  · rw [pres_of_ne_nil n h0]
    obtain ⟨pre, l, hl, hj, hp⟩ := join_snoc n h0
    have hev := LabelOK_trailing_even l (hn l hl)
    rw [hj]
    unfold isFqdn
    simp only [List.reverse_append, List.reverse_cons, List.reverse_nil, List.nil_append, List.cons_append]
    have hcnt : (List.takeWhile (fun x => x == '\\') (l.reverse ++ pre.reverse)).length = trailingBs l := by
      unfold trailingBs
      rw [List.takeWhile_append]
      split
      · rename_i hall
        rcases hp with rfl | ⟨p, rfl⟩
        · simp [hall]
        · simp only [List.reverse_append, List.reverse_cons, List.reverse_nil, List.nil_append, List.cons_append,
            List.takeWhile_cons]
          have : ('.' == '\\') = false := by decide
          simp [this, hall]
      · rfl
    simp only [hcnt, hev]
    rfl


/-! ### the file text -/

/-- a key the host-file syntax leaves alone: not empty, no white space, no `#`. -/
def CleanName (e : Str) : Prop := e ≠ [] ∧ ∀ c ∈ e, isSpace c = false ∧ c ≠ '#'

theorem fieldsAux_nospace (e cur : Str) (h : ∀ c ∈ e, isSpace c = false) :
    fieldsAux e cur = if cur.reverse ++ e = [] then [] else [cur.reverse ++ e] := by
  induction e generalizing cur with
  | nil => simp [fieldsAux]
  | cons c t ih =>
    have hc : isSpace c = false := h c (by simp)
    simp only [fieldsAux, hc, Bool.false_eq_true, if_false]
    rw [ih (c :: cur) (fun x hx => h x (List.mem_cons_of_mem _ hx))]
    simp

theorem dropWhile_head_false {α} (p : α → Bool) (l : List α) (h : ∀ a, l.head? = some a → p a = false) :
    l.dropWhile p = l := by
  cases l with
  | nil => rfl
  | cons a t => simp [h a rfl]

theorem trimSpace_clean (e : Str) (h : ∀ c ∈ e, isSpace c = false) : trimSpace e = e := by
  unfold trimSpace
  rw [dropWhile_head_false isSpace e (by
    intro a ha
    exact h a (List.mem_of_mem_head? ha))]
  rw [dropWhile_head_false isSpace e.reverse (by
    intro a ha
    exact h a (List.mem_reverse.mp (List.mem_of_mem_head? ha)))]
  exact List.reverse_reverse e

theorem parseLine_clean (e : Str) (h : CleanName e) : parseLine e = [e] := by
  obtain ⟨hne, hc⟩ := h
  have hsp : ∀ c ∈ e, isSpace c = false := fun c hc' => (hc c hc').1
  have hhead : e.head? ≠ some '#' := by
    intro hh
    exact (hc '#' (List.mem_of_mem_head? hh)).2 rfl
  have hany : e.any (· = '#') = false := by
    rw [List.any_eq_false]
    intro c hc'
    simpa using (hc c hc').2
  unfold parseLine
  simp only [trimSpace_clean e hsp, hne, hhead, or_self, if_false, cutHash, hany, Bool.false_eq_true]
  unfold fields
  rw [fieldsAux_nospace e [] hsp]
  simp [hne, hhead]

/-- the end-of-line handling of `bufio.ScanLines` on the reversed accumulator. -/
def stripCR (cur : Str) : Str :=
  match cur with
  | '\r' :: r => r.reverse
  | _ => cur.reverse

theorem scanLinesAux_line (l rest cur : Str) (h : ∀ c ∈ l, c ≠ '\n') :
    scanLinesAux (l ++ '\n' :: rest) cur = stripCR (l.reverse ++ cur) :: scanLinesAux rest [] := by
  induction l generalizing cur with
  | nil =>
    simp only [List.nil_append, List.reverse_nil, scanLinesAux, if_true]
    rfl
  | cons c t ih =>
    have hc : c ≠ '\n' := h c (by simp)
    simp only [List.cons_append, scanLinesAux, hc, if_false]
    rw [ih (c :: cur) (fun x hx => h x (List.mem_cons_of_mem _ hx))]
    simp

theorem scanLines_fileText (lines : List Str) (h : ∀ l ∈ lines, ∀ c ∈ l, c ≠ '\n' ∧ c ≠ '\r') :
    scanLines (fileText lines) = lines := by
  unfold scanLines
  induction lines with
  | nil => simp [fileText, scanLinesAux]
  | cons l t ih =>
    have hl := h l (by simp)
    have : fileText (l :: t) = l ++ '\n' :: fileText t := by simp [fileText]
    rw [this, scanLinesAux_line l _ [] (fun c hc => (hl c hc).1), ih (fun x hx => h x (List.mem_cons_of_mem _ hx))]
    congr 1
    simp only [List.append_nil]
    unfold stripCR
    cases hr : l.reverse with
    | nil => simp [List.reverse_eq_nil_iff.mp hr]
    | cons a r =>
      have ha : a ≠ '\r' := (hl a (List.mem_reverse.mp (by rw [hr]; simp))).2
      have : (a :: r).reverse = l := by rw [← hr, List.reverse_reverse]
      split
      · rename_i heq; simp only [List.cons.injEq] at heq; exact absurd heq.1 ha
      · exact this

theorem clean_no_newline (e : Str) (h : CleanName e) : ∀ c ∈ e, c ≠ '\n' ∧ c ≠ '\r' := by
  intro c hc
  have := (h.2 c hc).1
  constructor
  · intro e'; subst e'; simp [isSpace] at this
  · intro e'; subst e'; simp [isSpace] at this

/-- **the bytes `persist` writes parse back to the names of the snapshot** when every
name is clean (the header is skipped as a comment). -/
theorem parseHostFile_fileText (r : Mem) (s : Snap) (hclean : ∀ n ∈ snapNames s, CleanName n) :
    parseHostFile r (fileText (render s)) = loadNames r (snapNames s) := by
  unfold parseHostFile
  have hlines : ∀ l ∈ render s, ∀ c ∈ l, c ≠ '\n' ∧ c ≠ '\r' := by
    intro l hl
    unfold render at hl
    rcases List.mem_cons.mp hl with rfl | hl
    · decide
    · exact clean_no_newline l (hclean l hl)
  rw [scanLines_fileText _ hlines]
  congr 1
  unfold render
  have hh : parseLine headerLine = [] := by decide
  simp only [List.flatMap_cons, hh, List.nil_append]
  show List.flatMap parseLine (snapNames s) = snapNames s
  generalize snapNames s = ns at hclean
  induction ns with
  | nil => rfl
  | cons n t ih =>
    simp only [List.flatMap_cons, parseLine_clean n (hclean n (by simp)), List.singleton_append]
    rw [ih (fun x hx => hclean x (List.mem_cons_of_mem _ hx))]

/-! ### a directory load only adds -/

theorem setLocked_mono (b : Mem) (k : Str) :
    (∀ e ∈ b.m, e ∈ (setLocked b k).1.m) ∧ (∀ e ∈ b.wild, e ∈ (setLocked b k).1.wild) ∧ (setLocked b k).1.w = b.w := by
  unfold setLocked
  simp only
  split
  · exact ⟨fun e h => h, fun e h => h, rfl⟩
  · split
    · exact ⟨fun e h => h, fun e h => (mem_insertKey _ _ _).mpr (Or.inl h), rfl⟩
    · exact ⟨fun e h => (mem_insertKey _ _ _).mpr (Or.inl h), fun e h => h, rfl⟩

theorem loadName_mono (b : Mem) (n : Str) :
    (∀ e ∈ b.m, e ∈ (loadName b n).m) ∧ (∀ e ∈ b.wild, e ∈ (loadName b n).wild) ∧ (loadName b n).w = b.w := by
  unfold loadName
  simp only
  split
  · exact ⟨fun e h => h, fun e h => h, rfl⟩
  · exact setLocked_mono b _

theorem loadNames_mono (b : Mem) (ns : List Str) :
    (∀ e ∈ b.m, e ∈ (loadNames b ns).m) ∧ (∀ e ∈ b.wild, e ∈ (loadNames b ns).wild) ∧ (loadNames b ns).w = b.w := by
  induction ns generalizing b with
  | nil => exact ⟨fun e h => h, fun e h => h, rfl⟩
  | cons n t ih =>
    have h1 := loadName_mono b n
    have h2 := ih (loadName b n)
    have hf : loadNames b (n :: t) = loadNames (loadName b n) t := rfl
    rw [hf]
    exact ⟨fun e h => h2.1 e (h1.1 e h), fun e h => h2.2.1 e (h1.2.1 e h), by rw [h2.2.2, h1.2.2]⟩

theorem parseHostFile_mono (b : Mem) (text : Str) :
    (∀ e ∈ b.m, e ∈ (parseHostFile b text).m) ∧ (∀ e ∈ b.wild, e ∈ (parseHostFile b text).wild) ∧
    (parseHostFile b text).w = b.w := loadNames_mono b _

theorem dirLoadMem_mono (b : Mem) (main : Option (List Str)) (temps : List (List Str)) :
    (∀ e ∈ b.m, e ∈ (dirLoadMem b main temps).m) ∧ (∀ e ∈ b.wild, e ∈ (dirLoadMem b main temps).wild) ∧
    (dirLoadMem b main temps).w = b.w := by
  unfold dirLoadMem
  simp only
  have h1 : ∀ m1 : Mem, (∀ e ∈ b.m, e ∈ m1.m) ∧ (∀ e ∈ b.wild, e ∈ m1.wild) ∧ m1.w = b.w →
      (∀ e ∈ b.m, e ∈ (temps.foldl (fun m ls => parseHostFile m (fileText ls)) m1).m) ∧
      (∀ e ∈ b.wild, e ∈ (temps.foldl (fun m ls => parseHostFile m (fileText ls)) m1).wild) ∧
      (temps.foldl (fun m ls => parseHostFile m (fileText ls)) m1).w = b.w := by
    induction temps with
    | nil => intro m1 h; exact h
    | cons t ts ih =>
      intro m1 h
      simp only [List.foldl_cons]
      apply ih
      have hp := parseHostFile_mono m1 (fileText t)
      exact ⟨fun e he => hp.1 e (h.1 e he), fun e he => hp.2.1 e (h.2.1 e he), by rw [hp.2.2, h.2.2]⟩
  apply h1
  cases main with
  | none => exact ⟨fun e h => h, fun e h => h, rfl⟩
  | some ls => exact parseHostFile_mono b _

/-! ### a loaded name is blocked at once -/

theorem existsCanon_mono (r r' : Mem) (hm : ∀ e ∈ r.m, e ∈ r'.m) (hw : ∀ s ∈ r.wild, s ∈ r'.wild)
    (hwl : r'.w = r.w) (k : Str) (h : existsCanon r k = true) : existsCanon r' k = true := by
  rw [existsCanon_iff] at *
  rw [hwl]
  exact ⟨h.1, Cov_mono r r' hm hw k h.2⟩

/-- right after `if !Exists(c) { set(c) }` the name `c` is blocked, unless the whitelist covers it. -/
theorem loadName_blocks (b : Mem) (n : Str) (hc : canonical (canonical n) = canonical n)
    (hstar : canonical n ≠ ['*', '.']) :
    existsCanon (loadName b n) (canonical n) = true ∨ Hit (canonical n) b.w := by
  unfold loadName
  simp only
  cases hex : «exists» b (canonical n) with
  | true =>
    left
    simp only [if_true]
    unfold «exists» at hex
    rw [hc] at hex
    exact hex
  | false =>
    simp only [Bool.false_eq_true, if_false]
    unfold setLocked
    simp only [hc]
    cases hmh : matchHierarchy (canonical n) b.w with
    | true => right; exact (matchHierarchy_iff _ _).mp hmh
    | false =>
      left
      have hnw : ¬ Hit (canonical n) b.w := fun h => by
        rw [(matchHierarchy_iff _ _).mpr h] at hmh; cases hmh
      simp only [Bool.false_eq_true, if_false]
      cases hwk : isWildKey (canonical n) with
      | true =>
        simp only [if_true]
        rw [existsCanon_iff]
        refine ⟨hnw, Or.inr ⟨(canonical n).drop 2, ?_, (mem_insertKey _ _ _).mpr (Or.inr rfl)⟩⟩
        have hk := wildName_drop _ hwk
        have hne : (canonical n).drop 2 ≠ [] := by
          intro he
          rw [he] at hk
          exact hstar hk
        generalize hs : (canonical n).drop 2 = sfx at hk hne
        rw [hk, dotSuffixes_wildName]
        simp [hne]
      | false =>
        simp only [Bool.false_eq_true, if_false]
        rw [existsCanon_iff]
        exact ⟨hnw, Or.inl (Or.inl ((mem_insertKey _ _ _).mpr (Or.inr rfl)))⟩

theorem loadNames_blocks (b : Mem) (ns : List Str) (n : Str) (hn : n ∈ ns)
    (hc : canonical (canonical n) = canonical n) (hstar : canonical n ≠ ['*', '.']) :
    existsCanon (loadNames b ns) (canonical n) = true ∨ Hit (canonical n) b.w := by
  induction ns generalizing b with
  | nil => cases hn
  | cons x t ih =>
    have hf : loadNames b (x :: t) = loadNames (loadName b x) t := rfl
    rw [hf]
    rcases List.mem_cons.mp hn with rfl | hn'
    · rcases loadName_blocks b n hc hstar with h | h
      · left
        have hm := loadNames_mono (loadName b n) t
        exact existsCanon_mono _ _ hm.1 hm.2.1 hm.2.2 _ h
      · exact Or.inr h
    · rcases ih (loadName b x) hn' with h | h
      · exact Or.inl h
      · right; rw [(loadName_mono b x).2.2] at h; exact h

end SdnsVerif.Lemmas.Blocklist
