import SdnsVerif.Model.Edns
/-! Helper lemmas about the structural pieces of `Model/Edns.lean`. -/
namespace SdnsVerif.Lemmas.Edns
open SdnsVerif.Model.Edns

theorem lastOpt_none_iff (l : List RR) : lastOpt l = none ↔ ∀ r ∈ l, r.isOpt = false := by
  induction l with
  | nil => simp [lastOpt]
  | cons r t ih =>
    unfold lastOpt
    cases h : lastOpt t with
    | some x =>
      simp only [reduceCtorEq, false_iff]
      intro hall
      have := ih.mpr (fun r hr => hall r (List.mem_cons_of_mem _ hr))
      rw [h] at this; cases this
    | none =>
      have ht := ih.mp h
      cases r with
      | data k i c u => simp [RR.isOpt]; exact ht
      | opt o own => simp [RR.isOpt]

theorem any_isOpt_iff_lastOpt (l : List RR) : l.any RR.isOpt = true ↔ lastOpt l ≠ none := by
  rw [Ne, lastOpt_none_iff]
  simp only [List.any_eq_true]
  constructor
  · rintro ⟨r, hr, ho⟩ h; rw [h r hr] at ho; cases ho
  · intro h
    apply Classical.byContradiction
    intro hn
    apply h
    intro r hr
    cases hro : r.isOpt with
    | false => rfl
    | true => exact absurd ⟨r, hr, hro⟩ hn

theorem lastOpt_append_opt (l : List RR) (o : Opt) (b : Bool) : lastOpt (l ++ [.opt o b]) = some (o, b) := by
  induction l with
  | nil => simp [lastOpt]
  | cons r t ih => simp [lastOpt, ih]

theorem lastOpt_mem (l : List RR) (o : Opt) (b : Bool) (h : lastOpt l = some (o, b)) : RR.opt o b ∈ l := by
  induction l with
  | nil => simp [lastOpt] at h
  | cons r t ih =>
    unfold lastOpt at h
    cases ht : lastOpt t with
    | some x =>
      rw [ht] at h
      simp only [Option.some.injEq] at h
      subst h
      exact List.mem_cons_of_mem _ (ih ht)
    | none =>
      rw [ht] at h
      cases r with
      | data k i c u => simp at h
      | opt o' own =>
        simp only [Option.some.injEq, Prod.mk.injEq] at h
        obtain ⟨rfl, rfl⟩ := h
        exact List.mem_cons_self

theorem dropOtherOPTs_any (l : List RR) : (dropOtherOPTs l).any RR.isOpt = l.any RR.isOpt := by
  induction l with
  | nil => rfl
  | cons r t ih =>
    unfold dropOtherOPTs
    by_cases h : (r.isOpt && t.any RR.isOpt) = true
    · simp only [h, if_true, ih]
      simp only [Bool.and_eq_true] at h
      simp [h.1, h.2]
    · simp only [h, Bool.false_eq_true, if_false, List.any_cons, ih]

/-- after `dropOtherOPTs` and `setLastOpt n`, every OPT record of the section is `n`. -/
theorem opt_of_shaped (n : Opt) (l : List RR) :
    ∀ r ∈ setLastOpt n (dropOtherOPTs l), r.isOpt = true → ∃ own, r = RR.opt n own := by
  induction l with
  | nil => simp [dropOtherOPTs, setLastOpt]
  | cons r t ih =>
    unfold dropOtherOPTs
    by_cases h : (r.isOpt && t.any RR.isOpt) = true
    · simp only [h, if_true]; exact ih
    · simp only [h, Bool.false_eq_true, if_false]
      unfold setLastOpt
      by_cases hd : (dropOtherOPTs t).any RR.isOpt = true
      · simp only [hd, if_true]
        intro x hx hxo
        rcases List.mem_cons.mp hx with rfl | hx
        · rw [dropOtherOPTs_any] at hd
          simp [hxo, hd] at h
        · exact ih x hx hxo
      · simp only [hd, Bool.false_eq_true, if_false]
        have hno : ∀ x ∈ dropOtherOPTs t, x.isOpt = false := by
          intro x hx
          cases hxo : x.isOpt with
          | false => rfl
          | true => exact absurd (List.any_eq_true.mpr ⟨x, hx, hxo⟩) hd
        cases r with
        | data k i c u =>
          intro x hx hxo
          rcases List.mem_cons.mp hx with rfl | hx
          · simp [RR.isOpt] at hxo
          · rw [hno x hx] at hxo; cases hxo
        | opt o own =>
          intro x hx hxo
          rcases List.mem_cons.mp hx with rfl | hx
          · exact ⟨own, rfl⟩
          · rw [hno x hx] at hxo; cases hxo

theorem keepOPTOnly_all_opt (l : List RR) : ∀ r ∈ keepOPTOnly l, r.isOpt = true := by
  induction l with
  | nil => simp [keepOPTOnly]
  | cons r t ih =>
    unfold keepOPTOnly
    by_cases h : r.isOpt = true
    · simp only [h, if_true, List.mem_singleton]; intro x hx; rw [hx]; exact h
    · simp only [h, Bool.false_eq_true, if_false]; exact ih

theorem keepOPTOnly_sub (l : List RR) : ∀ r ∈ keepOPTOnly l, r ∈ l := by
  induction l with
  | nil => simp [keepOPTOnly]
  | cons r t ih =>
    unfold keepOPTOnly
    by_cases h : r.isOpt = true
    · simp only [h, if_true, List.mem_singleton]; intro x hx; rw [hx]; exact List.mem_cons_self
    · simp only [h, Bool.false_eq_true, if_false]; intro x hx; exact List.mem_cons_of_mem _ (ih x hx)

theorem forwardedECS_code (b : Bool) (os : List EOpt) : ∀ x ∈ forwardedECS b os, x.code = codeECS := by
  intro x hx
  unfold forwardedECS at hx
  cases b with
  | false => simp at hx
  | true =>
    simp only [if_true] at hx
    cases hl : (os.filter (fun o => o.code == codeECS)).getLast? with
    | none => rw [hl] at hx; simp at hx
    | some e =>
      rw [hl] at hx
      simp only [List.mem_singleton] at hx
      subst hx
      have := List.mem_of_getLast? hl
      simpa using (List.mem_filter.mp this).2

theorem stripECS_of_all_ecs (os : List EOpt) (h : ∀ x ∈ os, x.code = codeECS) : stripECS os = [] := by
  unfold stripECS
  rw [List.filter_eq_nil_iff]
  intro x hx
  simp [h x hx]

/-! ### SetEdns0 and the writer's own options -/

theorem clientDO_of_set0 (c : Consts) (b : Bool) (q : Query)
    (hv : ∀ o, q.opt = some o → o.version = 0) : (setEdns0 c b q.opt).do_ = q.clientDO := by
  unfold Query.clientDO
  cases h : q.opt with
  | none => simp [setEdns0]
  | some o => simp [setEdns0, hv o h]

theorem set0_options_ecs (c : Consts) (b : Bool) (o : Option Opt) :
    ∀ x ∈ (setEdns0 c b o).opt.options, x.code = codeECS := by
  cases o with
  | none => simp [setEdns0]
  | some o =>
    unfold setEdns0
    simp only
    split <;> exact forwardedECS_code b o.options

theorem finishOptions_mem (cfg : Cfg) (w : Writer) (os : List EOpt) (x : EOpt)
    (hx : x ∈ finishOptions cfg w os) :
    (x ∈ os ∧ x.code ≠ codeECS ∧ x.code ≠ codeKeepalive) ∨ (x = .srvKeepalive cfg.kaUnits ∧ w.keepalive = true) := by
  unfold finishOptions stripKeepalive stripECS keepaliveOpts at hx
  rcases List.mem_append.mp hx with h | h
  · left
    simp only [List.mem_filter, bne_iff_ne, ne_eq] at h
    exact ⟨h.1.1, h.1.2, h.2⟩
  · right
    split at h
    · rename_i hk; simp at h; exact ⟨h, hk⟩
    · simp at h

theorem writerOptions_mem (cfg : Cfg) (w : Writer)
    (hecs : ∀ o, w.opt = some o → ∀ x ∈ o.options, x.code = codeECS)
    (x : EOpt) (hx : x ∈ writerOptions cfg w) :
    x.code = codeECS ∨ (∃ c, x = .srvCookie c ∧ w.cookie = some c) ∨
      (x = .srvNsid cfg.nsid ∧ cfg.nsid ≠ [] ∧ w.nsid = true) := by
  unfold writerOptions at hx
  rcases List.mem_append.mp hx with h | h
  · rcases List.mem_append.mp h with h | h
    · left
      cases ho : w.opt with
      | none => rw [ho] at h; simp at h
      | some o => rw [ho] at h; exact hecs o ho x h
    · right; left
      unfold cookieOpts at h
      cases hc : w.cookie with
      | none => rw [hc] at h; simp at h
      | some c =>
        rw [hc] at h
        simp only [List.mem_singleton] at h
        exact ⟨c, h, rfl⟩
  · right; right
    unfold nsidOpts at h
    split at h
    · rename_i hn
      simp only [List.mem_singleton] at h
      exact ⟨h, hn.1, hn.2⟩
    · simp at h

/-! ### a Bool-coded twin of `acceptHeader` (cheap to evaluate in the kernel) -/

/-- `(acceptHeader …).toNat`, written with Boolean tests only. -/
def acceptCode (flags qd an ns ar : Nat) : Nat :=
  if (flags / 32768 % 2 == 1) = true then 1
  else if (!(flags / 2048 % 16 == 0) && !(flags / 2048 % 16 == 4)) = true then 2
  else if (!(qd == 1) || decide (1 < an) || decide (1 < ns) || decide (2 < ar)) = true then 3 else 0

theorem acceptCode_eq (flags qd an ns ar : Nat) :
    acceptCode flags qd an ns ar = (acceptHeader flags qd an ns ar).toNat := by
  unfold acceptCode acceptHeader flagQR flagOpcode
  simp only [Nat.reducePow]
  by_cases h1 : flags / 32768 % 2 = 1
  · simp [h1, Verdict.toNat]
  · by_cases h2 : flags / 2048 % 16 = 0
    · by_cases h3 : qd = 1 <;> by_cases h4 : 1 < an <;> by_cases h5 : 1 < ns <;> by_cases h6 : 2 < ar <;>
        simp [h1, h2, h3, h4, h5, h6, Verdict.toNat]
    · by_cases h2' : flags / 2048 % 16 = 4
      · by_cases h3 : qd = 1 <;> by_cases h4 : 1 < an <;> by_cases h5 : 1 < ns <;> by_cases h6 : 2 < ar <;>
          simp [h1, h2', h3, h4, h5, h6, Verdict.toNat]
      · simp [h1, h2, h2', Verdict.toNat]

/-- entry `i = ((qr*16+opcode)*4+qd)*4+an` of the harness's accept table: the
verdict codes for (ns, ar) ∈ {0..3}², as base-4 digits. -/
def packRow (i : Nat) : Nat :=
  (List.range 16).foldl (fun acc j =>
    acc + acceptCode ((i / 256) * 32768 + (i / 16 % 16) * 2048) (i / 4 % 4) (i % 4) (j / 4) (j % 4) * 4 ^ j) 0

/-! ### frame lemmas for the four steps of `writeMsg` -/

theorem clearDNSSEC_frame (m : Msg) :
    (clearDNSSEC m).id = m.id ∧ (clearDNSSEC m).opcode = m.opcode ∧ (clearDNSSEC m).fl = m.fl ∧
    (clearDNSSEC m).question = m.question ∧ (clearDNSSEC m).rcode = m.rcode ∧ (clearDNSSEC m).extra = m.extra := by
  unfold clearDNSSEC
  split
  · split <;> simp
  · simp

theorem stageDnssec_frame (w : Writer) (m : Msg) :
    (stageDnssec w m).id = m.id ∧ (stageDnssec w m).opcode = m.opcode ∧ (stageDnssec w m).fl = m.fl ∧
    (stageDnssec w m).question = m.question ∧ (stageDnssec w m).rcode = m.rcode ∧ (stageDnssec w m).extra = m.extra := by
  unfold stageDnssec
  split
  · exact clearDNSSEC_frame m
  · simp

theorem shapeOpt_frame (cfg : Cfg) (w : Writer) (m : Msg) :
    (shapeOpt cfg w m).id = m.id ∧ (shapeOpt cfg w m).opcode = m.opcode ∧ (shapeOpt cfg w m).fl = m.fl ∧
    (shapeOpt cfg w m).question = m.question ∧ (shapeOpt cfg w m).rcode = m.rcode ∧
    (shapeOpt cfg w m).answer = m.answer ∧ (shapeOpt cfg w m).ns = m.ns := by
  unfold shapeOpt
  split <;> simp

theorem stageOpt_frame (cfg : Cfg) (w : Writer) (m : Msg) :
    (stageOpt cfg w m).id = m.id ∧ (stageOpt cfg w m).opcode = m.opcode ∧ (stageOpt cfg w m).fl = m.fl ∧
    (stageOpt cfg w m).question = m.question ∧ (stageOpt cfg w m).rcode = m.rcode ∧
    (stageOpt cfg w m).answer = m.answer ∧ (stageOpt cfg w m).ns = m.ns := by
  unfold stageOpt
  split
  · exact shapeOpt_frame cfg w m
  · simp [clearOPT]

theorem stageAD_frame (w : Writer) (m : Msg) :
    (stageAD w m).id = m.id ∧ (stageAD w m).opcode = m.opcode ∧ (stageAD w m).fl.qr = m.fl.qr ∧
    (stageAD w m).question = m.question ∧ (stageAD w m).rcode = m.rcode ∧
    (stageAD w m).answer = m.answer ∧ (stageAD w m).ns = m.ns ∧ (stageAD w m).extra = m.extra := by
  unfold stageAD
  split <;> simp

theorem stageAD_clears (w : Writer) (m : Msg) (h : w.noad = true) : (stageAD w m).fl.ad = false := by
  simp [stageAD, h]

theorem stageTruncate_frame (L Lu : Msg → Nat) (w : Writer) (m : Msg) :
    (stageTruncate L Lu w m).id = m.id ∧ (stageTruncate L Lu w m).opcode = m.opcode ∧
    (stageTruncate L Lu w m).fl.qr = m.fl.qr ∧ (stageTruncate L Lu w m).question = m.question ∧
    (stageTruncate L Lu w m).rcode = m.rcode ∧
    (∀ r ∈ (stageTruncate L Lu w m).extra, r ∈ m.extra) ∧
    (∀ r ∈ (stageTruncate L Lu w m).answer, r ∈ m.answer) ∧
    (∀ r ∈ (stageTruncate L Lu w m).ns, r ∈ m.ns) ∧
    (m.fl.ad = false → (stageTruncate L Lu w m).fl.ad = false) := by
  unfold stageTruncate
  split
  · refine ⟨rfl, rfl, rfl, rfl, rfl, ?_, ?_, ?_, ?_⟩
    · exact keepOPTOnly_sub m.extra
    · simp
    · simp
    · intro _; rfl
  · simp

/-! ### what `writeWire` writes, when it writes -/

theorem writeWire_some (L : Msg → Nat) (cfg : Cfg) (w : Writer) (body r : Msg) (info : WireInfo)
    (h : writeWire L cfg w body info = some r) :
    (w.do_ = true ∨ info.hasDnssec = false) ∧
    ((w.noedns = true ∧ r = wireBody w body info) ∨
     (w.noedns = false ∧ r = withWireOPT cfg w info (wireBody w body info))) ∧
    (w.proto = .udp → L r ≤ w.size) := by
  unfold writeWire at h
  generalize wireBody w body info = b at *
  by_cases h1 : (!w.do_ && info.hasDnssec) = true
  · simp [h1] at h
  · simp only [h1, Bool.false_eq_true, if_false] at h
    have hd : w.do_ = true ∨ info.hasDnssec = false := by
      cases hdo : w.do_ <;> cases hf : info.hasDnssec <;> simp [hdo, hf] at h1 ⊢
    refine ⟨hd, ?_⟩
    generalize hout : (if w.noedns = true then b else withWireOPT cfg w info b) = out at h
    by_cases hov : (w.proto == Proto.udp && decide (L out > w.size)) = true
    · simp [hov] at h
    · simp only [hov, Bool.false_eq_true, if_false, Option.some.injEq] at h
      subst h
      constructor
      · cases hne : w.noedns with
        | true => left; rw [hne] at hout; exact ⟨rfl, by simpa using hout.symm⟩
        | false => right; rw [hne] at hout; exact ⟨rfl, by simpa using hout.symm⟩
      · intro hp
        simp only [hp, beq_self_eq_true, Bool.true_and, decide_eq_true_eq] at hov
        omega

theorem wireBody_frame (w : Writer) (body : Msg) (info : WireInfo) :
    (wireBody w body info).id = body.id ∧ (wireBody w body info).opcode = body.opcode ∧
    (wireBody w body info).fl.qr = body.fl.qr ∧ (wireBody w body info).question = body.question ∧
    (wireBody w body info).rcode = body.rcode ∧ (wireBody w body info).answer = body.answer ∧
    (wireBody w body info).ns = body.ns ∧ (wireBody w body info).extra = body.extra := by
  unfold wireBody; split <;> simp

/-! ### what a cache entry keeps -/

theorem firstEDE_code (os : List EOpt) (x : EOpt) (h : firstEDE os = some x) : x.code = codeEDE := by
  unfold firstEDE at h
  have := List.find?_some h
  simpa using this

theorem extractEDE_code (l : List RR) : ∀ (acc : Option EOpt), (∀ a, acc = some a → a.code = codeEDE) →
    ∀ x, extractEDE l acc = some x → x.code = codeEDE := by
  induction l with
  | nil => intro acc hacc x h; exact hacc x (by simpa [extractEDE] using h)
  | cons r t ih =>
    intro acc hacc x h
    cases r with
    | data k i c u => exact ih acc hacc x (by simpa [extractEDE] using h)
    | opt o own =>
      simp only [extractEDE] at h
      refine ih _ ?_ x h
      intro a ha
      cases hf : firstEDE o.options with
      | none => rw [hf] at ha; exact hacc a ha
      | some e =>
        rw [hf] at ha
        simp only [Option.some.injEq] at ha
        subst ha
        exact firstEDE_code _ _ hf

theorem newCacheEntry_facts (m : Msg) (e : Entry) (h : newCacheEntry m = some e) :
    (∀ rr ∈ e.msg.extra, rr.isOpt = false) ∧ (∀ x, e.ede = some x → x.code = codeEDE) ∧
    e.msg.question = m.question := by
  unfold newCacheEntry at h
  split at h
  · cases h
  · simp only [Option.some.injEq] at h
    subst h
    refine ⟨?_, ?_, rfl⟩
    · intro rr hrr
      simp only [List.mem_filter, Bool.not_eq_eq_eq_not, Bool.not_true] at hrr
      exact hrr.2
    · intro x hx
      exact extractEDE_code m.extra none (by intro a ha; cases ha) x hx

/-! ### rejections keep only cookies -/

theorem filter_cookie_of_all_ecs (os : List EOpt) (h : ∀ x ∈ os, x.code = codeECS) :
    os.filter (fun x => x.code == codeCookie) = [] := by
  rw [List.filter_eq_nil_iff]
  intro x hx
  simp [h x hx, codeECS, codeCookie]

theorem stripECS_sub (os : List EOpt) : ∀ x ∈ stripECS os, x ∈ os := by
  intro x hx; exact (List.mem_filter.mp hx).1

end SdnsVerif.Lemmas.Edns
