import SdnsVerif.Model.Lifetime
/-! Helper lemmas for C04 (lifetime arithmetic, min-folds, the CAS system). -/
namespace SdnsVerif.Lemmas.Lifetime
open SdnsVerif.Model.Lifetime

theorem S_pos : 0 < S := by decide

/-! ### read-time expiry -/

/-- the entry is inside its own TTL and inside its lease. -/
def Alive (e : Entry) (now : Int) : Prop :=
  now < e.stored + e.ttl ∧ ∀ c, e.cut = some c → now < c

theorem remaining_pos_iff (e : Entry) (now : Int) : 0 < e.remaining now ↔ Alive e now := by
  unfold Entry.remaining Alive
  cases hc : e.cut with
  | none => simp; omega
  | some c =>
    simp only [Option.some.injEq, forall_eq']
    split <;> omega

theorem remaining_le_ttl (e : Entry) (now : Int) : e.remaining now ≤ e.ttl - (now - e.stored) := by
  unfold Entry.remaining
  cases e.cut with
  | none => simp
  | some c => simp only; split <;> omega

theorem remaining_le_cut (e : Entry) (now c : Int) (h : e.cut = some c) : e.remaining now ≤ c - now := by
  unfold Entry.remaining
  rw [h]; simp only; split <;> omega

/-- `remaining` only shrinks as the clock advances. -/
theorem remaining_antitone (e : Entry) (n1 n2 : Int) (h : n1 ≤ n2) : e.remaining n2 ≤ e.remaining n1 := by
  unfold Entry.remaining
  cases e.cut with
  | none => simp only; omega
  | some c => simp only; split <;> split <;> omega

theorem secs_mul_le (d : Int) (h : 0 < d) : ((secs d : Nat) : Int) * S ≤ d := by
  unfold secs S
  have : 0 ≤ d / 1000000000 := Int.ediv_nonneg (by omega) (by decide)
  rw [Int.toNat_of_nonneg this]
  omega

theorem secs_mono (a b : Int) (h : a ≤ b) : secs a ≤ secs b := by
  unfold secs S
  have : a / 1000000000 ≤ b / 1000000000 := Int.ediv_le_ediv (by decide) h
  omega

theorem hardUntil_le_ttl (e : Entry) : e.hardUntil ≤ e.stored + e.ttl := by
  unfold Entry.hardUntil
  cases e.cut with
  | none => simp
  | some c => simp only; split <;> omega

theorem hardUntil_le_cut (e : Entry) (c : Int) (h : e.cut = some c) : e.hardUntil ≤ c := by
  unfold Entry.hardUntil
  rw [h]; simp only; split <;> omega

/-- past the hard expiry nothing is left. -/
theorem remaining_le_hardUntil (e : Entry) (now : Int) : e.remaining now ≤ e.hardUntil - now := by
  unfold Entry.remaining Entry.hardUntil
  cases e.cut with
  | none => simp only; omega
  | some c => simp only; split <;> split <;> omega

/-! ### min-folds -/

theorem boundMin_le_left (a b : Int) : boundMin a b ≤ a := by unfold boundMin; split <;> omega
theorem boundMin_le_right (a b : Int) : boundMin a b ≤ b := by unfold boundMin; split <;> omega

theorem foldl_boundMin_le_init (l : List Int) (a : Int) : l.foldl boundMin a ≤ a := by
  induction l generalizing a with
  | nil => simp
  | cons x t ih => simp only [List.foldl_cons]; exact Int.le_trans (ih _) (boundMin_le_left a x)

theorem foldl_boundMin_le_mem (l : List Int) (a x : Int) (h : x ∈ l) : l.foldl boundMin a ≤ x := by
  induction l generalizing a with
  | nil => cases h
  | cons y t ih =>
    simp only [List.foldl_cons]
    rcases List.mem_cons.mp h with rfl | h
    · exact Int.le_trans (foldl_boundMin_le_init t _) (boundMin_le_right a x)
    · exact ih _ h

/-- the fold attains its value: it is the initial value or a member. -/
theorem foldl_boundMin_mem (l : List Int) (a : Int) : l.foldl boundMin a = a ∨ l.foldl boundMin a ∈ l := by
  induction l generalizing a with
  | nil => simp
  | cons y t ih =>
    simp only [List.foldl_cons]
    rcases ih (boundMin a y) with h | h
    · rw [h]; unfold boundMin; split
      · right; simp
      · left; rfl
    · right; exact List.mem_cons_of_mem _ h

/-! ### `BoundCutFor` -/

/-- the non-zero deadlines among a list of folds. -/
def vals (ds : List (Option Int)) : List Int := ds.filterMap id

/-- `r` is the minimum of `vs` (`none` iff there is none). -/
def IsMinOf (r : Option Int) (vs : List Int) : Prop :=
  match r with
  | none => vs = []
  | some y => y ∈ vs ∧ ∀ v ∈ vs, y ≤ v

theorem boundAll_isMin (ds : List (Option Int)) (m : Option Int) :
    IsMinOf (boundAll m ds) (vals (m :: ds)) := by
  induction ds generalizing m with
  | nil =>
    cases m with
    | none => simp [boundAll, IsMinOf, vals]
    | some x => simp [boundAll, IsMinOf, vals]
  | cons d t ih =>
    have := ih (boundCut m d)
    unfold boundAll at *
    simp only [List.foldl_cons]
    -- vals (boundCut m d :: t) and vals (m :: d :: t) have the same minimum
    cases d with
    | none =>
      have e : vals (m :: none :: t) = vals (boundCut m none :: t) := by
        cases m <;> simp [vals, boundCut]
      rw [e]; exact this
    | some x =>
      cases m with
      | none =>
        have e : vals (none :: some x :: t) = vals (boundCut none (some x) :: t) := by
          simp [vals, boundCut]
        rw [e]; exact this
      | some c =>
        simp only [boundCut] at this ⊢
        by_cases hx : x < c
        · simp only [hx, if_true] at this ⊢
          generalize List.foldl boundCut (some x) t = r at this ⊢
          cases r with
          | none => simp [IsMinOf, vals] at this
          | some y =>
            simp only [IsMinOf, vals, List.filterMap_cons, id] at this ⊢
            obtain ⟨hm, hle⟩ := this
            refine ⟨?_, ?_⟩
            · rcases List.mem_cons.mp hm with h | h
              · exact List.mem_cons_of_mem _ (h ▸ List.mem_cons_self)
              · exact List.mem_cons_of_mem _ (List.mem_cons_of_mem _ h)
            · intro v hv
              rcases List.mem_cons.mp hv with rfl | hv
              · have := hle x List.mem_cons_self; omega
              · rcases List.mem_cons.mp hv with rfl | hv
                · exact hle _ List.mem_cons_self
                · exact hle _ (List.mem_cons_of_mem _ hv)
        · simp only [hx, if_false] at this ⊢
          generalize List.foldl boundCut (some c) t = r at this ⊢
          cases r with
          | none => simp [IsMinOf, vals] at this
          | some y =>
            simp only [IsMinOf, vals, List.filterMap_cons, id] at this ⊢
            obtain ⟨hm, hle⟩ := this
            refine ⟨?_, ?_⟩
            · rcases List.mem_cons.mp hm with h | h
              · exact h ▸ List.mem_cons_self
              · exact List.mem_cons_of_mem _ (List.mem_cons_of_mem _ h)
            · intro v hv
              rcases List.mem_cons.mp hv with rfl | hv
              · exact hle _ List.mem_cons_self
              · rcases List.mem_cons.mp hv with rfl | hv
                · have := hle c List.mem_cons_self; omega
                · exact hle _ (List.mem_cons_of_mem _ hv)

theorem isMinOf_unique (r1 r2 : Option Int) (v1 v2 : List Int) (hp : ∀ x, x ∈ v1 ↔ x ∈ v2)
    (h1 : IsMinOf r1 v1) (h2 : IsMinOf r2 v2) : r1 = r2 := by
  cases r1 with
  | none =>
    cases r2 with
    | none => rfl
    | some y => simp only [IsMinOf] at h1 h2; subst h1; exact absurd ((hp y).mpr h2.1) (by simp)
  | some x =>
    cases r2 with
    | none => simp only [IsMinOf] at h1 h2; subst h2; exact absurd ((hp x).mp h1.1) (by simp)
    | some y =>
      simp only [IsMinOf] at h1 h2
      have a := h1.2 y ((hp y).mpr h2.1)
      have b := h2.2 x ((hp x).mp h1.1)
      congr 1; omega

/-! ### the CAS transition system -/

/-- ids handed out so far are below `next`. -/
def CasInv (s : CasState) : Prop :=
  (∀ i, s.cur = some i → i < s.next) ∧ (∀ p e, s.captured p = some e → e < s.next)

theorem casInv_init : CasInv {} := by
  constructor <;> intro _ <;> simp

theorem casInv_step (s : CasState) (op : CasOp) (h : CasInv s) : CasInv (casStep s op).1 := by
  obtain ⟨h1, h2⟩ := h
  cases op with
  | set =>
    refine ⟨?_, ?_⟩
    · intro i hi; simp only [casStep, Option.some.injEq] at hi; subst hi; simp [casStep]
    · intro p e he; simp only [casStep] at he ⊢; have := h2 p e he; omega
  | evict =>
    refine ⟨?_, ?_⟩
    · intro i hi; simp [casStep] at hi
    · intro p e he; exact h2 p e he
  | capture q =>
    refine ⟨?_, ?_⟩
    · intro i hi; exact h1 i hi
    · intro p e he
      simp only [casStep] at he ⊢
      by_cases hp : p = q
      · simp only [hp, if_true] at he; exact h1 e he
      · simp only [hp, if_false] at he; exact h2 p e he
  | cas q =>
    simp only [casStep]
    cases hc : s.captured q with
    | none => exact ⟨h1, h2⟩
    | some e =>
      simp only
      by_cases hcur : s.cur = some e
      · simp only [hcur, if_true]
        refine ⟨?_, ?_⟩
        · intro i hi; simp only [Option.some.injEq] at hi; subst hi; simp
        · intro p e' he; have := h2 p e' he; simp only; omega
      · simp only [hcur, if_false]; exact ⟨h1, h2⟩

theorem casInv_run (s : CasState) (ops : List CasOp) (h : CasInv s) : CasInv (casRun s ops) := by
  induction ops generalizing s with
  | nil => exact h
  | cons op t ih => exact ih _ (casInv_step s op h)

/-- prefetcher `p`'s claim no longer matches what is stored. -/
def Stale (p : Nat) (s : CasState) : Prop := s.captured p = none ∨ s.captured p ≠ s.cur

/-- a step changes the stored value: a client Set, an eviction, or a
successful CAS. -/
def Changes (s : CasState) (op : CasOp) : Prop :=
  match op with
  | .set => True
  | .evict => True
  | .capture _ => False
  | .cas q => (casStep s (.cas q)).2 = true

theorem stale_of_change (p : Nat) (s : CasState) (op : CasOp) (hinv : CasInv s)
    (hop : ∀ q, op = .capture q → q ≠ p) (hch : Changes s op) : Stale p (casStep s op).1 := by
  obtain ⟨_, h2⟩ := hinv
  cases op with
  | set =>
    unfold Stale; simp only [casStep]
    cases hc : s.captured p with
    | none => left; rfl
    | some e => right; have := h2 p e hc; intro h; simp only [Option.some.injEq] at h; omega
  | evict =>
    unfold Stale; simp only [casStep]
    cases hc : s.captured p with
    | none => left; rfl
    | some e => right; simp
  | capture q => exact absurd hch (by simp [Changes])
  | cas q =>
    simp only [Changes, casStep] at hch
    unfold Stale; simp only [casStep]
    cases hq : s.captured q with
    | none => simp [hq] at hch
    | some e =>
      simp only [hq] at hch ⊢
      by_cases hcur : s.cur = some e
      · simp only [hcur, if_true]
        cases hc : s.captured p with
        | none => left; rfl
        | some e' => right; have := h2 p e' hc; intro h; simp only [Option.some.injEq] at h; omega
      · simp [hcur] at hch

theorem stale_preserved (p : Nat) (s : CasState) (op : CasOp) (hinv : CasInv s)
    (hop : ∀ q, op = .capture q → q ≠ p) (hst : Stale p s) : Stale p (casStep s op).1 := by
  obtain ⟨_, h2⟩ := hinv
  cases op with
  | set => exact stale_of_change p s .set ⟨‹_›, h2⟩ hop trivial
  | evict => exact stale_of_change p s .evict ⟨‹_›, h2⟩ hop trivial
  | capture q =>
    have hq : q ≠ p := hop q rfl
    unfold Stale at *; simp only [casStep]
    have : (p = q) = False := by simp; exact fun h => hq h.symm
    simp only [this, if_false]; exact hst
  | cas q =>
    by_cases hch : Changes s (.cas q)
    · exact stale_of_change p s (.cas q) ⟨‹_›, h2⟩ hop hch
    · -- a failed CAS changes nothing
      simp only [Changes, casStep] at hch
      unfold Stale at *; simp only [casStep]
      cases hq : s.captured q with
      | none => simpa [hq] using hst
      | some e =>
        simp only [hq] at hch ⊢
        by_cases hcur : s.cur = some e
        · simp [hcur] at hch
        · simpa [hcur] using hst

/-! ### the scan of `CalculateCacheTTL` -/

theorem getRRSIGTTL_expired (minC : Int) (ttl : Nat) (e now : Int) (h : e - now ≤ 0) :
    getRRSIGTTL minC ttl e now = minC := by
  unfold getRRSIGTTL; simp [h]

theorem getRRSIGTTL_le_tue (minC : Int) (ttl : Nat) (e now : Int) (h : 0 < e - now) :
    getRRSIGTTL minC ttl e now ≤ e - now := by
  unfold getRRSIGTTL
  simp only
  split
  · omega
  · split <;> omega

theorem getRRSIGTTL_le_ttl_or_min (minC : Int) (ttl : Nat) (e now : Int) :
    getRRSIGTTL minC ttl e now ≤ (ttl : Int) * S ∨ getRRSIGTTL minC ttl e now = minC := by
  unfold getRRSIGTTL
  simp only
  split
  · right; rfl
  · left; split <;> omega

theorem stepSig_le (minC now m : Int) (rr : RR) : stepSig minC now m rr ≤ m := by
  unfold stepSig
  cases rr.kind <;> simp only <;> try exact Int.le_refl _
  split <;> omega

theorem stepSig_le_sig (minC now m : Int) (rr : RR) (e : Int) (h : rr.kind = .rrsig e) :
    stepSig minC now m rr ≤ getRRSIGTTL minC rr.ttl e now := by
  unfold stepSig
  rw [h]; simp only
  split <;> omega

theorem ite_min_le_left (a b : Int) : (if a < b then a else b) ≤ b := by split <;> omega
theorem ite_min_le_right (a b : Int) : (if a < b then a else b) ≤ a := by split <;> omega

theorem stepAnswer_le (minC now m : Int) (rr : RR) : stepAnswer minC now m rr ≤ m := by
  unfold stepAnswer
  exact Int.le_trans (stepSig_le _ _ _ _) (ite_min_le_left _ _)

theorem stepAnswer_le_ttl (minC now m : Int) (rr : RR) : stepAnswer minC now m rr ≤ getTTL rr := by
  unfold stepAnswer
  exact Int.le_trans (stepSig_le _ _ _ _) (ite_min_le_right _ _)

theorem stepAnswer_le_sig (minC now m : Int) (rr : RR) (e : Int) (h : rr.kind = .rrsig e) :
    stepAnswer minC now m rr ≤ getRRSIGTTL minC rr.ttl e now := by
  unfold stepAnswer
  exact stepSig_le_sig minC now _ rr e h

theorem stepSoa_le (m : Int) (rr : RR) : stepSoa m rr ≤ m := by
  unfold stepSoa
  split
  · split <;> omega
  · exact Int.le_refl _

theorem stepSoa_le_soa (m : Int) (rr : RR) (mn : Nat) (h : rr.kind = .soa mn) :
    stepSoa m rr ≤ (mn : Int) * S := by
  unfold stepSoa
  rw [h]; simp only
  split <;> omega

theorem stepNs_le (minC now : Int) (m : Int) (rr : RR) : stepNs minC now m rr ≤ m := by
  unfold stepNs
  exact Int.le_trans (stepSig_le _ _ _ _) (Int.le_trans (stepSoa_le _ _) (ite_min_le_left _ _))

theorem stepNs_le_ttl (minC now : Int) (m : Int) (rr : RR) : stepNs minC now m rr ≤ getTTL rr := by
  unfold stepNs
  exact Int.le_trans (stepSig_le _ _ _ _) (Int.le_trans (stepSoa_le _ _) (ite_min_le_right _ _))

theorem stepNs_le_sig (minC now : Int) (m : Int) (rr : RR) (e : Int) (h : rr.kind = .rrsig e) :
    stepNs minC now m rr ≤ getRRSIGTTL minC rr.ttl e now := by
  unfold stepNs
  exact stepSig_le_sig minC now _ rr e h

theorem stepNs_le_soa (minC now : Int) (m : Int) (rr : RR) (mn : Nat) (h : rr.kind = .soa mn) :
    stepNs minC now m rr ≤ (mn : Int) * S := by
  unfold stepNs
  exact Int.le_trans (stepSig_le _ _ _ _) (stepSoa_le_soa _ rr mn h)

theorem stepExtra_le (minC now m : Int) (rr : RR) : stepExtra minC now m rr ≤ m := by
  unfold stepExtra
  split
  · exact Int.le_refl _
  · exact Int.le_trans (stepSig_le _ _ _ _) (ite_min_le_left _ _)

theorem stepExtra_le_ttl (minC now m : Int) (rr : RR) (h : isOpt rr = false) : stepExtra minC now m rr ≤ getTTL rr := by
  unfold stepExtra
  simp only [h, Bool.false_eq_true, if_false]
  exact Int.le_trans (stepSig_le _ _ _ _) (ite_min_le_right _ _)

theorem stepExtra_le_sig (minC now m : Int) (rr : RR) (e : Int) (h : rr.kind = .rrsig e) :
    stepExtra minC now m rr ≤ getRRSIGTTL minC rr.ttl e now := by
  unfold stepExtra
  have : isOpt rr = false := by unfold isOpt; rw [h]
  simp only [this, Bool.false_eq_true, if_false]
  exact stepSig_le_sig minC now _ rr e h

theorem foldl_le_init (step : Int → RR → Int) (hle : ∀ m rr, step m rr ≤ m) (l : List RR) (a : Int) :
    l.foldl step a ≤ a := by
  induction l generalizing a with
  | nil => simp
  | cons x t ih => simp only [List.foldl_cons]; exact Int.le_trans (ih _) (hle a x)

theorem foldl_le_of_mem (step : Int → RR → Int) (hle : ∀ m rr, step m rr ≤ m) (l : List RR) (a : Int)
    (rr : RR) (b : Int) (h : rr ∈ l) (hb : ∀ m, step m rr ≤ b) : l.foldl step a ≤ b := by
  induction l generalizing a with
  | nil => cases h
  | cons x t ih =>
    simp only [List.foldl_cons]
    rcases List.mem_cons.mp h with rfl | h
    · exact Int.le_trans (foldl_le_init step hle t _) (hb a)
    · exact ih _ h

theorem scanMin_le_max (cfg : Cfg) (msg : Msg) (now : Int) : scanMin cfg msg now ≤ cfg.maxC := by
  unfold scanMin
  refine Int.le_trans (foldl_le_init _ (stepExtra_le _ _) _ _) ?_
  refine Int.le_trans (foldl_le_init _ (stepNs_le _ _) _ _) ?_
  exact foldl_le_init _ (stepAnswer_le _ _) _ _

theorem scanMin_le_answer (cfg : Cfg) (msg : Msg) (now : Int) (rr : RR) (b : Int)
    (h : rr ∈ msg.answer) (hb : ∀ m, stepAnswer cfg.minC now m rr ≤ b) : scanMin cfg msg now ≤ b := by
  unfold scanMin
  refine Int.le_trans (foldl_le_init _ (stepExtra_le _ _) _ _) ?_
  refine Int.le_trans (foldl_le_init _ (stepNs_le _ _) _ _) ?_
  exact foldl_le_of_mem _ (stepAnswer_le _ _) _ _ rr b h hb

theorem scanMin_le_ns (cfg : Cfg) (msg : Msg) (now : Int) (rr : RR) (b : Int)
    (h : rr ∈ msg.ns) (hb : ∀ m, stepNs cfg.minC now m rr ≤ b) : scanMin cfg msg now ≤ b := by
  unfold scanMin
  refine Int.le_trans (foldl_le_init _ (stepExtra_le _ _) _ _) ?_
  exact foldl_le_of_mem _ (stepNs_le _ _) _ _ rr b h hb

theorem scanMin_le_extra (cfg : Cfg) (msg : Msg) (now : Int) (rr : RR) (b : Int)
    (h : rr ∈ msg.extra) (hb : ∀ m, stepExtra cfg.minC now m rr ≤ b) : scanMin cfg msg now ≤ b := by
  unfold scanMin
  exact foldl_le_of_mem _ (stepExtra_le _ _) _ _ rr b h hb

theorem ttlManager_le (mn mx x : Int) : ttlManagerCalculate mn mx x ≤ x ∨ ttlManagerCalculate mn mx x = mn := by
  unfold ttlManagerCalculate
  split
  · right; rfl
  · left; split <;> omega

theorem capTTL_le (sc : Bool) (ecsMax ttl : Int) : capTTL sc ecsMax ttl ≤ ttl := by
  unfold capTTL
  split
  · rename_i h; simp only [Bool.and_eq_true, decide_eq_true_eq] at h; omega
  · exact Int.le_refl _

theorem capTTL_le_cap (ecsMax ttl : Int) (h : 0 < ecsMax) : capTTL true ecsMax ttl ≤ ecsMax := by
  unfold capTTL
  by_cases h2 : ttl > ecsMax
  · simp [h, h2]
  · simp [h, h2]; omega

end SdnsVerif.Lemmas.Lifetime
