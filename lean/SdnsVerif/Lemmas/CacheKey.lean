import SdnsVerif.Model.CacheKey
/-! Helper lemmas for C03 (cache key preimages, verifiers, lookup routes). -/
namespace SdnsVerif.Lemmas.CacheKey
open SdnsVerif.Model.CacheKey

/-! ### bytes -/

/-- a property of all 256 octets can be checked on `0 … 255`. -/
theorem forall_uint8 (P : UInt8 → Prop) (h : ∀ n, n < 256 → P (UInt8.ofNat n)) : ∀ b, P b := by
  intro b
  have := h b.toNat (UInt8.toNat_lt b)
  simpa using this

/-- Escape bytes and digits are never `A–Z`: folding the decoder's spelling of an
octet gives exactly what the hasher streams for it. -/
theorem foldName_escByte : ∀ b : UInt8, foldName (escByte false b) = escByte true b := by
  apply forall_uint8
  decide +kernel

theorem foldByte_dot : foldByte 0x2E = 0x2E := by decide

theorem foldByte_idem : ∀ b : UInt8, foldByte (foldByte b) = foldByte b := by
  apply forall_uint8
  decide +kernel

theorem foldName_append (a b : Bytes) : foldName (a ++ b) = foldName a ++ foldName b := by
  simp [foldName]

theorem foldName_length (a : Bytes) : (foldName a).length = a.length := by simp [foldName]

theorem foldName_flatMap_esc (l : Bytes) :
    foldName (l.flatMap (escByte false)) = l.flatMap (escByte true) := by
  induction l with
  | nil => rfl
  | cons b t ih =>
    simp only [List.flatMap_cons, foldName_append, ih, foldName_escByte]

theorem foldName_labels (ls : List Bytes) :
    foldName (ls.flatMap fun l => l.flatMap (escByte false) ++ [0x2E]) =
      ls.flatMap fun l => l.flatMap (escByte true) ++ [0x2E] := by
  induction ls with
  | nil => rfl
  | cons l t ih =>
    have hdot : foldName [0x2E] = [0x2E] := by decide
    rw [List.flatMap_cons, List.flatMap_cons, foldName_append, foldName_append, foldName_flatMap_esc, ih, hdot]

/-- the hasher's stream is the folded decoder spelling, label list by label list. -/
theorem foldName_presentLabels (ls : List Bytes) :
    foldName (presentLabels false ls) = presentLabels true ls := by
  unfold presentLabels
  by_cases h : ls.isEmpty
  · simp only [h, if_true]; decide
  · simp only [h]; exact foldName_labels ls

/-! ### name comparison -/

theorem equalNameASCIIFold_iff (a b : Bytes) :
    equalNameASCIIFold a b = true ↔ foldName a = foldName b := by
  induction a generalizing b with
  | nil => cases b <;> simp [equalNameASCIIFold, foldName]
  | cons x xs ih =>
    cases b with
    | nil => simp [equalNameASCIIFold, foldName]
    | cons y ys =>
      simp only [equalNameASCIIFold, Bool.and_eq_true, beq_iff_eq, ih, foldName, List.map_cons,
        List.cons.injEq]

theorem matchEmit_spec (cs n r : Bytes) :
    matchEmit cs n = some r ↔ ∃ pre, n = pre ++ r ∧ foldName pre = foldName cs := by
  induction cs generalizing n with
  | nil =>
    simp only [matchEmit, Option.some.injEq, foldName, List.map_nil, List.map_eq_nil_iff]
    constructor
    · intro h; exact ⟨[], by simp [h], rfl⟩
    · rintro ⟨pre, h, rfl⟩; simpa using h
  | cons c cs ih =>
    cases n with
    | nil =>
      simp only [matchEmit]
      constructor
      · intro h; cases h
      · rintro ⟨pre, h, hf⟩
        have : pre = [] := by
          cases pre with
          | nil => rfl
          | cons _ _ => simp at h
        subst this
        simp [foldName] at hf
    | cons x xs =>
      simp only [matchEmit]
      by_cases hx : foldByte x = foldByte c
      · simp only [hx, beq_self_eq_true, if_true, ih]
        constructor
        · rintro ⟨pre, h, hf⟩
          refine ⟨x :: pre, by simp [h], ?_⟩
          simp only [foldName, List.map_cons, hx] at hf ⊢
          rw [hf]
        · rintro ⟨pre, h, hf⟩
          cases pre with
          | nil => simp [foldName] at hf
          | cons p ps =>
            simp only [List.cons_append, List.cons.injEq] at h
            simp only [foldName, List.map_cons, List.cons.injEq] at hf
            exact ⟨ps, h.2, hf.2⟩
      · have : (foldByte x == foldByte c) = false := by simpa using hx
        simp only [this]
        constructor
        · intro h; cases h
        · rintro ⟨pre, h, hf⟩
          cases pre with
          | nil => simp [foldName] at hf
          | cons p ps =>
            simp only [List.cons_append, List.cons.injEq] at h
            simp only [foldName, List.map_cons, List.cons.injEq] at hf
            exact absurd (h.1 ▸ hf.1) hx

theorem matchEmit_nil_iff (cs n : Bytes) :
    matchEmit cs n = some [] ↔ foldName n = foldName cs := by
  rw [matchEmit_spec]
  constructor
  · rintro ⟨pre, h, hf⟩; simpa [h] using hf
  · intro h; exact ⟨n, by simp, h⟩

/-- `WireNameEqualsPresentation` holds exactly when the wire name is well formed
and its decoder spelling equals the stored name up to ASCII case. -/
theorem wireNameEq_iff' (w name : Bytes) :
    wireNameEqualsPresentation w name = true ↔
      ∃ p, present w = some p ∧ foldName p = foldName name := by
  unfold wireNameEqualsPresentation present
  cases hl : wireLabels w with
  | none => simp
  | some ls =>
    simp only [Option.map_some, Option.some.injEq, exists_eq_left']
    generalize hm : matchEmit (presentLabels false ls) name = m
    constructor
    · intro h
      match m, hm, h with
      | some [], hm, _ => exact ((matchEmit_nil_iff _ _).mp hm).symm
    · intro h
      have := (matchEmit_nil_iff (presentLabels false ls) name).mpr h.symm
      rw [this] at hm
      subst hm
      rfl

/-! ### preimages -/

theorem keyWire_eq_of_present (w p : Bytes) (qtype qclass : UInt16) (cd : Bool) (h : present w = some p) :
    keyWirePreimage w qtype qclass cd = some (keyPreimage p qtype qclass cd) := by
  unfold present at h
  unfold keyWirePreimage writeWireName keyPreimage
  cases hl : wireLabels w with
  | none => simp [hl] at h
  | some ls =>
    simp only [hl, Option.map_some, Option.some.injEq] at h ⊢
    subst h
    rw [foldName_presentLabels]

theorem present_isSome_iff (w : Bytes) (qtype qclass : UInt16) (cd : Bool) :
    (keyWirePreimage w qtype qclass cd).isSome = (present w).isSome := by
  unfold keyWirePreimage writeWireName present
  cases wireLabels w <;> rfl

/-! ### verifiers -/

/-- what a positive verdict of `entryMatchesPreimage` establishes. -/
theorem entryMatchesPreimage_iff (e : Entry) (qtype qclass : UInt16) (cd : Bool) (scope : Scope) :
    entryMatchesPreimage e qtype qclass cd scope = true ↔
      e.name ≠ [] ∧ e.qtype = qtype ∧ e.qclass = qclass ∧ e.cd = cd ∧ e.scope = normalizeKeyScope scope := by
  unfold entryMatchesPreimage
  simp only [Bool.and_eq_true, Bool.not_eq_true', beq_iff_eq, decide_eq_true_eq, and_assoc]
  constructor
  · rintro ⟨h, rest⟩
    refine ⟨?_, rest⟩
    intro hn; simp [hn] at h
  · rintro ⟨h, rest⟩
    refine ⟨?_, rest⟩
    cases hn : e.name with
    | nil => exact absurd hn h
    | cons _ _ => rfl

theorem entryMatchesKey_iff (e : Entry) (want : CacheKey) :
    entryMatchesKey e want = true ↔
      (e.name ≠ [] ∧ e.qtype = want.qtype ∧ e.qclass = want.qclass ∧ e.cd = want.cd ∧
        e.scope = normalizeKeyScope want.scope) ∧ foldName e.name = foldName want.name := by
  unfold entryMatchesKey
  rw [Bool.and_eq_true, entryMatchesPreimage_iff, equalNameASCIIFold_iff]

theorem entryMatchesWireQuestion_iff (e : Entry) (w : Bytes) (qtype qclass : UInt16) (cd : Bool) :
    entryMatchesWireQuestion e w qtype qclass cd = true ↔
      (e.name ≠ [] ∧ e.qtype = qtype ∧ e.qclass = qclass ∧ e.cd = cd ∧ e.scope = none) ∧
        ∃ p, present w = some p ∧ foldName p = foldName e.name := by
  unfold entryMatchesWireQuestion
  rw [Bool.and_eq_true, entryMatchesPreimage_iff, wireNameEq_iff']
  simp [normalizeKeyScope]

/-! ### scopes -/

theorem maskByte_idem (k : Nat) (b : UInt8) : maskByte k (maskByte k b) = maskByte k b := by
  unfold maskByte
  by_cases hk : k ≥ 8
  · simp [hk]
  · simp only [hk, if_false]
    have hp : 0 < 2 ^ (8 - k) := Nat.two_pow_pos _
    have hb : b.toNat < 256 := UInt8.toNat_lt b
    have hle : b.toNat / 2 ^ (8 - k) * 2 ^ (8 - k) ≤ b.toNat := Nat.div_mul_le_self _ _
    have hlt : b.toNat / 2 ^ (8 - k) * 2 ^ (8 - k) < 256 := by omega
    have : (UInt8.ofNat (b.toNat / 2 ^ (8 - k) * 2 ^ (8 - k))).toNat = b.toNat / 2 ^ (8 - k) * 2 ^ (8 - k) := by
      simp [UInt8.toNat_ofNat', Nat.mod_eq_of_lt hlt]
    rw [this, Nat.mul_div_cancel _ hp]

theorem maskBytes_idem (bits : Nat) (a : Bytes) : maskBytes bits (maskBytes bits a) = maskBytes bits a := by
  induction a generalizing bits with
  | nil => rfl
  | cons b t ih => simp [maskBytes, maskByte_idem, ih]

theorem maskBytes_maskBytes_le (a b : Nat) (h : a ≤ b) (x : Bytes) :
    maskBytes a (maskBytes b x) = maskBytes a x := by
  induction x generalizing a b with
  | nil => rfl
  | cons y t ih =>
    simp only [maskBytes, List.cons.injEq]
    refine ⟨?_, ih (a - 8) (b - 8) (by omega)⟩
    unfold maskByte
    by_cases hb : b ≥ 8
    · simp [hb]
    · have ha : ¬ a ≥ 8 := by omega
      simp only [hb, ha, if_false]
      have hy : y.toNat < 256 := UInt8.toNat_lt y
      have hpb : 0 < 2 ^ (8 - b) := Nat.two_pow_pos _
      have hle : y.toNat / 2 ^ (8 - b) * 2 ^ (8 - b) ≤ y.toNat := Nat.div_mul_le_self _ _
      have hlt : y.toNat / 2 ^ (8 - b) * 2 ^ (8 - b) < 256 := by omega
      have e1 : (UInt8.ofNat (y.toNat / 2 ^ (8 - b) * 2 ^ (8 - b))).toNat = y.toNat / 2 ^ (8 - b) * 2 ^ (8 - b) := by
        simp [UInt8.toNat_ofNat', Nat.mod_eq_of_lt hlt]
      rw [e1]
      -- clearing the low (8-b) bits and then the low (8-a) ⊇ them is clearing the low (8-a) bits
      have hsplit : 2 ^ (8 - a) = 2 ^ (8 - b) * 2 ^ (b - a) := by
        rw [← Nat.pow_add]; congr 1; omega
      have : y.toNat / 2 ^ (8 - b) * 2 ^ (8 - b) / 2 ^ (8 - a) = y.toNat / 2 ^ (8 - a) := by
        rw [hsplit, ← Nat.div_div_eq_div_mul, Nat.mul_div_cancel _ hpb, Nat.div_div_eq_div_mul]
      rw [this]

theorem normalize_withBits (c : Prefix) (bits : Nat) (h : 1 ≤ bits) :
    normalizeKeyScope (some (c.withBits bits)) = some (c.withBits bits) := by
  unfold normalizeKeyScope Prefix.masked Prefix.withBits
  have : ¬ bits = 0 := by omega
  simp [this, maskBytes_idem]

theorem withBits_contains (c : Prefix) (bits : Nat) (h : bits ≤ c.bits) :
    (c.withBits bits).containsPrefix c := by
  unfold Prefix.containsPrefix Prefix.withBits
  exact ⟨rfl, h, rfl⟩

/-! ### probes -/

theorem scopedProbe_spec (H : Bytes → UInt64) (st : Store) (name : Bytes) (qtype qclass : UInt16) (cd : Bool)
    (client : Prefix) (n : Nat) (e : Entry) (key : UInt64) (sc : Prefix)
    (h : scopedProbe H st name qtype qclass cd client n = some (e, key, sc)) :
    ∃ b, 1 ≤ b ∧ b ≤ n ∧ sc = client.withBits b ∧
      key = (CacheKey.mk name qtype qclass cd (some sc)).hash H ∧ st key = some e := by
  induction n with
  | zero => simp [scopedProbe] at h
  | succ n ih =>
    unfold scopedProbe at h
    simp only at h
    cases hs : st ((CacheKey.mk name qtype qclass cd (some (client.withBits (n + 1)))).hash H) with
    | some e' =>
      simp only [hs, Option.some.injEq, Prod.mk.injEq] at h
      obtain ⟨rfl, rfl, rfl⟩ := h
      exact ⟨n + 1, by omega, Nat.le_refl _, rfl, rfl, hs⟩
    | none =>
      simp only [hs] at h
      obtain ⟨b, h1, h2, h3⟩ := ih h
      exact ⟨b, h1, by omega, h3⟩

/-! ### association-list stores -/

theorem AStore.get_set_self (s : AStore) (k : UInt64) (e : Entry) : (s.set k e).get k = some e := by
  simp [AStore.set, AStore.get]

theorem find_filter_ne (s : AStore) (k k' : UInt64) (h : k' ≠ k) :
    (s.filter (·.1 != k)).find? (·.1 == k') = s.find? (·.1 == k') := by
  induction s with
  | nil => rfl
  | cons p t ih =>
    by_cases hp : p.1 = k
    · have : (p.1 != k) = false := by simp [hp]
      have hk' : (p.1 == k') = false := by simp [hp, Ne.symm h]
      simp [List.filter, this, List.find?, hk', ih]
    · have : (p.1 != k) = true := by simp [hp]
      simp only [List.filter, this, List.find?]
      cases (p.1 == k') <;> simp [ih]

theorem AStore.get_set_other (s : AStore) (k k' : UInt64) (e : Entry) (h : k' ≠ k) :
    (s.set k e).get k' = s.get k' := by
  unfold AStore.set AStore.get
  have : ((k, e).1 == k') = false := by simp [Ne.symm h]
  simp only [List.find?, this]
  rw [find_filter_ne s k k' h]

theorem AStore.mem_of_get (s : AStore) (k : UInt64) (e : Entry) (h : s.get k = some e) : (k, e) ∈ s := by
  unfold AStore.get at h
  cases hf : s.find? (·.1 == k) with
  | none => simp [hf] at h
  | some p =>
    simp only [hf, Option.map_some, Option.some.injEq] at h
    have hm := List.mem_of_find?_eq_some hf
    have hk := List.find?_some hf
    simp only [beq_iff_eq] at hk
    have : p = (k, e) := by cases p; simp_all
    exact this ▸ hm

/-! ### first-match walks of the failure and cut lookups -/

theorem firstZone_spec (H : Bytes → UInt64) (fs : FStore) (qclass : UInt16) (zs : List Bytes) (f : FEntry)
    (h : firstZone H fs qclass zs = some f) :
    f.active = true ∧ f.kind = FKind.zone ∧ f.qclass = qclass ∧ f.name ∈ zs := by
  induction zs with
  | nil => simp [firstZone] at h
  | cons z t ih =>
    unfold firstZone at h
    cases hl : loadZone H fs z qclass with
    | none =>
      simp only [hl] at h
      obtain ⟨a, b, c, d⟩ := ih h
      exact ⟨a, b, c, List.mem_cons_of_mem _ d⟩
    | some e =>
      simp only [hl] at h
      by_cases ha : e.active = true
      · simp only [ha, if_true, Option.some.injEq] at h
        subst h
        unfold loadZone at hl
        cases hs : fs (failureZoneHash H z qclass) with
        | none => simp [hs] at hl
        | some e' =>
          simp only [hs] at hl
          split at hl
          · rename_i hc
            simp only [Option.some.injEq] at hl
            subst hl
            simp only [Bool.and_eq_true, beq_iff_eq] at hc
            exact ⟨ha, hc.1.1, hc.2, by rw [hc.1.2]; exact List.mem_cons_self⟩
          · cases hl
      · simp only [ha] at h
        obtain ⟨a, b, c, d⟩ := ih h
        exact ⟨a, b, c, List.mem_cons_of_mem _ d⟩

theorem firstZoneWire_spec (H : Bytes → UInt64) (fs : FStore) (qclass : UInt16) (zs : List Bytes) (f : FEntry)
    (h : firstZoneWire H fs qclass zs = some f) :
    f.active = true ∧ f.kind = FKind.zone ∧ f.qclass = qclass ∧
      ∃ z ∈ zs, ∃ pz, present z = some pz ∧ foldName pz = foldName f.name := by
  induction zs with
  | nil => simp [firstZoneWire] at h
  | cons z t ih =>
    have tail : firstZoneWire H fs qclass t = some f →
        f.active = true ∧ f.kind = FKind.zone ∧ f.qclass = qclass ∧
          ∃ z' ∈ z :: t, ∃ pz, present z' = some pz ∧ foldName pz = foldName f.name := by
      intro hg
      obtain ⟨a, b, c, z', hz', rest⟩ := ih hg
      exact ⟨a, b, c, z', List.mem_cons_of_mem _ hz', rest⟩
    unfold firstZoneWire at h
    cases hk : keyWirePreimage z 6 qclass false with
    | none => simp only [hk] at h; exact tail h
    | some pre =>
      simp only [hk] at h
      cases hs : fs (H pre ^^^ failureZoneHashSalt) with
      | none => simp only [hs] at h; exact tail h
      | some e =>
        simp only [hs] at h
        split at h
        · rename_i hc
          simp only [Option.some.injEq] at h
          subst h
          simp only [Bool.and_eq_true, beq_iff_eq] at hc
          obtain ⟨p, hp, hf⟩ := (wireNameEq_iff' z e.name).mp hc.1.2
          exact ⟨hc.2, hc.1.1.1, hc.1.1.2, z, List.mem_cons_self, p, hp, hf⟩
        · exact tail h

theorem firstCut_spec (cs : List Cut) (qclass : UInt16) (cands : List Bytes) (c : Cut)
    (h : firstCut cs qclass cands = some c) :
    c ∈ cs ∧ c.active = true ∧ c.qclass = qclass ∧ c.name ∈ cands := by
  induction cands with
  | nil => simp [firstCut] at h
  | cons cand t ih =>
    have tail : firstCut cs qclass t = some c →
        c ∈ cs ∧ c.active = true ∧ c.qclass = qclass ∧ c.name ∈ cand :: t := by
      intro hg
      obtain ⟨a, b, c', d⟩ := ih hg
      exact ⟨a, b, c', List.mem_cons_of_mem _ d⟩
    unfold firstCut at h
    cases hf : findCut cs cand qclass with
    | none => simp only [hf] at h; exact tail h
    | some k =>
      simp only [hf] at h
      by_cases ha : k.active = true
      · simp only [ha, if_true, Option.some.injEq] at h
        subst h
        unfold findCut at hf
        have hm := List.mem_of_find?_eq_some hf
        have hp := List.find?_some hf
        simp only [Bool.and_eq_true, beq_iff_eq] at hp
        exact ⟨hm, ha, hp.2, by rw [hp.1]; exact List.mem_cons_self⟩
      · simp only [ha] at h
        exact tail h

theorem firstCutWire_spec (H : Bytes → UInt64) (byHash : UInt64 → Option Cut) (qclass : UInt16) (cands : List Bytes)
    (c : Cut) (h : firstCutWire H byHash qclass cands = some c) :
    c.active = true ∧ c.qclass = qclass ∧
      ∃ z ∈ cands, ∃ pz, present z = some pz ∧ foldName pz = foldName c.name := by
  induction cands with
  | nil => simp [firstCutWire] at h
  | cons cand t ih =>
    have tail : firstCutWire H byHash qclass t = some c →
        c.active = true ∧ c.qclass = qclass ∧
          ∃ z ∈ cand :: t, ∃ pz, present z = some pz ∧ foldName pz = foldName c.name := by
      intro hg
      obtain ⟨a, b, z, hz, rest⟩ := ih hg
      exact ⟨a, b, z, List.mem_cons_of_mem _ hz, rest⟩
    unfold firstCutWire at h
    cases hk : keyWirePreimage cand 0 qclass false with
    | none => simp only [hk] at h; exact tail h
    | some pre =>
      simp only [hk] at h
      cases hs : byHash (H pre ^^^ nxDomainCutHashSalt) with
      | none => simp only [hs] at h; exact tail h
      | some k =>
        simp only [hs] at h
        split at h
        · rename_i hc
          simp only [Option.some.injEq] at h
          subst h
          simp only [Bool.and_eq_true, beq_iff_eq] at hc
          obtain ⟨p, hp, hf⟩ := (wireNameEq_iff' cand k.name).mp hc.1.2
          exact ⟨hc.2, hc.1.1.1, cand, List.mem_cons_self, p, hp, hf⟩
        · exact tail h

theorem mem_remove (s : AStore) (k : UInt64) (p : UInt64 × Entry) :
    p ∈ s.remove k ↔ p ∈ s ∧ p.1 ≠ k := by
  unfold AStore.remove
  simp [List.mem_filter]

end SdnsVerif.Lemmas.CacheKey
