import SdnsVerif.Model.FailCache
/-!
Helper lemmas and specification-level definitions for C13
(`Props/C13.lean` holds the property theorems only).
-/
namespace SdnsVerif.Lemmas.FailCache
open SdnsVerif.Model.FailCache

/-! ### the table -/

theorem get_del_self (t : Table) (h : UInt64) : (t.del h).get h = none := by
  induction t with
  | nil => rfl
  | cons p r ih =>
    obtain ⟨k, e⟩ := p
    unfold Table.del at *
    by_cases hk : k = h
    · simp [List.filter, hk, ih]
    · have : (k != h) = true := by simpa using hk
      simp only [List.filter, this, Table.get, hk, if_false]
      exact ih

theorem get_del_ne (t : Table) (h h' : UInt64) (hne : h' ≠ h) : (t.del h).get h' = t.get h' := by
  induction t with
  | nil => rfl
  | cons p r ih =>
    obtain ⟨k, e⟩ := p
    unfold Table.del at *
    by_cases hk : k = h
    · subst hk
      have hk' : ¬ k = h' := fun x => hne x.symm
      simp [List.filter, Table.get, hk', ih]
    · have : (k != h) = true := by simpa using hk
      simp only [List.filter, this, Table.get]
      split
      · rfl
      · exact ih

theorem get_set_self (t : Table) (h : UInt64) (e : Entry) : (t.set h e).get h = some e := by
  simp [Table.set, Table.get]

theorem get_set_ne (t : Table) (h h' : UInt64) (e : Entry) (hne : h' ≠ h) :
    (t.set h e).get h' = t.get h' := by
  have : ¬ h = h' := fun x => hne x.symm
  simp [Table.set, Table.get, this, get_del_ne t h h' hne]

/-- deleting never makes an entry appear. -/
theorem get_del_some (t : Table) (h h' : UInt64) (e : Entry) (hg : (t.del h).get h' = some e) :
    t.get h' = some e := by
  by_cases hh : h' = h
  · subst hh; rw [get_del_self] at hg; cases hg
  · rwa [get_del_ne t h h' hh] at hg

theorem get_delMany_some (hs : List UInt64) (t : Table) (h' : UInt64) (e : Entry)
    (hg : (t.delMany hs).get h' = some e) : t.get h' = some e := by
  induction hs generalizing t with
  | nil => exact hg
  | cons h r ih =>
    unfold Table.delMany at hg ih
    simp only [List.foldl] at hg
    exact get_del_some t h h' e (ih (t.del h) hg)

/-! ### backoff -/

theorem backoffLoop_eq (max : Nat) : ∀ (n ttl : Nat), backoffLoop max n ttl = min max (ttl * 2 ^ n) := by
  intro n
  induction n with
  | zero => intro ttl; unfold backoffLoop; simp only [Nat.pow_zero, Nat.mul_one]; split <;> omega
  | succ n ih =>
    intro ttl
    unfold backoffLoop
    have hp : 1 ≤ 2 ^ n := Nat.one_le_two_pow
    have hexp : ttl * 2 ^ (n + 1) = ttl * 2 * 2 ^ n := by rw [Nat.pow_succ, Nat.mul_assoc, Nat.mul_comm (2 ^ n) 2]
    by_cases h1 : ttl < max
    · simp only [h1, if_true]
      by_cases h2 : ttl > max / 2
      · simp only [h2, if_true]
        have : max ≤ ttl * 2 * 2 ^ n := Nat.le_trans (by omega) (Nat.le_mul_of_pos_right (ttl * 2) hp)
        rw [hexp]; omega
      · simp only [h2, if_false]
        rw [ih, hexp]
    · simp only [h1, if_false]
      have : max ≤ ttl * 2 * 2 ^ n := Nat.le_trans (by omega) (Nat.le_mul_of_pos_right (ttl * 2) hp)
      rw [hexp]
      split <;> omega

theorem backoff_eq (c : Cfg) (s : Nat) : backoff c s = min c.max (c.initial * 2 ^ (s - 1)) := by
  unfold backoff; exact backoffLoop_eq _ _ _

/-! ### names -/

theorem foldByte_idem (c : Nat) : foldByte (foldByte c) = foldByte c := by
  unfold foldByte
  by_cases h : 65 ≤ c ∧ c ≤ 90
  · simp only [h, and_self, if_true]; split <;> omega
  · simp only [h, if_false]

theorem foldStr_idem (s : Str) : foldStr (foldStr s) = foldStr s := by
  unfold foldStr; rw [List.map_map]; congr 1; funext c; exact foldByte_idem c

/-- the remainders reachable by cutting after an unescaped dot that is not the last byte. -/
def cuts : Bool → Str → List Str
  | _, [] => []
  | _, [_] => []
  | odd, c :: d :: t =>
    if c = dot ∧ odd = false then (d :: t) :: cuts false (d :: t) else cuts (escNext odd c) (d :: t)

theorem nextLabel_cuts : ∀ (s : Str) (odd : Bool) (r : Str), nextLabel odd s = some r →
    r ∈ cuts odd s ∧ ∀ z ∈ cuts false r, z ∈ cuts odd s := by
  intro s
  induction s with
  | nil => intro odd r h; simp [nextLabel] at h
  | cons c t ih =>
    intro odd r h
    cases t with
    | nil => simp [nextLabel] at h
    | cons d t =>
      unfold nextLabel at h
      rw [cuts]
      by_cases hc : c = dot ∧ odd = false
      · simp only [hc, and_self, if_true, Option.some.injEq] at h
        subst h
        simp only [hc, and_self, if_true]
        exact ⟨List.mem_cons_self, fun z hz => List.mem_cons_of_mem _ hz⟩
      · simp only [hc, if_false] at h ⊢
        exact ih _ _ h

theorem cuts_length : ∀ (s : Str) (odd : Bool) (z : Str), z ∈ cuts odd s → z.length < s.length := by
  intro s
  induction s with
  | nil => intro odd z h; simp [cuts] at h
  | cons c t ih =>
    intro odd z h
    cases t with
    | nil => simp [cuts] at h
    | cons d t =>
      unfold cuts at h
      by_cases hc : c = dot ∧ odd = false
      · simp only [hc, and_self, if_true, List.mem_cons] at h
        rcases h with rfl | h
        · simp
        · have := ih false z h; simp at this ⊢; omega
      · simp only [hc, if_false] at h
        have := ih _ z h; simp at this ⊢; omega

/-- every zone the walk visits is the name itself, the root, or a cut. -/
theorem walk_mem : ∀ (f : Nat) (zone z : Str), z ∈ walkZonesFuel f zone →
    z = zone ∨ z = [dot] ∨ z ∈ cuts false zone := by
  intro f
  induction f with
  | zero => intro zone z h; simp [walkZonesFuel] at h
  | succ f ih =>
    intro zone z h
    unfold walkZonesFuel at h
    rcases List.mem_cons.mp h with rfl | h
    · exact Or.inl rfl
    · by_cases hz : zone = [dot]
      · simp [hz] at h
      · simp only [hz, if_false] at h
        cases hn : nextLabel false zone with
        | none => simp only [hn, List.mem_singleton] at h; exact Or.inr (Or.inl h)
        | some r =>
          simp only [hn] at h
          obtain ⟨hr, hsub⟩ := nextLabel_cuts zone false r hn
          rcases ih r z h with rfl | rfl | h'
          · exact Or.inr (Or.inr hr)
          · exact Or.inr (Or.inl rfl)
          · exact Or.inr (Or.inr (hsub z h'))

/-- the segments between unescaped dots (escapes kept). A rooted name ends
with the empty segment. -/
def segs : Bool → Str → List Str
  | _, [] => [[]]
  | odd, c :: t =>
    if c = dot ∧ odd = false then [] :: segs false t
    else match segs (escNext odd c) t with
      | [] => [[c]]
      | s :: rest => (c :: s) :: rest

theorem segs_ne_nil : ∀ (s : Str) (odd : Bool), segs odd s ≠ [] := by
  intro s
  induction s with
  | nil => intro odd; simp [segs]
  | cons c t ih =>
    intro odd
    unfold segs
    split
    · simp
    · split <;> simp

/-- the labels of a rooted presentation name, leftmost first; the root has none. -/
def labels (s : Str) : List Str := if s = [dot] then [] else (segs false s).dropLast

theorem cuts_segs : ∀ (s : Str) (odd : Bool) (z : Str), z ∈ cuts odd s →
    ∃ p pre, segs odd s = (p :: pre) ++ segs false z := by
  intro s
  induction s with
  | nil => intro odd z h; simp [cuts] at h
  | cons c t ih =>
    intro odd z h
    cases t with
    | nil => simp [cuts] at h
    | cons d t =>
      unfold cuts at h
      by_cases hc : c = dot ∧ odd = false
      · simp only [hc, and_self, if_true, List.mem_cons] at h
        have hs : segs odd (c :: d :: t) = [] :: segs false (d :: t) := by
          rw [segs]; simp [hc]
        rcases h with rfl | h
        · exact ⟨[], [], by rw [hs]; rfl⟩
        · obtain ⟨p, pre, hp⟩ := ih false z h
          exact ⟨[], p :: pre, by rw [hs, hp]; rfl⟩
      · simp only [hc, if_false] at h
        obtain ⟨p, pre, hp⟩ := ih _ z h
        refine ⟨c :: p, pre, ?_⟩
        rw [segs]
        simp only [hc, if_false, hp]
        rfl

/-- **label-wise ancestry of the walk.** every zone handed to `visit` has, as
its labels, a suffix of the labels of the name walked. -/
theorem walk_labels_suffix (f : Nat) (n z : Str) (h : z ∈ walkZonesFuel f n) : labels z <:+ labels n := by
  rcases walk_mem f n z h with rfl | rfl | hc
  · exact List.suffix_refl _
  · simp [labels]
  · obtain ⟨p, pre, hs⟩ := cuts_segs n false z hc
    have hn : n ≠ [dot] := by
      intro hn; subst hn; simp [cuts] at hc
    unfold labels
    simp only [hn, if_false, hs]
    rw [List.dropLast_append_of_ne_nil (segs_ne_nil z false)]
    by_cases hz : z = [dot]
    · simp [hz]
    · simp only [hz, if_false]
      exact List.suffix_append _ _

theorem cuts_suffix : ∀ (s : Str) (odd : Bool) (z : Str), z ∈ cuts odd s → z <:+ s := by
  intro s
  induction s with
  | nil => intro odd z h; simp [cuts] at h
  | cons c t ih =>
    intro odd z h
    cases t with
    | nil => simp [cuts] at h
    | cons d t =>
      unfold cuts at h
      by_cases hc : c = dot ∧ odd = false
      · simp only [hc, and_self, if_true, List.mem_cons] at h
        rcases h with rfl | h
        · exact List.suffix_cons _ _
        · exact List.IsSuffix.trans (ih false z h) (List.suffix_cons _ _)
      · simp only [hc, if_false] at h
        exact List.IsSuffix.trans (ih _ z h) (List.suffix_cons _ _)

theorem cuts_isFqdn : ∀ (s : Str) (odd : Bool) (z : Str), z ∈ cuts odd s →
    isFqdnAux odd s = isFqdnAux false z := by
  intro s
  induction s with
  | nil => intro odd z h; simp [cuts] at h
  | cons c t ih =>
    intro odd z h
    cases t with
    | nil => simp [cuts] at h
    | cons d t =>
      unfold cuts at h
      rw [isFqdnAux]
      by_cases hc : c = dot ∧ odd = false
      · simp only [hc, and_self, if_true, List.mem_cons] at h
        have he : escNext odd c = false := by
          unfold escNext; rw [hc.1]; simp [dot, bslash]
        rw [he]
        rcases h with rfl | h
        · rfl
        · exact ih false z h
      · simp only [hc, if_false] at h
        exact ih _ z h

/-- on a rooted, folded name every walked zone is already canonical (so the
second `CanonicalName` inside `loadZone` is the identity). -/
theorem walk_canonical (f : Nat) (n z : Str) (hfq : isFqdn n = true) (hfold : foldStr n = n)
    (h : z ∈ walkZonesFuel f n) : canonicalName z = z := by
  have hall : ∀ c ∈ n, foldByte c = c := by
    intro c hc
    have hm : n.map foldByte = n := hfold
    obtain ⟨i, hi, rfl⟩ := List.getElem_of_mem hc
    have := congrArg (fun l => l[i]?) hm
    simp only [List.getElem?_map] at this
    rw [List.getElem?_eq_getElem hi] at this
    simpa using this
  rcases walk_mem f n z h with rfl | rfl | hc
  · unfold canonicalName fqdn; rw [hfq]; simpa using hfold
  · decide
  · have hsuf := cuts_suffix n false z hc
    have hz : isFqdn z = true := by
      unfold isFqdn at *; rw [← cuts_isFqdn n false z hc]; exact hfq
    unfold canonicalName fqdn; rw [hz]
    simp only [if_true]
    unfold foldStr
    calc z.map foldByte = z.map id := List.map_congr_left (fun c hcz => hall c (hsuf.subset hcz))
      _ = z := List.map_id z

end SdnsVerif.Lemmas.FailCache
