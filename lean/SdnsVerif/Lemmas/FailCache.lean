import SdnsVerif.Model.FailCache
/-!
Helper lemmas and specification-level definitions for C13
(`Props/C13.lean` holds the property theorems only).
-/
namespace SdnsVerif.Lemmas.FailCache
open SdnsVerif.Model.FailCache

/-! ### the table -/

theorem get_del_self (t : Table) (h : UInt64) : (t.del h).get h = none := by
  induction t with
  | nil => rfl
  | cons p r ih =>
    obtain ⟨k, e⟩ := p
    unfold Table.del at *
    by_cases hk : k = h
    · simp [List.filter, hk, ih]
    · have : (k != h) = true := by simpa using hk
      simp only [List.filter, this, Table.get, hk, if_false]
      exact ih

theorem get_del_ne (t : Table) (h h' : UInt64) (hne : h' ≠ h) : (t.del h).get h' = t.get h' := by
  induction t with
  | nil => rfl
  | cons p r ih =>
    obtain ⟨k, e⟩ := p
    unfold Table.del at *
    by_cases hk : k = h
    · subst hk
      have hk' : ¬ k = h' := fun x => hne x.symm
      simp [List.filter, Table.get, hk', ih]
    · have : (k != h) = true := by simpa using hk
      simp only [List.filter, this, Table.get]
      split
      · rfl
      · exact ih

theorem get_set_self (t : Table) (h : UInt64) (e : Entry) : (t.set h e).get h = some e := by
  simp [Table.set, Table.get]

theorem get_set_ne (t : Table) (h h' : UInt64) (e : Entry) (hne : h' ≠ h) :
    (t.set h e).get h' = t.get h' := by
  have : ¬ h = h' := fun x => hne x.symm
  simp [Table.set, Table.get, this, get_del_ne t h h' hne]

/-- deleting never makes an entry appear. -/
theorem get_del_some (t : Table) (h h' : UInt64) (e : Entry) (hg : (t.del h).get h' = some e) :
    t.get h' = some e := by
  by_cases hh : h' = h
  · subst hh; rw [get_del_self] at hg; cases hg
  · rwa [get_del_ne t h h' hh] at hg

theorem get_delMany_some (hs : List UInt64) (t : Table) (h' : UInt64) (e : Entry)
    (hg : (t.delMany hs).get h' = some e) : t.get h' = some e := by
  induction hs generalizing t with
  | nil => exact hg
  | cons h r ih =>
    unfold Table.delMany at hg ih
    simp only [List.foldl] at hg
    exact get_del_some t h h' e (ih (t.del h) hg)

/-! ### backoff -/

theorem backoffLoop_eq (max : Nat) : ∀ (n ttl : Nat), backoffLoop max n ttl = min max (ttl * 2 ^ n) := by
  intro n
  induction n with
  | zero => intro ttl; unfold backoffLoop; simp only [Nat.pow_zero, Nat.mul_one]; split <;> omega
  | succ n ih =>
    intro ttl
    unfold backoffLoop
    have hp : 1 ≤ 2 ^ n := Nat.one_le_two_pow
    have hexp : ttl * 2 ^ (n + 1) = ttl * 2 * 2 ^ n := by rw [Nat.pow_succ, Nat.mul_assoc, Nat.mul_comm (2 ^ n) 2]
    by_cases h1 : ttl < max
    · simp only [h1, if_true]
      by_cases h2 : ttl > max / 2
      · simp only [h2, if_true]
        have : max ≤ ttl * 2 * 2 ^ n := Nat.le_trans (by omega) (Nat.le_mul_of_pos_right (ttl * 2) hp)
        rw [hexp]; omega
      · simp only [h2, if_false]
        rw [ih, hexp]
    · simp only [h1, if_false]
      have : max ≤ ttl * 2 * 2 ^ n := Nat.le_trans (by omega) (Nat.le_mul_of_pos_right (ttl * 2) hp)
      rw [hexp]
      split <;> omega

theorem backoff_eq (c : Cfg) (s : Nat) : backoff c s = min c.max (c.initial * 2 ^ (s - 1)) := by
  unfold backoff; exact backoffLoop_eq _ _ _

/-! ### names -/

theorem foldByte_idem (c : Nat) : foldByte (foldByte c) = foldByte c := by
  unfold foldByte
  by_cases h : 65 ≤ c ∧ c ≤ 90
  · simp only [h, and_self, if_true]; split <;> omega
  · simp only [h, if_false]

theorem foldStr_idem (s : Str) : foldStr (foldStr s) = foldStr s := by
  unfold foldStr; rw [List.map_map]; congr 1; funext c; exact foldByte_idem c

/-- the remainders reachable by cutting after an unescaped dot that is not the last byte. -/
def cuts : Bool → Str → List Str
  | _, [] => []
  | _, [_] => []
  | odd, c :: d :: t =>
    if c = dot ∧ odd = false then (d :: t) :: cuts false (d :: t) else cuts (escNext odd c) (d :: t)

theorem nextLabel_cuts : ∀ (s : Str) (odd : Bool) (r : Str), nextLabel odd s = some r →
    r ∈ cuts odd s ∧ ∀ z ∈ cuts false r, z ∈ cuts odd s := by
  intro s
  induction s with
  | nil => intro odd r h; simp [nextLabel] at h
  | cons c t ih =>
    intro odd r h
    cases t with
    | nil => simp [nextLabel] at h
    | cons d t =>
      unfold nextLabel at h
      rw [cuts]
      by_cases hc : c = dot ∧ odd = false
      · simp only [hc, and_self, if_true, Option.some.injEq] at h
        subst h
        simp only [hc, and_self, if_true]
        exact ⟨List.mem_cons_self, fun z hz => List.mem_cons_of_mem _ hz⟩
      · simp only [hc, if_false] at h ⊢
        exact ih _ _ h

theorem cuts_length : ∀ (s : Str) (odd : Bool) (z : Str), z ∈ cuts odd s → z.length < s.length := by
  intro s
  induction s with
  | nil => intro odd z h; simp [cuts] at h
  | cons c t ih =>
    intro odd z h
    cases t with
    | nil => simp [cuts] at h
    | cons d t =>
      unfold cuts at h
      by_cases hc : c = dot ∧ odd = false
      · simp only [hc, and_self, if_true, List.mem_cons] at h
        rcases h with rfl | h
        · simp
        · have := ih false z h; simp at this ⊢; omega
      · simp only [hc, if_false] at h
        have := ih _ z h; simp at this ⊢; omega

/-- every zone the walk visits is the name itself, the root, or a cut. -/
theorem walk_mem : ∀ (f : Nat) (zone z : Str), z ∈ walkZonesFuel f zone →
    z = zone ∨ z = [dot] ∨ z ∈ cuts false zone := by
  intro f
  induction f with
  | zero => intro zone z h; simp [walkZonesFuel] at h
  | succ f ih =>
    intro zone z h
    unfold walkZonesFuel at h
    rcases List.mem_cons.mp h with rfl | h
    · exact Or.inl rfl
    · by_cases hz : zone = [dot]
      · simp [hz] at h
      · simp only [hz, if_false] at h
        cases hn : nextLabel false zone with
        | none => simp only [hn, List.mem_singleton] at h; exact Or.inr (Or.inl h)
        | some r =>
          simp only [hn] at h
          obtain ⟨hr, hsub⟩ := nextLabel_cuts zone false r hn
          rcases ih r z h with rfl | rfl | h'
          · exact Or.inr (Or.inr hr)
          · exact Or.inr (Or.inl rfl)
          · exact Or.inr (Or.inr (hsub z h'))

/-- the segments between unescaped dots (escapes kept). A rooted name ends
with the empty segment. -/
def segs : Bool → Str → List Str
  | _, [] => [[]]
  | odd, c :: t =>
    if c = dot ∧ odd = false then [] :: segs false t
    else match segs (escNext odd c) t with
      | [] => [[c]]
      | s :: rest => (c :: s) :: rest

theorem segs_ne_nil : ∀ (s : Str) (odd : Bool), segs odd s ≠ [] := by
  intro s
  induction s with
  | nil => intro odd; simp [segs]
  | cons c t ih =>
    intro odd
    unfold segs
    split
    · simp
    · split <;> simp

/-- the labels of a rooted presentation name, leftmost first; the root has none. -/
def labels (s : Str) : List Str := if s = [dot] then [] else (segs false s).dropLast

theorem cuts_segs : ∀ (s : Str) (odd : Bool) (z : Str), z ∈ cuts odd s →
    ∃ p pre, segs odd s = (p :: pre) ++ segs false z := by
  intro s
  induction s with
  | nil => intro odd z h; simp [cuts] at h
  | cons c t ih =>
    intro odd z h
    cases t with
    | nil => simp [cuts] at h
    | cons d t =>
      unfold cuts at h
      by_cases hc : c = dot ∧ odd = false
      · simp only [hc, and_self, if_true, List.mem_cons] at h
        have hs : segs odd (c :: d :: t) = [] :: segs false (d :: t) := by
          rw [segs]; simp [hc]
        rcases h with rfl | h
        · exact ⟨[], [], by rw [hs]; rfl⟩
        · obtain ⟨p, pre, hp⟩ := ih false z h
          exact ⟨[], p :: pre, by rw [hs, hp]; rfl⟩
      · simp only [hc, if_false] at h
        obtain ⟨p, pre, hp⟩ := ih _ z h
        refine ⟨c :: p, pre, ?_⟩
        rw [segs]
        simp only [hc, if_false, hp]
        rfl

/-- **label-wise ancestry of the walk.** every zone handed to `visit` has, as
its labels, a suffix of the labels of the name walked. -/
theorem walk_labels_suffix (f : Nat) (n z : Str) (h : z ∈ walkZonesFuel f n) : labels z <:+ labels n := by
  rcases walk_mem f n z h with rfl | rfl | hc
  · exact List.suffix_refl _
  · simp [labels]
  · obtain ⟨p, pre, hs⟩ := cuts_segs n false z hc
    have hn : n ≠ [dot] := by
      intro hn; subst hn; simp [cuts] at hc
    unfold labels
    simp only [hn, if_false, hs]
    rw [List.dropLast_append_of_ne_nil (segs_ne_nil z false)]
    by_cases hz : z = [dot]
    · simp [hz]
    · simp only [hz, if_false]
      exact List.suffix_append _ _

theorem cuts_suffix : ∀ (s : Str) (odd : Bool) (z : Str), z ∈ cuts odd s → z <:+ s := by
  intro s
  induction s with
  | nil => intro odd z h; simp [cuts] at h
  | cons c t ih =>
    intro odd z h
    cases t with
    | nil => simp [cuts] at h
    | cons d t =>
      unfold cuts at h
      by_cases hc : c = dot ∧ odd = false
      · simp only [hc, and_self, if_true, List.mem_cons] at h
        rcases h with rfl | h
        · exact List.suffix_cons _ _
        · exact List.IsSuffix.trans (ih false z h) (List.suffix_cons _ _)
      · simp only [hc, if_false] at h
        exact List.IsSuffix.trans (ih _ z h) (List.suffix_cons _ _)

theorem cuts_isFqdn : ∀ (s : Str) (odd : Bool) (z : Str), z ∈ cuts odd s →
    isFqdnAux odd s = isFqdnAux false z := by
  intro s
  induction s with
  | nil => intro odd z h; simp [cuts] at h
  | cons c t ih =>
    intro odd z h
    cases t with
    | nil => simp [cuts] at h
    | cons d t =>
      unfold cuts at h
      rw [isFqdnAux]
      by_cases hc : c = dot ∧ odd = false
      · simp only [hc, and_self, if_true, List.mem_cons] at h
        have he : escNext odd c = false := by
          unfold escNext; rw [hc.1]; simp [dot, bslash]
        rw [he]
        rcases h with rfl | h
        · rfl
        · exact ih false z h
      · simp only [hc, if_false] at h
        exact ih _ z h

/-- on a rooted, folded name every walked zone is already canonical (so the
second `CanonicalName` inside `loadZone` is the identity). -/
theorem walk_canonical (f : Nat) (n z : Str) (hfq : isFqdn n = true) (hfold : foldStr n = n)
    (h : z ∈ walkZonesFuel f n) : canonicalName z = z := by
  have hall : ∀ c ∈ n, foldByte c = c := by
    intro c hc
    have hm : n.map foldByte = n := hfold
    obtain ⟨i, hi, rfl⟩ := List.getElem_of_mem hc
    have := congrArg (fun l => l[i]?) hm
    simp only [List.getElem?_map] at this
    rw [List.getElem?_eq_getElem hi] at this
    simpa using this
  rcases walk_mem f n z h with rfl | rfl | hc
  · unfold canonicalName fqdn; rw [hfq]; simpa using hfold
  · decide
  · have hsuf := cuts_suffix n false z hc
    have hz : isFqdn z = true := by
      unfold isFqdn at *; rw [← cuts_isFqdn n false z hc]; exact hfq
    unfold canonicalName fqdn; rw [hz]
    simp only [if_true]
    unfold foldStr
    calc z.map foldByte = z.map id := List.map_congr_left (fun c hcz => hall c (hsuf.subset hcz))
      _ = z := List.map_id z


/-! ### wire suffixes are cut at label boundaries -/

/-- wire encoding of a list of labels (without the root byte). -/
def encodeLabels (ls : List (List Nat)) : Wire := ls.flatMap (fun l => l.length :: l)

theorem wireSuffixes_boundary : ∀ (f : Nat) (w s : Wire), s ∈ wireSuffixesFuel f w →
    ∃ ls : List (List Nat), (∀ l ∈ ls, 1 ≤ l.length ∧ l.length ≤ 63) ∧ w = encodeLabels ls ++ s := by
  intro f
  induction f with
  | zero => intro w s h; simp [wireSuffixesFuel] at h
  | succ f ih =>
    intro w s h
    cases w with
    | nil => simp [wireSuffixesFuel] at h
    | cons c rest =>
      unfold wireSuffixesFuel at h
      rcases List.mem_cons.mp h with rfl | h
      · exact ⟨[], by simp, by simp [encodeLabels]⟩
      · by_cases hc : c = 0 ∨ c > 63 ∨ c > rest.length
        · simp [hc] at h
        · simp only [hc, if_false] at h
          obtain ⟨ls, hls, hw⟩ := ih _ s h
          refine ⟨rest.take c :: ls, ?_, ?_⟩
          · intro l hl
            rcases List.mem_cons.mp hl with rfl | hl
            · rw [List.length_take]; omega
            · exact hls l hl
          · have hlen : (rest.take c).length = c := by rw [List.length_take]; omega
            simp only [encodeLabels, List.flatMap_cons, hlen, List.cons_append, List.append_assoc]
            congr 1
            have := List.take_append_drop c rest
            rw [hw] at this
            simpa [encodeLabels] using this.symm

/-! ### loads, walks -/

theorem loadQuestion_spec (H : Hash) (t : Table) (k : QKey) (e : Entry) (h : loadQuestion H t k = some e) :
    t.get (H.q k) = some e ∧ e.kind = .question ∧ e.q = k := by
  unfold loadQuestion at h
  split at h
  · rename_i e' he
    split at h
    · rename_i hc; cases h; exact ⟨he, hc.1, hc.2⟩
    · cases h
  · cases h

theorem loadZone_spec (H : Hash) (t : Table) (k : ZKey) (e : Entry) (h : loadZone H t k = some e) :
    t.get (H.z (normalizeZ k)) = some e ∧ e.kind = .zone ∧ e.z = normalizeZ k := by
  unfold loadZone at h
  simp only at h
  split at h
  · rename_i e' he
    split at h
    · rename_i hc; cases h; exact ⟨he, hc.1, hc.2⟩
    · cases h
  · cases h

theorem firstActiveZone_some (H : Hash) (t : Table) (now : Int) (cls : Nat) :
    ∀ (zs : List Str) (e : Entry), firstActiveZone H t now cls zs = some e →
      ∃ z ∈ zs, loadZone H t ⟨z, cls⟩ = some e ∧ now < e.retryAfter := by
  intro zs
  induction zs with
  | nil => intro e h; simp [firstActiveZone] at h
  | cons z rest ih =>
    intro e h
    unfold firstActiveZone at h
    split at h
    · rename_i e' he
      split at h
      · rename_i hact; cases h; exact ⟨z, List.mem_cons_self, he, hact⟩
      · obtain ⟨z', hz', h'⟩ := ih e h; exact ⟨z', List.mem_cons_of_mem _ hz', h'⟩
    · obtain ⟨z', hz', h'⟩ := ih e h; exact ⟨z', List.mem_cons_of_mem _ hz', h'⟩

theorem firstActiveZone_none_of (H : Hash) (t : Table) (now : Int) (cls : Nat) :
    ∀ (zs : List Str), (∀ z ∈ zs, ∀ e, loadZone H t ⟨z, cls⟩ = some e → ¬ now < e.retryAfter) →
      firstActiveZone H t now cls zs = none := by
  intro zs
  induction zs with
  | nil => intro _; rfl
  | cons z rest ih =>
    intro h
    unfold firstActiveZone
    have ihr := ih (fun z' hz' => h z' (List.mem_cons_of_mem _ hz'))
    split
    · rename_i e he
      have := h z List.mem_cons_self e he
      simp [this, ihr]
    · exact ihr

/-- `retryWalk` returns a key only if no zone on the path is active. -/
theorem retryWalk_some_inactive (H : Hash) (t : Table) (now : Int) (cls : Nat) :
    ∀ (zs : List Str) (acc r : Option UInt64), retryWalk H t now cls zs acc = some r →
      ∀ z ∈ zs, ∀ e, loadZone H t ⟨z, cls⟩ = some e → ¬ now < e.retryAfter := by
  intro zs
  induction zs with
  | nil => intro acc r _ z hz; simp at hz
  | cons z0 rest ih =>
    intro acc r h z hz e he
    unfold retryWalk at h
    split at h
    · rename_i hnone
      rcases List.mem_cons.mp hz with rfl | hz
      · rw [hnone] at he; cases he
      · exact ih _ _ h z hz e he
    · rename_i e0 he0
      split at h
      · cases h
      · rename_i hact
        rcases List.mem_cons.mp hz with rfl | hz
        · rw [he0] at he; cases he; exact hact
        · exact ih _ _ h z hz e he

/-- the closest zone on the path that has ANY retained (verified) state. -/
def firstStored (H : Hash) (t : Table) (cls : Nat) : List Str → Option Str
  | [] => none
  | z :: rest => if (loadZone H t ⟨z, cls⟩).isSome then some z else firstStored H t cls rest

theorem retryWalk_key (H : Hash) (t : Table) (now : Int) (cls : Nat) :
    ∀ (zs : List Str) (acc r : Option UInt64), retryWalk H t now cls zs acc = some r →
      r = (match acc with
           | some a => some a
           | none => (firstStored H t cls zs).map (fun z => H.z (normalizeZ ⟨z, cls⟩))) := by
  intro zs
  induction zs with
  | nil => intro acc r h; simp only [retryWalk, Option.some.injEq] at h; subst h; cases acc <;> rfl
  | cons z0 rest ih =>
    intro acc r h
    unfold retryWalk at h
    unfold firstStored
    split at h
    · rename_i hnone
      simp only [hnone, Option.isSome_none, Bool.false_eq_true, if_false]
      exact ih _ _ h
    · rename_i e0 he0
      split at h
      · cases h
      · have := ih _ _ h
        simp only [he0, Option.isSome_some, if_true, Option.map_some]
        cases acc with
        | some a => simpa using this
        | none => simpa using this

/-! ### record -/

/-- the three outcomes of `record`. -/
theorem record_cases (c : Cfg) (t : Table) (now : Int) (h : UInt64) (cand : Entry) :
    let first : Entry := { cand with streak := 1, retryAfter := now + c.initial }
    ((t.get h = none ∨ ∃ cur, t.get h = some cur ∧ sameKey cur cand = false) ∧
        record c t now h cand = (t.set h first, first)) ∨
    (∃ cur, t.get h = some cur ∧ sameKey cur cand = true ∧ now < cur.retryAfter ∧
        record c t now h cand = (t, cur)) ∨
    (∃ cur, t.get h = some cur ∧ sameKey cur cand = true ∧ ¬ now < cur.retryAfter ∧
        let streak := if now - cur.retryAfter ≥ (c.max : Int) then 1
                      else if cur.streak < maxStreak then cur.streak + 1 else cur.streak
        let next : Entry := { cur with streak := streak, prov := cand.prov, witness := cand.witness,
                                       retryAfter := now + backoff c streak }
        record c t now h cand = (t.set h next, next)) := by
  intro first
  unfold record
  cases hg : t.get h with
  | none => exact Or.inl ⟨Or.inl rfl, rfl⟩
  | some cur =>
    by_cases hs : sameKey cur cand = true
    · by_cases ha : now < cur.retryAfter
      · exact Or.inr (Or.inl ⟨cur, rfl, hs, ha, by simp [hs, ha]⟩)
      · exact Or.inr (Or.inr ⟨cur, rfl, hs, ha, by simp [hs, ha]⟩)
    · have hs' : sameKey cur cand = false := by simpa using hs
      exact Or.inl ⟨Or.inr ⟨cur, rfl, hs'⟩, by simp only [hs', Bool.false_eq_true, if_false]; rfl⟩

theorem record_get_self (c : Cfg) (t : Table) (now : Int) (h : UInt64) (cand : Entry) :
    (record c t now h cand).1.get h = some (record c t now h cand).2 := by
  rcases record_cases c t now h cand with ⟨_, hr⟩ | ⟨cur, hg, _, _, hr⟩ | ⟨cur, _, _, _, hr⟩
  · rw [hr]; exact get_set_self _ _ _
  · rw [hr]; exact hg
  · simp only at hr; rw [hr]; exact get_set_self _ _ _

theorem record_get_ne (c : Cfg) (t : Table) (now : Int) (h h' : UInt64) (cand : Entry) (hne : h' ≠ h) :
    (record c t now h cand).1.get h' = t.get h' := by
  rcases record_cases c t now h cand with ⟨_, hr⟩ | ⟨cur, _, _, _, hr⟩ | ⟨cur, _, _, _, hr⟩
  · rw [hr]; exact get_set_ne _ _ _ _ hne
  · rw [hr]
  · simp only at hr; rw [hr]; exact get_set_ne _ _ _ _ hne

theorem sameKey_refl_of (a b : Entry) (hk : a.kind = b.kind) (hq : a.q = b.q) (hz : a.z = b.z) :
    sameKey a b = true := by
  unfold sameKey
  rw [hk, hq, hz]
  cases b.kind <;> simp

/-! ### histories -/

/-- an actually recorded failure: which question / zone failed, and when. -/
structure Ev where
  kind : Kind
  q : QKey
  z : ZKey
  time : Int

def keyMatch (ev : Ev) (e : Entry) : Prop :=
  ev.kind = e.kind ∧ (match e.kind with
    | .question => ev.q = e.q
    | .zone => ev.z = e.z)

/-- `e` exists because exactly its question / zone was recorded as failed at
`ev.time`, and suppresses for exactly the backoff of its streak from then. -/
def Justified (c : Cfg) (evs : List Ev) (e : Entry) : Prop :=
  ∃ ev ∈ evs, keyMatch ev e ∧ 1 ≤ e.streak ∧ e.retryAfter = ev.time + (backoff c e.streak : Int)

def Inv (c : Cfg) (evs : List Ev) (t : Table) : Prop := ∀ h e, t.get h = some e → Justified c evs e

theorem Inv_mono (c : Cfg) (evs evs' : List Ev) (t : Table) (hsub : ∀ ev ∈ evs, ev ∈ evs')
    (hi : Inv c evs t) : Inv c evs' t := by
  intro h e hg
  obtain ⟨ev, hev, hm⟩ := hi h e hg
  exact ⟨ev, hsub ev hev, hm⟩

theorem backoff_one (c : Cfg) (hv : c.Valid) : backoff c 1 = c.initial := by
  rw [backoff_eq]; simp only [Nat.sub_self, Nat.pow_zero, Nat.mul_one]
  exact Nat.min_eq_right hv.2.1

theorem sameKey_keyMatch (cur cand : Entry) (hs : sameKey cur cand = true) (now : Int) :
    keyMatch ⟨cand.kind, cand.q, cand.z, now⟩ cur := by
  unfold sameKey at hs
  simp only [Bool.and_eq_true, beq_iff_eq] at hs
  obtain ⟨hk, hm⟩ := hs
  refine ⟨hk.symm, ?_⟩
  cases hkk : cur.kind with
  | question => simp only [hkk] at hm ⊢; exact (by simpa using hm : cur.q = cand.q).symm
  | zone => simp only [hkk] at hm ⊢; exact (by simpa using hm : cur.z = cand.z).symm

theorem record_preserves (c : Cfg) (hv : c.Valid) (evs : List Ev) (t : Table) (now : Int) (h : UInt64)
    (cand : Entry) (hi : Inv c evs t) :
    Inv c (evs ++ [⟨cand.kind, cand.q, cand.z, now⟩]) (record c t now h cand).1 := by
  have hmono : ∀ ev ∈ evs, ev ∈ evs ++ [⟨cand.kind, cand.q, cand.z, now⟩] :=
    fun ev hev => List.mem_append_left _ hev
  have hnew : (⟨cand.kind, cand.q, cand.z, now⟩ : Ev) ∈ evs ++ [⟨cand.kind, cand.q, cand.z, now⟩] :=
    List.mem_append_right _ (List.mem_singleton.mpr rfl)
  intro h' e hg
  by_cases hh : h' = h
  · subst hh
    rw [record_get_self] at hg
    cases hg
    rcases record_cases c t now h' cand with ⟨_, hr⟩ | ⟨cur, hgc, _, _, hr⟩ | ⟨cur, hgc, hs, _, hr⟩
    · rw [hr]
      refine ⟨_, hnew, ⟨rfl, ?_⟩, Nat.le_refl 1, ?_⟩
      · cases cand.kind <;> rfl
      · simp only [backoff_one c hv]
    · rw [hr]
      obtain ⟨ev, hev, hm⟩ := hi h' cur hgc
      exact ⟨ev, hmono ev hev, hm⟩
    · simp only at hr
      rw [hr]
      refine ⟨_, hnew, ?_, ?_, rfl⟩
      · have := sameKey_keyMatch cur cand hs now
        exact this
      · simp only
        split
        · exact Nat.le_refl 1
        · split
          · omega
          · rename_i hlt; unfold maxStreak at hlt; omega
  · rw [record_get_ne c t now h h' cand hh] at hg
    obtain ⟨ev, hev, hm⟩ := hi h' e hg
    exact ⟨ev, hmono ev hev, hm⟩

/-- one step of a history. `evict` deletes any set of keys (capacity eviction). -/
inductive Op
  | recQ (k : QKey) (prov wit : Nat) (now : Int)
  | recZ (k : ZKey) (prov wit : Nat) (now : Int)
  | resetQ (k : QKey)
  | resetZ (k : ZKey)
  | resetM (k : QKey)
  | purge (name : Str) (qtype qclass : Nat)
  | evict (hs : List UInt64)

def applyOp (H : Hash) (c : Cfg) (t : Table) : Op → Table
  | .recQ k prov wit now => (recordQuestion H c t now k prov wit).1
  | .recZ k prov wit now => (recordZone H c t now k prov wit).1
  | .resetQ k => (resetQuestion H t k).1
  | .resetZ k => (resetZone H t k).1
  | .resetM k => (resetMatching H t k).1
  | .purge n qt qc => (purgeQuestion t n qt qc).1
  | .evict hs => t.delMany hs

/-- the failure a record op reports: exactly the normalised key it was called with. -/
def eventOf : Op → Option Ev
  | .recQ k _ _ now => some ⟨.question, normalizeQ k, zeroZ, now⟩
  | .recZ k _ _ now => some ⟨.zone, zeroQ, normalizeZ k, now⟩
  | _ => none

def events (ops : List Op) : List Ev := ops.filterMap eventOf

theorem resetQuestion_get_some (H : Hash) (t : Table) (k : QKey) (h : UInt64) (e : Entry)
    (hg : (resetQuestion H t k).1.get h = some e) : t.get h = some e := by
  unfold resetQuestion at hg
  simp only at hg
  split at hg
  · split at hg
    · exact get_del_some _ _ _ _ hg
    · exact hg
  · exact hg

theorem resetZone_get_some (H : Hash) (t : Table) (k : ZKey) (h : UInt64) (e : Entry)
    (hg : (resetZone H t k).1.get h = some e) : t.get h = some e := by
  unfold resetZone at hg
  simp only at hg
  split at hg
  · split at hg
    · exact get_del_some _ _ _ _ hg
    · exact hg
  · exact hg

theorem resetZones_get_some (H : Hash) (cls : Nat) : ∀ (zs : List Str) (t : Table) (n : Nat) (h : UInt64) (e : Entry),
    (resetZones H cls zs t n).1.get h = some e → t.get h = some e := by
  intro zs
  induction zs with
  | nil => intro t n h e hg; exact hg
  | cons z rest ih =>
    intro t n h e hg
    unfold resetZones at hg
    exact resetZone_get_some H t ⟨z, cls⟩ h e (ih _ _ h e hg)

theorem resetMatching_get_some (H : Hash) (t : Table) (k : QKey) (h : UInt64) (e : Entry)
    (hg : (resetMatching H t k).1.get h = some e) : t.get h = some e := by
  unfold resetMatching at hg
  exact resetQuestion_get_some H t _ h e (resetZones_get_some H _ _ _ _ h e hg)

theorem applyOp_preserves (H : Hash) (c : Cfg) (hv : c.Valid) (pre : List Op) (t : Table) (op : Op)
    (hi : Inv c (events pre) t) : Inv c (events (pre ++ [op])) (applyOp H c t op) := by
  have hsub : ∀ ev ∈ events pre, ev ∈ events (pre ++ [op]) := by
    intro ev hev; unfold events at *; rw [List.filterMap_append]; exact List.mem_append_left _ hev
  have del : ∀ t' : Table, (∀ h e, t'.get h = some e → t.get h = some e) → Inv c (events (pre ++ [op])) t' := by
    intro t' ht h e hg
    obtain ⟨ev, hev, hm⟩ := hi h e (ht h e hg)
    exact ⟨ev, hsub ev hev, hm⟩
  cases op with
  | recQ k prov wit now =>
    have := record_preserves c hv (events pre) t now (H.q (normalizeQ k)) (questionCandidate (normalizeQ k) prov wit) hi
    simpa [applyOp, recordQuestion, events, List.filterMap_append, eventOf, questionCandidate] using this
  | recZ k prov wit now =>
    have := record_preserves c hv (events pre) t now (H.z (normalizeZ k)) (zoneCandidate (normalizeZ k) prov wit) hi
    simpa [applyOp, recordZone, events, List.filterMap_append, eventOf, zoneCandidate] using this
  | resetQ k => exact del _ (resetQuestion_get_some H t k)
  | resetZ k => exact del _ (resetZone_get_some H t k)
  | resetM k => exact del _ (resetMatching_get_some H t k)
  | purge n qt qc => exact del _ (fun h e hg => get_delMany_some _ t h e hg)
  | evict hs => exact del _ (fun h e hg => get_delMany_some hs t h e hg)

theorem foldl_preserves (H : Hash) (c : Cfg) (hv : c.Valid) : ∀ (ops pre : List Op) (t : Table),
    Inv c (events pre) t → Inv c (events (pre ++ ops)) (ops.foldl (applyOp H c) t) := by
  intro ops
  induction ops with
  | nil => intro pre t hi; simpa using hi
  | cons op rest ih =>
    intro pre t hi
    have h1 := applyOp_preserves H c hv pre t op hi
    have h2 := ih (pre ++ [op]) _ h1
    simpa [List.foldl, List.append_assoc] using h2

/-- every state retained after any history is justified by a failure that the
history actually recorded for exactly that key. -/
theorem reachable_inv (H : Hash) (c : Cfg) (hv : c.Valid) (ops : List Op) :
    Inv c (events ops) (ops.foldl (applyOp H c) []) := by
  have := foldl_preserves H c hv ops [] [] (by intro h e hg; simp [Table.get] at hg)
  simpa using this

/-! ### resets -/

theorem normalizeScope_idem (s : Scope) : normalizeScope (normalizeScope s) = normalizeScope s := by
  cases s with
  | none => rfl
  | some p =>
    unfold normalizeScope
    by_cases hb : p.bits = 0 ∨ p.bits > p.width
    · simp [hb]
    · simp only [hb, if_false]
      have hw : ({ p with addr := p.addr / 2 ^ (p.width - p.bits) * 2 ^ (p.width - p.bits) } : Prefix).width = p.width := rfl
      simp only [hw, hb, if_false]
      congr 2
      rw [Nat.mul_div_cancel _ (Nat.two_pow_pos _)]

theorem canonicalName_idem (n : Str) (hwf : isFqdn (canonicalName n) = true) :
    canonicalName (canonicalName n) = canonicalName n := by
  have h1 : fqdn (canonicalName n) = canonicalName n := by unfold fqdn; rw [hwf]; rfl
  have h2 : canonicalName (canonicalName n) = foldStr (fqdn (canonicalName n)) := rfl
  rw [h2, h1]
  unfold canonicalName
  exact foldStr_idem _

theorem normalizeQ_idem (k : QKey) (hwf : isFqdn (canonicalName k.name) = true) :
    normalizeQ (normalizeQ k) = normalizeQ k := by
  unfold normalizeQ
  simp only [canonicalName_idem k.name hwf, normalizeScope_idem]

theorem resetQuestion_load_none (H : Hash) (t : Table) (k : QKey) :
    loadQuestion H (resetQuestion H t k).1 (normalizeQ k) = none := by
  unfold resetQuestion loadQuestion
  simp only
  cases hg : t.get (H.q (normalizeQ k)) with
  | none => simp [hg]
  | some e =>
    by_cases hc : e.kind = .question ∧ e.q = normalizeQ k
    · simp [hc, get_del_self]
    · simp [hc, hg]

theorem resetZone_load_none (H : Hash) (t : Table) (k : ZKey) :
    loadZone H (resetZone H t k).1 k = none := by
  unfold resetZone loadZone
  simp only
  cases hg : t.get (H.z (normalizeZ k)) with
  | none => simp [hg]
  | some e =>
    by_cases hc : e.kind = .zone ∧ e.z = normalizeZ k
    · simp [hc, get_del_self]
    · simp [hc, hg]

theorem loadQuestion_none_of_deleted (H : Hash) (t t' : Table) (k : QKey)
    (hdel : ∀ h e, t'.get h = some e → t.get h = some e) (hn : loadQuestion H t k = none) :
    loadQuestion H t' k = none := by
  unfold loadQuestion at *
  cases hg : t'.get (H.q k) with
  | none => rfl
  | some e =>
    have := hdel _ _ hg
    simp only [this] at hn
    simpa using hn

theorem loadZone_none_of_deleted (H : Hash) (t t' : Table) (k : ZKey)
    (hdel : ∀ h e, t'.get h = some e → t.get h = some e) (hn : loadZone H t k = none) :
    loadZone H t' k = none := by
  unfold loadZone at *
  simp only at *
  cases hg : t'.get (H.z (normalizeZ k)) with
  | none => rfl
  | some e =>
    have := hdel _ _ hg
    simp only [this] at hn
    simpa using hn

theorem resetZones_load_none (H : Hash) (cls : Nat) : ∀ (zs : List Str) (t : Table) (n : Nat) (z : Str), z ∈ zs →
    loadZone H (resetZones H cls zs t n).1 ⟨z, cls⟩ = none := by
  intro zs
  induction zs with
  | nil => intro t n z hz; simp at hz
  | cons z0 rest ih =>
    intro t n z hz
    unfold resetZones
    rcases List.mem_cons.mp hz with rfl | hz
    · exact loadZone_none_of_deleted H _ _ _ (resetZones_get_some H cls rest _ _) (resetZone_load_none H t _)
    · exact ih _ _ z hz


/-! ### what a hit is -/

theorem lookup_spec (H : Hash) (t : Table) (now : Int) (k : QKey) (e : Entry) (h : lookup H t now k = some e) :
    now < e.retryAfter ∧
      (loadQuestion H t (normalizeQ k) = some e ∨
        ∃ z ∈ walkZones (normalizeQ k).name, loadZone H t ⟨z, (normalizeQ k).qclass⟩ = some e) := by
  unfold lookup at h
  simp only at h
  have zone : firstActiveZone H t now (normalizeQ k).qclass (walkZones (normalizeQ k).name) = some e →
      now < e.retryAfter ∧ (loadQuestion H t (normalizeQ k) = some e ∨
        ∃ z ∈ walkZones (normalizeQ k).name, loadZone H t ⟨z, (normalizeQ k).qclass⟩ = some e) := by
    intro hz
    obtain ⟨z, hz1, hz2, hz3⟩ := firstActiveZone_some H t now _ _ e hz
    exact ⟨hz3, Or.inr ⟨z, hz1, hz2⟩⟩
  split at h
  · rename_i e' he'
    split at h
    · rename_i hact; cases h; exact ⟨hact, Or.inl he'⟩
    · exact zone h
  · exact zone h

theorem wireFirstActiveZone_some (H : Hash) (t : Table) (now : Int) (cls : Nat) :
    ∀ (ss : List Wire) (e : Entry), wireFirstActiveZone H t now cls ss = some e →
      now < e.retryAfter ∧ e.kind = .zone ∧ e.z.qclass = cls ∧ ∃ s ∈ ss, wireEqPres s e.z.zone = true := by
  intro ss
  induction ss with
  | nil => intro e h; simp [wireFirstActiveZone] at h
  | cons s rest ih =>
    intro e h
    have next : wireFirstActiveZone H t now cls rest = some e →
        now < e.retryAfter ∧ e.kind = .zone ∧ e.z.qclass = cls ∧ ∃ s' ∈ s :: rest, wireEqPres s' e.z.zone = true := by
      intro h'
      obtain ⟨a, b, c, s', hs', d⟩ := ih e h'
      exact ⟨a, b, c, s', List.mem_cons_of_mem _ hs', d⟩
    unfold wireFirstActiveZone at h
    split at h
    · exact next h
    · split at h
      · split at h
        · rename_i hc; cases h
          exact ⟨hc.2.2.2, hc.1, hc.2.1, s, List.mem_cons_self, hc.2.2.1⟩
        · exact next h
      · exact next h

theorem lookupWire_spec (H : Hash) (t : Table) (now : Int) (w : Wire) (qt qc : Nat) (cd : Bool) (e : Entry)
    (h : lookupWire H t now w qt qc cd = some e) :
    now < e.retryAfter ∧
      ((e.kind = .question ∧ e.q.scope = none ∧ e.q.qtype = qt ∧ e.q.qclass = qc ∧ e.q.cd = cd ∧
          wireEqPres w e.q.name = true) ∨
       (e.kind = .zone ∧ e.z.qclass = qc ∧ ∃ s ∈ wireSuffixes w, wireEqPres s e.z.zone = true)) := by
  unfold lookupWire at h
  split at h
  · rename_i e' he'
    cases h
    unfold wireExact at he'
    split at he'
    · cases he'
    · split at he'
      · split at he'
        · rename_i hc; cases he'
          exact ⟨hc.2.2.2.2.2.2, Or.inl ⟨hc.1, hc.2.1, hc.2.2.1, hc.2.2.2.1, hc.2.2.2.2.1, hc.2.2.2.2.2.1⟩⟩
        · cases he'
      · cases he'
  · obtain ⟨a, b, c, d⟩ := wireFirstActiveZone_some H t now qc _ e h
    exact ⟨a, Or.inr ⟨b, c, d⟩⟩

/-- a retry key is handed out only while nothing on the path is active. -/
theorem retryKey_some_inactive (H : Hash) (t : Table) (now : Int) (k : QKey) (r : UInt64)
    (h : retryKey H t now k = some r) : lookup H t now k = none := by
  unfold retryKey at h
  simp only at h
  unfold lookup
  simp only
  cases hw : retryWalk H t now (normalizeQ k).qclass (walkZones (normalizeQ k).name) none with
  | none =>
    rw [hw] at h
    split at h
    · split at h <;> simp at h
    · simp at h
  | some acc =>
    have hz := firstActiveZone_none_of H t now _ _ (retryWalk_some_inactive H t now _ _ _ _ hw)
    rw [hz]
    split
    · rename_i e he
      rw [he] at h
      simp only at h
      split at h
      · cases h
      · rename_i hact; simp [hact]
    · rfl

/-- whenever the path holds retained zone state, the retry key is the key of
the CLOSEST such zone — whatever the question's name, type, CD or audience. -/
theorem retryKey_zone_first (H : Hash) (t : Table) (now : Int) (k : QKey) (r : UInt64) (z : Str)
    (h : retryKey H t now k = some r)
    (hz : firstStored H t (normalizeQ k).qclass (walkZones (normalizeQ k).name) = some z) :
    r = H.z (normalizeZ ⟨z, (normalizeQ k).qclass⟩) := by
  unfold retryKey at h
  simp only at h
  cases hw : retryWalk H t now (normalizeQ k).qclass (walkZones (normalizeQ k).name) none with
  | none =>
    rw [hw] at h
    split at h
    · split at h <;> simp at h
    · simp at h
  | some acc =>
    have hk := retryWalk_key H t now _ _ _ _ hw
    simp only [hz, Option.map_some] at hk
    subst hk
    rw [hw] at h
    split at h
    · split at h
      · cases h
      · simpa using h.symm
    · simpa using h.symm


/-! ### single-flight keys -/

theorem firstActiveZone_none_inactive (H : Hash) (t : Table) (now : Int) (cls : Nat) :
    ∀ (zs : List Str), firstActiveZone H t now cls zs = none →
      ∀ z ∈ zs, ∀ e, loadZone H t ⟨z, cls⟩ = some e → ¬ now < e.retryAfter := by
  intro zs
  induction zs with
  | nil => intro _ z hz; simp at hz
  | cons z0 rest ih =>
    intro h z hz e he
    unfold firstActiveZone at h
    split at h
    · rename_i e0 he0
      split at h
      · cases h
      · rename_i hact
        rcases List.mem_cons.mp hz with rfl | hz
        · rw [he0] at he; cases he; exact hact
        · exact ih h z hz e he
    · rename_i hnone
      rcases List.mem_cons.mp hz with rfl | hz
      · rw [hnone] at he; cases he
      · exact ih h z hz e he

theorem retryWalk_total (H : Hash) (t : Table) (now : Int) (cls : Nat) :
    ∀ (zs : List Str) (acc : Option UInt64),
      (∀ z ∈ zs, ∀ e, loadZone H t ⟨z, cls⟩ = some e → ¬ now < e.retryAfter) →
      ∃ r, retryWalk H t now cls zs acc = some r := by
  intro zs
  induction zs with
  | nil => intro acc _; exact ⟨acc, rfl⟩
  | cons z rest ih =>
    intro acc h
    unfold retryWalk
    have hr := fun z' hz' => h z' (List.mem_cons_of_mem _ hz')
    cases hl : loadZone H t ⟨z, cls⟩ with
    | none => exact ih acc hr
    | some e =>
      have := h z List.mem_cons_self e hl
      simp only [this, if_false]
      exact ih _ hr

/-- nothing active + retained zone state on the path ⇒ the retry key exists and is that zone's. -/
theorem retryKey_of_inactive_zone (H : Hash) (t : Table) (now : Int) (k : QKey) (z : Str)
    (hmiss : lookup H t now k = none)
    (hz : firstStored H t (normalizeQ k).qclass (walkZones (normalizeQ k).name) = some z) :
    retryKey H t now k = some (H.z (normalizeZ ⟨z, (normalizeQ k).qclass⟩)) := by
  unfold lookup at hmiss
  simp only at hmiss
  have hzone : firstActiveZone H t now (normalizeQ k).qclass (walkZones (normalizeQ k).name) = none := by
    split at hmiss
    · split at hmiss
      · cases hmiss
      · exact hmiss
    · exact hmiss
  have hin := firstActiveZone_none_inactive H t now _ _ hzone
  obtain ⟨r, hr⟩ := retryWalk_total H t now _ _ none hin
  have hk := retryWalk_key H t now _ _ _ _ hr
  simp only [hz, Option.map_some] at hk
  subst hk
  unfold retryKey
  simp only [hr]
  split
  · rename_i e he
    split
    · rename_i hact
      rw [he] at hmiss
      simp [hact] at hmiss
    · rfl
  · rfl

theorem distinctCount_all_eq (a : DedupKey) : ∀ (l : List DedupKey), l ≠ [] → (∀ x ∈ l, x = a) →
    distinctCount l = 1 := by
  intro l
  induction l with
  | nil => intro h; exact absurd rfl h
  | cons x t ih =>
    intro _ hall
    unfold distinctCount
    have hx : x = a := hall x List.mem_cons_self
    cases t with
    | nil => simp [distinctCount]
    | cons y t' =>
      have hy : y = a := hall y (List.mem_cons_of_mem _ List.mem_cons_self)
      have hc : (y :: t').contains x = true := by
        rw [hx, hy]; simp
      rw [hc, ih (by simp) (fun z hz => hall z (List.mem_cons_of_mem _ hz))]
      simp


/-! ### names decoded from the wire are well-formed (rooted) -/

/-- escape state after reading `xs`. -/
def scan (odd : Bool) (xs : Str) : Bool := xs.foldl escNext odd

theorem scan_append (odd : Bool) (a b : Str) : scan odd (a ++ b) = scan (scan odd a) b := by
  unfold scan; exact List.foldl_append

theorem isFqdnAux_append_dot : ∀ (xs : Str) (odd : Bool), isFqdnAux odd (xs ++ [dot]) = !(scan odd xs) := by
  intro xs
  induction xs with
  | nil => intro odd; simp [isFqdnAux, scan]
  | cons c t ih =>
    intro odd
    have hstep : isFqdnAux odd (c :: (t ++ [dot])) = isFqdnAux (escNext odd c) (t ++ [dot]) := by
      cases t with
      | nil => simp [isFqdnAux]
      | cons d t' => simp [isFqdnAux]
    rw [List.cons_append, hstep, ih]
    simp [scan]

theorem escNext_after_bslash (c : Nat) : escNext true c = false := by
  unfold escNext; split <;> simp

theorem scan_escByte (b : Nat) : scan false (escByte b) = false := by
  unfold escByte
  split
  · simp [scan, escNext]
  · split
    · have h2 : (48 + b / 10 % 10 = bslash) = False := by unfold bslash; simp; omega
      have h3 : (48 + b % 10 = bslash) = False := by unfold bslash; simp; omega
      simp only [scan, List.foldl]
      rw [show escNext false bslash = true by simp [escNext]]
      rw [escNext_after_bslash]
      simp [escNext, h3]
    · rename_i hs _
      have : b ≠ bslash := by
        intro hb; apply hs; rw [hb]; decide
      simp [scan, escNext, this]

theorem scan_flatMap_escByte : ∀ (bs : List Nat), scan false (bs.flatMap escByte) = false := by
  intro bs
  induction bs with
  | nil => rfl
  | cons b t ih => rw [List.flatMap_cons, scan_append, scan_escByte, ih]

/-- what `writeWireName` emits: nothing more (after a label), or a string that
ends in an unescaped dot. -/
def Rooted (p : Str) : Prop := p = [] ∨ ∃ q, p = q ++ [dot] ∧ scan false q = false

theorem wirePresAux_rooted : ∀ (f : Nat) (w : Wire) (wrote : Bool) (p : Str),
    wirePresAux f w wrote = some p → Rooted p ∧ (wrote = false → p ≠ []) := by
  intro f
  induction f with
  | zero => intro w wrote p h; simp [wirePresAux] at h
  | succ f ih =>
    intro w wrote p h
    cases w with
    | nil => simp [wirePresAux] at h
    | cons c rest =>
      unfold wirePresAux at h
      split at h
      · split at h
        · cases h
          cases wrote
          · exact ⟨Or.inr ⟨[], rfl, rfl⟩, fun _ => by simp⟩
          · exact ⟨Or.inl rfl, fun hw => by cases hw⟩
        · cases h
      · split at h
        · cases h
        · split at h
          · cases h
          · cases hr : wirePresAux f (rest.drop c) true with
            | none => rw [hr] at h; cases h
            | some tl =>
              rw [hr] at h
              simp only [Option.map_some, Option.some.injEq] at h
              subst h
              obtain ⟨hroot, _⟩ := ih _ _ _ hr
              have hL := scan_flatMap_escByte (rest.take c)
              refine ⟨Or.inr ?_, fun _ => by simp⟩
              rcases hroot with rfl | ⟨q, rfl, hq⟩
              · exact ⟨(rest.take c).flatMap escByte, by simp, hL⟩
              · refine ⟨(rest.take c).flatMap escByte ++ [dot] ++ q, by simp, ?_⟩
                rw [scan_append, scan_append, hL]
                have : scan false [dot] = false := by simp [scan, escNext, dot, bslash]
                rw [this, hq]

theorem escNext_foldByte (odd : Bool) (c : Nat) : escNext odd (foldByte c) = escNext odd c := by
  unfold escNext foldByte bslash
  by_cases h : 65 ≤ c ∧ c ≤ 90
  · have h1 : ¬ c + 32 = 92 := by omega
    have h2 : ¬ c = 92 := by omega
    simp [h, h1, h2]
  · simp [h]

theorem scan_foldStr : ∀ (q : Str) (odd : Bool), scan odd (foldStr q) = scan odd q := by
  intro q
  induction q with
  | nil => intro odd; rfl
  | cons c t ih =>
    intro odd
    have : foldStr (c :: t) = foldByte c :: foldStr t := rfl
    rw [this]
    simp only [scan, List.foldl] at ih ⊢
    rw [escNext_foldByte]
    exact ih _

/-- **every name the wire decoder can produce is rooted**, also after folding:
the well-formedness hypothesis of the label-wise and success-reset theorems
holds for all wire-born names. -/
theorem wirePres_wellformed (w : Wire) (p : Str) (h : wirePres w = some p) :
    isFqdn p = true ∧ isFqdn (canonicalName p) = true ∧ isFqdn (canonicalName (foldStr p)) = true := by
  unfold wirePres at h
  split at h
  · cases h
  · obtain ⟨hroot, hne⟩ := wirePresAux_rooted _ _ _ _ h
    rcases hroot with rfl | ⟨q, rfl, hq⟩
    · exact absurd rfl (hne rfl)
    · have h1 : isFqdn (q ++ [dot]) = true := by
        unfold isFqdn; rw [isFqdnAux_append_dot, hq]; rfl
      have hfold : foldStr (q ++ [dot]) = foldStr q ++ [dot] := by
        unfold foldStr; rw [List.map_append]; rfl
      have h2 : isFqdn (foldStr (q ++ [dot])) = true := by
        rw [hfold]; unfold isFqdn; rw [isFqdnAux_append_dot, scan_foldStr, hq]; rfl
      have hc : canonicalName (q ++ [dot]) = foldStr (q ++ [dot]) := by
        unfold canonicalName fqdn; rw [h1]; rfl
      have hc2 : canonicalName (foldStr (q ++ [dot])) = foldStr (q ++ [dot]) := by
        unfold canonicalName fqdn; rw [h2]; simp only [if_true]; exact foldStr_idem _
      exact ⟨h1, by rw [hc]; exact h2, by rw [hc2]; exact h2⟩


/-! ### a wire hit is a stored entry -/

theorem wireFirstActiveZone_get (H : Hash) (t : Table) (now : Int) (cls : Nat) :
    ∀ (ss : List Wire) (e : Entry), wireFirstActiveZone H t now cls ss = some e → ∃ h, t.get h = some e := by
  intro ss
  induction ss with
  | nil => intro e h; simp [wireFirstActiveZone] at h
  | cons s rest ih =>
    intro e h
    unfold wireFirstActiveZone at h
    split at h
    · exact ih e h
    · split at h
      · rename_i e' he'
        split at h
        · cases h; exact ⟨_, he'⟩
        · exact ih e h
      · exact ih e h

theorem lookupWire_get (H : Hash) (t : Table) (now : Int) (w : Wire) (qt qc : Nat) (cd : Bool) (e : Entry)
    (h : lookupWire H t now w qt qc cd = some e) : ∃ hh, t.get hh = some e := by
  unfold lookupWire at h
  split at h
  · rename_i e' he'
    cases h
    unfold wireExact at he'
    split at he'
    · cases he'
    · split at he'
      · rename_i e'' hg
        split at he'
        · cases he'; exact ⟨_, hg⟩
        · cases he'
      · cases he'
  · exact wireFirstActiveZone_get H t now qc _ e h


/-! ### the circuit breaker -/

theorem bget_mem : ∀ (b : Breaker) (a : String) (sf : SF), b.get a = some sf → (a, sf) ∈ b := by
  intro b
  induction b with
  | nil => intro a sf h; simp [Breaker.get] at h
  | cons p r ih =>
    intro a sf h
    obtain ⟨k, v⟩ := p
    unfold Breaker.get at h
    by_cases hk : k = a
    · simp only [hk, if_true, Option.some.injEq] at h
      subst h; subst hk; exact List.mem_cons_self
    · simp only [hk, if_false] at h
      exact List.mem_cons_of_mem _ (ih a sf h)

theorem bget_put_self (b : Breaker) (a : String) (v : SF) : (b.put a v).get a = some v := by
  simp [Breaker.put, Breaker.get]

theorem bput_mem (b : Breaker) (a : String) (v : SF) (p : String × SF) (h : p ∈ b.put a v) :
    p = (a, v) ∨ p ∈ b := by
  unfold Breaker.put at h
  rcases List.mem_cons.mp h with h | h
  · exact Or.inl h
  · exact Or.inr (List.mem_filter.mp h).1

/-- one step of a breaker history. -/
inductive BOp
  | can (nowMs : Int) (a : String)
  | fail (nowMs : Int) (a : String)
  | ok (a : String)
  | clean (nowS : Int)

def applyB (b : Breaker) : BOp → Breaker
  | .can now a => (b.canQuery now a).1
  | .fail now a => b.recordFailure now a
  | .ok a => b.recordSuccess a
  | .clean now => b.cleanupOnce now

/-- an open record has counted at least five failures since it was last
closed (success) or re-admitted (its count restarts at zero then). -/
def BInv (b : Breaker) : Prop := ∀ p ∈ b, p.2.disabled = true → 5 ≤ p.2.count

theorem applyB_inv (b : Breaker) (op : BOp) (h : BInv b) : BInv (applyB b op) := by
  cases op with
  | can now a =>
    simp only [applyB, Breaker.canQuery]
    cases hg : b.get a with
    | none => exact h
    | some sf =>
      simp only
      by_cases hd : sf.disabled = true
      · by_cases ht : now - sf.last * 1000 > 30000
        · simp only [hd, ht, if_true]
          intro p hp hdis
          rcases bput_mem _ _ _ _ hp with rfl | hp
          · simp at hdis
          · exact h p hp hdis
        · simp only [hd, ht, if_true, if_false]; exact h
      · simp only [hd]; exact h
  | fail now a =>
    simp only [applyB, Breaker.recordFailure]
    intro p hp hd
    rcases bput_mem _ _ _ _ hp with rfl | hp
    · simp only [Bool.or_eq_true, decide_eq_true_eq] at hd ⊢
      rcases hd with hd | hd
      · cases hg : b.get a with
        | none => rw [hg] at hd; simp at hd
        | some sf =>
          rw [hg] at hd
          simp only [Option.getD_some] at hd ⊢
          have := h _ (bget_mem b a sf hg) hd
          simp only at this
          omega
      · exact hd
    · exact h p hp hd
  | ok a =>
    simp only [applyB, Breaker.recordSuccess]
    cases hg : b.get a with
    | none => exact h
    | some sf =>
      simp only
      intro p hp hd
      rcases bput_mem _ _ _ _ hp with rfl | hp
      · simp at hd
      · exact h p hp hd
  | clean now =>
    simp only [applyB, Breaker.cleanupOnce]
    intro p hp hd
    exact h p (List.mem_filter.mp hp).1 hd

theorem breaker_reachable_inv (ops : List BOp) : BInv (ops.foldl applyB []) := by
  have : ∀ (ops : List BOp) (b : Breaker), BInv b → BInv (ops.foldl applyB b) := by
    intro ops
    induction ops with
    | nil => intro b h; exact h
    | cons op rest ih => intro b h; exact ih _ (applyB_inv b op h)
  exact this ops [] (by intro p hp; simp at hp)

end SdnsVerif.Lemmas.FailCache
