import SdnsVerif.Model.Dns64
/-!
Reference specifications and helper lemmas for C20 (DNS64).

The first section holds the two *specifications* the property theorems compare
the model against: the RFC 6052 §2.2 address-format table, written out row by
row, and the RFC 3596 §2.5 rendering of an address as an `ip6.arpa.` name.
-/
namespace SdnsVerif.Lemmas.Dns64
open SdnsVerif.Model.Dns64

/-! ### reference specifications -/

/-- RFC 6052 §2.2, figure 1, one row per prefix length: prefix bytes `P i`,
IPv4 octets `V k`, the reserved octet `u` (index 8) and the suffix written `0`. -/
def rfc6052 (p : IP) (bits : Nat) (v : IP) : IP :=
  let P := fun i => bAt p i
  let V := fun k => bAt v k
  match bits with
  | 32 => [P 0, P 1, P 2, P 3, V 0, V 1, V 2, V 3, 0, 0, 0, 0, 0, 0, 0, 0]
  | 40 => [P 0, P 1, P 2, P 3, P 4, V 0, V 1, V 2, 0, V 3, 0, 0, 0, 0, 0, 0]
  | 48 => [P 0, P 1, P 2, P 3, P 4, P 5, V 0, V 1, 0, V 2, V 3, 0, 0, 0, 0, 0]
  | 56 => [P 0, P 1, P 2, P 3, P 4, P 5, P 6, V 0, 0, V 1, V 2, V 3, 0, 0, 0, 0]
  | 64 => [P 0, P 1, P 2, P 3, P 4, P 5, P 6, P 7, 0, V 0, V 1, V 2, V 3, 0, 0, 0]
  | 96 => [P 0, P 1, P 2, P 3, P 4, P 5, P 6, P 7, P 8, P 9, P 10, P 11, V 0, V 1, V 2, V 3]
  | _ => []

/-- index of the last IPv4 octet in the RFC 6052 layout (everything after it is suffix). -/
def lastV4Index : Nat → Nat
  | 32 => 7 | 40 => 9 | 48 => 10 | 56 => 11 | 64 => 12 | _ => 15

def hexChar (n : Nat) : Char := if n < 10 then Char.ofNat (48 + n) else Char.ofNat (87 + n)

/-- the 32 nibbles of an address, most significant first. -/
def nibbles (a : IP) : List Nat := a.flatMap fun b => [b.toNat / 16, b.toNat % 16]

def joinDots : List Char → Name
  | [] => []
  | [c] => [c]
  | c :: t => c :: '.' :: joinDots t

/-- RFC 3596 §2.5: nibbles in reverse order, one per label, under `ip6.arpa.`. -/
def arpaNameOf (a : IP) : Name := joinDots ((nibbles a).reverse.map hexChar) ++ ip6ArpaSuffix ++ ['.']

/-- uncompressed wire form of a label list (RFC 1035 §3.1): length octet + bytes per label, then 0. -/
def wireOf (ls : List (List UInt8)) : List UInt8 := ls.flatMap (fun l => UInt8.ofNat l.length :: l) ++ [0]

/-! ### shape lemmas -/

theorem len4 (v : IP) (h : v.length = 4) : ∃ a b c d, v = [a, b, c, d] := by
  match v, h with
  | [a, b, c, d], _ => exact ⟨a, b, c, d, rfl⟩

theorem len16 (v : IP) (h : v.length = 16) :
    ∃ a0 a1 a2 a3 a4 a5 a6 a7 a8 a9 a10 a11 a12 a13 a14 a15,
      v = [a0, a1, a2, a3, a4, a5, a6, a7, a8, a9, a10, a11, a12, a13, a14, a15] := by
  match v, h with
  | [a0, a1, a2, a3, a4, a5, a6, a7, a8, a9, a10, a11, a12, a13, a14, a15], _ =>
    exact ⟨a0, a1, a2, a3, a4, a5, a6, a7, a8, a9, a10, a11, a12, a13, a14, a15, rfl⟩

theorem legal_cases (bits : Nat) (h : isLegal bits = true) :
    bits = 32 ∨ bits = 40 ∨ bits = 48 ∨ bits = 56 ∨ bits = 64 ∨ bits = 96 := by
  simpa [isLegal, legalBits] using h

theorem range16 : List.range 16 = [0, 1, 2, 3, 4, 5, 6, 7, 8, 9, 10, 11, 12, 13, 14, 15] := by decide

/-- `embedIPv4` is the RFC table, for every legal length. -/
theorem embed_eq (p : IP) (bits : Nat) (v : IP) (hv : v.length = 4) (hl : isLegal bits = true) :
    embedIPv4 p bits v = rfc6052 p bits v := by
  obtain ⟨a, b, c, d, rfl⟩ := len4 v hv
  rcases legal_cases bits hl with rfl | rfl | rfl | rfl | rfl | rfl <;>
    simp [embedIPv4, rfc6052, prefixCopy, range16, copyAt, bAt]

/-- `prefixContains` on 16-byte operands and a legal length: the leading
`bits/8` bytes agree. -/
theorem contains_take (p a : IP) (bits : Nat) (hp : p.length = 16) (ha : a.length = 16)
    (hl : isLegal bits = true) :
    prefixContains ⟨p, bits, true⟩ a = true ↔ a.take (bits / 8) = p.take (bits / 8) := by
  obtain ⟨p0, p1, p2, p3, p4, p5, p6, p7, p8, p9, p10, p11, p12, p13, p14, p15, rfl⟩ := len16 p hp
  obtain ⟨a0, a1, a2, a3, a4, a5, a6, a7, a8, a9, a10, a11, a12, a13, a14, a15, rfl⟩ := len16 a ha
  rcases legal_cases bits hl with rfl | rfl | rfl | rfl | rfl | rfl <;>
    simp [prefixContains, to16, eqUnder] <;>
    constructor <;> intro h <;> simp_all

/-! ### `ip6.arpa` names -/

theorem hexChar_props : ∀ n, n < 16 →
    hexNibble (hexChar n) = some n ∧ (hexChar n).toLower = hexChar n ∧ hexChar n ≠ '.' := by
  decide

theorem splitDots_joinDots (cs : List Char) (hne : cs ≠ []) (hd : ∀ c ∈ cs, c ≠ '.') :
    splitDots (joinDots cs) = cs.map fun c => [c] := by
  induction cs with
  | nil => exact absurd rfl hne
  | cons c t ih =>
    cases t with
    | nil =>
      have : c ≠ '.' := hd c (by simp)
      simp [joinDots, splitDots, this]
    | cons c' t' =>
      have hc : c ≠ '.' := hd c (by simp)
      have := ih (by simp) (fun x hx => hd x (List.mem_cons_of_mem _ hx))
      simp only [joinDots] at this ⊢
      simp [splitDots, hc, this]

theorem lower_id (s : Name) (h : ∀ c ∈ s, c.toLower = c) : lower s = s := by
  unfold lower
  induction s with
  | nil => rfl
  | cons c t ih =>
    simp only [List.map_cons]
    rw [h c (by simp), ih (fun x hx => h x (List.mem_cons_of_mem _ hx))]

theorem mem_joinDots (cs : List Char) (c : Char) (h : c ∈ joinDots cs) : c = '.' ∨ c ∈ cs := by
  induction cs with
  | nil => simp [joinDots] at h
  | cons x t ih =>
    cases t with
    | nil => simp [joinDots] at h; right; simp [h]
    | cons y t' =>
      simp only [joinDots, List.mem_cons] at h
      rcases h with h | h | h
      · right; simp [h]
      · left; exact h
      · rcases ih (by simpa [joinDots] using h) with h' | h'
        · left; exact h'
        · right; exact List.mem_cons_of_mem _ h'

theorem hasSuffix_append (s t : Name) : hasSuffix (s ++ t) t = true := by
  unfold hasSuffix
  rw [List.isSuffixOf_iff_suffix]
  exact List.suffix_append s t

theorem take_append_sub (s t : Name) : (s ++ t).take ((s ++ t).length - t.length) = s := by
  simp

theorem mapM_labelNibble (ns : List Nat) (h : ∀ n ∈ ns, n < 16) :
    (ns.map fun n => [hexChar n]).mapM labelNibble = some ns := by
  induction ns with
  | nil => rfl
  | cons n t ih =>
    have hn := (hexChar_props n (h n (by simp))).1
    have := ih (fun x hx => h x (List.mem_cons_of_mem _ hx))
    simp [List.mapM_cons, labelNibble, hn, this]

theorem pairUp_nibbles (a : IP) : pairUp (nibbles a) = a := by
  induction a with
  | nil => rfl
  | cons b t ih =>
    have : nibbles (b :: t) = b.toNat / 16 :: b.toNat % 16 :: nibbles t := by simp [nibbles]
    rw [this]
    simp only [pairUp]
    have hb : UInt8.ofNat (b.toNat / 16 * 16 + b.toNat % 16) = b := by
      rw [Nat.div_add_mod' b.toNat 16]; exact UInt8.ofNat_toNat
    rw [hb]
    congr 1

theorem nibbles_lt (a : IP) : ∀ n ∈ nibbles a, n < 16 := by
  intro n hn
  simp only [nibbles, List.mem_flatMap] at hn
  obtain ⟨b, _, hb⟩ := hn
  have := b.toNat_lt
  simp at hb
  rcases hb with rfl | rfl <;> omega

theorem nibbles_length (a : IP) : (nibbles a).length = 2 * a.length := by
  induction a with
  | nil => rfl
  | cons b t ih => simp [nibbles] at ih ⊢; omega

theorem parse_join (ns : List Nat) (hlen : ns.length = 32) (hlt : ∀ n ∈ ns, n < 16) :
    parseIP6ArpaName (joinDots (ns.map hexChar) ++ ip6ArpaSuffix ++ ['.']) = some (pairUp ns.reverse) := by
  generalize hcs : ns.map hexChar = cs
  have hcsl : cs.length = 32 := by rw [← hcs]; simpa using hlen
  have hprops : ∀ c ∈ cs, c.toLower = c ∧ c ≠ '.' := by
    intro c hc
    rw [← hcs] at hc
    obtain ⟨n, hn, rfl⟩ := List.mem_map.mp hc
    exact ⟨(hexChar_props n (hlt n hn)).2.1, (hexChar_props n (hlt n hn)).2.2⟩
  have hne : cs ≠ [] := by
    intro h; rw [h] at hcsl; simp at hcsl
  have hlow : lower (joinDots cs ++ ip6ArpaSuffix ++ ['.']) = joinDots cs ++ ip6ArpaSuffix ++ ['.'] := by
    apply lower_id
    intro c hc
    simp only [List.mem_append] at hc
    rcases hc with (hc | hc) | hc
    · rcases mem_joinDots _ _ hc with rfl | hc
      · decide
      · exact (hprops c hc).1
    · revert c; decide
    · revert c; decide
  unfold parseIP6ArpaName
  rw [hlow]
  have t1 : trimSuffix (joinDots cs ++ ip6ArpaSuffix ++ ['.']) ['.'] = joinDots cs ++ ip6ArpaSuffix := by
    unfold trimSuffix
    rw [hasSuffix_append, if_pos rfl]
    exact take_append_sub _ _
  simp only [t1, hasSuffix_append, Bool.not_true, Bool.false_eq_true, if_false, take_append_sub]
  rw [splitDots_joinDots cs hne (fun c hc => (hprops c hc).2)]
  have hl32 : (cs.map fun c => [c]).length = 32 := by simpa using hcsl
  simp only [hl32, bne_self_eq_false, Bool.false_eq_true, if_false]
  have : (cs.map fun c => [c]) = (ns.map fun n => [hexChar n]) := by rw [← hcs]; simp
  rw [this, mapM_labelNibble _ hlt]

theorem mapM_length {α β} (f : α → Option β) : ∀ (l : List α) (r : List β), l.mapM f = some r → r.length = l.length := by
  intro l
  induction l with
  | nil => intro r h; simp at h; subst h; rfl
  | cons x t ih =>
    intro r h
    rw [List.mapM_cons] at h
    cases hx : f x with
    | none => simp [hx] at h
    | some y =>
      cases ht : t.mapM f with
      | none => simp [hx, ht] at h
      | some r' =>
        simp [hx, ht] at h
        subst h
        simp [ih r' ht]

theorem pairUp_length : ∀ (n : Nat) (l : List Nat), l.length = 2 * n → (pairUp l).length = n := by
  intro n
  induction n with
  | zero => intro l h; cases l with
    | nil => rfl
    | cons _ _ => simp at h
  | succ k ih =>
    intro l h
    match l, h with
    | a :: b :: t, h =>
      simp only [pairUp, List.length_cons]
      rw [ih t (by simp at h; omega)]

theorem parse_length (n : Name) (a : IP) (h : parseIP6ArpaName n = some a) : a.length = 16 := by
  unfold parseIP6ArpaName at h
  simp only at h
  split at h
  · cases h
  · split at h
    · cases h
    · rename_i h32
      split at h
      · cases h
      · rename_i nibs hn
        simp only [Option.some.injEq] at h
        subst h
        have := mapM_length _ _ _ hn
        apply pairUp_length 16
        simp only [List.length_reverse, this]
        simpa using h32

theorem mapM_labelNibble_singletons : ∀ (parts : List Name) (nibs : List Nat), parts.mapM labelNibble = some nibs →
    ∃ cs : List Char, parts = cs.map (fun c => [c]) ∧ cs.mapM hexNibble = some nibs := by
  intro parts
  induction parts with
  | nil => intro nibs h; simp at h; subst h; exact ⟨[], rfl, rfl⟩
  | cons p t ih =>
    intro nibs h
    rw [List.mapM_cons] at h
    cases hp : labelNibble p with
    | none => simp [hp] at h
    | some n =>
      cases ht : t.mapM labelNibble with
      | none => simp [hp, ht] at h
      | some r =>
        simp [hp, ht] at h
        subst h
        obtain ⟨cs, hcs, hm⟩ := ih r ht
        match p, hp with
        | [c], hp =>
          refine ⟨c :: cs, by simp [hcs], ?_⟩
          simp only [labelNibble] at hp
          simp [List.mapM_cons, hp, hm]

theorem take_of_hasSuffix (s t : Name) (h : hasSuffix s t = true) : s.take (s.length - t.length) ++ t = s := by
  unfold hasSuffix at h
  rw [List.isSuffixOf_iff_suffix] at h
  obtain ⟨pre, rfl⟩ := h
  simp

/-! ### TTL choice -/

theorem foldl_min_le_init (l : List Nat) (t : Nat) :
    l.foldl (fun t a => if a < t then a else t) t ≤ t := by
  induction l generalizing t with
  | nil => exact Nat.le_refl _
  | cons x xs ih =>
    simp only [List.foldl_cons]
    have := ih (if x < t then x else t)
    by_cases hx : x < t <;> simp only [hx, if_true, if_false] at this ⊢ <;> omega

theorem foldl_min_le_mem (l : List Nat) (t a : Nat) (h : a ∈ l) :
    l.foldl (fun t a => if a < t then a else t) t ≤ a := by
  induction l generalizing t with
  | nil => simp at h
  | cons x xs ih =>
    simp only [List.foldl_cons]
    rcases List.mem_cons.mp h with rfl | h
    · have := foldl_min_le_init xs (if a < t then a else t)
      by_cases hx : a < t <;> simp only [hx, if_true, if_false] at this ⊢ <;> omega
    · exact ih _ h

/-! ### response dispatch -/

/-- the message `synthesise` receives from `WriteMsg` and whether it is a copy. -/
def origOf (c : Cfg) (m : Down) : Down × Bool :=
  if m.rcode == 0 then
    if (filterUpstreamAAAA c m.ans).2.2.2 > 0 then ({ m with ans := (filterUpstreamAAAA c m.ans).1 }, true)
    else (m, false)
  else (m, false)

theorem writeMsg_trySynth (c : Cfg) (q : Query) (m : Down) (a : AResp) (h : dispatch c q m = .trySynth) :
    writeMsg c q m a = synthesise c q (origOf c m).1 (origOf c m).2 a := by
  unfold writeMsg origOf
  rw [h]
  simp only
  split
  · split <;> rfl
  · rfl

theorem origOf_fields (c : Cfg) (m : Down) :
    (origOf c m).1.soas = m.soas ∧ (origOf c m).1.ad = m.ad ∧ (origOf c m).1.opt = m.opt ∧
    (origOf c m).1.rcode = m.rcode ∧ (∀ r ∈ (origOf c m).1.ans, r ∈ m.ans) := by
  unfold origOf
  split
  · split
    · refine ⟨rfl, rfl, rfl, rfl, ?_⟩
      intro r hr
      simp only [filterUpstreamAAAA] at hr
      exact (List.mem_filter.mp hr).1
    · exact ⟨rfl, rfl, rfl, rfl, fun _ h => h⟩
  · exact ⟨rfl, rfl, rfl, rfl, fun _ h => h⟩

/-! ### case analyses of the decision functions -/

theorem mem_synthAAAA (c : Cfg) (addrs : List RR) (ttl : Nat) (r : RR) :
    r ∈ synthAAAA c addrs ttl ↔
      ∃ p ∈ c.prefixes, ∃ x ∈ addrs, ∃ v4, to4 x.ip = some v4 ∧ c.shouldExcludeAOnPrefix v4 p = false ∧
        r = { kind := '6', ttl := ttl, owner := x.owner, ip := embedIPv4 p.net.ip p.net.bits v4 } := by
  unfold synthAAAA
  simp only [List.mem_flatMap, List.mem_filterMap]
  constructor
  · rintro ⟨p, hp, x, hx, hr⟩
    cases hl : to4 x.ip with
    | none => simp [hl] at hr
    | some v4 =>
      cases he : c.shouldExcludeAOnPrefix v4 p <;> simp [hl, he] at hr
      exact ⟨p, hp, x, hx, v4, hl, he, hr.symm⟩
  · rintro ⟨p, hp, x, hx, v4, hl, he, rfl⟩
    exact ⟨p, hp, x, hx, by simp [hl, he]⟩

theorem to4_length (a v : IP) (h : to4 a = some v) (ha : a.length = 4 ∨ a.length = 16) : v.length = 4 := by
  unfold to4 at h
  by_cases h4 : a.length = 4
  · simp [h4] at h; subst h; exact h4
  · have h16 : a.length = 16 := by rcases ha with ha | ha; exact absurd ha h4; exact ha
    simp only [h4, beq_iff_eq, if_false] at h
    split at h
    · simp only [Option.some.injEq] at h; subst h; simp [h16]
    · cases h


theorem chain_no6 (ans : List RR) : ∀ r ∈ chainOf ans, r.kind = '6' → False := by
  intro r hr h6
  have := (List.mem_filter.mp hr).2
  simp [h6] at this

theorem fallback_props (orig : Down) (copied : Bool) (aq : Nat) :
    (fallbackReply orig copied aq).kind ≠ .synth ∧ (fallbackReply orig copied aq).kind ≠ .ptr ∧
    ((fallbackReply orig copied aq).kind ≠ .pass → (fallbackReply orig copied aq).ad = false) ∧
    (fallbackReply orig copied aq).ans = orig.ans := by
  cases copied <;> simp [fallbackReply, passReply]

theorem fallback_pass (orig : Down) (copied : Bool) (aq : Nat) (h : (fallbackReply orig copied aq).kind = .pass) :
    copied = false ∧ (fallbackReply orig copied aq).ans = orig.ans ∧ (fallbackReply orig copied aq).ad = orig.ad ∧
    (fallbackReply orig copied aq).rcode = orig.rcode := by
  cases copied <;> simp [fallbackReply, passReply] at h ⊢

/-- a synthesised reply: its exact contents. -/
theorem synthesise_synth (c : Cfg) (q : Query) (orig : Down) (copied : Bool) (a : AResp)
    (h : (synthesise c q orig copied a).kind = .synth) :
    a.err = .none ∧ a.rcode = 0 ∧ (synthesise c q orig copied a).ad = false ∧ (synthesise c q orig copied a).rcode = 0 ∧
    (synthesise c q orig copied a).ans =
      ((chainOf a.ans).map fun r =>
        if r.ttl > synthTTL (negativeAAAATTL orig.soas) ((addrsOf a.ans).map (·.ttl))
        then { r with ttl := synthTTL (negativeAAAATTL orig.soas) ((addrsOf a.ans).map (·.ttl)) } else r) ++
      synthAAAA c (addrsOf a.ans) (synthTTL (negativeAAAATTL orig.soas) ((addrsOf a.ans).map (·.ttl))) := by
  have fb := fun aq => (fallback_props orig copied aq).1
  unfold synthesise at h ⊢
  cases he : a.err <;> simp only [he] at h ⊢
  case none =>
    by_cases hr : (a.rcode != 0) = true
    · simp [hr] at h
    · simp only [hr] at h ⊢
      by_cases he : (addrsOf a.ans).isEmpty = true
      · simp [he] at h
      · simp only [he] at h ⊢
        by_cases hs : (synthAAAA c (addrsOf a.ans) (synthTTL (negativeAAAATTL orig.soas) ((addrsOf a.ans).map (·.ttl)))).isEmpty = true
        · simp only [hs, if_true] at h
          exact absurd h (fb 1)
        · simp only [hs]
          refine ⟨trivial, by simpa using hr, ?_⟩
          simp
  all_goals (first | exact absurd h (fb _) | (simp at h; done))

/-- the Authority / Additional sections of a synthesised reply. -/
theorem synthesise_synth_sections (c : Cfg) (q : Query) (orig : Down) (copied : Bool) (a : AResp)
    (h : (synthesise c q orig copied a).kind = .synth) :
    (synthesise c q orig copied a).ns = copyExtraNoOPT a.ns ∧
    (synthesise c q orig copied a).extra = appendOPTFrom orig (copyExtraNoOPT a.extra) := by
  have fb := fun aq => (fallback_props orig copied aq).1
  unfold synthesise at h ⊢
  cases he : a.err <;> simp only [he] at h ⊢
  case none =>
    by_cases hr : (a.rcode != 0) = true
    · simp [hr] at h
    · simp only [hr] at h ⊢
      by_cases he : (addrsOf a.ans).isEmpty = true
      · simp [he] at h
      · simp only [he] at h ⊢
        by_cases hs : (synthAAAA c (addrsOf a.ans) (synthTTL (negativeAAAATTL orig.soas) ((addrsOf a.ans).map (·.ttl)))).isEmpty = true
        · simp only [hs, if_true] at h
          exact absurd h (fb 1)
        · simp [hs]
  all_goals (first | exact absurd h (fb _) | (simp at h; done))

/-! ### names: miekg rendering of wire labels -/

theorem presentLabels_append (a b : List (List UInt8)) :
    presentLabels (a ++ b) = presentLabels a ++ presentLabels b := by
  simp [presentLabels]

/-- a rendered non-root name ends with the (unescaped) dot of its last label. -/
theorem presentLabels_ends_with_dot (ls : List (List UInt8)) (h : ls ≠ []) :
    ∃ x, presentLabels ls = x ++ ['.'] := by
  obtain ⟨init, l, rfl⟩ : ∃ init l, ls = init ++ [l] := by
    cases hd : ls.reverse with
    | nil => simp at hd; exact absurd hd h
    | cons l t =>
      refine ⟨t.reverse, l, ?_⟩
      have := congrArg List.reverse hd
      simpa using this
  refine ⟨presentLabels init ++ l.flatMap presentByte, ?_⟩
  rw [presentLabels_append]
  simp [presentLabels, presentLabel]

theorem lower_append (x y : Name) : lower (x ++ y) = lower x ++ lower y := by simp [lower]

/-- the A-response-as-basis outcome of `synthesise` (RFC 6147 §5.1.6). -/
theorem synthesise_abasis (c : Cfg) (q : Query) (orig : Down) (copied : Bool) (a : AResp)
    (h : (synthesise c q orig copied a).kind = .abasis) :
    a.err = .none ∧ (a.rcode ≠ 0 ∨ addrsOf a.ans = []) ∧ (synthesise c q orig copied a).rcode = a.rcode ∧
    (synthesise c q orig copied a).ans = chainOf a.ans ∧ (synthesise c q orig copied a).ad = false ∧
    (synthesise c q orig copied a).ns = a.ns := by
  have fb : ∀ aq, (fallbackReply orig copied aq).kind ≠ .abasis := by
    intro aq; cases copied <;> simp [fallbackReply, passReply]
  unfold synthesise at h ⊢
  cases he : a.err <;> simp only [he] at h ⊢
  case none =>
    by_cases hr : (a.rcode != 0) = true
    · simp only [hr, if_true]
      exact ⟨trivial, Or.inl (by simpa using hr), by simp⟩
    · simp only [hr] at h ⊢
      by_cases hemp : (addrsOf a.ans).isEmpty = true
      · simp only [hemp, if_true]
        exact ⟨trivial, Or.inr (by simpa using hemp), by simp⟩
      · simp only [hemp] at h
        by_cases hs : (synthAAAA c (addrsOf a.ans) (synthTTL (negativeAAAATTL orig.soas) ((addrsOf a.ans).map (·.ttl)))).isEmpty = true
        · simp only [hs, if_true] at h
          exact absurd h (fb 1)
        · simp [hs] at h
  all_goals (first | exact absurd h (fb _) | (simp at h; done))

/-- a pass-through out of `synthesise` is the unfiltered original. -/
theorem synthesise_pass (c : Cfg) (q : Query) (orig : Down) (copied : Bool) (a : AResp)
    (h : (synthesise c q orig copied a).kind = .pass) :
    copied = false ∧ (synthesise c q orig copied a).ans = orig.ans ∧ (synthesise c q orig copied a).ad = orig.ad ∧
    (synthesise c q orig copied a).rcode = orig.rcode := by
  unfold synthesise at h ⊢
  cases he : a.err <;> simp only [he] at h ⊢
  case none =>
    by_cases hr : (a.rcode != 0) = true
    · simp [hr] at h
    · simp only [hr] at h ⊢
      by_cases he : (addrsOf a.ans).isEmpty = true
      · simp [he] at h
      · simp only [he] at h ⊢
        by_cases hs : (synthAAAA c (addrsOf a.ans) (synthTTL (negativeAAAATTL orig.soas) ((addrsOf a.ans).map (·.ttl)))).isEmpty = true
        · simp only [hs, if_true] at h ⊢
          exact fallback_pass orig copied 1 h
        · simp [hs] at h
  all_goals (first | exact fallback_pass orig copied _ h | (simp at h; done))

theorem origOf_not_copied (c : Cfg) (m : Down) (h : (origOf c m).2 = false) : (origOf c m).1 = m := by
  unfold origOf at h ⊢
  split
  · split
    · rename_i h1 h2; simp [h1, h2] at h
    · rfl
  · rfl

/-- every outcome of `synthesise` other than a synthesised reply. -/
theorem synthesise_other (c : Cfg) (q : Query) (orig : Down) (copied : Bool) (a : AResp)
    (h : (synthesise c q orig copied a).kind ≠ .synth) :
    (synthesise c q orig copied a).kind ≠ .ptr ∧
    ((synthesise c q orig copied a).kind ≠ .pass → (synthesise c q orig copied a).ad = false) ∧
    (∀ r ∈ (synthesise c q orig copied a).ans, r.kind = '6' → r ∈ orig.ans) := by
  have fb : ∀ aq, (fallbackReply orig copied aq).kind ≠ .ptr ∧
      ((fallbackReply orig copied aq).kind ≠ .pass → (fallbackReply orig copied aq).ad = false) ∧
      (∀ r ∈ (fallbackReply orig copied aq).ans, r.kind = '6' → r ∈ orig.ans) := by
    intro aq
    have := fallback_props orig copied aq
    exact ⟨this.2.1, this.2.2.1, by rw [this.2.2.2]; intro r hr _; exact hr⟩
  unfold synthesise at h ⊢
  cases he : a.err <;> simp only [he] at h ⊢
  case none =>
    by_cases hr : (a.rcode != 0) = true
    · simp only [hr, if_true]
      exact ⟨by simp, by simp, fun r hr h6 => (chain_no6 _ r hr h6).elim⟩
    · simp only [hr] at h ⊢
      by_cases he : (addrsOf a.ans).isEmpty = true
      · simp only [he, if_true]
        exact ⟨by simp, by simp, fun r hr h6 => (chain_no6 _ r hr h6).elim⟩
      · simp only [he] at h ⊢
        by_cases hs : (synthAAAA c (addrsOf a.ans) (synthTTL (negativeAAAATTL orig.soas) ((addrsOf a.ans).map (·.ttl)))).isEmpty = true
        · simp only [hs, if_true]
          exact fb 1
        · simp [hs] at h
  all_goals (first | exact fb _ | simp)

/-- the four ways `WriteMsg` ends. -/
theorem writeMsg_cases (c : Cfg) (q : Query) (m : Down) (a : AResp) :
    (dispatch c q m = .trySynth ∧ writeMsg c q m a = synthesise c q (origOf c m).1 (origOf c m).2 a) ∨
    writeMsg c q m a = passReply m ∨
    writeMsg c q m a = { kind := .workFail, rcode := 2, extra := q.extraRRs } ∨
    writeMsg c q m a = { kind := .filteredKept, rcode := m.rcode, ad := false, ede4 := ede4After m,
                         ans := (filterUpstreamAAAA c m.ans).1, ns := m.nsRRs, extra := m.extraRRs } := by
  cases hd : dispatch c q m with
  | trySynth => exact Or.inl ⟨rfl, writeMsg_trySynth c q m a hd⟩
  | passNative s => cases s <;> simp [writeMsg, hd]
  | _ => simp [writeMsg, hd]

/-- the four ways `ServeDNS` + downstream end. -/
theorem serve_cases (c : Cfg) (q : Query) (down : Option Down) (a : AResp) :
    serve c q down a = { kind := .none } ∨
    (∃ m, down = some m ∧ serve c q down a = passReply m) ∨
    (gate c q = .ptr ∧ ∃ addr v4, parseIP6ArpaName (canonical q.qname) = some addr ∧ ptrV4 c addr = some v4 ∧
      serve c q down a = ptrReply q "0" v4 a) ∨
    (gate c q = .wrap ∧ ∃ m, down = some m ∧ serve c q down a = writeMsg c q m a) := by
  have nextOK : (match down with | none => ({ kind := .none } : Reply) | some m => passReply m) = { kind := .none } ∨
      (∃ m, down = some m ∧ (match down with | none => ({ kind := .none } : Reply) | some m => passReply m) = passReply m) := by
    cases down with
    | none => left; rfl
    | some m => right; exact ⟨m, rfl, rfl⟩
  unfold serve
  cases hg : gate c q with
  | next =>
    simp only
    rcases nextOK with h | h
    · exact Or.inl h
    · exact Or.inr (Or.inl h)
  | ptr =>
    simp only
    split
    · rcases nextOK with h | h
      · exact Or.inl h
      · exact Or.inr (Or.inl h)
    · cases hp : parseIP6ArpaName (canonical q.qname) with
      | none =>
        simp only
        rcases nextOK with h | h
        · exact Or.inl h
        · exact Or.inr (Or.inl h)
      | some addr =>
        simp only
        cases hv : ptrV4 c addr with
        | none =>
          simp only
          rcases nextOK with h | h
          · exact Or.inl h
          · exact Or.inr (Or.inl h)
        | some v4 =>
          simp only
          exact Or.inr (Or.inr (Or.inl ⟨trivial, addr, v4, rfl, hv, rfl⟩))
  | wrap =>
    simp only
    cases down with
    | none => exact Or.inl rfl
    | some m => exact Or.inr (Or.inr (Or.inr ⟨trivial, m, rfl, rfl⟩))

theorem ptrReply_props (q : Query) (qt : String) (v4 : IP) (a : AResp) :
    (ptrReply q qt v4 a).kind ≠ .synth ∧ (ptrReply q qt v4 a).kind ≠ .pass ∧ (ptrReply q qt v4 a).ad = false ∧
    (∀ r ∈ (ptrReply q qt v4 a).ans, r.kind ≠ '6') ∧
    ((ptrReply q qt v4 a).kind = .ptr → (ptrReply q qt v4 a).ans.head? =
      some { kind := 'c', ttl := 600, owner := qt, target := "x:" ++ String.ofList (inAddrArpa v4) }) := by
  unfold ptrReply
  cases a.err <;> simp only
  case none =>
    split
    · refine ⟨by simp, by simp, by simp, ?_, fun _ => by simp [ptrSynthTTL]⟩
      intro r hr
      simp only [List.mem_cons, List.mem_filter] at hr
      rcases hr with rfl | ⟨_, hk⟩
      · simp
      · intro h6; simp [h6] at hk
    · refine ⟨by simp, by simp, by simp, ?_, fun _ => by simp [ptrSynthTTL]⟩
      intro r hr; simp at hr; subst hr; simp
  all_goals (refine ⟨by simp, by simp, by simp, ?_, ?_⟩ <;> simp [ptrSynthTTL])

theorem ptrReply_not_abasis (q : Query) (qt : String) (v4 : IP) (a : AResp) : (ptrReply q qt v4 a).kind ≠ .abasis := by
  unfold ptrReply
  cases a.err <;> simp only
  case none => split <;> simp
  all_goals simp

/-- the A record denotes an IPv4 address that is not excluded under prefix `p`. -/
def usableUnder (c : Cfg) (p : Prefix) (x : RR) : Bool :=
  match to4 x.ip with
  | none => false
  | some v4 => !c.shouldExcludeAOnPrefix v4 p

theorem filterMap_length_eq_filter {α β} (f : α → Option β) (l : List α) :
    (l.filterMap f).length = (l.filter fun x => (f x).isSome).length := by
  induction l with
  | nil => rfl
  | cons x t ih =>
    cases hx : f x <;> simp [hx, ih]


/-! ### CIDR masks bit by bit -/

theorem byte_prefix_eq_iff (A B r : Nat) (hA : A < 256) (hB : B < 256) (hr : r ≤ 8) :
    A / 2 ^ (8 - r) = B / 2 ^ (8 - r) ↔ ∀ j, j < r → A.testBit (7 - j) = B.testBit (7 - j) := by
  constructor
  · intro h j hj
    have e : 7 - j = (r - 1 - j) + (8 - r) := by omega
    rw [e, ← Nat.testBit_div_two_pow, ← Nat.testBit_div_two_pow, h]
  · intro h
    apply Nat.eq_of_testBit_eq
    intro m
    rw [Nat.testBit_div_two_pow, Nat.testBit_div_two_pow]
    by_cases hm : m < r
    · have := h (r - 1 - m) (by omega)
      have e : 7 - (r - 1 - m) = m + (8 - r) := by omega
      rw [e] at this; exact this
    · have hA' : A < 2 ^ (m + (8 - r)) := Nat.lt_of_lt_of_le hA (by
        have : (256 : Nat) = 2 ^ 8 := rfl
        rw [this]; exact Nat.pow_le_pow_right (by decide) (by omega))
      have hB' : B < 2 ^ (m + (8 - r)) := Nat.lt_of_lt_of_le hB (by
        have : (256 : Nat) = 2 ^ 8 := rfl
        rw [this]; exact Nat.pow_le_pow_right (by decide) (by omega))
      rw [Nat.testBit_lt_two_pow hA', Nat.testBit_lt_two_pow hB']

/-- bit `j` (most significant first) of a byte string. -/
def bitOf (l : IP) (j : Nat) : Bool := (bAt l (j / 8)).toNat.testBit (7 - j % 8)

theorem bitOf_cons_lt (a : UInt8) (xs : IP) (j : Nat) (h : j < 8) : bitOf (a :: xs) j = a.toNat.testBit (7 - j) := by
  unfold bitOf bAt
  have h0 : j / 8 = 0 := by omega
  have h1 : j % 8 = j := by omega
  simp [h0, h1]

theorem bitOf_cons_ge (a : UInt8) (xs : IP) (j : Nat) : bitOf (a :: xs) (j + 8) = bitOf xs j := by
  unfold bitOf bAt
  have h0 : (j + 8) / 8 = j / 8 + 1 := by omega
  have h1 : (j + 8) % 8 = j % 8 := by omega
  simp [h0, h1]

theorem byteEq_iff (bits i : Nat) (a b : UInt8) :
    ((if bits - 8 * i ≥ 8 then a == b else if bits - 8 * i = 0 then true
      else a.toNat / 2 ^ (8 - (bits - 8 * i)) == b.toNat / 2 ^ (8 - (bits - 8 * i))) = true) ↔
    ∀ j, j < 8 → 8 * i + j < bits → a.toNat.testBit (7 - j) = b.toNat.testBit (7 - j) := by
  have ha := a.toNat_lt
  have hb := b.toNat_lt
  by_cases h8 : bits - 8 * i ≥ 8
  · simp only [h8, if_true, beq_iff_eq]
    have := byte_prefix_eq_iff a.toNat b.toNat 8 (by omega) (by omega) (Nat.le_refl 8)
    simp only [Nat.sub_self, Nat.pow_zero, Nat.div_one] at this
    constructor
    · intro h j hj _; exact this.mp (by rw [h]) j hj
    · intro h
      apply UInt8.toNat_inj.mp
      exact this.mpr (fun j hj => h j hj (by omega))
  · simp only [h8, if_false]
    by_cases h0 : bits - 8 * i = 0
    · simp only [h0, if_true, true_iff]
      intro j _ hlt; omega
    · simp only [h0, if_false, beq_iff_eq]
      have := byte_prefix_eq_iff a.toNat b.toNat (bits - 8 * i) (by omega) (by omega) (by omega)
      rw [this]
      constructor
      · intro h j _ hlt; exact h j (by omega)
      · intro h j hj; exact h j (by omega) (by omega)

theorem eqUnder_iff_bits (bits : Nat) : ∀ (x y : IP) (i : Nat), x.length = y.length →
    (eqUnder bits i x y = true ↔ ∀ j, j < 8 * x.length → 8 * i + j < bits → bitOf x j = bitOf y j) := by
  intro x
  induction x with
  | nil =>
    intro y i hl
    cases y with
    | nil => simp [eqUnder]
    | cons _ _ => simp at hl
  | cons a xs ih =>
    intro y i hl
    cases y with
    | nil => simp at hl
    | cons b ys =>
      have hl' : xs.length = ys.length := by simpa using hl
      unfold eqUnder
      simp only [Bool.and_eq_true]
      rw [byteEq_iff, ih ys (i + 1) hl']
      constructor
      · rintro ⟨hh, ht⟩ j hj hlt
        by_cases h8 : j < 8
        · rw [bitOf_cons_lt _ _ _ h8, bitOf_cons_lt _ _ _ h8]; exact hh j h8 hlt
        · obtain ⟨j', rfl⟩ : ∃ j', j = j' + 8 := ⟨j - 8, by omega⟩
          rw [bitOf_cons_ge, bitOf_cons_ge]
          exact ht j' (by simp at hj; omega) (by omega)
      · intro h
        constructor
        · intro j hj hlt
          have := h j (by simp; omega) hlt
          rwa [bitOf_cons_lt _ _ _ hj, bitOf_cons_lt _ _ _ hj] at this
        · intro j hj hlt
          have := h (j + 8) (by simp; omega) (by omega)
          rwa [bitOf_cons_ge, bitOf_cons_ge] at this

/-! ### `dns.PackDomainName` reads back what `dns.UnpackDomainName` renders -/

theorem packGo_lit (many : Bool) (c : Char) (rest : Name) (f w : Bool) (cur : List UInt8) (acc : List (List UInt8)) (off : Nat)
    (h1 : c ≠ '\\') (h2 : c ≠ '.') :
    packGo many (c :: rest) f w cur acc off = packGo many rest false false (cur ++ [UInt8.ofNat c.toNat]) acc off := by
  conv => lhs; unfold packGo
  split <;> simp_all

theorem packGo_dot (many : Bool) (rest : Name) (f w : Bool) (cur : List UInt8) (acc : List (List UInt8)) (off : Nat) :
    packGo many ('.' :: rest) f w cur acc off =
      (if f && many then none else if w then none else if cur.length ≥ 64 then none
       else if off + 1 + cur.length > 256 then none
       else packGo many rest false true [] (cur :: acc) (off + 1 + cur.length)) := by
  conv => lhs; unfold packGo
  simp

theorem packGo_ddd (many : Bool) (d0 d1 d2 : Char) (rest : Name) (f w : Bool) (cur : List UInt8) (acc : List (List UInt8)) (off : Nat)
    (h : (isDigitC d0 && isDigitC d1 && isDigitC d2) = true) :
    packGo many ('\\' :: d0 :: d1 :: d2 :: rest) f w cur acc off =
      packGo many rest false false
        (cur ++ [UInt8.ofNat (((d0.toNat - 48) * 100 + (d1.toNat - 48) * 10 + (d2.toNat - 48)) % 256)]) acc off := by
  conv => lhs; unfold packGo
  simp [h]

theorem packGo_esc (many : Bool) (c : Char) (rest : Name) (f w : Bool) (cur : List UInt8) (acc : List (List UInt8)) (off : Nat)
    (h : isDigitC c = false) :
    packGo many ('\\' :: c :: rest) f w cur acc off = packGo many rest false false (cur ++ [UInt8.ofNat c.toNat]) acc off := by
  match rest with
  | [] =>
    conv => lhs; unfold packGo
    simp
  | [x] =>
    conv => lhs; unfold packGo
    simp
  | x :: y :: r => conv => lhs; unfold packGo
                   simp [h]

/-- what `presentByte` produces, byte class by byte class, as a checkable Boolean. -/
def byteShapeOK (b : UInt8) : Bool :=
  let c := Char.ofNat b.toNat
  if isLabelSpecial b then !isDigitC c && UInt8.ofNat c.toNat == b
  else if b.toNat < 32 || b.toNat > 126 then
    let d0 := digitChar (b.toNat / 100); let d1 := digitChar (b.toNat / 10 % 10); let d2 := digitChar (b.toNat % 10)
    isDigitC d0 && isDigitC d1 && isDigitC d2 &&
      UInt8.ofNat (((d0.toNat - 48) * 100 + (d1.toNat - 48) * 10 + (d2.toNat - 48)) % 256) == b
  else c != '\\' && c != '.' && UInt8.ofNat c.toNat == b

set_option maxRecDepth 16384 in
theorem byteShape_all : ∀ n, n < 256 → byteShapeOK (UInt8.ofNat n) = true := by decide

theorem byteShape (b : UInt8) : byteShapeOK b = true := by
  have := byteShape_all b.toNat b.toNat_lt
  rwa [UInt8.ofNat_toNat] at this

theorem packGo_presentByte (many : Bool) (b : UInt8) (rest : Name) (f w : Bool) (cur : List UInt8)
    (acc : List (List UInt8)) (off : Nat) :
    packGo many (presentByte b ++ rest) f w cur acc off = packGo many rest false false (cur ++ [b]) acc off := by
  have hs := byteShape b
  unfold byteShapeOK at hs
  unfold presentByte
  by_cases h1 : isLabelSpecial b = true
  · simp only [h1, if_true] at hs ⊢
    simp only [Bool.and_eq_true, Bool.not_eq_true', beq_iff_eq] at hs
    rw [List.cons_append, List.cons_append, List.nil_append, packGo_esc _ _ _ _ _ _ _ _ hs.1, hs.2]
  · simp only [h1, Bool.false_eq_true, if_false] at hs ⊢
    by_cases h2 : (b.toNat < 32 || b.toNat > 126) = true
    · simp only [h2, if_true] at hs ⊢
      simp only [Bool.and_eq_true, beq_iff_eq] at hs
      simp only [List.cons_append, List.nil_append]
      rw [packGo_ddd _ _ _ _ _ _ _ _ _ _ (by simp [hs.1.1.1, hs.1.1.2, hs.1.2]), hs.2]
    · simp only [h2, Bool.false_eq_true, if_false] at hs ⊢
      simp only [Bool.and_eq_true, bne_iff_ne, ne_eq, beq_iff_eq] at hs
      rw [List.cons_append, List.nil_append, packGo_lit _ _ _ _ _ _ _ _ hs.1.1 hs.1.2, hs.2]

theorem packGo_bytes (many : Bool) (rest : Name) (acc : List (List UInt8)) (off : Nat) :
    ∀ (l : List UInt8) (f w : Bool) (cur : List UInt8), l ≠ [] →
      packGo many (l.flatMap presentByte ++ rest) f w cur acc off = packGo many rest false false (cur ++ l) acc off := by
  intro l
  induction l with
  | nil => intro _ _ _ h; exact absurd rfl h
  | cons b t ih =>
    intro f w cur _
    rw [List.flatMap_cons, List.append_assoc, packGo_presentByte]
    cases t with
    | nil => simp
    | cons b' t' =>
      rw [ih false false (cur ++ [b]) (by simp)]
      simp

theorem packGo_label (many : Bool) (l : List UInt8) (rest : Name) (f w : Bool) (acc : List (List UInt8)) (off : Nat)
    (h1 : 0 < l.length) (h2 : l.length < 64) (h3 : off + 1 + l.length ≤ 256) :
    packGo many (presentLabel l ++ rest) f w [] acc off = packGo many rest false true [] (l :: acc) (off + 1 + l.length) := by
  unfold presentLabel
  rw [List.append_assoc, packGo_bytes many _ acc off l f w [] (by intro h; rw [h] at h1; simp at h1)]
  rw [List.singleton_append, packGo_dot]
  have a : ¬ (l.length ≥ 64) := by omega
  have b : ¬ (off + 1 + l.length > 256) := by omega
  simp [a, b]

theorem packGo_labels (many : Bool) : ∀ (ls : List (List UInt8)) (f w : Bool) (acc : List (List UInt8)) (off : Nat),
    (∀ l ∈ ls, 0 < l.length ∧ l.length < 64) → off + (ls.map fun l => l.length + 1).sum ≤ 256 →
    packGo many (presentLabels ls) f w [] acc off = some (acc.reverse ++ ls) := by
  intro ls
  induction ls with
  | nil => intro f w acc off _ _; simp [presentLabels, packGo]
  | cons l t ih =>
    intro f w acc off hl hs
    have hl0 := hl l (by simp)
    simp only [List.map_cons, List.sum_cons] at hs
    have e : presentLabels (l :: t) = presentLabel l ++ presentLabels t := by simp [presentLabels]
    rw [e, packGo_label many l _ f w acc off hl0.1 hl0.2 (by omega)]
    rw [ih false true (l :: acc) (off + 1 + l.length) (fun x hx => hl x (List.mem_cons_of_mem _ hx)) (by omega)]
    simp

/-- number of backslashes at the end of a string -/
def trailBS (s : Name) : Nat := (s.reverse.takeWhile (· == '\\')).length

theorem trailBS_snoc (s : Name) (c : Char) : trailBS (s ++ [c]) = if c == '\\' then trailBS s + 1 else 0 := by
  unfold trailBS
  simp only [List.reverse_append, List.reverse_cons, List.reverse_nil, List.nil_append, List.singleton_append,
    List.takeWhile_cons]
  split <;> simp

def byteTailOK (b : UInt8) : Bool :=
  presentByte b == ['\\', '\\'] ||
    (match (presentByte b).reverse with | c :: _ => c != '\\' | [] => false)

set_option maxRecDepth 16384 in
theorem byteTail_all : ∀ n, n < 256 → byteTailOK (UInt8.ofNat n) = true := by decide

theorem trailBS_presentByte (s : Name) (b : UInt8) (h : trailBS s % 2 = 0) : trailBS (s ++ presentByte b) % 2 = 0 := by
  have hs : byteTailOK b = true := by
    have := byteTail_all b.toNat b.toNat_lt
    rwa [UInt8.ofNat_toNat] at this
  unfold byteTailOK at hs
  rw [Bool.or_eq_true] at hs
  rcases hs with hs | hs
  · have e : presentByte b = ['\\', '\\'] := by simpa using hs
    rw [e]
    have : s ++ ['\\', '\\'] = (s ++ ['\\']) ++ ['\\'] := by simp
    rw [this, trailBS_snoc, trailBS_snoc]
    simp; omega
  · cases hr : (presentByte b).reverse with
    | nil => rw [hr] at hs; simp at hs
    | cons c t =>
      rw [hr] at hs
      have e : presentByte b = t.reverse ++ [c] := by
        have := congrArg List.reverse hr
        simpa using this
      rw [e, ← List.append_assoc, trailBS_snoc]
      have : (c == '\\') = false := by simpa using hs
      simp [this]

theorem trailBS_bytes (l : List UInt8) : ∀ (s : Name), trailBS s % 2 = 0 → trailBS (s ++ l.flatMap presentByte) % 2 = 0 := by
  induction l with
  | nil => intro s h; simpa using h
  | cons b t ih =>
    intro s h
    rw [List.flatMap_cons, ← List.append_assoc]
    exact ih _ (trailBS_presentByte s b h)

theorem isFqdn_presentLabels (ls : List (List UInt8)) (h : ls ≠ []) : isFqdn (presentLabels ls) = true := by
  obtain ⟨init, l, rfl⟩ : ∃ init l, ls = init ++ [l] := by
    cases hd : ls.reverse with
    | nil => simp at hd; exact absurd hd h
    | cons l t =>
      refine ⟨t.reverse, l, ?_⟩
      have := congrArg List.reverse hd
      simpa using this
  have e : presentLabels (init ++ [l]) = (presentLabels init ++ l.flatMap presentByte) ++ ['.'] := by
    rw [presentLabels_append]; simp [presentLabels, presentLabel]
  have h0 : trailBS (presentLabels init) % 2 = 0 := by
    by_cases hi : init = []
    · subst hi; simp [presentLabels, trailBS]
    · obtain ⟨x, hx⟩ := presentLabels_ends_with_dot init hi
      rw [hx, trailBS_snoc]; simp
  have := trailBS_bytes l _ h0
  rw [e]
  unfold isFqdn
  simp only [List.reverse_append, List.reverse_cons, List.reverse_nil, List.nil_append, List.singleton_append]
  unfold trailBS at this
  simpa using this

theorem presentByte_length_pos (b : UInt8) : 0 < (presentByte b).length := by
  unfold presentByte; split <;> (try split) <;> simp


end SdnsVerif.Lemmas.Dns64
