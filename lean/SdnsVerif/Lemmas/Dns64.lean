import SdnsVerif.Model.Dns64
/-!
Reference specifications and helper lemmas for C20 (DNS64).

The first section holds the two *specifications* the property theorems compare
the model against: the RFC 6052 §2.2 address-format table, written out row by
row, and the RFC 3596 §2.5 rendering of an address as an `ip6.arpa.` name.
-/
namespace SdnsVerif.Lemmas.Dns64
open SdnsVerif.Model.Dns64

/-! ### reference specifications -/

/-- RFC 6052 §2.2, figure 1, one row per prefix length: prefix bytes `P i`,
IPv4 octets `V k`, the reserved octet `u` (index 8) and the suffix written `0`. -/
def rfc6052 (p : IP) (bits : Nat) (v : IP) : IP :=
  let P := fun i => bAt p i
  let V := fun k => bAt v k
  match bits with
  | 32 => [P 0, P 1, P 2, P 3, V 0, V 1, V 2, V 3, 0, 0, 0, 0, 0, 0, 0, 0]
  | 40 => [P 0, P 1, P 2, P 3, P 4, V 0, V 1, V 2, 0, V 3, 0, 0, 0, 0, 0, 0]
  | 48 => [P 0, P 1, P 2, P 3, P 4, P 5, V 0, V 1, 0, V 2, V 3, 0, 0, 0, 0, 0]
  | 56 => [P 0, P 1, P 2, P 3, P 4, P 5, P 6, V 0, 0, V 1, V 2, V 3, 0, 0, 0, 0]
  | 64 => [P 0, P 1, P 2, P 3, P 4, P 5, P 6, P 7, 0, V 0, V 1, V 2, V 3, 0, 0, 0]
  | 96 => [P 0, P 1, P 2, P 3, P 4, P 5, P 6, P 7, P 8, P 9, P 10, P 11, V 0, V 1, V 2, V 3]
  | _ => []

/-- index of the last IPv4 octet in the RFC 6052 layout (everything after it is suffix). -/
def lastV4Index : Nat → Nat
  | 32 => 7 | 40 => 9 | 48 => 10 | 56 => 11 | 64 => 12 | _ => 15

def hexChar (n : Nat) : Char := if n < 10 then Char.ofNat (48 + n) else Char.ofNat (87 + n)

/-- the 32 nibbles of an address, most significant first. -/
def nibbles (a : IP) : List Nat := a.flatMap fun b => [b.toNat / 16, b.toNat % 16]

def joinDots : List Char → Name
  | [] => []
  | [c] => [c]
  | c :: t => c :: '.' :: joinDots t

/-- RFC 3596 §2.5: nibbles in reverse order, one per label, under `ip6.arpa.`. -/
def arpaNameOf (a : IP) : Name := joinDots ((nibbles a).reverse.map hexChar) ++ ip6ArpaSuffix ++ ['.']

/-! ### shape lemmas -/

theorem len4 (v : IP) (h : v.length = 4) : ∃ a b c d, v = [a, b, c, d] := by
  match v, h with
  | [a, b, c, d], _ => exact ⟨a, b, c, d, rfl⟩

theorem len16 (v : IP) (h : v.length = 16) :
    ∃ a0 a1 a2 a3 a4 a5 a6 a7 a8 a9 a10 a11 a12 a13 a14 a15,
      v = [a0, a1, a2, a3, a4, a5, a6, a7, a8, a9, a10, a11, a12, a13, a14, a15] := by
  match v, h with
  | [a0, a1, a2, a3, a4, a5, a6, a7, a8, a9, a10, a11, a12, a13, a14, a15], _ =>
    exact ⟨a0, a1, a2, a3, a4, a5, a6, a7, a8, a9, a10, a11, a12, a13, a14, a15, rfl⟩

theorem legal_cases (bits : Nat) (h : isLegal bits = true) :
    bits = 32 ∨ bits = 40 ∨ bits = 48 ∨ bits = 56 ∨ bits = 64 ∨ bits = 96 := by
  simpa [isLegal, legalBits] using h

theorem range16 : List.range 16 = [0, 1, 2, 3, 4, 5, 6, 7, 8, 9, 10, 11, 12, 13, 14, 15] := by decide

/-- `embedIPv4` is the RFC table, for every legal length. -/
theorem embed_eq (p : IP) (bits : Nat) (v : IP) (hv : v.length = 4) (hl : isLegal bits = true) :
    embedIPv4 p bits v = rfc6052 p bits v := by
  obtain ⟨a, b, c, d, rfl⟩ := len4 v hv
  rcases legal_cases bits hl with rfl | rfl | rfl | rfl | rfl | rfl <;>
    simp [embedIPv4, rfc6052, prefixCopy, range16, copyAt, bAt]

/-- `prefixContains` on 16-byte operands and a legal length: the leading
`bits/8` bytes agree. -/
theorem contains_take (p a : IP) (bits : Nat) (hp : p.length = 16) (ha : a.length = 16)
    (hl : isLegal bits = true) :
    prefixContains ⟨p, bits, true⟩ a = true ↔ a.take (bits / 8) = p.take (bits / 8) := by
  obtain ⟨p0, p1, p2, p3, p4, p5, p6, p7, p8, p9, p10, p11, p12, p13, p14, p15, rfl⟩ := len16 p hp
  obtain ⟨a0, a1, a2, a3, a4, a5, a6, a7, a8, a9, a10, a11, a12, a13, a14, a15, rfl⟩ := len16 a ha
  rcases legal_cases bits hl with rfl | rfl | rfl | rfl | rfl | rfl <;>
    simp [prefixContains, to16, eqUnder] <;>
    constructor <;> intro h <;> simp_all

/-! ### `ip6.arpa` names -/

theorem hexChar_props : ∀ n, n < 16 →
    hexNibble (hexChar n) = some n ∧ (hexChar n).toLower = hexChar n ∧ hexChar n ≠ '.' := by
  decide

theorem splitDots_joinDots (cs : List Char) (hne : cs ≠ []) (hd : ∀ c ∈ cs, c ≠ '.') :
    splitDots (joinDots cs) = cs.map fun c => [c] := by
  induction cs with
  | nil => exact absurd rfl hne
  | cons c t ih =>
    cases t with
    | nil =>
      have : c ≠ '.' := hd c (by simp)
      simp [joinDots, splitDots, this]
    | cons c' t' =>
      have hc : c ≠ '.' := hd c (by simp)
      have := ih (by simp) (fun x hx => hd x (List.mem_cons_of_mem _ hx))
      simp only [joinDots] at this ⊢
      simp [splitDots, hc, this]

theorem lower_id (s : Name) (h : ∀ c ∈ s, c.toLower = c) : lower s = s := by
  unfold lower
  induction s with
  | nil => rfl
  | cons c t ih =>
    simp only [List.map_cons]
    rw [h c (by simp), ih (fun x hx => h x (List.mem_cons_of_mem _ hx))]

theorem mem_joinDots (cs : List Char) (c : Char) (h : c ∈ joinDots cs) : c = '.' ∨ c ∈ cs := by
  induction cs with
  | nil => simp [joinDots] at h
  | cons x t ih =>
    cases t with
    | nil => simp [joinDots] at h; right; simp [h]
    | cons y t' =>
      simp only [joinDots, List.mem_cons] at h
      rcases h with h | h | h
      · right; simp [h]
      · left; exact h
      · rcases ih (by simpa [joinDots] using h) with h' | h'
        · left; exact h'
        · right; exact List.mem_cons_of_mem _ h'

theorem hasSuffix_append (s t : Name) : hasSuffix (s ++ t) t = true := by
  unfold hasSuffix
  rw [List.isSuffixOf_iff_suffix]
  exact List.suffix_append s t

theorem take_append_sub (s t : Name) : (s ++ t).take ((s ++ t).length - t.length) = s := by
  simp

theorem mapM_labelNibble (ns : List Nat) (h : ∀ n ∈ ns, n < 16) :
    (ns.map fun n => [hexChar n]).mapM labelNibble = some ns := by
  induction ns with
  | nil => rfl
  | cons n t ih =>
    have hn := (hexChar_props n (h n (by simp))).1
    have := ih (fun x hx => h x (List.mem_cons_of_mem _ hx))
    simp [List.mapM_cons, labelNibble, hn, this]

theorem pairUp_nibbles (a : IP) : pairUp (nibbles a) = a := by
  induction a with
  | nil => rfl
  | cons b t ih =>
    have : nibbles (b :: t) = b.toNat / 16 :: b.toNat % 16 :: nibbles t := by simp [nibbles]
    rw [this]
    simp only [pairUp]
    have hb : UInt8.ofNat (b.toNat / 16 * 16 + b.toNat % 16) = b := by
      rw [Nat.div_add_mod' b.toNat 16]; exact UInt8.ofNat_toNat
    rw [hb]
    congr 1

theorem nibbles_lt (a : IP) : ∀ n ∈ nibbles a, n < 16 := by
  intro n hn
  simp only [nibbles, List.mem_flatMap] at hn
  obtain ⟨b, _, hb⟩ := hn
  have := b.toNat_lt
  simp at hb
  rcases hb with rfl | rfl <;> omega

theorem nibbles_length (a : IP) : (nibbles a).length = 2 * a.length := by
  induction a with
  | nil => rfl
  | cons b t ih => simp [nibbles] at ih ⊢; omega

theorem parse_join (ns : List Nat) (hlen : ns.length = 32) (hlt : ∀ n ∈ ns, n < 16) :
    parseIP6ArpaName (joinDots (ns.map hexChar) ++ ip6ArpaSuffix ++ ['.']) = some (pairUp ns.reverse) := by
  generalize hcs : ns.map hexChar = cs
  have hcsl : cs.length = 32 := by rw [← hcs]; simpa using hlen
  have hprops : ∀ c ∈ cs, c.toLower = c ∧ c ≠ '.' := by
    intro c hc
    rw [← hcs] at hc
    obtain ⟨n, hn, rfl⟩ := List.mem_map.mp hc
    exact ⟨(hexChar_props n (hlt n hn)).2.1, (hexChar_props n (hlt n hn)).2.2⟩
  have hne : cs ≠ [] := by
    intro h; rw [h] at hcsl; simp at hcsl
  have hlow : lower (joinDots cs ++ ip6ArpaSuffix ++ ['.']) = joinDots cs ++ ip6ArpaSuffix ++ ['.'] := by
    apply lower_id
    intro c hc
    simp only [List.mem_append] at hc
    rcases hc with (hc | hc) | hc
    · rcases mem_joinDots _ _ hc with rfl | hc
      · decide
      · exact (hprops c hc).1
    · revert c; decide
    · revert c; decide
  unfold parseIP6ArpaName
  rw [hlow]
  have t1 : trimSuffix (joinDots cs ++ ip6ArpaSuffix ++ ['.']) ['.'] = joinDots cs ++ ip6ArpaSuffix := by
    unfold trimSuffix
    rw [hasSuffix_append, if_pos rfl]
    exact take_append_sub _ _
  simp only [t1, hasSuffix_append, Bool.not_true, Bool.false_eq_true, if_false, take_append_sub]
  rw [splitDots_joinDots cs hne (fun c hc => (hprops c hc).2)]
  have hl32 : (cs.map fun c => [c]).length = 32 := by simpa using hcsl
  simp only [hl32, bne_self_eq_false, Bool.false_eq_true, if_false]
  have : (cs.map fun c => [c]) = (ns.map fun n => [hexChar n]) := by rw [← hcs]; simp
  rw [this, mapM_labelNibble _ hlt]

/-! ### TTL choice -/

theorem foldl_min_le_init (l : List Nat) (t : Nat) :
    l.foldl (fun t a => if a < t then a else t) t ≤ t := by
  induction l generalizing t with
  | nil => exact Nat.le_refl _
  | cons x xs ih =>
    simp only [List.foldl_cons]
    have := ih (if x < t then x else t)
    by_cases hx : x < t <;> simp only [hx, if_true, if_false] at this ⊢ <;> omega

theorem foldl_min_le_mem (l : List Nat) (t a : Nat) (h : a ∈ l) :
    l.foldl (fun t a => if a < t then a else t) t ≤ a := by
  induction l generalizing t with
  | nil => simp at h
  | cons x xs ih =>
    simp only [List.foldl_cons]
    rcases List.mem_cons.mp h with rfl | h
    · have := foldl_min_le_init xs (if a < t then a else t)
      by_cases hx : a < t <;> simp only [hx, if_true, if_false] at this ⊢ <;> omega
    · exact ih _ h

/-! ### response dispatch -/

/-- the message `synthesise` receives from `WriteMsg` and whether it is a copy. -/
def origOf (c : Cfg) (m : Down) : Down × Bool :=
  if m.rcode == 0 then
    if (filterUpstreamAAAA c m.ans).2.2.2 > 0 then ({ m with ans := (filterUpstreamAAAA c m.ans).1 }, true)
    else (m, false)
  else (m, false)

theorem writeMsg_trySynth (c : Cfg) (q : Query) (m : Down) (a : AResp) (h : dispatch c q m = .trySynth) :
    writeMsg c q m a = synthesise c (origOf c m).1 (origOf c m).2 a := by
  unfold writeMsg origOf
  rw [h]
  simp only
  split
  · split <;> rfl
  · rfl

theorem origOf_fields (c : Cfg) (m : Down) :
    (origOf c m).1.soas = m.soas ∧ (origOf c m).1.ad = m.ad ∧ (origOf c m).1.opt = m.opt ∧
    (origOf c m).1.rcode = m.rcode ∧ (∀ r ∈ (origOf c m).1.ans, r ∈ m.ans) := by
  unfold origOf
  split
  · split
    · refine ⟨rfl, rfl, rfl, rfl, ?_⟩
      intro r hr
      simp only [filterUpstreamAAAA] at hr
      exact (List.mem_filter.mp hr).1
    · exact ⟨rfl, rfl, rfl, rfl, fun _ h => h⟩
  · exact ⟨rfl, rfl, rfl, rfl, fun _ h => h⟩

end SdnsVerif.Lemmas.Dns64
