import SdnsVerif.Model.Slab
/-! Helper lemmas for C10 (`Props/C10.lean`). -/
namespace SdnsVerif.Lemmas.Slab
open SdnsVerif.Model.Slab

theorem take_overlay (buf b : Bytes) : (overlay buf b).take b.length = b := by
  simp [overlay]

/-- the fields a serve pass must not touch -/
def Frame (j j' : UdpJob) : Prop :=
  j'.rx = j.rx ∧ j'.rxLen = j.rxLen ∧ j'.raddr = j.raddr ∧ j'.rawSA = j.rawSA ∧ j'.rawSALen = j.rawSALen ∧
  j'.pktinfo = j.pktinfo ∧ j'.pktinfoLen = j.pktinfoLen ∧ j'.state = j.state ∧ j'.burst = j.burst ∧ j'.replay = j.replay

theorem Frame.refl (j : UdpJob) : Frame j j := by simp [Frame]

theorem Frame.trans {a b c : UdpJob} (h1 : Frame a b) (h2 : Frame b c) : Frame a c := by
  unfold Frame at *
  obtain ⟨a1, a2, a3, a4, a5, a6, a7, a8, a9, a10⟩ := h1
  obtain ⟨b1, b2, b3, b4, b5, b6, b7, b8, b9, b10⟩ := h2
  exact ⟨b1.trans a1, b2.trans a2, b3.trans a3, b4.trans a4, b5.trans a5, b6.trans a6, b7.trans a7, b8.trans a8, b9.trans a9, b10.trans a10⟩

/-- a job with a burst attached and nothing staged: what one `Write` leaves -/
theorem write_burst (sz : Sizes) (j : UdpJob) (b : Bytes) (ip : Bool) (hb : j.burst = true)
    (hip : ip = true → j.tx.take b.length = b) (h0 : j.txLen = 0) :
    (j.write sz b ip).2 = [] ∧ Frame j (j.write sz b ip).1 ∧
    (j.write sz b ip).1.tx.take (j.write sz b ip).1.txLen = ((fits sz false b).getD []) ∧
    ((j.write sz b ip).1.txLen = 0 ↔ fits sz false b = none) := by
  unfold UdpJob.write fits
  by_cases hl : b.length > sz.udpBuf
  · simp [hl, Frame, h0]
  · simp only [hl, if_false, hb, if_true]
    cases ip with
    | true =>
      have := hip rfl
      by_cases hz : b.length = 0
      · simp [Frame, hz, hb]
      · simp [Frame, hz, this, hb]
    | false =>
      by_cases hz : b.length = 0
      · simp [Frame, hz, hb]
      · simp [Frame, hz, take_overlay, hb]

/-- without a burst `Write` sends at once, to the job's peer -/
theorem write_direct (sz : Sizes) (j : UdpJob) (b : Bytes) (ip : Bool) (hb : j.burst = false) :
    (j.write sz b ip).2 = ((fits sz true b).map fun b => ({ dest := j.raddr, ctl := j.pktinfo.take j.pktinfoLen, body := b } : Datagram)).toList ∧
    Frame j (j.write sz b ip).1 ∧ (j.write sz b ip).1.txLen = j.txLen := by
  unfold UdpJob.write fits
  by_cases hl : b.length > sz.udpBuf
  · simp [hl, Frame]
  · simp [hl, hb, Frame]

theorem frame_tx (j : UdpJob) (t : Bytes) : Frame j { j with tx := t } := by simp [Frame]

/-- the handler's action on a job with a burst attached and nothing staged -/
theorem act_burst (sz : Sizes) (j : UdpJob) (a : Act) (hb : j.burst = true) (h0 : j.txLen = 0) :
    (j.act sz a).2.1 = [] ∧ Frame j (j.act sz a).1 ∧
    (j.act sz a).1.tx.take (j.act sz a).1.txLen = ((a.wrote.bind (fits sz false)).getD []) ∧
    ((j.act sz a).1.txLen = 0 ↔ a.wrote.bind (fits sz false) = none) ∧
    (j.act sz a).2.2 = (a != .decline) := by
  cases a with
  | none => simp [UdpJob.act, Act.wrote, Frame.refl, h0]
  | panic => simp [UdpJob.act, Act.wrote, Frame.refl, h0]
  | decline => simp [UdpJob.act, Act.wrote, Frame.refl, h0]
  | write b =>
    have := write_burst sz j b false hb (by simp) h0
    simp only [UdpJob.act, Act.wrote, Option.bind_some]
    exact ⟨this.1, this.2.1, this.2.2.1, this.2.2.2, by simp⟩
  | writePanic b =>
    have := write_burst sz j b false hb (by simp) h0
    simp only [UdpJob.act, Act.wrote, Option.bind_some]
    exact ⟨this.1, this.2.1, this.2.2.1, this.2.2.2, by simp⟩
  | leaseAbandon b =>
    unfold UdpJob.act UdpJob.buildInLease
    by_cases hl : b.length > sz.udpBuf
    · simp [hl, Act.wrote, Frame.refl, h0]
    · simp [hl, Act.wrote, Frame, h0]
  | lease b =>
    unfold UdpJob.act UdpJob.buildInLease
    by_cases hl : b.length > sz.udpBuf
    · have := write_burst sz j b false hb (by simp) h0
      simp only [hl, if_true, Act.wrote, Option.bind_some]
      exact ⟨this.1, this.2.1, this.2.2.1, this.2.2.2, by simp⟩
    · have := write_burst sz { j with tx := overlay j.tx b } b true hb (by intro _; exact take_overlay _ _) h0
      simp only [hl, if_false, Act.wrote, Option.bind_some]
      exact ⟨this.1, (frame_tx j _).trans this.2.1, this.2.2.1, this.2.2.2, by simp⟩
  | writeMsg b =>
    unfold UdpJob.act
    by_cases hl : b.length ≤ sz.udpBuf
    · have := write_burst sz { j with tx := overlay j.tx b } b true hb (by intro _; exact take_overlay _ _) h0
      simp only [hl, if_true, Act.wrote, Option.bind_some]
      exact ⟨this.1, (frame_tx j _).trans this.2.1, this.2.2.1, this.2.2.2, by simp⟩
    · have := write_burst sz j b false hb (by simp) h0
      simp only [hl, if_false, Act.wrote, Option.bind_some]
      exact ⟨this.1, this.2.1, this.2.2.1, this.2.2.2, by simp⟩
  | writeMsgU b ulen =>
    unfold UdpJob.act
    by_cases hl : ulen ≤ sz.udpBuf ∧ b.length ≤ sz.udpBuf
    · have := write_burst sz { j with tx := overlay j.tx b } b true hb (by intro _; exact take_overlay _ _) h0
      simp only [hl, and_self, if_true, Act.wrote, Option.bind_some]
      exact ⟨this.1, (frame_tx j _).trans this.2.1, this.2.2.1, this.2.2.2, by simp⟩
    · have := write_burst sz j b false hb (by simp) h0
      simp only [hl, if_false, Act.wrote, Option.bind_some]
      exact ⟨this.1, this.2.1, this.2.2.1, this.2.2.2, by simp⟩

def dgOf (j : UdpJob) (b : Bytes) : Datagram := { dest := j.raddr, ctl := j.pktinfo.take j.pktinfoLen, body := b }

/-- the handler's action on a job without a burst (overflow goroutine) -/
theorem act_direct (sz : Sizes) (j : UdpJob) (a : Act) (hb : j.burst = false) :
    (j.act sz a).2.1 = ((a.wrote.bind (fits sz true)).map (dgOf j)).toList ∧ Frame j (j.act sz a).1 ∧
    (j.act sz a).1.txLen = j.txLen ∧ (j.act sz a).2.2 = (a != .decline) := by
  cases a with
  | none => simp [UdpJob.act, Act.wrote, Frame.refl]
  | panic => simp [UdpJob.act, Act.wrote, Frame.refl]
  | decline => simp [UdpJob.act, Act.wrote, Frame.refl]
  | write b =>
    have := write_direct sz j b false hb
    simp only [UdpJob.act, Act.wrote, Option.bind_some]
    exact ⟨this.1, this.2.1, this.2.2, by simp⟩
  | writePanic b =>
    have := write_direct sz j b false hb
    simp only [UdpJob.act, Act.wrote, Option.bind_some]
    exact ⟨this.1, this.2.1, this.2.2, by simp⟩
  | leaseAbandon b =>
    unfold UdpJob.act UdpJob.buildInLease
    by_cases hl : b.length > sz.udpBuf
    · simp [hl, Act.wrote, Frame.refl]
    · simp [hl, Act.wrote, Frame]
  | lease b =>
    unfold UdpJob.act UdpJob.buildInLease
    by_cases hl : b.length > sz.udpBuf
    · have := write_direct sz j b false hb
      simp only [hl, if_true, Act.wrote, Option.bind_some]
      exact ⟨this.1, this.2.1, this.2.2, by simp⟩
    · have := write_direct sz { j with tx := overlay j.tx b } b true hb
      simp only [hl, if_false, Act.wrote, Option.bind_some]
      exact ⟨this.1, (frame_tx j _).trans this.2.1, this.2.2, by simp⟩
  | writeMsg b =>
    unfold UdpJob.act
    by_cases hl : b.length ≤ sz.udpBuf
    · have := write_direct sz { j with tx := overlay j.tx b } b true hb
      simp only [hl, if_true, Act.wrote, Option.bind_some]
      exact ⟨this.1, (frame_tx j _).trans this.2.1, this.2.2, by simp⟩
    · have := write_direct sz j b false hb
      simp only [hl, if_false, Act.wrote, Option.bind_some]
      exact ⟨this.1, this.2.1, this.2.2, by simp⟩
  | writeMsgU b ulen =>
    unfold UdpJob.act
    by_cases hl : ulen ≤ sz.udpBuf ∧ b.length ≤ sz.udpBuf
    · have := write_direct sz { j with tx := overlay j.tx b } b true hb
      simp only [hl, and_self, if_true, Act.wrote, Option.bind_some]
      exact ⟨this.1, (frame_tx j _).trans this.2.1, this.2.2, by simp⟩
    · have := write_direct sz j b false hb
      simp only [hl, if_false, Act.wrote, Option.bind_some]
      exact ⟨this.1, this.2.1, this.2.2, by simp⟩

theorem specReply_ok_ne (sz : Sizes) (h : Handler) (raw : Bytes) (e : Entry) (d : Bool)
    (hv : acceptHeader raw = some .ok) (hd : h raw e ≠ .decline) :
    specReply sz h raw e d = ((h raw e).wrote.bind (fits sz d), true) := by
  unfold specReply
  rw [hv]
  cases hh : h raw e <;> simp_all

theorem specReply_ok_decline (sz : Sizes) (h : Handler) (raw : Bytes) (e : Entry) (d : Bool)
    (hv : acceptHeader raw = some .ok) (hd : h raw e = .decline) :
    specReply sz h raw e d = if e = .inline then (none, false) else (fits sz d (rejectBytes raw false), true) := by
  unfold specReply
  rw [hv]
  simp only [hd]

/-- one serve pass on a job with a burst attached and nothing staged -/
theorem serveBody_burst (sz : Sizes) (h : Handler) (j : UdpJob) (e : Entry) (hb : j.burst = true) (h0 : j.txLen = 0) :
    (j.serveBody sz h e).2.1 = [] ∧ Frame j (j.serveBody sz h e).1 ∧
    (j.serveBody sz h e).1.tx.take (j.serveBody sz h e).1.txLen = ((specReply sz h (j.rx.take j.rxLen) e false).1.getD []) ∧
    ((j.serveBody sz h e).1.txLen = 0 ↔ (specReply sz h (j.rx.take j.rxLen) e false).1 = none) ∧
    (j.serveBody sz h e).2.2 = (specReply sz h (j.rx.take j.rxLen) e false).2 := by
  generalize hraw : j.rx.take j.rxLen = raw
  cases hv : acceptHeader raw with
  | none => simp [UdpJob.serveBody, specReply, hraw, hv, Frame.refl, h0]
  | some v =>
    cases v with
    | ignore => simp [UdpJob.serveBody, specReply, hraw, hv, Frame.refl, h0]
    | notimp =>
      have := write_burst sz j (rejectBytes raw true) false hb (by simp) h0
      simp only [UdpJob.serveBody, specReply, hraw, hv]
      exact ⟨this.1, this.2.1, this.2.2.1, this.2.2.2, trivial⟩
    | formerr =>
      have := write_burst sz j (rejectBytes raw false) false hb (by simp) h0
      simp only [UdpJob.serveBody, specReply, hraw, hv]
      exact ⟨this.1, this.2.1, this.2.2.1, this.2.2.2, trivial⟩
    | ok =>
      have A := act_burst sz j (h raw e) hb h0
      by_cases hd : h raw e = .decline
      · rw [specReply_ok_decline sz h raw e false hv hd]
        have hact : j.act sz (h raw e) = (j, [], false) := by rw [hd]; simp [UdpJob.act]
        simp only [UdpJob.serveBody, hraw, hv, hact]
        by_cases he : e = .inline
        · simp [he, Frame.refl, h0]
        · have := write_burst sz j (rejectBytes raw false) false hb (by simp) h0
          simp only [he, if_false, Bool.false_eq_true, List.nil_append]
          exact ⟨this.1, this.2.1, this.2.2.1, this.2.2.2, trivial⟩
      · rw [specReply_ok_ne sz h raw e false hv hd]
        have hret : (j.act sz (h raw e)).2.2 = true := by rw [A.2.2.2.2]; simp [hd]
        simp only [UdpJob.serveBody, hraw, hv, hret, if_true]
        exact ⟨A.1, A.2.1, A.2.2.1, A.2.2.2.1, trivial⟩

/-- one serve pass on a job without a burst -/
theorem serveBody_direct (sz : Sizes) (h : Handler) (j : UdpJob) (e : Entry) (hb : j.burst = false) (he : e ≠ .inline) :
    (j.serveBody sz h e).2.1 = (((specReply sz h (j.rx.take j.rxLen) e true).1).map (dgOf j)).toList ∧
    Frame j (j.serveBody sz h e).1 ∧ (j.serveBody sz h e).1.txLen = j.txLen := by
  generalize hraw : j.rx.take j.rxLen = raw
  cases hv : acceptHeader raw with
  | none => simp [UdpJob.serveBody, specReply, hraw, hv, Frame.refl]
  | some v =>
    cases v with
    | ignore => simp [UdpJob.serveBody, specReply, hraw, hv, Frame.refl]
    | notimp =>
      have := write_direct sz j (rejectBytes raw true) false hb
      simp only [UdpJob.serveBody, specReply, hraw, hv]
      exact ⟨this.1, this.2.1, this.2.2⟩
    | formerr =>
      have := write_direct sz j (rejectBytes raw false) false hb
      simp only [UdpJob.serveBody, specReply, hraw, hv]
      exact ⟨this.1, this.2.1, this.2.2⟩
    | ok =>
      have A := act_direct sz j (h raw e) hb
      by_cases hd : h raw e = .decline
      · rw [specReply_ok_decline sz h raw e true hv hd]
        have hact : j.act sz (h raw e) = (j, [], false) := by rw [hd]; simp [UdpJob.act]
        have := write_direct sz j (rejectBytes raw false) false hb
        simp only [UdpJob.serveBody, hraw, hv, hact, he, if_false, Bool.false_eq_true, List.nil_append]
        exact ⟨this.1, this.2.1, this.2.2⟩
      · rw [specReply_ok_ne sz h raw e true hv hd]
        have hret : (j.act sz (h raw e)).2.2 = true := by rw [A.2.2.2]; simp [hd]
        simp only [UdpJob.serveBody, hraw, hv, hret, if_true]
        exact ⟨A.1, A.2.1, A.2.2.1⟩

/-- a parked slab: everything `release` owns is clear -/
def Scrubbed (j : UdpJob) : Prop :=
  j.state = .free ∧ j.rxLen = 0 ∧ j.txLen = 0 ∧ j.pktinfoLen = 0 ∧ j.written = false ∧ j.replay = false ∧ j.burst = false

theorem release_scrubbed (j : UdpJob) (hb : j.burst = false) : Scrubbed j.release := by
  simp [Scrubbed, UdpJob.release, hb]

theorem recycled_scrubbed (r : Residue) : Scrubbed (recycled r) := by
  simp [Scrubbed, recycled]

/-- a slab that holds request `q` and nothing else -/
def Filled (j : UdpJob) (q : Req) : Prop :=
  j.rx.take j.rxLen = q.pkt ∧ j.dest = q.src ∧ j.raddr = q.src ∧ j.pktinfo.take j.pktinfoLen = q.ctl ∧
  j.txLen = 0 ∧ j.burst = false

theorem fill_filled (j : UdpJob) (batch : Bool) (q : Req) (st : JState) (hs : Scrubbed j) :
    Filled { ({ j with state := .reading }).fill batch q.pkt q.src q.ctl with state := st } q ∧
    ({ ({ j with state := .reading }).fill batch q.pkt q.src q.ctl with state := st }).replay = false := by
  obtain ⟨_, _, h3, _, _, h6, h7⟩ := hs
  cases batch <;> simp [Filled, UdpJob.fill, UdpJob.dest, take_overlay, h3, h6, h7]

def dgReq (q : Req) (b : Bytes) : Datagram := { dest := q.src, ctl := q.ctl, body := b }

/-- a worker's whole turn with a filled job: what leaves is the
specification's reply to this request, to this request's source; the slab is
parked scrubbed. -/
theorem serveFlush_spec (sz : Sizes) (h : Handler) (j : UdpJob) (q : Req) (wb : Bool) (hf : Filled j q) :
    (j.serveFlush sz h wb).2 =
      (((specReply sz h q.pkt (if j.replay then .replay else .raw) (!wb)).1).map (dgReq q)).toList ∧
    Scrubbed (j.serveFlush sz h wb).1 := by
  obtain ⟨hrx, hdest, hraddr, hctl, h0, _⟩ := hf
  generalize he : (if j.replay then Entry.replay else Entry.raw) = e
  have hne : e ≠ .inline := by rw [← he]; split <;> simp
  cases wb with
  | true =>
    have B := serveBody_burst sz h { j with state := .serving, burst := true } e rfl h0
    simp only at B
    rw [hrx] at B
    obtain ⟨B1, B2, B3, B4, _⟩ := B
    obtain ⟨f1, f2, f3, f4, f5, f6, f7, _, _, _⟩ := B2
    simp only [UdpJob.serveFlush, UdpJob.serve, he, Bool.not_true]
    generalize hsb : UdpJob.serveBody sz h { j with state := .serving, burst := true } e = sb at *
    obtain ⟨j2, o, d⟩ := sb
    simp only at B1 B3 B4 f1 f2 f3 f4 f5 f6 f7
    subst B1
    cases hsp : (specReply sz h q.pkt e false).1 with
    | none =>
      have hz : j2.txLen = 0 := B4.mpr hsp
      simp [hz, release_scrubbed]
    | some b =>
      have hnz : j2.txLen ≠ 0 := by intro hz; rw [B4.mp hz] at hsp; cases hsp
      have hpos : j2.txLen > 0 := Nat.pos_of_ne_zero hnz
      rw [hsp] at B3
      simp only [Option.getD_some] at B3
      have hd : (if j2.rawSALen = 0 then j2.raddr else j2.rawSA) = q.src := by
        rw [← hdest]; simp [UdpJob.dest, f3, f4, f5]
      simp [hpos, UdpJob.flush, hnz, UdpJob.datagram, UdpJob.dest, hd, B3, f6, f7, hctl, dgReq, release_scrubbed]
  | false =>
    have B := serveBody_direct sz h { j with state := .serving, burst := false } e rfl hne
    simp only at B
    rw [hrx] at B
    obtain ⟨B1, B2, B3⟩ := B
    simp only [UdpJob.serveFlush, UdpJob.serve, he, Bool.not_false]
    generalize hsb : UdpJob.serveBody sz h { j with state := .serving, burst := false } e = sb at *
    obtain ⟨j2, o, d⟩ := sb
    simp only at B1 B3
    have hz : j2.txLen = 0 := by rw [B3]; exact h0
    subst B1
    cases hsp : (specReply sz h q.pkt e true).1 with
    | none => simp [hz, release_scrubbed]
    | some b => simp [hz, release_scrubbed, dgOf, dgReq, hraddr, hctl]

/-- the inline pass on a filled job -/
theorem serveInline_spec (sz : Sizes) (h : Handler) (j : UdpJob) (q : Req) (hf : Filled j q) :
    (∀ b, (specReply sz h q.pkt .inline false).1 = some b →
        (j.serveInline sz h).2 = .staged ∧ ((j.serveInline sz h).1.flush).2 = [dgReq q b] ∧
        Scrubbed ((j.serveInline sz h).1.flush).1) ∧
    ((specReply sz h q.pkt .inline false).1 = none → (specReply sz h q.pkt .inline false).2 = true →
        (j.serveInline sz h).2 = .released ∧ Scrubbed (j.serveInline sz h).1) ∧
    ((specReply sz h q.pkt .inline false).1 = none → (specReply sz h q.pkt .inline false).2 = false →
        (j.serveInline sz h).2 = .handoff ∧ Filled (j.serveInline sz h).1 q ∧ (j.serveInline sz h).1.replay = true) := by
  obtain ⟨hrx, hdest, hraddr, hctl, h0, _⟩ := hf
  have B := serveBody_burst sz h { j with state := .serving, burst := true } .inline rfl h0
  simp only at B
  rw [hrx] at B
  obtain ⟨B1, B2, B3, B4, B5⟩ := B
  obtain ⟨f1, f2, f3, f4, f5, f6, f7, _, _, _⟩ := B2
  simp only [UdpJob.serveInline]
  generalize hsb : UdpJob.serveBody sz h { j with state := .serving, burst := true } .inline = sb at *
  obtain ⟨j2, o, d⟩ := sb
  simp only at B1 B3 B4 B5 f1 f2 f3 f4 f5 f6 f7
  refine ⟨?_, ?_, ?_⟩
  · intro b hsp
    have hnz : j2.txLen ≠ 0 := by intro hz; rw [B4.mp hz] at hsp; cases hsp
    have hpos : j2.txLen > 0 := Nat.pos_of_ne_zero hnz
    rw [hsp] at B3
    simp only [Option.getD_some] at B3
    have hd : (if j2.rawSALen = 0 then j2.raddr else j2.rawSA) = q.src := by
      rw [← hdest]; simp [UdpJob.dest, f3, f4, f5]
    simp [hpos, UdpJob.flush, hnz, UdpJob.datagram, UdpJob.dest, hd, B3, f6, f7, hctl, dgReq, release_scrubbed]
  · intro hsp hdone
    have hz : j2.txLen = 0 := B4.mpr hsp
    have hd : d = true := by rw [B5]; exact hdone
    simp [hz, hd, release_scrubbed]
  · intro hsp hdone
    have hz : j2.txLen = 0 := B4.mpr hsp
    have hd : d = false := by rw [B5]; exact hdone
    have hd' : (if j2.rawSALen = 0 then j2.raddr else j2.rawSA) = q.src := by
      rw [← hdest]; simp [UdpJob.dest, f3, f4, f5]
    simp only [hz, hd, Nat.lt_irrefl, if_false, Bool.not_false, if_true, Filled, UdpJob.dest, gt_iff_lt]
    rw [f3, hraddr] at hd'
    simp only [f1, f2, f6, f7, hrx, hctl, f3, hraddr, and_self, true_and, and_true]
    exact hd'

/-- **One life cycle.** On a scrubbed slab — whatever else it still holds —
what leaves is the specification's output for this request, and the slab is
parked scrubbed again. -/
theorem lifeCycle_spec (sz : Sizes) (h : Handler) (j : UdpJob) (q : Req) (p : Path) (hs : Scrubbed j) :
    (lifeCycle sz h j q p).2 = specOut sz h q p ∧ Scrubbed (lifeCycle sz h j q p).1 := by
  unfold lifeCycle specOut
  by_cases hl : q.pkt.length > sz.udpBuf
  · simp only [hl, if_true, true_and]
    exact release_scrubbed _ hs.2.2.2.2.2.2
  · simp only [hl, if_false]
    cases p with
    | ring batch =>
      have F := fill_filled j batch q .queued hs
      have S := serveFlush_spec sz h _ q true F.1
      rw [F.2] at S
      simp only [Bool.false_eq_true, if_false, Bool.not_true] at S
      exact S
    | overflow batch =>
      have F := fill_filled j batch q .queued hs
      have S := serveFlush_spec sz h _ q false F.1
      rw [F.2] at S
      simp only [Bool.false_eq_true, if_false, Bool.not_false] at S
      exact S
    | inline =>
      have F := fill_filled j true q .reading hs
      have hfill : ({ ({ j with state := .reading }).fill true q.pkt q.src q.ctl with state := .reading } : UdpJob) =
          ({ j with state := .reading }).fill true q.pkt q.src q.ctl := by simp [UdpJob.fill]
      rw [hfill] at F
      have I := serveInline_spec sz h _ q F.1
      generalize hsi : UdpJob.serveInline sz h (({ j with state := .reading }).fill true q.pkt q.src q.ctl) = si at *
      obtain ⟨j2, fate⟩ := si
      simp only at I
      obtain ⟨I1, I2, I3⟩ := I
      generalize hsp : specReply sz h q.pkt .inline false = sp at *
      obtain ⟨r, d⟩ := sp
      cases r with
      | some b =>
        obtain ⟨hfate, hout, hscr⟩ := I1 b rfl
        subst hfate
        simp [hout, hscr, dgReq]
      | none =>
        cases d with
        | true =>
          obtain ⟨hfate, hscr⟩ := I2 rfl rfl
          subst hfate
          simp [hscr]
        | false =>
          obtain ⟨hfate, hfil, hrep⟩ := I3 rfl rfl
          subst hfate
          have hfil' : Filled { j2 with state := .queued } q := hfil
          have S := serveFlush_spec sz h { j2 with state := .queued } q true hfil'
          rw [if_pos hrep] at S
          simp only [Bool.not_true] at S
          dsimp only
          exact S

theorem runMany_spec (sz : Sizes) (h : Handler) (l : List (Req × Path)) :
    ∀ j, Scrubbed j → (runMany sz h j l).2 = l.flatMap (fun qp => specOut sz h qp.1 qp.2) ∧
      Scrubbed (runMany sz h j l).1 := by
  induction l with
  | nil => intro j hs; simp [runMany, hs]
  | cons qp t ih =>
    intro j hs
    obtain ⟨q, p⟩ := qp
    have L := lifeCycle_spec sz h j q p hs
    have T := ih (lifeCycle sz h j q p).1 L.2
    simp only [runMany, List.flatMap_cons]
    exact ⟨by rw [L.1, T.1], T.2⟩

/-! ### stream connection -/

theorem flush_total (o : Out) : o.flush.total = o.total := by simp [Out.flush, Out.total]

theorem stage_total (sz : Sizes) (o : Out) (p : Bytes) (hp : p.length ≤ sz.tcpBuf) :
    (o.stage sz p).total = o.total ++ frame p := by
  unfold Out.stage
  have : ¬ p.length > sz.tcpBuf := by omega
  simp only [this, if_false]
  split
  · simp [Out.flush, Out.total]
  · split
    · simp [Out.flush, Out.total]
    · simp [Out.total]

theorem be16_frame (q rest : Bytes) (hq : q.length < 65536) : be16 (frame q ++ rest) 0 = q.length := by
  simp only [be16, byteAt, frame, prefix16, List.cons_append, List.nil_append, List.getD_cons_zero,
    List.getD_cons_succ, UInt8.toNat_ofNat']
  omega

theorem tcpReply_len (sz : Sizes) (h : Handler) (raw p : Bytes) (hr : tcpReply sz h raw = some p) :
    p.length ≤ sz.tcpBuf := by
  have key : ∀ b : Bytes, (if b.length > sz.tcpBuf then none else some b) = some p → p.length ≤ sz.tcpBuf := by
    intro b hb
    split at hb
    · cases hb
    · cases hb; omega
  unfold tcpReply at hr
  simp only at hr
  split at hr
  · cases hr
  · cases hr
  · exact key _ hr
  · exact key _ hr
  · split at hr
    · exact key _ hr
    · cases hw : (h raw Entry.raw).wrote with
      | none => rw [hw] at hr; cases hr
      | some b => rw [hw] at hr; exact key b hr

theorem drop2_frame (q rest : Bytes) : (frame q ++ rest).drop 2 = q ++ rest := by
  simp [frame, prefix16]

theorem length_frame_append (q rest : Bytes) : (frame q ++ rest).length = 2 + q.length + rest.length := by
  simp [frame, prefix16]; omega

/-- `serveConn` over a stream of whole, well-formed frames: whatever the
flush points, what leaves is the specification's stream, after what had
already left. -/
theorem serveStream_spec (sz : Sizes) (h : Handler) (qs : List Bytes) :
    ∀ (fuel : Nat) (blocks : List Bool) (o : Out),
      (∀ q ∈ qs, sz.tcpMinFrame ≤ q.length ∧ q.length < 65536) → qs.length < fuel →
      (serveStream sz h fuel (clientStream qs) blocks o).total = o.total ++ specStream sz h qs := by
  induction qs with
  | nil =>
    intro fuel blocks o _ hf
    cases fuel with
    | zero => omega
    | succ f =>
      unfold serveStream
      cases blocks with
      | nil => simp [clientStream, specStream, flush_total]
      | cons b t => cases b <;> simp [clientStream, specStream, flush_total]
  | cons q t ih =>
    intro fuel blocks o hq hf
    cases fuel with
    | zero => simp at hf
    | succ f =>
      have hqq := hq q (List.mem_cons_self)
      have hlen : ¬ (frame q ++ clientStream t).length < 2 := by rw [length_frame_append]; omega
      have hn : be16 (frame q ++ clientStream t) 0 = q.length := be16_frame q _ hqq.2
      have hmin : ¬ q.length < sz.tcpMinFrame := by omega
      have hrest : ¬ (q ++ clientStream t).length < q.length := by simp
      -- one iteration, for any pre-flushed output o'
      have iter : ∀ (o' : Out) (bl : List Bool), o'.total = o.total →
          (if (frame q ++ clientStream t).length < 2 then o'.flush else
            if be16 (frame q ++ clientStream t) 0 < sz.tcpMinFrame then o'.flush else
            if ((frame q ++ clientStream t).drop 2).length < be16 (frame q ++ clientStream t) 0 then o'.flush else
            if tcpFatal h (((frame q ++ clientStream t).drop 2).take (be16 (frame q ++ clientStream t) 0)) then
              (match tcpReply sz h (((frame q ++ clientStream t).drop 2).take (be16 (frame q ++ clientStream t) 0)) with
                | some p => o'.stage sz p | none => o').flush
            else serveStream sz h f (((frame q ++ clientStream t).drop 2).drop (be16 (frame q ++ clientStream t) 0)) bl
              (match tcpReply sz h (((frame q ++ clientStream t).drop 2).take (be16 (frame q ++ clientStream t) 0)) with
                | some p => o'.stage sz p | none => o')).total = o.total ++ specStream sz h (q :: t) := by
        intro o' bl ho'
        rw [hn, drop2_frame]
        simp only [hlen, hmin, hrest, if_false, List.take_left', List.drop_left']
        have hstage : (match tcpReply sz h q with | some p => o'.stage sz p | none => o').total =
            o.total ++ (match tcpReply sz h q with | some p => frame p | none => []) := by
          cases hr : tcpReply sz h q with
          | none => simp [ho']
          | some p => simp only; rw [stage_total sz o' p (tcpReply_len sz h q p hr), ho']
        by_cases hfat : tcpFatal h q = true
        · simp only [hfat, if_true, flush_total, specStream]
          rw [hstage]; cases tcpReply sz h q <;> simp
        · simp only [hfat, if_false, specStream, Bool.false_eq_true]
          rw [ih f bl _ (fun x hx => hq x (List.mem_cons_of_mem _ hx)) (by simp at hf; omega), hstage]
          cases tcpReply sz h q <;> simp
      unfold serveStream
      simp only [clientStream]
      cases blocks with
      | nil => exact iter o [] rfl
      | cons b bl =>
        cases b with
        | true => exact iter o.flush bl (flush_total o)
        | false => exact iter o bl rfl

/-! ### the body lease -/

theorem beginWire_pinned (written : Bool) (tr : Option Slice) (size reserve : Nat) (s : Slice)
    (hb : beginWire written tr size reserve = some s) :
    s.len = 0 ∧ s.cap = size + reserve ∧ written = false ∧
    (∀ buf, tr = some buf → s.off = buf.off ∧ s.fresh = buf.fresh ∧ size + reserve ≤ buf.cap) ∧
    (tr = none → s.fresh = true) := by
  unfold beginWire at hb
  cases written with
  | true => simp at hb
  | false =>
    simp only [Bool.false_eq_true, if_false] at hb
    cases tr with
    | none => simp at hb; subst hb; simp
    | some buf =>
      simp only at hb
      split at hb
      · cases hb
      · simp at hb; subst hb; simp; omega

/-- overwrite `b` at position `p` of `mem` (in-place write of an append) -/
theorem splice_facts (mem b : Bytes) (p : Nat) (hp : p + b.length ≤ mem.length) :
    (mem.take p ++ b ++ mem.drop (p + b.length)).length = mem.length ∧
    (mem.take p ++ b ++ mem.drop (p + b.length)).take p = mem.take p ∧
    (∀ k, p + b.length ≤ k → (mem.take p ++ b ++ mem.drop (p + b.length)).drop k = mem.drop k) := by
  have hl : (mem.take p).length = p := by simp; omega
  refine ⟨?_, ?_, ?_⟩
  · simp; omega
  · rw [List.append_assoc]; exact List.take_left' hl
  · intro k hk
    have hl2 : (mem.take p ++ b).length = p + b.length := by simp; omega
    obtain ⟨d, rfl⟩ : ∃ d, k = (p + b.length) + d := ⟨k - (p + b.length), by omega⟩
    rw [show (p + b.length) + d = (mem.take p ++ b).length + d by rw [hl2]]
    rw [List.drop_append]
    simp [hl2]

/-- one in-place append: only `[off+len, off+len+|b|)` of the backing array changes -/
theorem sliceAppend_inplace (mem : Bytes) (s : Slice) (b : Bytes) (hfit : s.len + b.length ≤ s.cap)
    (hin : s.off + s.cap ≤ mem.length) :
    (sliceAppend mem s b).1.off = s.off ∧ (sliceAppend mem s b).1.cap = s.cap ∧
    (sliceAppend mem s b).1.len = s.len + b.length ∧ (sliceAppend mem s b).2.2.length = mem.length ∧
    (sliceAppend mem s b).2.2.take s.off = mem.take s.off ∧
    (sliceAppend mem s b).2.2.drop (s.off + s.cap) = mem.drop (s.off + s.cap) ∧
    view (sliceAppend mem s b).2.2 (sliceAppend mem s b).1 = view mem s ++ b := by
  have hp : (s.off + s.len) + b.length ≤ mem.length := by omega
  obtain ⟨F1, F2, F3⟩ := splice_facts mem b (s.off + s.len) hp
  simp only [sliceAppend, hfit, if_true]
  refine ⟨trivial, trivial, trivial, F1, ?_, F3 _ (by omega), ?_⟩
  · have := congrArg (List.take s.off) F2
    simpa [List.take_take, Nat.min_eq_left (Nat.le_add_right s.off s.len)] using this
  · unfold view
    simp only
    have hV : ((mem.drop s.off).take s.len).length = s.len := by simp; omega
    have hT : (mem.take s.off).length = s.off := by simp; omega
    have hsplit : mem.take (s.off + s.len) = mem.take s.off ++ (mem.drop s.off).take s.len := List.take_add
    rw [hsplit, List.append_assoc, List.append_assoc, List.drop_left' hT]
    rw [← List.append_assoc]
    exact List.take_left' (by simp [hV])

/-- **No append to a lease touches the slab outside its declared capacity.** -/
theorem slabAfter_frame (bs : List Bytes) : ∀ (slab : Bytes) (s : Slice), s.off + s.cap ≤ slab.length →
    (slabAfter slab s bs).length = slab.length ∧ (slabAfter slab s bs).take s.off = slab.take s.off ∧
    (slabAfter slab s bs).drop (s.off + s.cap) = slab.drop (s.off + s.cap) := by
  induction bs with
  | nil => intro slab s _; simp [slabAfter]
  | cons b t ih =>
    intro slab s hin
    unfold slabAfter
    by_cases hfit : s.len + b.length ≤ s.cap
    · simp only [hfit, if_true]
      obtain ⟨A1, A2, _, A4, A5, A6, _⟩ := sliceAppend_inplace slab s b hfit hin
      have := ih (sliceAppend slab s b).2.2 (sliceAppend slab s b).1 (by rw [A1, A2, A4]; exact hin)
      rw [A1, A2, A4] at this
      exact ⟨this.1, this.2.1.trans A5, this.2.2.trans A6⟩
    · simp [hfit]

/-! ### ownership -/

set_option linter.unusedSimpArgs false

/-- the state field and the recorded holder agree with the container -/
def Cons (s : Sys) : Prop :=
  ∀ k, (k ∈ s.idle → s.state k = .free ∧ s.holder k = .cache) ∧
       (k ∈ s.armed → s.state k = .reading ∧ ∃ r, s.holder k = .reader r) ∧
       (k ∈ s.ready → s.state k = .queued ∧ s.holder k = .queue) ∧
       (k ∈ s.serving → s.state k = .serving ∧ ((∃ r, s.holder k = .reader r) ∨ ∃ w, s.holder k = .worker w))

def SInv (s : Sys) : Prop := s.all.Nodup ∧ Cons s

theorem counts_le_one (s : Sys) (hn : s.all.Nodup) (k : Nat) :
    s.idle.count k + s.armed.count k + s.ready.count k + s.serving.count k ≤ 1 := by
  have := (List.nodup_iff_count.mp hn) k
  simp only [Sys.all, List.count_append] at this
  omega

theorem mem_iff_count {l : List Nat} {k : Nat} : k ∈ l ↔ 0 < l.count k := List.count_pos_iff.symm

theorem not_mem_erase_self {l : List Nat} {j : Nat} (h : l.count j ≤ 1) : j ∉ l.erase j := by
  rw [← List.count_eq_zero, List.count_erase_self]; omega

theorem count_erase_add (l : List Nat) (j k : Nat) (h : j ∈ l) :
    (l.erase j).count k + (if j = k then 1 else 0) = l.count k := by
  have hp := mem_iff_count.mp h
  rw [List.count_erase]
  by_cases hjk : j = k
  · subst hjk; simp; omega
  · simp [hjk]

theorem count_cons' (l : List Nat) (j k : Nat) : (j :: l).count k = l.count k + (if j = k then 1 else 0) := by
  rw [List.count_cons]; simp

theorem count_snoc (l : List Nat) (j k : Nat) : (l ++ [j]).count k = l.count k + (if j = k then 1 else 0) := by
  rw [List.count_append, count_cons']; simp

theorem apply_perm (s : Sys) (st : Step) (he : st.enabled s = true) : (st.apply s).all.Perm s.all := by
  rw [List.perm_iff_count]
  intro k
  cases st with
  | take j r =>
    simp only [Step.enabled, Bool.and_eq_true, List.contains_iff_mem, beq_iff_eq] at he
    have := count_erase_add s.idle j k he.1
    simp only [Step.apply, Sys.all, List.count_append, count_cons']
    omega
  | readFail j r =>
    simp only [Step.enabled, Bool.and_eq_true, List.contains_iff_mem, beq_iff_eq] at he
    have := count_erase_add s.armed j k he.1.1
    simp only [Step.apply, Sys.all, List.count_append, count_cons']
    omega
  | enqueue j r =>
    simp only [Step.enabled, Bool.and_eq_true, List.contains_iff_mem, beq_iff_eq] at he
    have := count_erase_add s.armed j k he.1.1
    simp only [Step.apply, Sys.all, List.count_append, count_cons', List.count_nil]
    omega
  | serveBegin j w =>
    simp only [Step.enabled, Bool.and_eq_true, List.contains_iff_mem, beq_iff_eq] at he
    have := count_erase_add s.ready j k he.1
    simp only [Step.apply, Sys.all, List.count_append, count_cons']
    omega
  | finish j a =>
    simp only [Step.enabled, Bool.and_eq_true, List.contains_iff_mem, beq_iff_eq] at he
    have := count_erase_add s.serving j k he.1.1
    simp only [Step.apply, Sys.all, List.count_append, count_cons']
    omega
  | inlineBegin j r =>
    simp only [Step.enabled, Bool.and_eq_true, List.contains_iff_mem, beq_iff_eq] at he
    have := count_erase_add s.armed j k he.1.1
    simp only [Step.apply, Sys.all, List.count_append, count_cons']
    omega
  | handoff j r =>
    simp only [Step.enabled, Bool.and_eq_true, List.contains_iff_mem, beq_iff_eq] at he
    have := count_erase_add s.serving j k he.1.1
    simp only [Step.apply, Sys.all, List.count_append, count_cons', List.count_nil]
    omega

theorem setAt_self {α : Type} (f : Nat → α) (j : Nat) (v : α) : setAt f j v j = v := by simp [setAt]
theorem setAt_ne {α : Type} (f : Nat → α) (j k : Nat) (v : α) (h : k ≠ j) : setAt f j v k = f k := by simp [setAt, h]

theorem apply_cons (s : Sys) (st : Step) (hi : SInv s) (he : st.enabled s = true) : Cons (st.apply s) := by
  obtain ⟨hn, hc⟩ := hi
  cases st with
  | take j r =>
    simp only [Step.enabled, Bool.and_eq_true, List.contains_iff_mem, beq_iff_eq] at he
    intro k
    have C := hc k
    have Cj := hc j
    have N := counts_le_one s hn j
    have hj1 := mem_iff_count.mp he.1
    by_cases hk : k = j
    · subst hk
      have e1 : k ∉ s.idle.erase k := not_mem_erase_self (by omega)
      have e2 : k ∉ s.ready := by rw [← List.count_eq_zero]; omega
      have e3 : k ∉ s.serving := by rw [← List.count_eq_zero]; omega
      simp_all [Step.apply, setAt_self]
    · simp only [Step.apply, setAt_ne _ _ _ _ hk, List.mem_erase_of_ne hk, List.mem_cons, List.mem_append, List.mem_singleton, List.not_mem_nil, hk, false_or, or_false]
      exact C
  | readFail j r =>
    simp only [Step.enabled, Bool.and_eq_true, List.contains_iff_mem, beq_iff_eq] at he
    intro k
    have C := hc k
    have Cj := hc j
    have N := counts_le_one s hn j
    have hj1 := mem_iff_count.mp he.1.1
    by_cases hk : k = j
    · subst hk
      have e1 : k ∉ s.armed.erase k := not_mem_erase_self (by omega)
      have e2 : k ∉ s.ready := by rw [← List.count_eq_zero]; omega
      have e3 : k ∉ s.serving := by rw [← List.count_eq_zero]; omega
      simp_all [Step.apply, setAt_self]
    · simp only [Step.apply, setAt_ne _ _ _ _ hk, List.mem_erase_of_ne hk, List.mem_cons, List.mem_append, List.mem_singleton, List.not_mem_nil, hk, false_or, or_false]
      exact C
  | enqueue j r =>
    simp only [Step.enabled, Bool.and_eq_true, List.contains_iff_mem, beq_iff_eq] at he
    intro k
    have C := hc k
    have Cj := hc j
    have N := counts_le_one s hn j
    have hj1 := mem_iff_count.mp he.1.1
    by_cases hk : k = j
    · subst hk
      have e1 : k ∉ s.armed.erase k := not_mem_erase_self (by omega)
      have e2 : k ∉ s.idle := by rw [← List.count_eq_zero]; omega
      have e3 : k ∉ s.serving := by rw [← List.count_eq_zero]; omega
      simp_all [Step.apply, setAt_self]
    · simp only [Step.apply, setAt_ne _ _ _ _ hk, List.mem_erase_of_ne hk, List.mem_cons, List.mem_append, List.mem_singleton, List.not_mem_nil, hk, false_or, or_false]
      exact C
  | serveBegin j w =>
    simp only [Step.enabled, Bool.and_eq_true, List.contains_iff_mem, beq_iff_eq] at he
    intro k
    have C := hc k
    have Cj := hc j
    have N := counts_le_one s hn j
    have hj1 := mem_iff_count.mp he.1
    by_cases hk : k = j
    · subst hk
      have e1 : k ∉ s.ready.erase k := not_mem_erase_self (by omega)
      have e2 : k ∉ s.idle := by rw [← List.count_eq_zero]; omega
      have e3 : k ∉ s.armed := by rw [← List.count_eq_zero]; omega
      simp_all [Step.apply, setAt_self]
    · simp only [Step.apply, setAt_ne _ _ _ _ hk, List.mem_erase_of_ne hk, List.mem_cons, List.mem_append, List.mem_singleton, List.not_mem_nil, hk, false_or, or_false]
      exact C
  | finish j a =>
    simp only [Step.enabled, Bool.and_eq_true, List.contains_iff_mem, beq_iff_eq] at he
    intro k
    have C := hc k
    have Cj := hc j
    have N := counts_le_one s hn j
    have hj1 := mem_iff_count.mp he.1.1
    by_cases hk : k = j
    · subst hk
      have e1 : k ∉ s.serving.erase k := not_mem_erase_self (by omega)
      have e2 : k ∉ s.armed := by rw [← List.count_eq_zero]; omega
      have e3 : k ∉ s.ready := by rw [← List.count_eq_zero]; omega
      simp_all [Step.apply, setAt_self]
    · simp only [Step.apply, setAt_ne _ _ _ _ hk, List.mem_erase_of_ne hk, List.mem_cons, List.mem_append, List.mem_singleton, List.not_mem_nil, hk, false_or, or_false]
      exact C
  | inlineBegin j r =>
    simp only [Step.enabled, Bool.and_eq_true, List.contains_iff_mem, beq_iff_eq] at he
    intro k
    have C := hc k
    have Cj := hc j
    have N := counts_le_one s hn j
    have hj1 := mem_iff_count.mp he.1.1
    by_cases hk : k = j
    · subst hk
      have e1 : k ∉ s.armed.erase k := not_mem_erase_self (by omega)
      have e2 : k ∉ s.idle := by rw [← List.count_eq_zero]; omega
      have e3 : k ∉ s.ready := by rw [← List.count_eq_zero]; omega
      simp_all [Step.apply, setAt_self]
    · simp only [Step.apply, setAt_ne _ _ _ _ hk, List.mem_erase_of_ne hk, List.mem_cons, List.mem_append, List.mem_singleton, List.not_mem_nil, hk, false_or, or_false]
      exact C
  | handoff j r =>
    simp only [Step.enabled, Bool.and_eq_true, List.contains_iff_mem, beq_iff_eq] at he
    intro k
    have C := hc k
    have Cj := hc j
    have N := counts_le_one s hn j
    have hj1 := mem_iff_count.mp he.1.1
    by_cases hk : k = j
    · subst hk
      have e1 : k ∉ s.serving.erase k := not_mem_erase_self (by omega)
      have e2 : k ∉ s.idle := by rw [← List.count_eq_zero]; omega
      have e3 : k ∉ s.armed := by rw [← List.count_eq_zero]; omega
      simp_all [Step.apply, setAt_self]
    · simp only [Step.apply, setAt_ne _ _ _ _ hk, List.mem_erase_of_ne hk, List.mem_cons, List.mem_append, List.mem_singleton, List.not_mem_nil, hk, false_or, or_false]
      exact C

theorem step_inv (s : Sys) (st : Step) (hi : SInv s) : SInv (s.step st) := by
  unfold Sys.step
  by_cases he : st.enabled s = true
  · simp only [he, if_true]
    exact ⟨((apply_perm s st he).nodup_iff).mpr hi.1, apply_cons s st hi he⟩
  · simp only [he, if_false]; exact hi

theorem step_perm (s : Sys) (st : Step) : (s.step st).all.Perm s.all := by
  unfold Sys.step
  by_cases he : st.enabled s = true
  · simp only [he, if_true]; exact apply_perm s st he
  · simp only [he, if_false]; exact List.Perm.refl _

theorem run_inv (l : List Step) : ∀ s, SInv s → SInv (s.run l) ∧ (s.run l).all.Perm s.all := by
  induction l with
  | nil => intro s hi; exact ⟨hi, List.Perm.refl _⟩
  | cons st t ih =>
    intro s hi
    have := ih (s.step st) (step_inv s st hi)
    exact ⟨this.1, this.2.trans (step_perm s st)⟩

theorem init_inv (n : Nat) : SInv (Sys.init n) := by
  refine ⟨?_, ?_⟩
  · simp [Sys.init, Sys.all, List.nodup_range]
  · intro k; simp [Sys.init]

/-- a slab in a goroutine's hands (armed or being served) can only be moved
by the goroutine recorded as its holder -/
theorem enabled_actor (s : Sys) (st : Step) (hi : SInv s) (he : st.enabled s = true)
    (hh : st.slab ∈ s.armed ∨ st.slab ∈ s.serving) : st.actor = s.holder st.slab := by
  obtain ⟨hn, _⟩ := hi
  cases st with
  | take j r =>
    simp only [Step.enabled, Bool.and_eq_true, List.contains_iff_mem, beq_iff_eq] at he
    have N := counts_le_one s hn j
    have h1 := mem_iff_count.mp he.1
    simp only [Step.slab] at hh
    rcases hh with h | h <;> (have := mem_iff_count.mp h; omega)
  | serveBegin j w =>
    simp only [Step.enabled, Bool.and_eq_true, List.contains_iff_mem, beq_iff_eq] at he
    have N := counts_le_one s hn j
    have h1 := mem_iff_count.mp he.1
    simp only [Step.slab] at hh
    rcases hh with h | h <;> (have := mem_iff_count.mp h; omega)
  | readFail j r =>
    simp only [Step.enabled, Bool.and_eq_true, List.contains_iff_mem, beq_iff_eq] at he
    exact he.1.2.symm
  | enqueue j r =>
    simp only [Step.enabled, Bool.and_eq_true, List.contains_iff_mem, beq_iff_eq] at he
    exact he.1.2.symm
  | finish j a =>
    simp only [Step.enabled, Bool.and_eq_true, List.contains_iff_mem, beq_iff_eq] at he
    exact he.1.2.symm
  | inlineBegin j r =>
    simp only [Step.enabled, Bool.and_eq_true, List.contains_iff_mem, beq_iff_eq] at he
    exact he.1.2.symm
  | handoff j r =>
    simp only [Step.enabled, Bool.and_eq_true, List.contains_iff_mem, beq_iff_eq] at he
    exact he.1.2.symm


/-! ### shared lookup -/

theorem shareAll_spec (leader : Msg) (ids : List (Nat × Bool)) : ∀ next, leader.addr < next →
    (shareAll leader ids next).map (·.id) = ids.map (·.1) ∧
    (∀ m ∈ shareAll leader ids next, next ≤ m.addr ∧ m.body = leader.body) ∧
    ((shareAll leader ids next).map (·.addr)).Nodup := by
  induction ids with
  | nil => intro next _; simp [shareAll]
  | cons ido t ih =>
    obtain ⟨id, owned⟩ := ido
    intro next hlt
    obtain ⟨I1, I2, I3⟩ := ih (next + 1) (by omega)
    simp only [shareAll, groupLookupResult, if_true, List.map_cons, List.nodup_cons, List.mem_cons, List.mem_map]
    refine ⟨by rw [I1], ?_, ?_, I3⟩
    · intro m hm
      rcases hm with rfl | hm
      · simp
      · have := I2 m hm; exact ⟨by omega, this.2⟩
    · rintro ⟨m, hm, hma⟩
      have := (I2 m hm).1
      omega

/-! ### failover, chain pool -/

theorem failoverLoop_id (m : FoMsg) (l : List FoOutcome) : ∀ fr : Option FoMsg,
    (∀ r, fr = some r → r.id = m.id) → (failoverLoop m l fr).id = m.id := by
  induction l with
  | nil =>
    intro fr h
    cases fr with
    | none => simp [failoverLoop]
    | some r => simpa [failoverLoop] using h r rfl
  | cons o t ih =>
    intro fr h
    cases o with
    | err => simpa [failoverLoop] using ih fr h
    | resp eid rc mk =>
      simp only [failoverLoop]
      split
      · apply ih
        intro r hr
        cases fr with
        | none => simp at hr; subst hr; rfl
        | some r0 => simp at hr; subst hr; exact h r0 rfl
      · rfl

def PoolInv (p : ChainPool) : Prop := (p.pooled ++ p.held).Nodup ∧ ∀ c ∈ p.pooled ++ p.held, c < p.next

theorem pool_step_inv (p : ChainPool) (st : PoolStep) (h : PoolInv p) : PoolInv (p.step st) := by
  obtain ⟨hn, hb⟩ := h
  cases st with
  | get =>
    unfold ChainPool.step
    cases hp : p.pooled with
    | nil =>
      simp only
      rw [hp] at hn hb
      refine ⟨?_, ?_⟩
      · simp only [List.nil_append, List.nodup_cons]
        refine ⟨?_, by simpa using hn⟩
        intro hm
        have := hb p.next (by simpa using hm)
        omega
      · intro c hc
        simp only [List.nil_append, List.mem_cons] at hc
        show c < p.next + 1
        rcases hc with rfl | hc
        · omega
        · have := hb c (by simpa using hc); omega
    | cons c t =>
      simp only
      rw [hp] at hn hb
      refine ⟨?_, ?_⟩
      · have : (t ++ c :: p.held).Perm ((c :: t) ++ p.held) := by
          have := (List.perm_middle (a := c) (l₁ := t) (l₂ := p.held))
          simpa using this
        exact (this.nodup_iff).mpr hn
      · intro x hx
        apply hb x
        simp only [List.mem_append, List.mem_cons] at hx ⊢
        rcases hx with hx | hx | hx
        · exact Or.inl (Or.inr hx)
        · exact Or.inl (Or.inl hx)
        · exact Or.inr hx
  | put c =>
    unfold ChainPool.step
    by_cases hc : p.held.contains c = true
    · simp only [hc, if_true]
      have hmem : c ∈ p.held := by simpa using hc
      have hperm : ((c :: p.pooled) ++ p.held.erase c).Perm (p.pooled ++ p.held) := by
        have h1 : p.held.Perm (c :: p.held.erase c) := List.perm_cons_erase hmem
        have h2 : (p.pooled ++ p.held).Perm (p.pooled ++ c :: p.held.erase c) := List.Perm.append_left _ h1
        have h3 : (p.pooled ++ c :: p.held.erase c).Perm (c :: (p.pooled ++ p.held.erase c)) := List.perm_middle
        exact (h2.trans h3).symm
      refine ⟨(hperm.nodup_iff).mpr hn, ?_⟩
      intro x hx
      exact hb x (hperm.mem_iff.mp hx)
    · simp only [hc]; exact ⟨hn, hb⟩

theorem pool_run_inv (l : List PoolStep) : ∀ p, PoolInv p → PoolInv (p.run l) := by
  induction l with
  | nil => intro p h; exact h
  | cons st t ih => intro p h; exact ih (p.step st) (pool_step_inv p st h)

/-! ### DNS-over-QUIC -/

theorem doq_run_spec (evs : List DoqEvent) : ∀ c : DoqConn, c.writers = c.streams →
    (c.run evs).out = c.out ++ specDoq c.streams evs ∧ (c.run evs).writers = (c.run evs).streams := by
  induction evs with
  | nil => intro c hc; simp [DoqConn.run, specDoq, hc]
  | cons ev t ih =>
    intro c hc
    cases ev with
    | accept sid =>
      have := ih (c.step (.accept sid)) (by simp [DoqConn.step, hc])
      simpa [DoqConn.run, DoqConn.step, specDoq] using this
    | complete i reply =>
      cases reply with
      | none =>
        have := ih (c.step (.complete i none)) (by simpa [DoqConn.step] using hc)
        simpa [DoqConn.run, DoqConn.step, specDoq] using this
      | some b =>
        cases hw : c.writers[i]? with
        | none =>
          have h1 : c.step (.complete i (some b)) = c := by simp [DoqConn.step, hw]
          have := ih c hc
          have hs : c.streams[i]? = none := by rw [← hc]; exact hw
          simp only [DoqConn.run, List.foldl_cons, h1, specDoq, hs, List.nil_append]
          exact this
        | some s =>
          have h1 : c.step (.complete i (some b)) = { c with out := c.out ++ [(s, doqFrame b)] } := by
            simp [DoqConn.step, hw]
          have := ih { c with out := c.out ++ [(s, doqFrame b)] } hc
          have hs : c.streams[i]? = some s := by rw [← hc]; exact hw
          simp only [DoqConn.run, List.foldl_cons, h1, specDoq, hs]
          simpa [DoqConn.run, List.append_assoc] using this

end SdnsVerif.Lemmas.Slab
