import SdnsVerif.Model.Bailiwick
/-!
Helper lemmas for C07: `CompareSuffix` counts the labels two names share from
the right, `Sub` is "label-wise suffix", the label splitter loses nothing, the
UDP read loop, and the invariant of `extractDelegationInfo`.
-/
namespace SdnsVerif.Lemmas.Bailiwick
open SdnsVerif.Model.Bailiwick

/-- Two label lists agree label by label up to ASCII case. -/
def LabelsEq (a b : Name) : Prop := a.map lower = b.map lower

/-- `zone` is a label-wise suffix of `name`: `name` is `zone` or lies below it. -/
def LabelSuffix (zone name : Name) : Prop := ∃ pre suf, name = pre ++ suf ∧ LabelsEq zone suf

theorem LabelsEq.length_eq {a b : Name} (h : LabelsEq a b) : a.length = b.length := by
  have := congrArg List.length h
  simpa using this

theorem eqFold_iff (a b : Str) : eqFold a b = true ↔ lower a = lower b := by
  unfold eqFold; simp

theorem labelsEq_cons (x y : Label) (xs ys : Name) :
    LabelsEq (x :: xs) (y :: ys) ↔ eqFold x y = true ∧ LabelsEq xs ys := by
  unfold LabelsEq
  rw [eqFold_iff]
  simp

/-! ### `suffixRun` -/

theorem suffixRun_le : ∀ (xs ys : Name) (n : Nat), suffixRun xs ys n ≤ n + xs.length := by
  intro xs
  induction xs with
  | nil => intro ys n; cases ys <;> simp [suffixRun]
  | cons x xs ih =>
    intro ys n
    cases ys with
    | nil => simp [suffixRun]
    | cons y ys =>
      cases xs with
      | nil =>
        cases ys with
        | nil => simp only [suffixRun]; split <;> simp
        | cons y' ys' => simp [suffixRun]
      | cons x' xs' =>
        cases ys with
        | nil => simp [suffixRun]
        | cons y' ys' =>
          simp only [suffixRun]
          by_cases e : eqFold x y = true
          · simp only [e, if_true]
            have := ih (y' :: ys') (n + 1)
            simp at this ⊢; omega
          · simp only [e]
            have := ih (y' :: ys') 0
            simp at this ⊢; omega

theorem suffixRun_full : ∀ (xs ys : Name) (n : Nat), xs.length = ys.length → xs ≠ [] →
    suffixRun xs ys n = n + xs.length → LabelsEq xs ys := by
  intro xs
  induction xs with
  | nil => intro ys n _ h; exact absurd rfl h
  | cons x xs ih =>
    intro ys n hlen _ hrun
    cases ys with
    | nil => simp at hlen
    | cons y ys =>
      cases xs with
      | nil =>
        cases ys with
        | nil =>
          simp only [suffixRun] at hrun
          by_cases e : eqFold x y = true
          · exact (labelsEq_cons x y [] []).mpr ⟨e, rfl⟩
          · simp [e] at hrun
        | cons y' ys' => simp at hlen
      | cons x' xs' =>
        cases ys with
        | nil => simp at hlen
        | cons y' ys' =>
          simp only [suffixRun] at hrun
          by_cases e : eqFold x y = true
          · simp only [e, if_true] at hrun
            have := ih (y' :: ys') (n + 1) (by simpa using hlen) (by simp) (by simp at hrun ⊢; omega)
            exact (labelsEq_cons x y _ _).mpr ⟨e, this⟩
          · simp only [e] at hrun
            have := suffixRun_le (x' :: xs') (y' :: ys') 0
            simp at hrun this
            omega

theorem suffixRun_of_eq : ∀ (xs ys : Name) (n : Nat), LabelsEq xs ys → xs ≠ [] →
    suffixRun xs ys n = n + xs.length := by
  intro xs
  induction xs with
  | nil => intro ys n _ h; exact absurd rfl h
  | cons x xs ih =>
    intro ys n heq _
    cases ys with
    | nil => have := heq.length_eq; simp at this
    | cons y ys =>
      obtain ⟨e, rest⟩ := (labelsEq_cons x y xs ys).mp heq
      cases xs with
      | nil =>
        cases ys with
        | nil => simp [suffixRun, e]
        | cons y' ys' => have := rest.length_eq; simp at this
      | cons x' xs' =>
        cases ys with
        | nil => have := rest.length_eq; simp at this
        | cons y' ys' =>
          simp only [suffixRun, e, if_true]
          rw [ih (y' :: ys') (n + 1) rest (by simp)]
          simp; omega

theorem eqFold_comm (a b : Str) : eqFold a b = eqFold b a := by
  unfold eqFold
  cases h : (lower a == lower b) <;> cases h' : (lower b == lower a) <;> simp_all

theorem suffixRun_comm : ∀ (xs ys : Name) (n : Nat), suffixRun xs ys n = suffixRun ys xs n := by
  intro xs
  induction xs with
  | nil => intro ys n; cases ys <;> simp [suffixRun]
  | cons x xs ih =>
    intro ys n
    cases ys with
    | nil => simp [suffixRun]
    | cons y ys =>
      cases xs with
      | nil =>
        cases ys with
        | nil => simp [suffixRun, eqFold_comm x y]
        | cons y' ys' => simp [suffixRun]
      | cons x' xs' =>
        cases ys with
        | nil => simp [suffixRun]
        | cons y' ys' =>
          simp only [suffixRun]
          rw [ih (y' :: ys'), eqFold_comm x y]

theorem compareSuffix_comm (a b : Name) : compareSuffix a b = compareSuffix b a := by
  unfold compareSuffix
  by_cases h : a = [] ∨ b = []
  · have h' : b = [] ∨ a = [] := h.symm
    simp [h, h']
  · have h' : ¬ (b = [] ∨ a = []) := fun x => h x.symm
    simp only [h, h', if_false]
    exact suffixRun_comm _ _ _

/-! ### `Sub` is "label-wise suffix" -/

theorem compareSuffix_le_left (a b : Name) : compareSuffix a b ≤ a.length := by
  unfold compareSuffix
  split
  · omega
  · have := suffixRun_le (a.drop (a.length - b.length)) (b.drop (b.length - a.length)) 0
    simp at this; omega

theorem compareSuffix_le_right (a b : Name) : compareSuffix a b ≤ b.length := by
  unfold compareSuffix
  split
  · omega
  · have h1 := suffixRun_le (a.drop (a.length - b.length)) (b.drop (b.length - a.length)) 0
    simp at h1; omega

theorem sub_iff (zone name : Name) : sub zone name = true ↔ LabelSuffix zone name := by
  unfold sub
  simp only [beq_iff_eq]
  constructor
  · intro h
    by_cases hz : zone = []
    · subst hz; exact ⟨name, [], by simp, rfl⟩
    · have hzl : 0 < zone.length := List.length_pos_iff.mpr hz
      have hle := compareSuffix_le_right zone name
      have hzn : zone.length ≤ name.length := by omega
      have hn : name ≠ [] := by
        intro hn; rw [hn] at hzn; simp only [List.length_nil] at hzn; omega
      unfold compareSuffix at h
      simp only [hz, hn, or_self, if_false] at h
      have h0 : zone.length - name.length = 0 := by omega
      rw [h0, List.drop_zero] at h
      have hl : zone.length = (name.drop (name.length - zone.length)).length := by
        simp; omega
      have := suffixRun_full zone _ 0 hl hz (by simpa using h)
      exact ⟨name.take (name.length - zone.length), name.drop (name.length - zone.length),
        (List.take_append_drop _ _).symm, this⟩
  · rintro ⟨pre, suf, rfl, heq⟩
    have hl := heq.length_eq
    by_cases hz : zone = []
    · subst hz; simp [compareSuffix]
    · have hzl : 0 < zone.length := List.length_pos_iff.mpr hz
      have hn : pre ++ suf ≠ [] := by
        intro hn
        have : (pre ++ suf).length = 0 := by rw [hn]; rfl
        simp only [List.length_append] at this; omega
      unfold compareSuffix
      simp only [hz, hn, or_self, if_false]
      have h0 : zone.length - (pre ++ suf).length = 0 := by simp; omega
      have h1 : (pre ++ suf).length - zone.length = pre.length := by simp; omega
      rw [h0, h1, List.drop_zero, List.drop_left]
      rw [suffixRun_of_eq zone suf 0 heq hz]; simp

theorem LabelSuffix.length_le {z n : Name} (h : LabelSuffix z n) : z.length ≤ n.length := by
  obtain ⟨pre, suf, rfl, heq⟩ := h
  have := heq.length_eq
  simp; omega

theorem LabelSuffix.eq_of_length {z n : Name} (h : LabelSuffix z n) (hl : n.length ≤ z.length) :
    LabelsEq z n := by
  obtain ⟨pre, suf, rfl, heq⟩ := h
  have := heq.length_eq
  have hp : pre = [] := by
    apply List.eq_nil_of_length_eq_zero
    simp at hl; omega
  subst hp; simpa using heq

theorem lower_flatten_of_labelsEq {a b : Name} (h : LabelsEq a b) :
    lower a.flatten = lower b.flatten := by
  unfold LabelsEq at h
  have : ∀ (l : Name), lower l.flatten = (l.map lower).flatten := by
    intro l; unfold lower; rw [List.map_flatten]
  rw [this, this, h]

/-! ### the splitter loses nothing -/

theorem splitLabels_flatten : ∀ (l : Str) (bs : Nat) (cur : Str),
    (splitLabels l bs cur).flatten = cur.reverse ++ l := by
  intro l
  induction l with
  | nil => intro bs cur; simp [splitLabels]
  | cons c t ih =>
    intro bs cur
    cases t with
    | nil => simp [splitLabels]
    | cons d rest =>
      simp only [splitLabels]
      split
      · simp [ih]
      · rw [ih]; simp

theorem splitLabels_ne_nil : ∀ (l : Str) (bs : Nat) (cur : Str), splitLabels l bs cur ≠ [] := by
  intro l
  induction l with
  | nil => intro bs cur; simp [splitLabels]
  | cons c t ih =>
    intro bs cur
    cases t with
    | nil => simp [splitLabels]
    | cons d rest =>
      simp only [splitLabels]
      split
      · simp
      · exact ih _ _

theorem labelsOf_eq_nil_iff (s : Str) : labelsOf s = [] ↔ s = ['.'] := by
  unfold labelsOf
  constructor
  · intro h
    by_cases hs : s = ['.']
    · exact hs
    · simp only [hs, if_false] at h
      exact absurd h (splitLabels_ne_nil _ _ _)
  · intro h; simp [h]

theorem labelsOf_flatten (s : Str) (hs : s ≠ ['.']) : (labelsOf s).flatten = s := by
  unfold labelsOf
  simp only [hs, if_false]
  rw [splitLabels_flatten]; simp

/-- Two names whose labels agree up to case are the same name up to case. -/
theorem lower_eq_of_labelsEq (a b : Str) (h : LabelsEq (labelsOf a) (labelsOf b)) :
    lower a = lower b := by
  have hl := h.length_eq
  by_cases ha : a = ['.']
  · have h1 : labelsOf a = [] := (labelsOf_eq_nil_iff a).mpr ha
    rw [h1] at hl
    have hb' : labelsOf b = [] := List.eq_nil_of_length_eq_zero (by simpa using hl.symm)
    rw [ha, (labelsOf_eq_nil_iff b).mp hb']
  · by_cases hb : b = ['.']
    · have h1 : labelsOf b = [] := (labelsOf_eq_nil_iff b).mpr hb
      rw [h1] at hl
      have ha' : labelsOf a = [] := List.eq_nil_of_length_eq_zero (by simpa using hl)
      exact absurd ((labelsOf_eq_nil_iff a).mp ha') ha
    · have := lower_flatten_of_labelsEq h
      rwa [labelsOf_flatten a ha, labelsOf_flatten b hb] at this

/-! ### the UDP read loop -/

theorem udpLoop_spec (qid : Nat) : ∀ (cands : List Cand) (i j : Nat) (c : Cand) (used : Nat),
    udpLoop qid cands i = (some (j, c), used) →
      i ≤ j ∧ used = j + 1 ∧ cands[j - i]? = some c ∧ c.bad = false ∧ c.id = qid ∧
      ∀ k, k < j - i → ∃ d, cands[k]? = some d ∧ d.bad = false ∧ d.id ≠ qid := by
  intro cands
  induction cands with
  | nil => intro i j c used h; simp [udpLoop] at h
  | cons d t ih =>
    intro i j c used h
    unfold udpLoop at h
    by_cases hb : d.bad = true
    · simp [hb] at h
    · have hb' : d.bad = false := by simpa using hb
      simp only [hb', Bool.false_eq_true, if_false] at h
      by_cases hid : d.id = qid
      · simp only [hid, if_true, Prod.mk.injEq, Option.some.injEq] at h
        obtain ⟨⟨rfl, rfl⟩, rfl⟩ := h
        refine ⟨Nat.le_refl _, rfl, by simp, hb', hid, ?_⟩
        intro k hk; omega
      · simp only [hid, if_false] at h
        obtain ⟨h1, h2, h3, h4, h5, h6⟩ := ih (i + 1) j c used h
        refine ⟨by omega, h2, ?_, h4, h5, ?_⟩
        · have : j - i = (j - (i + 1)) + 1 := by omega
          rw [this, List.getElem?_cons_succ]; exact h3
        · intro k hk
          cases k with
          | zero => exact ⟨d, by simp, hb', hid⟩
          | succ k =>
            obtain ⟨e, he, r⟩ := h6 k (by omega)
            exact ⟨e, by simpa using he, r⟩

/-! ### `dedup` -/

theorem mem_of_mem_dedup {α : Type} [BEq α] (x : α) : ∀ (l : List α), x ∈ dedup l → x ∈ l := by
  intro l
  induction l with
  | nil => intro h; simp [dedup] at h
  | cons y t ih =>
    intro h
    simp only [dedup, List.mem_cons, List.mem_filter] at h
    rcases h with rfl | ⟨h, _⟩
    · simp
    · exact List.mem_cons_of_mem _ (ih h)

/-! ### invariant of `extractDelegationInfo` -/

/-- What `extractDelegationInfo` maintains about the authority records seen so far. -/
structure ExtractInv (info : DelegInfo) (seen : List AuthRR) : Prop where
  anchored : ∀ o c, info.ns = some (o, c) → ∃ t g, AuthRR.ns o c t g ∈ seen
  coherent : ∀ o c, info.ns = some (o, c) → info.incoherent = false →
    ∀ o' c' t g, AuthRR.ns o' c' t g ∈ seen → eqFold o' o = true ∧ c' = c
  noNS : info.ns = none → (∀ o c t g, AuthRR.ns o c t g ∉ seen) ∧ info.hosts = []
  hosts : ∀ h ∈ info.hosts, ∃ o c t g, AuthRR.ns o c t g ∈ seen ∧ h = lower g ∧
    ∀ o0 c0, info.ns = some (o0, c0) → eqFold o o0 = true ∧ c = c0
  ttlMin : ∀ o0 c0, info.ns = some (o0, c0) → ∀ o c t g, AuthRR.ns o c t g ∈ seen →
    eqFold o o0 = true → c = c0 → info.ttl ≤ t

theorem mem_addHost {hs : List Str} {h x : Str} (hx : x ∈ addHost hs h) : x ∈ hs ∨ x = h := by
  unfold addHost at hx
  split at hx
  · exact Or.inl hx
  · simpa using hx

theorem eqFold_refl (a : Str) : eqFold a a = true := by simp [eqFold]

theorem extractStep_inv (info : DelegInfo) (seen : List AuthRR) (rr : AuthRR)
    (inv : ExtractInv info seen) : ExtractInv (extractStep info rr) (seen ++ [rr]) := by
  cases rr with
  | soa =>
    simp only [extractStep]
    exact ⟨fun o c h => by obtain ⟨t, g, m⟩ := inv.anchored o c h; exact ⟨t, g, by simp [m]⟩,
      fun o c h hi o' c' t g m => inv.coherent o c h hi o' c' t g (by simpa using m),
      fun h => ⟨fun o c t g m => (inv.noNS h).1 o c t g (by simpa using m), (inv.noNS h).2⟩,
      fun h hh => by
        obtain ⟨o, c, t, g, m, e, r⟩ := inv.hosts h hh
        exact ⟨o, c, t, g, by simp [m], e, r⟩,
      fun o0 c0 h o c t g m => inv.ttlMin o0 c0 h o c t g (by simpa using m)⟩
  | proof =>
    simp only [extractStep]
    exact ⟨fun o c h => by obtain ⟨t, g, m⟩ := inv.anchored o c h; exact ⟨t, g, by simp [m]⟩,
      fun o c h hi o' c' t g m => inv.coherent o c h hi o' c' t g (by simpa using m),
      fun h => ⟨fun o c t g m => (inv.noNS h).1 o c t g (by simpa using m), (inv.noNS h).2⟩,
      fun h hh => by
        obtain ⟨o, c, t, g, m, e, r⟩ := inv.hosts h hh
        exact ⟨o, c, t, g, by simp [m], e, r⟩,
      fun o0 c0 h o c t g m => inv.ttlMin o0 c0 h o c t g (by simpa using m)⟩
  | other =>
    simp only [extractStep]
    exact ⟨fun o c h => by obtain ⟨t, g, m⟩ := inv.anchored o c h; exact ⟨t, g, by simp [m]⟩,
      fun o c h hi o' c' t g m => inv.coherent o c h hi o' c' t g (by simpa using m),
      fun h => ⟨fun o c t g m => (inv.noNS h).1 o c t g (by simpa using m), (inv.noNS h).2⟩,
      fun h hh => by
        obtain ⟨o, c, t, g, m, e, r⟩ := inv.hosts h hh
        exact ⟨o, c, t, g, by simp [m], e, r⟩,
      fun o0 c0 h o c t g m => inv.ttlMin o0 c0 h o c t g (by simpa using m)⟩
  | ns owner cls ttl target =>
    cases hns : info.ns with
    | none =>
      have hno := inv.noNS hns
      simp only [extractStep, hns]
      refine ⟨?_, ?_, ?_, ?_, ?_⟩
      · intro o c h
        simp only [Option.some.injEq, Prod.mk.injEq] at h
        obtain ⟨rfl, rfl⟩ := h
        exact ⟨ttl, target, by simp⟩
      · intro o c h _ o' c' t g m
        simp only [Option.some.injEq, Prod.mk.injEq] at h
        obtain ⟨rfl, rfl⟩ := h
        simp only [List.mem_append, List.mem_singleton] at m
        rcases m with m | m
        · exact absurd m (hno.1 _ _ _ _)
        · cases m; exact ⟨eqFold_refl _, rfl⟩
      · intro h; simp at h
      · intro h hh
        rw [hno.2] at hh
        dsimp only at hh
        rcases mem_addHost hh with hh | rfl
        · simp at hh
        · refine ⟨owner, cls, ttl, target, by simp, rfl, ?_⟩
          intro o0 c0 h0
          simp only [Option.some.injEq, Prod.mk.injEq] at h0
          obtain ⟨rfl, rfl⟩ := h0
          exact ⟨eqFold_refl _, rfl⟩
      · intro o0 c0 h0 o c t g m _ _
        simp only [List.mem_append, List.mem_singleton] at m
        rcases m with m | m
        · exact absurd m (hno.1 _ _ _ _)
        · cases m; exact Nat.le_refl _
    | some p =>
      obtain ⟨o, c⟩ := p
      simp only [extractStep, hns]
      by_cases hmix : (!(eqFold owner o) || cls != c) = true
      · rw [if_pos hmix]
        refine ⟨?_, ?_, ?_, ?_, ?_⟩
        · intro o1 c1 h
          obtain ⟨t, g, m⟩ := inv.anchored o1 c1 (by simpa [hns] using h)
          exact ⟨t, g, by simp [m]⟩
        · intro o1 c1 _ hi; simp at hi
        · intro h; simp at h
        · intro h hh
          obtain ⟨o2, c2, t, g, m, e, r⟩ := inv.hosts h hh
          exact ⟨o2, c2, t, g, by simp [m], e, by simpa [hns] using r⟩
        · intro o0 c0 h0 o1 c1 t g m e1 e2
          simp only [List.mem_append, List.mem_singleton] at m
          have h0' : o0 = o ∧ c0 = c := by simpa [hns] using h0.symm
          obtain ⟨rfl, rfl⟩ := h0'
          rcases m with m | m
          · exact inv.ttlMin o0 c0 hns o1 c1 t g m e1 e2
          · cases m
            simp [e1, e2] at hmix
      · have hmix' : eqFold owner o = true ∧ cls = c := by
          simp only [Bool.or_eq_true, Bool.not_eq_true', bne_iff_ne, ne_eq, not_or,
            Bool.not_eq_false, Decidable.not_not] at hmix
          exact hmix
        rw [if_neg hmix]
        refine ⟨?_, ?_, ?_, ?_, ?_⟩
        · intro o1 c1 h
          obtain ⟨t, g, m⟩ := inv.anchored o1 c1 (by simpa [hns] using h)
          exact ⟨t, g, by simp [m]⟩
        · intro o1 c1 h hi o' c' t g m
          have h' : o1 = o ∧ c1 = c := by simpa [hns] using h.symm
          obtain ⟨rfl, rfl⟩ := h'
          simp only [List.mem_append, List.mem_singleton] at m
          rcases m with m | m
          · exact inv.coherent o1 c1 hns hi o' c' t g m
          · cases m; exact hmix'
        · intro h; simp at h
        · intro h hh
          rcases mem_addHost hh with hh | rfl
          · obtain ⟨o2, c2, t, g, m, e, r⟩ := inv.hosts h hh
            exact ⟨o2, c2, t, g, by simp [m], e, by simpa [hns] using r⟩
          · refine ⟨owner, cls, ttl, target, by simp, rfl, ?_⟩
            intro o0 c0 h0
            have h0' : o0 = o ∧ c0 = c := by simpa [hns] using h0.symm
            obtain ⟨rfl, rfl⟩ := h0'
            exact hmix'
        · intro o0 c0 h0 o1 c1 t g m e1 e2
          have h0' : o0 = o ∧ c0 = c := by simpa [hns] using h0.symm
          obtain ⟨rfl, rfl⟩ := h0'
          simp only [List.mem_append, List.mem_singleton] at m
          rcases m with m | m
          · have := inv.ttlMin o0 c0 hns o1 c1 t g m e1 e2
            dsimp only
            split <;> omega
          · cases m
            dsimp only
            split <;> omega

theorem extractFrom_inv : ∀ (rest : List AuthRR) (info : DelegInfo) (seen : List AuthRR),
    ExtractInv info seen → ExtractInv (extractFrom info rest) (seen ++ rest) := by
  intro rest
  induction rest with
  | nil => intro info seen inv; simpa [extractFrom] using inv
  | cons rr t ih =>
    intro info seen inv
    have := ih (extractStep info rr) (seen ++ [rr]) (extractStep_inv info seen rr inv)
    simpa [extractFrom] using this

theorem extract_inv (ns : List AuthRR) : ExtractInv (extractDelegationInfo ns) ns := by
  have := extractFrom_inv ns {} [] ⟨by simp, by simp, by simp, by simp, by simp⟩
  simpa [extractDelegationInfo] using this

/-! ### `NameInZone` (string test) implies the label-wise relation -/

/-- The backslash-run counter of `splitLabels` after reading `p`. -/
def scanBs (bs : Nat) : Str → Nat
  | [] => bs
  | c :: t => scanBs (if c = '\\' then bs + 1 else 0) t

theorem trailingRun_of_all : ∀ (p : Str), p.all (· == '\\') = true → trailingRun p = p.length := by
  intro p
  induction p with
  | nil => intro _; rfl
  | cons c t ih =>
    intro h
    simp only [List.all_cons, Bool.and_eq_true] at h
    simp only [trailingRun, h.2, if_true, h.1, List.length_cons]

theorem scanBs_eq : ∀ (p : Str) (bs : Nat),
    scanBs bs p = if p.all (· == '\\') = true then bs + p.length else trailingRun p := by
  intro p
  induction p with
  | nil => intro bs; simp [scanBs]
  | cons c t ih =>
    intro bs
    simp only [scanBs]
    rw [ih]
    by_cases ht : t.all (· == '\\') = true
    · by_cases hc : c = '\\'
      · subst hc; simp [ht]; omega
      · have hc' : (c == '\\') = false := by simpa using hc
        simp [ht, hc, hc', trailingRun]
    · have ht' : t.all (· == '\\') = false := by simpa using ht
      simp only [ht', Bool.false_eq_true, if_false, List.all_cons, Bool.and_false, trailingRun]

theorem scanBs_zero (p : Str) : scanBs 0 p = trailingRun p := by
  rw [scanBs_eq]
  split
  · rename_i h; rw [trailingRun_of_all p h]; omega
  · rfl

/-- A separating dot that is followed by something splits the label list in two. -/
theorem splitLabels_append_sep : ∀ (a : Str) (bs : Nat) (cur z : Str), z ≠ [] →
    scanBs bs a % 2 = 0 →
    splitLabels (a ++ '.' :: z) bs cur = splitLabels (a ++ ['.']) bs cur ++ splitLabels z 0 [] := by
  intro a
  induction a with
  | nil =>
    intro bs cur z hz hs
    cases z with
    | nil => exact absurd rfl hz
    | cons d rest =>
      simp only [scanBs] at hs
      simp [splitLabels, hs]
  | cons c t ih =>
    intro bs cur z hz hs
    simp only [scanBs] at hs
    cases t with
    | nil =>
      -- c :: '.' :: z  versus  c :: ['.']
      have := ih (if c = '\\' then bs + 1 else 0) (c :: cur) z hz hs
      simp only [List.nil_append] at this
      simp only [List.cons_append, List.nil_append, splitLabels]
      by_cases hsep : c = '.' ∧ bs % 2 = 0
      · have hc : c ≠ '\\' := by rw [hsep.1]; decide
        have h0 := ih 0 [] z hz (by simpa [hc] using hs)
        simp only [List.nil_append] at h0
        simp [hsep, h0, splitLabels]
      · simp only [hsep, if_false]
        exact this
    | cons d t' =>
      simp only [List.cons_append, splitLabels]
      by_cases hsep : c = '.' ∧ bs % 2 = 0
      · have hc : c ≠ '\\' := by rw [hsep.1]; decide
        have h0 := ih 0 [] z hz (by simpa [hc] using hs)
        simp only [List.cons_append] at h0
        simp [hsep, h0]
      · simp only [hsep, if_false]
        have := ih (if c = '\\' then bs + 1 else 0) (c :: cur) z hz hs
        simpa using this

theorem LabelsEq.refl (a : Name) : LabelsEq a a := rfl

/-- **`dnsutil.NameInZone` is sound for the label-wise relation**: whenever the
string test accepts, the zone's labels are the trailing labels of the name. -/
theorem nameInZone_sound (name zone : Str) (hz : zone ≠ [])
    (h : nameInZone name zone = true) : LabelSuffix (labelsOf zone) (labelsOf name) := by
  unfold nameInZone at h
  by_cases hroot : zone = ['.']
  · subst hroot
    exact ⟨labelsOf name, [], by simp, by simp [labelsOf, LabelsEq]⟩
  · simp only [hroot, hz, or_self, if_false] at h
    by_cases heq : name = zone
    · subst heq; exact ⟨[], labelsOf name, by simp, LabelsEq.refl _⟩
    · simp only [heq, if_false] at h
      by_cases hlen : name.length ≤ zone.length
      · simp [hlen] at h
      · simp only [hlen, if_false, Bool.and_eq_true, beq_iff_eq] at h
        obtain ⟨⟨hdot, hdrop⟩, hpar⟩ := h
        have hzl : 0 < zone.length := List.length_pos_iff.mpr hz
        -- name = p ++ '.' :: zone
        have hcut : name.length - zone.length - 1 < name.length := by omega
        have hget : name[name.length - zone.length - 1]'hcut = '.' := by
          rw [List.getD_eq_getElem?_getD, List.getElem?_eq_getElem hcut] at hdot
          simpa using hdot
        have hsplit : name = name.take (name.length - zone.length - 1) ++ '.' :: zone := by
          have h1 : name = name.take (name.length - zone.length - 1) ++
              name.drop (name.length - zone.length - 1) := (List.take_append_drop _ _).symm
          have h2 : name.drop (name.length - zone.length - 1) =
              name[name.length - zone.length - 1] :: name.drop (name.length - zone.length - 1 + 1) :=
            List.drop_eq_getElem_cons hcut
          have h3 : name.length - zone.length - 1 + 1 = name.length - zone.length := by omega
          rw [h3, hdrop, hget] at h2
          rw [h2] at h1
          exact h1
        have hne : name ≠ ['.'] := by
          intro hn
          have : name.length = 1 := by rw [hn]; rfl
          omega
        have hs : scanBs 0 (name.take (name.length - zone.length - 1)) % 2 = 0 := by
          rw [scanBs_zero]; exact hpar
        have := splitLabels_append_sep (name.take (name.length - zone.length - 1)) 0 [] zone hz hs
        refine ⟨splitLabels (name.take (name.length - zone.length - 1) ++ ['.']) 0 [],
          splitLabels zone 0 [], ?_, ?_⟩
        · unfold labelsOf
          simp only [hne, if_false]
          rw [← this, ← hsplit]
        · unfold labelsOf
          simp only [hroot, if_false]
          exact LabelsEq.refl _

/-- Wherever the label list is cut in two, the string was cut at a separating dot. -/
theorem splitLabels_cut : ∀ (l : Str) (bs : Nat) (cur : Str) (pre suf : Name),
    splitLabels l bs cur = pre ++ suf → pre ≠ [] → suf ≠ [] →
    ∃ a r, l = a ++ '.' :: r ∧ r ≠ [] ∧ scanBs bs a % 2 = 0 ∧ suf = splitLabels r 0 [] := by
  intro l
  induction l with
  | nil =>
    intro bs cur pre suf h hp hs
    simp only [splitLabels] at h
    have := congrArg List.length h
    cases pre <;> cases suf <;> simp at hp hs this
  | cons c t ih =>
    intro bs cur pre suf h hp hs
    cases t with
    | nil =>
      simp only [splitLabels] at h
      have := congrArg List.length h
      cases pre <;> cases suf <;> simp at hp hs this
    | cons d rest =>
      simp only [splitLabels] at h
      by_cases hsep : c = '.' ∧ bs % 2 = 0
      · simp only [hsep, and_self, if_true] at h
        cases pre with
        | nil => exact absurd rfl hp
        | cons lab pre' =>
          simp only [List.cons_append, List.cons.injEq] at h
          by_cases hp' : pre' = []
          · subst hp'
            refine ⟨[], d :: rest, by simp [hsep.1], by simp, by simpa [scanBs] using hsep.2, ?_⟩
            simpa using h.2.symm
          · obtain ⟨a, r, h1, h2, h3, h4⟩ := ih 0 [] pre' suf h.2 hp' hs
            refine ⟨c :: a, r, by simp [h1], h2, ?_, h4⟩
            have hc : c ≠ '\\' := by rw [hsep.1]; decide
            simpa [scanBs, hc] using h3
      · simp only [hsep, if_false] at h
        obtain ⟨a, r, h1, h2, h3, h4⟩ := ih (if c = '\\' then bs + 1 else 0) (c :: cur) pre suf h hp hs
        exact ⟨c :: a, r, by simp [h1], h2, by simpa [scanBs] using h3, h4⟩

/-- **`dnsutil.NameInZone` is complete for the label-wise relation** on
canonical names (`lower s = s`, what `dns.CanonicalName` returns). -/
theorem nameInZone_complete (name zone : Str) (hn : lower name = name) (hzc : lower zone = zone)
    (h : LabelSuffix (labelsOf zone) (labelsOf name)) : nameInZone name zone = true := by
  unfold nameInZone
  by_cases hroot : zone = ['.'] ∨ zone = []
  · simp [hroot]
  · simp only [hroot, if_false]
    have hz1 : zone ≠ ['.'] := fun x => hroot (Or.inl x)
    have hz0 : zone ≠ [] := fun x => hroot (Or.inr x)
    obtain ⟨pre, suf, hsplit, heq⟩ := h
    have hzl : labelsOf zone ≠ [] := fun x => hz1 ((labelsOf_eq_nil_iff zone).mp x)
    have hsuf : suf ≠ [] := by
      intro x; rw [x] at heq
      have := heq.length_eq
      exact hzl (List.eq_nil_of_length_eq_zero (by simpa using this))
    by_cases hp : pre = []
    · subst hp
      simp only [List.nil_append] at hsplit
      rw [← hsplit] at heq
      have := lower_eq_of_labelsEq zone name heq
      rw [hn, hzc] at this
      simp [this]
    · have hne : name ≠ ['.'] := by
        intro x
        have := (labelsOf_eq_nil_iff name).mpr x
        rw [this] at hsplit
        cases pre <;> simp at hsplit hp
      have hl : labelsOf name = splitLabels name 0 [] := by unfold labelsOf; simp [hne]
      rw [hl] at hsplit
      obtain ⟨a, r, h1, h2, h3, h4⟩ := splitLabels_cut name 0 [] pre suf hsplit hp hsuf
      -- suf flattens to r, which is zone up to case, hence zone
      have hr : suf.flatten = r := by rw [h4, splitLabels_flatten]; simp
      have hlow : lower zone = lower r := by
        have := lower_flatten_of_labelsEq heq
        rwa [labelsOf_flatten zone hz1, hr] at this
      have hrfix : lower r = r := by
        have := hn
        rw [h1] at this
        simp only [lower, List.map_append, List.map_cons] at this
        have hlen : (List.map Char.toLower a).length = a.length := by simp
        have := (List.append_inj this hlen).2
        simp only [List.cons.injEq] at this
        exact this.2
      have hzr : zone = r := by rw [← hzc, hlow, hrfix]
      subst hzr
      have hlen : name.length = a.length + 1 + zone.length := by rw [h1]; simp; omega
      have hneq : name ≠ zone := by
        intro x
        have := congrArg List.length x
        omega
      have hle : ¬ name.length ≤ zone.length := by omega
      simp only [hneq, hle, if_false]
      have hcut : name.length - zone.length = a.length + 1 := by omega
      rw [hcut]
      simp only [Nat.add_sub_cancel, Bool.and_eq_true, beq_iff_eq]
      refine ⟨⟨?_, ?_⟩, ?_⟩
      · rw [h1]; simp [List.getD_eq_getElem?_getD]
      · rw [h1]
        have : a ++ '.' :: zone = (a ++ ['.']) ++ zone := by simp
        rw [this, List.drop_left' (by simp)]
      · rw [h1, List.take_left' rfl, ← scanBs_zero]
        exact h3

/-- ASCII lower-casing is idempotent (`dns.CanonicalName` output is canonical). -/
theorem toLower_idem (c : Char) : c.toLower.toLower = c.toLower := by
  unfold Char.toLower
  split
  · rename_i h
    split
    · rename_i h2
      exfalso
      simp only [ge_iff_le, UInt32.le_iff_toNat_le] at h h2
      have e : (c.val + ('a'.val - 'A'.val)).toNat = c.val.toNat + 32 := by
        rw [UInt32.toNat_add]
        have : ('a'.val - 'A'.val).toNat = 32 := by decide
        rw [this]
        have : ('Z'.val).toNat = 90 := by decide
        omega
      have : ('A'.val).toNat = 65 := by decide
      have : ('Z'.val).toNat = 90 := by decide
      omega
    · rfl
  · simp

theorem lower_idem (s : Str) : lower (lower s) = lower s := by
  unfold lower
  simp [List.map_map, Function.comp_def, toLower_idem]

/-! ### the alias chase -/

theorem lastCnameTarget_mem : ∀ (l : List ChRR) (x : Str), lastCnameTarget l = some x →
    ∃ c ∈ l, c.rtype = typeCNAME ∧ c.target = x := by
  intro l
  induction l with
  | nil => intro x h; simp [lastCnameTarget] at h
  | cons r t ih =>
    intro x h
    simp only [lastCnameTarget] at h
    cases ht : lastCnameTarget t with
    | some y =>
      rw [ht] at h
      simp only [Option.some.injEq] at h
      subst h
      obtain ⟨c, hc, h1, h2⟩ := ih y ht
      exact ⟨c, List.mem_cons_of_mem _ hc, h1, h2⟩
    | none =>
      rw [ht] at h
      simp only at h
      by_cases hr : r.rtype = typeCNAME
      · simp only [hr, if_true, Option.some.injEq] at h
        exact ⟨r, by simp, hr, h⟩
      · simp [hr] at h

theorem scanAnswer_target : ∀ (l : List ChRR) (qname : Str) (qtype : Nat) (cur : Option Str) (t : Str),
    scanAnswer qname qtype l cur = Scan.target (some t) →
    cur = some t ∨ ∃ c ∈ l, c.rtype = typeCNAME ∧ c.target = t := by
  intro l
  induction l with
  | nil => intro qname qtype cur t h; simp only [scanAnswer, Scan.target.injEq] at h; exact Or.inl h
  | cons r rest ih =>
    intro qname qtype cur t h
    simp only [scanAnswer] at h
    by_cases h1 : r.rtype = qtype
    · simp [h1] at h
    · simp only [h1, if_false] at h
      by_cases h2 : r.rtype = typeCNAME
      · simp only [h2, if_true] at h
        by_cases h3 : r.target = qname
        · simp [h3] at h
        · simp only [h3, if_false] at h
          rcases ih qname qtype (some r.target) t h with h4 | ⟨c, hc, h5, h6⟩
          · simp only [Option.some.injEq] at h4
            exact Or.inr ⟨r, by simp, h2, h4⟩
          · exact Or.inr ⟨c, List.mem_cons_of_mem _ hc, h5, h6⟩
      · simp only [h2, if_false] at h
        rcases ih qname qtype cur t h with h4 | ⟨c, hc, h5, h6⟩
        · exact Or.inl h4
        · exact Or.inr ⟨c, List.mem_cons_of_mem _ hc, h5, h6⟩

/-- What one run of the `lookup:` loop guarantees, relative to the message it started from. -/
structure ChaseInv (resolve : Str → SubResult) (target : Str) (n : Nat) (msg out : ChaseOut) : Prop where
  more : ∃ more : List Str, out.asked = msg.asked ++ more ∧ more.length ≤ n ∧
    (∀ r ∈ out.answer, r ∈ msg.answer ∨
      ∃ t ∈ more, ∃ sr, resolve t = SubResult.resp sr ∧ r ∈ sr.answer) ∧
    (∀ t ∈ more, t = target ∨
      ∃ t' ∈ more, ∃ sr, resolve t' = SubResult.resp sr ∧
        ∃ c ∈ sr.answer, c.rtype = typeCNAME ∧ c.target = t)
  nodup : msg.asked.Nodup → out.asked.Nodup

theorem chaseLoop_inv (resolve : Str → SubResult) (qname : Str) (qtype : Nat) :
    ∀ (n : Nat) (target : Str) (msg : ChaseOut),
      ChaseInv resolve target n msg (chaseLoop resolve qname qtype n target msg) := by
  intro n
  induction n with
  | zero =>
    intro target msg
    simp only [chaseLoop]
    exact ⟨⟨[], by simp, by simp, fun r hr => Or.inl hr, by simp⟩, fun h => h⟩
  | succ n ih =>
    intro target msg
    simp only [chaseLoop]
    by_cases hc : msg.asked.contains target = true
    · simp only [hc, if_true]
      exact ⟨⟨[], by simp [servFail], by simp, by simp [servFail], by simp⟩, by simp [servFail]⟩
    · simp only [hc, if_false, Bool.false_eq_true]
      have hnot : target ∉ msg.asked := by simpa using hc
      have nd : msg.asked.Nodup → (msg.asked ++ [target]).Nodup := by
        intro h
        rw [List.nodup_append]
        refine ⟨h, by simp, ?_⟩
        intro a ha b hb
        simp only [List.mem_singleton] at hb
        subst hb
        intro hab; subst hab; exact hnot ha
      -- the shape shared by every exit that asked `target` and nothing more
      have one : ∀ (out : ChaseOut), out.asked = msg.asked ++ [target] →
          (∀ r ∈ out.answer, r ∈ msg.answer ∨ ∃ sr, resolve target = SubResult.resp sr ∧ r ∈ sr.answer) →
          ChaseInv resolve target (n + 1) msg out := by
        intro out ha hp
        refine ⟨⟨[target], ha, by simp, ?_, by simp⟩, fun h => by rw [ha]; exact nd h⟩
        intro r hr
        rcases hp r hr with h | ⟨sr, h1, h2⟩
        · exact Or.inl h
        · exact Or.inr ⟨target, by simp, sr, h1, h2⟩
      cases hres : resolve target with
      | limit => exact one _ (by simp [servFail]) (by simp [servFail])
      | fail =>
        simp only
        by_cases ht : target = qname
        · rw [if_pos ht]; exact one _ (by simp [servFail]) (by simp [servFail])
        · rw [if_neg ht]; exact one _ rfl (fun r hr => Or.inl hr)
      | resp sr =>
        simp only
        generalize hA : (if (!sr.answer.isEmpty || decide (sr.nsCount > 0)) = true
            then msg.answer ++ sr.answer else msg.answer) = ans'
        generalize hN : (if (!sr.answer.isEmpty || decide (sr.nsCount > 0)) = true
            then (lastCnameTarget sr.answer).getD [] else target) = next
        have hmsg' : ∀ r ∈ ans', r ∈ msg.answer ∨ r ∈ sr.answer := by
          intro r hr
          rw [← hA] at hr
          split at hr
          · exact List.mem_append.mp hr
          · exact Or.inl hr
        have keep : ChaseInv resolve target (n + 1) msg
            { rcode := msg.rcode, answer := ans', asked := msg.asked ++ [target] } := by
          refine one _ rfl ?_
          intro r hr
          rcases hmsg' r hr with h | h
          · exact Or.inl h
          · exact Or.inr ⟨sr, hres, h⟩
        by_cases hnx : sr.rcode = rcodeNXDomain
        · rw [if_pos hnx]
          refine one _ rfl ?_
          intro r hr
          rcases hmsg' r hr with h | h
          · exact Or.inl h
          · exact Or.inr ⟨sr, hres, h⟩
        · rw [if_neg hnx]
          by_cases hrc : sr.rcode ≠ 0
          · rw [if_pos hrc]; exact one _ (by simp [servFail]) (by simp [servFail])
          · rw [if_neg hrc]
            by_cases hq : next = qname
            · rw [if_pos hq]; exact one _ (by simp [servFail]) (by simp [servFail])
            · rw [if_neg hq]
              split
              · rename_i hgo
                obtain ⟨⟨more, h1, h2, h3, h4⟩, h5⟩ := ih next
                  { rcode := msg.rcode, answer := ans', asked := msg.asked ++ [target] }
                simp only [Bool.and_eq_true] at hgo
                have hchild := hgo.1.1
                have hm : (!sr.answer.isEmpty || decide (sr.nsCount > 0)) = true := hchild.1
                obtain ⟨x, hx1, hx2⟩ : ∃ x, lastCnameTarget sr.answer = some x ∧ next = x := by
                  have hs := hchild.2
                  cases hl : lastCnameTarget sr.answer with
                  | none => rw [hl] at hs; simp at hs
                  | some x => refine ⟨x, rfl, ?_⟩; rw [← hN, if_pos hm, hl]; rfl
                refine ⟨⟨target :: more, by simpa using h1, by simp; omega, ?_, ?_⟩, ?_⟩
                · intro r hr
                  rcases h3 r hr with h | ⟨t, ht, sr', hs1, hs2⟩
                  · rcases hmsg' r h with h' | h'
                    · exact Or.inl h'
                    · exact Or.inr ⟨target, by simp, sr, hres, h'⟩
                  · exact Or.inr ⟨t, List.mem_cons_of_mem _ ht, sr', hs1, hs2⟩
                · intro t ht
                  rcases List.mem_cons.mp ht with rfl | ht
                  · exact Or.inl rfl
                  · rcases h4 t ht with h | ⟨t', ht', sr', hs1, c, hc1, hc2, hc3⟩
                    · right
                      obtain ⟨c, hc1, hc2, hc3⟩ := lastCnameTarget_mem sr.answer x hx1
                      exact ⟨target, by simp, sr, hres, c, hc1, hc2, by rw [hc3, h, hx2]⟩
                    · exact Or.inr ⟨t', List.mem_cons_of_mem _ ht', sr', hs1, c, hc1, hc2, hc3⟩
                · intro hnd
                  exact h5 (nd hnd)
              · exact keep

/-! ### case folding commutes with label splitting -/

/-- ASCII lower-casing never produces, and never changes, a character outside
the letters — in particular the dot and the backslash the splitter looks at. -/
theorem toLower_eq_of_nonletter (c d : Char)
    (hd : d.val.toNat < 65 ∨ (90 < d.val.toNat ∧ d.val.toNat < 97)) : c.toLower = d ↔ c = d := by
  unfold Char.toLower
  split
  · rename_i h
    simp only [ge_iff_le, UInt32.le_iff_toNat_le] at h
    have hA : ('A'.val).toNat = 65 := by decide
    have hZ : ('Z'.val).toNat = 90 := by decide
    have e : (c.val + ('a'.val - 'A'.val)).toNat = c.val.toNat + 32 := by
      rw [UInt32.toNat_add]
      have : ('a'.val - 'A'.val).toNat = 32 := by decide
      rw [this]; omega
    constructor
    · intro hh
      have := congrArg (fun x : Char => x.val.toNat) hh
      simp only at this
      omega
    · intro hh
      subst hh
      omega
  · exact Iff.rfl

theorem toLower_eq_dot (c : Char) : c.toLower = '.' ↔ c = '.' :=
  toLower_eq_of_nonletter c '.' (Or.inl (by decide))

theorem toLower_eq_bs (c : Char) : c.toLower = '\\' ↔ c = '\\' :=
  toLower_eq_of_nonletter c '\\' (Or.inr (by decide))

theorem splitLabels_lower : ∀ (l : Str) (bs : Nat) (cur : Str),
    splitLabels (lower l) bs (lower cur) = (splitLabels l bs cur).map lower := by
  intro l
  induction l with
  | nil => intro bs cur; simp [splitLabels, lower, List.map_reverse]
  | cons c t ih =>
    intro bs cur
    cases t with
    | nil => simp [splitLabels, lower, List.map_reverse]
    | cons d rest =>
      have hcons : lower (c :: d :: rest) = c.toLower :: d.toLower :: lower rest := by simp [lower]
      rw [hcons]
      simp only [splitLabels, toLower_eq_dot, toLower_eq_bs]
      have h1 := ih 0 []
      have h2 := ih (if c = '\\' then bs + 1 else 0) (c :: cur)
      simp only [lower, List.map_cons, List.map_nil] at h1 h2 ⊢
      by_cases hsep : c = '.' ∧ bs % 2 = 0
      · simp only [hsep, and_self, if_true, List.map_cons]
        rw [h1]
        simp [lower, List.map_reverse]
      · simp only [hsep, if_false]
        exact h2

theorem lower_eq_dot_iff (s : Str) : lower s = ['.'] ↔ s = ['.'] := by
  unfold lower
  constructor
  · intro h
    cases s with
    | nil => simp at h
    | cons c t =>
      cases t with
      | nil => simp only [List.map_cons, List.map_nil, List.cons.injEq, and_true] at h; rw [(toLower_eq_dot c).mp h]
      | cons d r => simp at h
  · intro h; subst h; decide

theorem labelsOf_lower (s : Str) : labelsOf (lower s) = (labelsOf s).map lower := by
  unfold labelsOf
  by_cases h : s = ['.']
  · subst h; decide
  · have h' : lower s ≠ ['.'] := fun x => h ((lower_eq_dot_iff s).mp x)
    simp only [h, h', if_false]
    have := splitLabels_lower s 0 []
    simpa [lower] using this

theorem labelsEq_map_lower_left (a b : Name) : LabelsEq (a.map lower) b ↔ LabelsEq a b := by
  unfold LabelsEq
  simp [List.map_map, Function.comp_def, lower_idem]

theorem labelSuffix_map_lower (z n : Name) :
    LabelSuffix (z.map lower) (n.map lower) ↔ LabelSuffix z n := by
  constructor
  · rintro ⟨pre, suf, hsplit, heq⟩
    rw [labelsEq_map_lower_left] at heq
    refine ⟨n.take pre.length, n.drop pre.length, (List.take_append_drop _ _).symm, ?_⟩
    have hd : suf = (n.drop pre.length).map lower := by
      have := congrArg (List.drop pre.length) hsplit
      rw [List.drop_left, ← List.map_drop] at this
      exact this.symm
    unfold LabelsEq at heq ⊢
    rw [heq, hd]
    simp [List.map_map, Function.comp_def, lower_idem]
  · rintro ⟨pre, suf, rfl, heq⟩
    refine ⟨pre.map lower, suf.map lower, by simp, ?_⟩
    unfold LabelsEq at heq ⊢
    simp only [List.map_map, Function.comp_def, lower_idem]
    exact heq

/-- Being label-wise inside a zone does not depend on the spelling's case. -/
theorem labelSuffix_lower_iff (zone name : Str) :
    LabelSuffix (labelsOf (lower zone)) (labelsOf (lower name)) ↔
      LabelSuffix (labelsOf zone) (labelsOf name) := by
  rw [labelsOf_lower, labelsOf_lower, labelSuffix_map_lower]

theorem LabelSuffix.trans {a b c : Name} (h1 : LabelSuffix a b) (h2 : LabelSuffix b c) :
    LabelSuffix a c := by
  obtain ⟨p1, s1, rfl, e1⟩ := h1
  obtain ⟨p2, s2, rfl, e2⟩ := h2
  refine ⟨p2 ++ s2.take p1.length, s2.drop p1.length, by simp, ?_⟩
  unfold LabelsEq at *
  have := congrArg (List.drop p1.length) e2
  rw [List.map_append, ← List.map_drop] at this
  rw [List.drop_left' (by simp)] at this
  rw [e1, this]

/-- A suffix of at most `level` labels survives cutting the name down to its last `level` labels. -/
theorem LabelSuffix.drop_of_le {z q : Name} (h : LabelSuffix z q) (level : Nat) (hl : z.length ≤ level) :
    LabelSuffix z (q.drop (q.length - level)) := by
  obtain ⟨p, sfx, rfl, e⟩ := h
  have hlen := e.length_eq
  refine ⟨p.drop ((p ++ sfx).length - level), sfx, ?_, e⟩
  rw [List.drop_append_of_le_length (by simp; omega)]

/-! ### `processDelegation` over histories -/

theorem mem_setKey {β : Type} (l : List (Str × β)) (k : Str) (v : β) (p : Str × β)
    (h : p ∈ setKey l k v) : p ∈ l ∨ p = (k, v) := by
  unfold setKey at h
  rcases List.mem_append.mp h with h | h
  · exact Or.inl (List.mem_filter.mp h).1
  · exact Or.inr (by simpa using h)

theorem getKey_mem {β : Type} (l : List (Str × β)) (k : Str) (v : β) (h : getKey l k = some v) :
    ∃ p ∈ l, p.2 = v := by
  unfold getKey at h
  cases hf : l.find? (fun p => p.1 == k) with
  | none => rw [hf] at h; simp at h
  | some p =>
    rw [hf] at h
    simp only [Option.map_some, Option.some.injEq] at h
    exact ⟨p, List.mem_of_find?_eq_some hf, h⟩

theorem mem_appendUniqueAll (l : List IP) : ∀ (srv : List IP) (a : IP),
    a ∈ appendUniqueAll srv l → a ∈ srv ∨ a ∈ l := by
  unfold appendUniqueAll
  induction l with
  | nil => intro srv a h; exact Or.inl (by simpa using h)
  | cons x t ih =>
    intro srv a h
    simp only [List.foldl_cons] at h
    rcases ih _ a h with h' | h'
    · split at h'
      · exact Or.inl h'
      · rcases List.mem_append.mp h' with h'' | h''
        · exact Or.inl h''
        · exact Or.inr (by simp at h''; simp [h''])
    · exact Or.inr (List.mem_cons_of_mem _ h')

theorem mem_glueCached (acc : List (Str × IP)) (h : Str) (a : IP)
    (ha : a ∈ (glueCached acc h).getD []) : (h, a) ∈ acc := by
  unfold glueCached at ha
  simp only at ha
  split at ha
  · simp at ha
  · simp only [Option.getD_some] at ha
    have := mem_of_mem_dedup a _ ha
    obtain ⟨p, hp, rfl⟩ := List.mem_map.mp this
    obtain ⟨hp1, hp2⟩ := List.mem_filter.mp hp
    have : p.1 = h := by simpa using hp2
    rw [← this]; exact hp1

end SdnsVerif.Lemmas.Bailiwick
