import SdnsVerif.Model.Ecs
/-! Helper lemmas for C19 (prefix arithmetic, option scans, the scoped probe loop). -/
namespace SdnsVerif.Lemmas.Ecs
open SdnsVerif.Model.Ecs

/-! ### masking -/

theorem maskTo_mod (w b a : Nat) : maskTo w b a % 2 ^ (w - b) = 0 := by
  unfold maskTo; exact Nat.mul_mod_left _ _

theorem maskTo_div (w b a : Nat) : maskTo w b a / 2 ^ (w - b) = a / 2 ^ (w - b) := by
  unfold maskTo; exact Nat.mul_div_cancel _ (Nat.two_pow_pos _)

theorem maskTo_le (w b a : Nat) : maskTo w b a ≤ a := by
  unfold maskTo; exact Nat.div_mul_le_self _ _

/-- all bits below position `w - b` (the host part) are zero. -/
theorem maskTo_testBit (w b a i : Nat) (h : i < w - b) : (maskTo w b a).testBit i = false := by
  unfold maskTo
  rw [Nat.testBit_mul_two_pow]
  have : ¬ (w - b ≤ i) := by omega
  simp [this]

/-- masking to a shorter prefix absorbs a longer mask. -/
theorem maskTo_maskTo (w b n a : Nat) (hbn : b ≤ n) (hn : n ≤ w) :
    maskTo w b (maskTo w n a) = maskTo w b a := by
  unfold maskTo
  have e : 2 ^ (w - b) = 2 ^ (w - n) * 2 ^ (n - b) := by
    rw [← Nat.pow_add]; congr 1; omega
  congr 1
  rw [e, ← Nat.div_div_eq_div_mul, Nat.mul_div_cancel _ (Nat.two_pow_pos _), Nat.div_div_eq_div_mul]

theorem prefix?_some {a : Addr} {b : Nat} {p : Prefix} (h : a.prefix? b = some p) :
    b ≤ a.fam.width ∧ p = ⟨a.fam, maskTo a.fam.width b a.val, b⟩ := by
  unfold Addr.prefix? at h
  by_cases hb : b ≤ a.fam.width
  · simp only [hb, if_true, Option.some.injEq] at h; exact ⟨hb, h.symm⟩
  · simp [hb] at h

/-! ### option scans -/

theorem lastEcs_foldl_mem (opts : List Opt) (acc : Option Subnet) (s : Subnet)
    (h : opts.foldl (fun acc o => match o with | .ecs s => some s | _ => acc) acc = some s) :
    acc = some s ∨ Opt.ecs s ∈ opts := by
  induction opts generalizing acc with
  | nil => left; simpa using h
  | cons o t ih =>
    simp only [List.foldl_cons] at h
    rcases ih _ h with h' | h'
    · cases o with
      | ecs s' =>
        simp only [Option.some.injEq] at h'
        right; rw [h']; exact List.mem_cons_self
      | other c d => left; simpa using h'
    · right; exact List.mem_cons_of_mem _ h'

/-- the option `SetEdns0` picks is one the client sent. -/
theorem lastEcs_mem {opts : List Opt} {s : Subnet} (h : lastEcs opts = some s) : Opt.ecs s ∈ opts := by
  unfold lastEcs at h
  rcases lastEcs_foldl_mem opts none s h with h' | h'
  · cases h'
  · exact h'

theorem lastEcs_none_of_no_ecs {opts : List Opt} (h : ∀ o ∈ opts, o.isEcs = false) : lastEcs opts = none := by
  cases hl : lastEcs opts with
  | none => rfl
  | some s => have := h _ (lastEcs_mem hl); simp [Opt.isEcs] at this

theorem firstEcs_mem {opts : List Opt} {s : Subnet} (h : firstEcs opts = some s) : Opt.ecs s ∈ opts := by
  induction opts with
  | nil => simp [firstEcs] at h
  | cons o t ih =>
    cases o with
    | ecs s' => simp only [firstEcs, Option.some.injEq] at h; rw [h]; exact List.mem_cons_self
    | other c d => simp only [firstEcs] at h; exact List.mem_cons_of_mem _ (ih h)

theorem mem_stripECS {opts : List Opt} {o : Opt} (h : o ∈ stripECS opts) : o ∈ opts ∧ o.isEcs = false := by
  unfold stripECS at h
  have := List.mem_filter.mp h
  exact ⟨this.1, by simpa using this.2⟩

theorem mem_stripKeepalive {opts : List Opt} {o : Opt} (h : o ∈ stripKeepalive opts) : o ∈ opts := by
  unfold stripKeepalive at h
  exact (List.mem_filter.mp h).1

/-! ### the probe loop of `scopedLookup` -/

/-- whatever the probe returns was found under the key of a prefix of the
client's own address, between /1 and the starting length. -/
theorem scopedProbe_spec (H : Hash) (store : Nat → Option Entry) (qid : Nat) (cd : Bool) (fam : Fam) (addr : Nat) :
    ∀ (n : Nat) (e : Entry) (sc : Prefix), scopedProbe H store qid cd fam addr n = some (e, sc) →
      0 < sc.bits ∧ sc.bits ≤ n ∧ sc.bits ≤ fam.width ∧ sc.fam = fam ∧
      sc.addr = maskTo fam.width sc.bits addr ∧ store (H qid cd (normScope (some sc))) = some e := by
  intro n
  induction n with
  | zero => intro e sc h; simp [scopedProbe] at h
  | succ b ih =>
    intro e sc h
    unfold scopedProbe at h
    cases hp : (Addr.mk fam addr).prefix? (b + 1) with
    | none =>
      rw [hp] at h
      obtain ⟨h1, h2, h3⟩ := ih e sc h
      exact ⟨h1, by omega, h3⟩
    | some pr =>
      rw [hp] at h
      simp only at h
      obtain ⟨hb, rfl⟩ := prefix?_some hp
      cases hs : store (H qid cd (normScope (some ⟨fam, maskTo fam.width (b + 1) addr, b + 1⟩))) with
      | some e' =>
        rw [hs] at h
        simp only [Option.some.injEq, Prod.mk.injEq] at h
        obtain ⟨rfl, rfl⟩ := h
        exact ⟨by simp, by simp, hb, rfl, rfl, hs⟩
      | none =>
        rw [hs] at h
        obtain ⟨h1, h2, h3⟩ := ih e sc h
        exact ⟨h1, by omega, h3⟩

/-- a normalised, non-empty scope is the masked prefix itself. -/
theorem normScope_some {p q : Prefix} (h : normScope (some p) = some q) :
    0 < p.bits ∧ q = p.masked := by
  unfold normScope at h
  by_cases hb : p.bits = 0
  · simp [hb] at h
  · simp only [hb, if_false, Option.some.injEq] at h
    exact ⟨by omega, h.symm⟩

/-! ### `Build` -/

theorem parseNets_none_of_mem {nets : List (Option Prefix)} (h : none ∈ nets) : parseNets nets = none := by
  induction nets with
  | nil => cases h
  | cons x t ih =>
    cases x with
    | none => rfl
    | some p =>
      simp only [parseNets]
      rcases List.mem_cons.mp h with h' | h'
      · cases h'
      · rw [ih h']; rfl

/-- everything `Build` checked when it hands out a policy. -/
theorem build_ok_spec {en : Bool} {f4 f6 m4 m6 : Nat} {nets : List (Option Prefix)} {pol : Policy}
    (h : build en f4 f6 m4 m6 nets = .ok pol) :
    en = true ∧ dflt f4 24 ≤ 32 ∧ dflt f6 56 ≤ 128 ∧ dflt m4 (dflt f4 24) ≤ 32 ∧ dflt m6 (dflt f6 56) ≤ 128 ∧
    ∃ ns, parseNets nets = some ns ∧
      pol = { enabled := true, fwd4 := dflt f4 24, fwd6 := dflt f6 56, nets := ns,
              min4 := dflt m4 (dflt f4 24), min6 := dflt m6 (dflt f6 56) } := by
  unfold build at h
  cases en with
  | false => simp at h
  | true =>
    simp only [Bool.not_true, Bool.false_eq_true, if_false] at h
    by_cases h1 : dflt f4 24 > 32
    · rw [if_pos h1] at h; cases h
    · rw [if_neg h1] at h
      by_cases h2 : dflt f6 56 > 128
      · rw [if_pos h2] at h; cases h
      · rw [if_neg h2] at h
        by_cases h3 : dflt m4 (dflt f4 24) > 32
        · rw [if_pos h3] at h; cases h
        · rw [if_neg h3] at h
          by_cases h4 : dflt m6 (dflt f6 56) > 128
          · rw [if_pos h4] at h; cases h
          · rw [if_neg h4] at h
            cases hn : parseNets nets with
            | none => rw [hn] at h; cases h
            | some ns =>
              rw [hn] at h
              simp only [BuildRes.ok.injEq] at h
              exact ⟨rfl, by omega, by omega, by omega, by omega, ns, rfl, h.symm⟩

theorem dflt_pos {v d : Nat} (hd : 0 < d) : 0 < dflt v d := by
  unfold dflt; split <;> omega

theorem le_dflt (v d : Nat) : v ≤ dflt v d := by
  unfold dflt; split <;> omega

/-! ### request trees -/

theorem bypass_inherited (root : ReqView) (path : List (Bool × Bool × Bool)) (h : root.bypass = true) :
    (descend root path).bypass = true := by
  unfold descend
  induction path generalizing root with
  | nil => exact h
  | cons m t ih =>
    simp only [List.foldl_cons]
    apply ih
    have ht : (childView root m.1 m.2.1 m.2.2).treeBypass = true := h
    unfold ReqView.bypass
    rw [ht]; rfl

/-! ### the store -/

theorem Store.get_mem {s : Store} {k : Nat} {e : Entry} (h : s.get k = some e) : ∃ k', (k', e) ∈ s := by
  unfold Store.get at h
  cases hf : s.find? (fun x => x.1 == k) with
  | none => rw [hf] at h; cases h
  | some x =>
    rw [hf] at h
    simp only [Option.map_some, Option.some.injEq] at h
    exact ⟨x.1, by have := List.mem_of_find?_eq_some hf; rw [← h]; exact this⟩

theorem Store.mem_put {s : Store} {k : Nat} {e : Entry} {x : Nat × Entry} (h : x ∈ s.put k e) :
    x = (k, e) ∨ x ∈ s := by
  unfold Store.put at h
  rcases List.mem_cons.mp h with h | h
  · exact Or.inl h
  · exact Or.inr (List.mem_filter.mp h).1

theorem Store.mem_del {s : Store} {k : Nat} {x : Nat × Entry} (h : x ∈ s.del k) : x ∈ s :=
  (List.mem_filter.mp h).1

/-- whatever the hit ladder returns sits in the store function it was given. -/
theorem serveLookup_from_store {H : Hash} {store : Nat → Option Entry} {qid : Nat} {cd : Bool}
    {cs : Option Prefix} {e : Entry} (h : serveLookup H store qid cd cs = some e) : ∃ k, store k = some e := by
  have shared : ∀ e', (match store (H qid cd none) with
        | some e => if entryMatches e qid cd none = true then some e else none
        | none => none) = some e' → ∃ k, store k = some e' := by
    intro e' h'
    cases hs : store (H qid cd none) with
    | none => rw [hs] at h'; simp at h'
    | some e0 =>
      rw [hs] at h'
      simp only at h'
      split at h'
      · simp only [Option.some.injEq] at h'; subst h'; exact ⟨_, hs⟩
      · cases h'
  unfold serveLookup at h
  simp only at h
  cases cs with
  | none => exact shared e h
  | some cp =>
    simp only at h
    cases hl : scopedLookup H store qid cd cp with
    | none => rw [hl] at h; exact shared e h
    | some r =>
      obtain ⟨e1, sc1⟩ := r
      rw [hl] at h
      simp only at h
      split at h
      · simp only [Option.some.injEq] at h
        subst h
        unfold scopedLookup at hl
        exact ⟨_, (scopedProbe_spec H store qid cd cp.fam cp.addr cp.bits e1 sc1 hl).2.2.2.2.2⟩
      · exact shared e h

/-! ### wire decoding, several OPT records -/

theorem padTo_length (n : Nat) (bs : List Nat) : (padTo n bs).length = n := by
  unfold padTo
  simp [List.length_take, List.length_append, List.length_replicate]

theorem effectiveOpts_append (pre : List (List Opt)) (l : List Opt) : effectiveOpts (pre ++ [l]) = some l := by
  induction pre with
  | nil => rfl
  | cons a t ih =>
    cases t with
    | nil => rfl
    | cons b t' => simpa [effectiveOpts] using ih

/-! ### bytes of a forwarded address -/

theorem natBytes_length (n v : Nat) : (natBytes n v).length = n := by
  induction n generalizing v with
  | zero => rfl
  | succ n ih => simp [natBytes, ih]

theorem bytesVal_append (l : List Nat) (b : Nat) : bytesVal (l ++ [b]) = bytesVal l * 256 + b := by
  unfold bytesVal; simp [List.foldl_append]

theorem bytesVal_natBytes (n v : Nat) (h : v < 256 ^ n) : bytesVal (natBytes n v) = v := by
  induction n generalizing v with
  | zero => simp at h; subst h; rfl
  | succ n ih =>
    simp only [natBytes, bytesVal_append]
    have : v / 256 < 256 ^ n := by
      rw [Nat.div_lt_iff_lt_mul (by decide)]; rw [Nat.pow_succ] at h; exact h
    rw [ih _ this]
    have := Nat.div_add_mod v 256
    omega

theorem maskTo_of_aligned (w b v : Nat) (h : v % 2 ^ (w - b) = 0) : maskTo w b v = v := by
  unfold maskTo
  exact Nat.div_mul_cancel (Nat.dvd_of_mod_eq_zero h)

end SdnsVerif.Lemmas.Ecs
