import SdnsVerif.Model.Lease
/-!
Helper lemmas for C08: arithmetic of `minCut` / `BoundCutFor` / `clampUntil`,
and the inductive invariant of the descent event system.
-/
namespace SdnsVerif.Lemmas.Lease
open SdnsVerif.Model.Lease

/-! ### minCut / minNonZero -/

theorem minCut_some_right (a : Deadline) (ak bk : Nat) (y : Int) :
    ∃ c, (minCut a ak (some y) bk).1 = some c ∧ c ≤ y ∧ (∀ x, a = some x → c ≤ x) ∧
      (c = y ∨ a = some c) := by
  cases a with
  | none => exact ⟨y, rfl, Int.le_refl _, (by intro x h; cases h), Or.inl rfl⟩
  | some x =>
    unfold minCut
    by_cases h : y < x
    · simp only [h, if_true]
      exact ⟨y, rfl, Int.le_refl _, (by intro x' hx; cases hx; omega), Or.inl rfl⟩
    · simp only [h, if_false]
      exact ⟨x, rfl, (by omega), (by intro x' hx; cases hx; omega), Or.inr rfl⟩

theorem minCut_none_left (ak bk : Nat) (b : Deadline) : minCut none ak b bk = (b, bk) := by
  cases b <;> rfl

/-! ### minRRSetTTL -/

theorem foldl_min_le (l : List Nat) (m : Nat) :
    l.foldl (fun m x => if x < m then x else m) m ≤ m ∧
    ∀ t ∈ l, l.foldl (fun m x => if x < m then x else m) m ≤ t := by
  induction l generalizing m with
  | nil => exact ⟨Nat.le_refl _, by intro t h; cases h⟩
  | cons x rest ih =>
    simp only [List.foldl_cons]
    obtain ⟨h1, h2⟩ := ih (if x < m then x else m)
    refine ⟨?_, ?_⟩
    · by_cases hx : x < m
      · simp only [hx, if_true] at h1 ⊢; omega
      · simp only [hx, if_false] at h1 ⊢; exact h1
    · intro t ht
      rcases List.mem_cons.mp ht with rfl | ht
      · by_cases hx : t < m
        · simp only [hx, if_true] at h1 ⊢; exact h1
        · simp only [hx, if_false] at h1 ⊢; omega
      · exact h2 t ht

theorem foldl_min_mem (l : List Nat) (m : Nat) :
    l.foldl (fun m x => if x < m then x else m) m = m ∨
    l.foldl (fun m x => if x < m then x else m) m ∈ l := by
  induction l generalizing m with
  | nil => exact Or.inl rfl
  | cons x rest ih =>
    simp only [List.foldl_cons]
    rcases ih (if x < m then x else m) with h | h
    · by_cases hx : x < m
      · simp only [hx, if_true] at h ⊢; exact Or.inr (by rw [h]; exact List.mem_cons_self)
      · simp only [hx, if_false] at h ⊢; exact Or.inl h
    · exact Or.inr (List.mem_cons_of_mem _ h)

/-- `minRRSetTTL` is a lower bound of the set … -/
theorem minRRSetTTL_le (l : List Nat) : ∀ t ∈ l, minRRSetTTL l ≤ t := by
  cases l with
  | nil => intro t h; cases h
  | cons x rest =>
    intro t ht
    show List.foldl (fun m x => if x < m then x else m) x rest ≤ t
    obtain ⟨h1, h2⟩ := foldl_min_le rest x
    rcases List.mem_cons.mp ht with rfl | ht
    · exact h1
    · exact h2 t ht

/-- … and, for a non-empty set, one of its members. -/
theorem minRRSetTTL_mem (l : List Nat) (h : l ≠ []) : minRRSetTTL l ∈ l := by
  cases l with
  | nil => exact absurd rfl h
  | cons x rest =>
    show List.foldl (fun m x => if x < m then x else m) x rest ∈ x :: rest
    rcases foldl_min_mem rest x with h | h
    · rw [h]; exact List.mem_cons_self
    · exact List.mem_cons_of_mem _ h

/-- the lease of a referral: at most `obs + NS TTL`, at most `obs + M` (the
ceiling from the observation), at most `obs + t` for every retained DS TTL `t`,
and equal to one of the three candidates -/
theorem leaseDeadline_spec (M obs : Int) (ns : Nat) (ds : List Nat) :
    leaseDeadline M obs ns ds ≤ obs + (ns : Int) * sec ∧
    leaseDeadline M obs ns ds ≤ obs + M ∧
    (∀ t ∈ ds, leaseDeadline M obs ns ds ≤ obs + (t : Int) * sec) ∧
    (leaseDeadline M obs ns ds = obs + (ns : Int) * sec ∨ leaseDeadline M obs ns ds = obs + M ∨
      (ds ≠ [] ∧ leaseDeadline M obs ns ds = obs + (minRRSetTTL ds : Int) * sec)) := by
  have hsec : (0 : Int) < sec := by decide
  unfold leaseDeadline
  generalize hl0 : obs + (ns : Int) * sec = l0
  simp only
  generalize hl : (if obs + M < l0 then obs + M else l0) = l
  have hl1 : l ≤ l0 ∧ l ≤ obs + M ∧ (l = l0 ∨ l = obs + M) := by
    subst hl; split <;> omega
  cases ds with
  | nil => simp only [List.isEmpty_nil, if_true]; exact ⟨hl1.1, hl1.2.1, (by intro t h; cases h), by rcases hl1.2.2 with h | h <;> simp [h]⟩
  | cons x rest =>
    simp only [List.isEmpty_cons, Bool.false_eq_true, if_false]
    have hmin : ∀ t ∈ x :: rest, (minRRSetTTL (x :: rest) : Int) * sec ≤ (t : Int) * sec := by
      intro t ht
      have := minRRSetTTL_le (x :: rest) t ht
      exact Int.mul_le_mul_of_nonneg_right (by omega) (by omega)
    by_cases h : obs + (minRRSetTTL (x :: rest) : Int) * sec < l
    · rw [if_pos h]
      refine ⟨by omega, by omega, ?_, Or.inr (Or.inr ⟨List.cons_ne_nil _ _, rfl⟩)⟩
      intro t ht; have := hmin t ht; omega
    · rw [if_neg h]
      refine ⟨hl1.1, hl1.2.1, ?_, by rcases hl1.2.2 with h' | h' <;> simp [h']⟩
      intro t ht; have := hmin t ht; omega

theorem foldl_minInt_le (l : List Int) (m : Int) :
    l.foldl (fun acc b => if b < acc then b else acc) m ≤ m ∧
    ∀ t ∈ l, l.foldl (fun acc b => if b < acc then b else acc) m ≤ t := by
  induction l generalizing m with
  | nil => exact ⟨Int.le_refl _, by intro t h; cases h⟩
  | cons x rest ih =>
    simp only [List.foldl_cons]
    obtain ⟨h1, h2⟩ := ih (if x < m then x else m)
    refine ⟨?_, ?_⟩
    · by_cases hx : x < m
      · simp only [hx, if_true] at h1 ⊢; omega
      · simp only [hx, if_false] at h1 ⊢; exact h1
    · intro t ht
      rcases List.mem_cons.mp ht with rfl | ht
      · by_cases hx : t < m
        · simp only [hx, if_true] at h1 ⊢; exact h1
        · simp only [hx, if_false] at h1 ⊢; omega
      · exact h2 t ht

/-! ### BoundCutFor -/

theorem boundCutFor_some (m : Meta) (x : Int) (k : Nat) :
    ∃ c, (m.boundCutFor (some x) k).cut = some c ∧ c ≤ x ∧ (∀ y, m.cut = some y → c ≤ y) ∧
      (c = x ∨ m.cut = some c) := by
  unfold Meta.boundCutFor
  cases hm : m.cut with
  | none => exact ⟨x, rfl, Int.le_refl _, (by intro y h; cases h), Or.inl rfl⟩
  | some c =>
    simp only
    by_cases h : x < c
    · simp only [h, if_true]
      exact ⟨x, rfl, Int.le_refl _, (by intro y hy; cases hy; omega), Or.inl rfl⟩
    · simp only [h, if_false]
      exact ⟨c, hm, (by omega), (by intro y hy; cases hy; omega), Or.inr rfl⟩

/-- folding never raises the accumulated cut -/
theorem boundCutFor_keeps (m : Meta) (d : Deadline) (k : Nat) (b : Int)
    (h : ∃ y, m.cut = some y ∧ y ≤ b) : ∃ c, (m.boundCutFor d k).cut = some c ∧ c ≤ b := by
  obtain ⟨y, hy, hyb⟩ := h
  cases d with
  | none => exact ⟨y, hy, hyb⟩
  | some x =>
    obtain ⟨c, hc, _, hle, _⟩ := boundCutFor_some m x k
    exact ⟨c, hc, by have := hle y hy; omega⟩

/-! ### clampUntil -/

theorem clampUntil_some (M now d v : Int) (h : clampUntil M now (some d) = some v) :
    now < d ∧ v ≤ d ∧ v ≤ now + M ∧ (v = d ∨ v = now + M) := by
  unfold clampUntil at h
  by_cases h1 : now < d
  · simp only [h1, if_true, Option.some.injEq] at h
    by_cases h2 : now + M < d
    · simp only [h2, if_true] at h; subst h; exact ⟨h1, by omega, by omega, Or.inr rfl⟩
    · simp only [h2, if_false] at h; subst h; exact ⟨h1, by omega, by omega, Or.inl rfl⟩
  · simp [h1] at h

theorem clampUntil_none (M now d : Int) : clampUntil M now (some d) = none ↔ d ≤ now := by
  unfold clampUntil
  by_cases h1 : now < d
  · simp only [h1, if_true]; constructor
    · intro h; cases h
    · intro h; omega
  · simp only [h1, if_false, true_iff]; omega

/-! ### the invariant of the event system -/

/-- the expiry stored for a delegation a descent went through is not earlier than
the deadline it contributed to the cut (the lease is already within the ceiling
when `SetUntil` sees it, so the cache never lowers it) -/
def ElemOK (_M : Int) (p : PathElem) : Prop := p.deadline ≤ p.stored

/-- the meta's cut is bounded and not later than `b` -/
abbrev Bounds (m : Meta) (b : Int) : Prop := ∃ x, m.cut = some x ∧ x ≤ b

/-- folding only ever lowers: whatever `m` bounded, `m'` bounds -/
abbrev Keeps (m m' : Meta) : Prop := ∀ b, Bounds m b → Bounds m' b

/-- one resolution in progress, judged against the `ResponseMeta` it reports into -/
def FrameOK (M now : Int) (cur : Meta) (r : RS) : Prop :=
  (∀ p ∈ r.path, (∃ c, r.cut = some c ∧ c ≤ p.deadline) ∧ ElemOK M p ∧ p.obs ≤ now) ∧
  (∀ p ∈ r.path ++ r.used, Bounds cur p.deadline)

/-- the stack of resolutions: frames above (and including) a forked chase report
into the current meta, the frames below it into the meta frozen in that chase frame -/
def StackOK (M now : Int) : Meta → List RS → Prop
  | _, [] => True
  | cur, r :: rest => FrameOK M now cur r ∧ StackOK M now (r.outer.getD cur) rest

structure Inv (M : Int) (s : Sys) : Prop where
  delegs : ∀ e ∈ s.delegs, e.observedAt ≤ s.now ∧ e.expiresAt ≤ e.observedAt + e.grant ∧
    e.expiresAt ≤ e.observedAt + M ∧
    ∀ p ∈ e.path, e.expiresAt ≤ p.deadline ∧ ElemOK M p ∧ p.obs ≤ e.observedAt
  stack : StackOK M s.now s.cut s.stack
  answers : ∀ a ∈ s.answers, ∀ p ∈ a.path, ∃ c, a.cutUntil = some c ∧ c ≤ p.deadline

theorem inv_init (M : Int) : Inv M {} :=
  ⟨(by intro e h; simp at h), trivial, (by intro a h; simp at h)⟩

theorem frameOK_keeps (M now : Int) (cur cur' : Meta) (r : RS) (h : FrameOK M now cur r)
    (hk : Keeps cur cur') : FrameOK M now cur' r :=
  ⟨h.1, fun p hp => hk _ (h.2 p hp)⟩

theorem stackOK_keeps (M now : Int) (st : List RS) : ∀ (cur cur' : Meta), StackOK M now cur st →
    Keeps cur cur' → StackOK M now cur' st := by
  induction st with
  | nil => intros; trivial
  | cons r rest ih =>
    intro cur cur' h hk
    refine ⟨frameOK_keeps M now cur cur' r h.1 hk, ?_⟩
    cases ho : r.outer with
    | none => have := h.2; rw [ho] at this; exact ih _ _ this hk
    | some m => have := h.2; rw [ho] at this; exact this

theorem stackOK_tail_keeps (M now : Int) (o : Option Meta) (cur cur' : Meta) (rest : List RS)
    (h : StackOK M now (o.getD cur) rest) (hk : Keeps cur cur') : StackOK M now (o.getD cur') rest := by
  cases o with
  | none => exact stackOK_keeps M now rest _ _ h hk
  | some m => exact h

theorem stackOK_now (M now now' : Int) (hn : now ≤ now') (st : List RS) : ∀ cur, StackOK M now cur st →
    StackOK M now' cur st := by
  induction st with
  | nil => intros; trivial
  | cons r rest ih =>
    intro cur h
    refine ⟨⟨?_, h.1.2⟩, ih _ h.2⟩
    intro p hp
    obtain ⟨h1, h2, h3⟩ := h.1.1 p hp
    exact ⟨h1, h2, by omega⟩

/-- a frame from per-element facts -/
theorem frameOK_of (M now : Int) (cur : Meta) (r : RS)
    (h4 : ∀ p ∈ r.path, (∃ c, r.cut = some c ∧ c ≤ p.deadline) ∧ ElemOK M p ∧ p.obs ≤ now ∧ Bounds cur p.deadline)
    (hu : ∀ p ∈ r.used, Bounds cur p.deadline) : FrameOK M now cur r := by
  refine ⟨fun p hp => ⟨(h4 p hp).1, (h4 p hp).2.1, (h4 p hp).2.2.1⟩, ?_⟩
  intro p hp
  rcases List.mem_append.mp hp with hp | hp
  · exact (h4 p hp).2.2.2
  · exact hu p hp

theorem frame_elem (M now : Int) (cur : Meta) (r : RS) (h : FrameOK M now cur r) (p : PathElem) (hp : p ∈ r.path) :
    (∃ c, r.cut = some c ∧ c ≤ p.deadline) ∧ ElemOK M p ∧ p.obs ≤ now ∧ Bounds cur p.deadline :=
  ⟨(h.1 p hp).1, (h.1 p hp).2.1, (h.1 p hp).2.2, h.2 p (List.mem_append_left _ hp)⟩

theorem frame_used (M now : Int) (cur : Meta) (r : RS) (h : FrameOK M now cur r) (p : PathElem) (hp : p ∈ r.used) :
    Bounds cur p.deadline := h.2 p (List.mem_append_right _ hp)

theorem findEntry_mem (ds : List Entry) (z : Name) (e : Entry) (h : findEntry ds z = some e) :
    e ∈ ds ∧ e.zone = z := by
  unfold findEntry at h
  exact ⟨List.mem_of_find?_eq_some h, by have := List.find?_some h; simpa using this⟩

theorem liveEntry_spec (ds : List Entry) (now : Int) (z : Name) (e : Entry)
    (h : liveEntry ds now z = some e) : findEntry ds z = some e ∧ now < e.expiresAt := by
  unfold liveEntry at h
  cases hf : findEntry ds z with
  | none => simp [hf] at h
  | some e' =>
    simp only [hf] at h
    by_cases hl : now < e'.expiresAt
    · simp only [hl, if_true, Option.some.injEq] at h; subst h; exact ⟨rfl, hl⟩
    · simp [hl] at h

theorem searchFrom_mem (ds : List Entry) (now : Int) (q : Name) (k : Nat) (e : Entry)
    (h : searchFrom ds now q k = some e) : e ∈ ds ∧ now < e.expiresAt ∧ e.zone = q.take e.zone.length := by
  induction k with
  | zero => simp [searchFrom] at h
  | succ k ih =>
    unfold searchFrom at h
    cases hf : findEntry ds (q.take (k + 1)) with
    | none => simp only [hf] at h; exact ih h
    | some e' =>
      simp only [hf] at h
      by_cases hl : now < e'.expiresAt
      · simp only [hl, if_true, Option.some.injEq] at h
        subst h
        obtain ⟨hm, hz⟩ := findEntry_mem _ _ _ hf
        refine ⟨hm, hl, ?_⟩
        rw [hz]; simp
      · simp only [hl, if_false] at h; exact ih h

theorem findEntry_filter_ne (ds : List Entry) (z z' : Name) (h : z' ≠ z) :
    findEntry (ds.filter (fun e => e.zone != z')) z = findEntry ds z := by
  induction ds with
  | nil => rfl
  | cons x rest ih =>
    unfold findEntry at ih ⊢
    by_cases hx : x.zone = z'
    · have hxz : ¬ x.zone = z := by intro h'; exact h (hx ▸ h')
      rw [List.filter_cons_of_neg (by simp [hx]), List.find?_cons_of_neg (by simpa using hxz)]
      exact ih
    · rw [List.filter_cons_of_pos (by simpa using hx)]
      by_cases hxz : x.zone = z
      · rw [List.find?_cons_of_pos (by simpa using hxz), List.find?_cons_of_pos (by simpa using hxz)]
      · rw [List.find?_cons_of_neg (by simpa using hxz), List.find?_cons_of_neg (by simpa using hxz)]
        exact ih

theorem findEntry_filter_self (ds : List Entry) (z : Name) :
    findEntry (ds.filter (fun e => e.zone != z)) z = none := by
  unfold findEntry
  rw [List.find?_eq_none]
  intro x hx
  have := (List.mem_filter.mp hx).2
  simpa using this

/-- what the seed of a resolution establishes -/
theorem seed_spec (M : Int) (s : Sys) (hinv : Inv M s) (m : Meta) (q : Name) :
    ∀ p ∈ (seed s m q).1.path, (∃ c, (seed s m q).1.cut = some c ∧ c ≤ p.deadline) ∧ ElemOK M p ∧
      p.obs ≤ s.now ∧ ∃ x, (seed s m q).2.cut = some x ∧ x ≤ p.deadline := by
  unfold seed
  cases hs : searchFrom s.delegs s.now q q.length with
  | none => intro p hp; simp at hp
  | some e =>
    obtain ⟨hmem, _, _⟩ := searchFrom_mem _ _ _ _ _ hs
    obtain ⟨hobs, _, _, hpath⟩ := hinv.delegs e hmem
    simp only [minCut_none_left]
    obtain ⟨c, hc, hcx, _, _⟩ := boundCutFor_some m e.expiresAt 0
    intro p hp
    rcases List.mem_cons.mp hp with rfl | hp
    · exact ⟨⟨e.expiresAt, rfl, Int.le_refl _⟩, (show ElemOK M _ from Int.le_refl _), hobs, ⟨c, hc, hcx⟩⟩
    · obtain ⟨h1, h2, h3⟩ := hpath p hp
      exact ⟨⟨e.expiresAt, rfl, h1⟩, h2, by omega, ⟨c, hc, by omega⟩⟩

theorem seed_used (s : Sys) (m : Meta) (q : Name) : (seed s m q).1.used = [] ∧ (seed s m q).1.outer = none := by
  unfold seed
  cases searchFrom s.delegs s.now q q.length <;> exact ⟨rfl, rfl⟩

theorem seed_frame (M : Int) (s : Sys) (hinv : Inv M s) (m : Meta) (q : Name) :
    FrameOK M s.now (seed s m q).2 (seed s m q).1 :=
  frameOK_of M s.now _ _ (seed_spec M s hinv m q) (by rw [(seed_used s m q).1]; intro p hp; cases hp)

theorem seed_keeps (s : Sys) (m : Meta) (q : Name) (b : Int)
    (h : ∃ y, m.cut = some y ∧ y ≤ b) : ∃ c, (seed s m q).2.cut = some c ∧ c ≤ b := by
  unfold seed
  cases searchFrom s.delegs s.now q q.length with
  | none => exact h
  | some e => exact boundCutFor_keeps m _ 0 b h

theorem inv_step (M : Int) (s : Sys) (ev : Ev) (hinv : Inv M s) : Inv M (step M s ev) := by
  cases ev with
  | tick d =>
    refine ⟨?_, ?_, hinv.answers⟩
    · intro e he
      obtain ⟨h1, h2, h3, h4⟩ := hinv.delegs e he
      exact ⟨by simp only [step]; omega, h2, h3, h4⟩
    · exact stackOK_now M s.now (s.now + d) (by omega) _ _ hinv.stack
  | start q =>
    refine ⟨hinv.delegs, ?_, hinv.answers⟩
    exact ⟨seed_frame M s hinv {} q, trivial⟩
  | substart q =>
    refine ⟨hinv.delegs, ?_, hinv.answers⟩
    refine ⟨seed_frame M s hinv s.cut q, ?_⟩
    rw [(seed_used s s.cut q).2]
    exact stackOK_keeps M s.now _ _ _ hinv.stack (fun b h => seed_keeps s s.cut q b h)
  | chase q =>
    refine ⟨hinv.delegs, ?_, hinv.answers⟩
    refine ⟨?_, hinv.stack⟩
    have hf := seed_frame M s hinv {} q
    exact ⟨hf.1, hf.2⟩
  | finish used =>
    simp only [step]
    cases hst : s.stack with
    | nil => exact hinv
    | cons r rest =>
      have hs := hinv.stack
      rw [hst] at hs
      obtain ⟨hfr, hrest⟩ := hs
      simp only
      cases ho : r.outer with
      | none =>
        simp only
        rw [ho] at hrest
        exact ⟨hinv.delegs, hrest, hinv.answers⟩
      | some m =>
        simp only
        rw [ho] at hrest
        cases used with
        | false => exact ⟨hinv.delegs, hrest, hinv.answers⟩
        | true =>
          simp only [if_true]
          refine ⟨hinv.delegs, ?_, hinv.answers⟩
          -- the deriving request's meta after inherit(): keeps its own bounds, and is below the fork's cut
          have hk : Keeps m (m.boundCutFor s.cut.cut s.cut.key) := fun b h => boundCutFor_keeps m _ _ b h
          cases rest with
          | nil => trivial
          | cons o t =>
            obtain ⟨hfo, ht⟩ := hrest
            refine ⟨?_, stackOK_tail_keeps M s.now o.outer _ _ t ht hk⟩
            refine ⟨hfo.1, ?_⟩
            intro p hp
            simp only at hp
            have hp' : p ∈ o.path ++ o.used ∨ p ∈ r.path ++ r.used := by
              simp only [List.mem_append] at hp ⊢
              rcases hp with h | (h | h) | h
              · exact Or.inl (Or.inl h)
              · exact Or.inr (Or.inl h)
              · exact Or.inr (Or.inr h)
              · exact Or.inl (Or.inr h)
            rcases hp' with h | h
            · exact hk _ (hfo.2 p h)
            · obtain ⟨x, hx, hxp⟩ := hfr.2 p h
              rw [hx]
              obtain ⟨c, hc, hcx, _, _⟩ := boundCutFor_some m x s.cut.key
              exact ⟨c, hc, by omega⟩
  | purge z =>
    refine ⟨?_, hinv.stack, hinv.answers⟩
    intro e he
    exact hinv.delegs e (List.mem_filter.mp he).1
  | answer ttl =>
    simp only [step]
    cases hst : s.stack with
    | nil => exact hinv
    | cons r rest =>
      have hs := hinv.stack
      rw [hst] at hs
      refine ⟨hinv.delegs, by simpa [hst] using hinv.stack, ?_⟩
      intro a ha p hp
      rcases List.mem_cons.mp ha with rfl | ha
      · exact hs.1.2 p hp
      · exact hinv.answers a ha p hp
  | referral z nsTTLs dsTTLs =>
    simp only [step]
    cases hst : s.stack with
    | nil => exact hinv
    | cons r rest =>
      simp only
      have hs := hinv.stack
      rw [hst] at hs
      obtain ⟨hfr, hrest⟩ := hs
      by_cases hprog : progressing r.zone z r.qname = true
      · simp only [hprog, Bool.not_true, Bool.false_eq_true, if_false]
        obtain ⟨cd, hcd, hcdl, hcdc, _⟩ :=
          minCut_some_right r.cut 0 0 (leaseDeadline M s.now (minRRSetTTL nsTTLs) dsTTLs)
        rw [hcd]
        simp only
        -- the cut folded into the request tree's meta
        obtain ⟨m1, hm1, hm1cd, hm1old, _⟩ := boundCutFor_some s.cut cd 0
        have keep1 : Keeps s.cut (s.cut.boundCutFor (some cd) 0) :=
          fun b h => boundCutFor_keeps s.cut _ 0 b h
        -- every path element of r is above cd
        have hpathcd : ∀ p ∈ r.path, cd ≤ p.deadline := by
          intro p hp
          obtain ⟨⟨c, hc, hcp⟩, _, _, _⟩ := frame_elem M s.now s.cut r hfr p hp
          have := hcdc c hc; omega
        cases hlive : liveEntry s.delegs s.now z with
        | some e =>
          simp only
          obtain ⟨hfind, _⟩ := liveEntry_spec _ _ _ _ hlive
          obtain ⟨hemem, _⟩ := findEntry_mem _ _ _ hfind
          obtain ⟨heobs, _, _, hepath⟩ := hinv.delegs e hemem
          obtain ⟨c2, hc2, hc2e, hc2cd, _⟩ := minCut_some_right (some cd) 0 0 e.expiresAt
          have hc2cd' : c2 ≤ cd := hc2cd cd rfl
          obtain ⟨m2, hm2, hm2c2, hm2old, _⟩ := boundCutFor_some (s.cut.boundCutFor (some cd) 0) c2 0
          have hm2m1 : m2 ≤ m1 := hm2old m1 hm1
          have keep2 : Keeps s.cut ((s.cut.boundCutFor (some cd) 0).boundCutFor
              (minCut (some cd) 0 (some e.expiresAt) 0).1 0) :=
            fun b h => boundCutFor_keeps _ _ 0 b (keep1 b h)
          refine ⟨hinv.delegs, ⟨?_, stackOK_tail_keeps M s.now r.outer _ _ rest hrest keep2⟩, hinv.answers⟩
          refine frameOK_of M s.now _ _ ?_ (fun p hp => keep2 _ (frame_used M s.now s.cut r hfr p hp))
          intro p hp
          simp only at hp ⊢
          rw [hc2]
          rcases List.mem_cons.mp hp with rfl | hp
          · exact ⟨⟨c2, rfl, hc2e⟩, (show ElemOK M _ from Int.le_refl _), heobs, ⟨m2, hm2, by simp only [elemOf]; omega⟩⟩
          · rcases List.mem_append.mp hp with hp | hp
            · obtain ⟨h1, h2, h3⟩ := hepath p hp
              exact ⟨⟨c2, rfl, by omega⟩, h2, by omega, ⟨m2, hm2, by omega⟩⟩
            · rcases List.mem_cons.mp hp with rfl | hp
              · exact ⟨⟨c2, rfl, hc2cd'⟩, (show ElemOK M _ from Int.le_refl _), Int.le_refl _, ⟨m2, hm2, by simp only; omega⟩⟩
              · obtain ⟨_, h2, h3, _⟩ := frame_elem M s.now s.cut r hfr p hp
                have := hpathcd p hp
                exact ⟨⟨c2, rfl, by omega⟩, h2, h3, ⟨m2, hm2, by omega⟩⟩
        | none =>
          simp only
          cases hcl : clampUntil M s.now (some cd) with
          | some v =>
            simp only
            obtain ⟨hnow, hvcd, hvM, hvor⟩ := clampUntil_some M s.now cd v hcl
            refine ⟨?_, ⟨?_, stackOK_tail_keeps M s.now r.outer _ _ rest hrest keep1⟩, hinv.answers⟩
            · intro e he
              rcases List.mem_cons.mp he with rfl | he
              · refine ⟨Int.le_refl _, by simp only; omega, hvM, ?_⟩
                intro p hp
                obtain ⟨_, h2, h3, _⟩ := frame_elem M s.now s.cut r hfr p hp
                have := hpathcd p hp
                exact ⟨by simp only; omega, h2, h3⟩
              · exact hinv.delegs e he
            · refine frameOK_of M s.now _ _ ?_ (fun p hp => keep1 _ (frame_used M s.now s.cut r hfr p hp))
              intro p hp
              simp only at hp ⊢
              rcases List.mem_cons.mp hp with rfl | hp
              · refine ⟨⟨cd, rfl, Int.le_refl _⟩, ?_, Int.le_refl _, ⟨m1, hm1, hm1cd⟩⟩
                have hlm := (leaseDeadline_spec M s.now (minRRSetTTL nsTTLs) dsTTLs).2.1
                show cd ≤ v
                rcases hvor with h | h <;> omega
              · obtain ⟨_, h2, h3, _⟩ := frame_elem M s.now s.cut r hfr p hp
                have := hpathcd p hp
                exact ⟨⟨cd, rfl, this⟩, h2, h3, ⟨m1, hm1, by omega⟩⟩
          | none =>
            simp only
            refine ⟨hinv.delegs, ⟨?_, stackOK_tail_keeps M s.now r.outer _ _ rest hrest keep1⟩, hinv.answers⟩
            refine frameOK_of M s.now _ _ ?_ (fun p hp => keep1 _ (frame_used M s.now s.cut r hfr p hp))
            intro p hp
            simp only at hp ⊢
            rcases List.mem_cons.mp hp with rfl | hp
            · exact ⟨⟨cd, rfl, Int.le_refl _⟩, (show ElemOK M _ from Int.le_refl _), Int.le_refl _, ⟨m1, hm1, hm1cd⟩⟩
            · obtain ⟨_, h2, h3, _⟩ := frame_elem M s.now s.cut r hfr p hp
              have := hpathcd p hp
              exact ⟨⟨cd, rfl, this⟩, h2, h3, ⟨m1, hm1, by omega⟩⟩
      · have : progressing r.zone z r.qname = false := by simpa using hprog
        simp only [this, Bool.not_false, if_true]
        exact hinv

theorem inv_run (M : Int) (evs : List Ev) (s : Sys) (h : Inv M s) : Inv M (run M s evs) := by
  induction evs generalizing s with
  | nil => exact h
  | cons ev rest ih => exact ih _ (inv_step M s ev h)

/-! ### folding deadlines into a ResponseMeta -/

def foldCuts (m : Meta) (l : List (Deadline × Nat)) : Meta := l.foldl (fun m x => m.boundCutFor x.1 x.2) m

/-- the earliest bounded deadline among `m` and the list (`none` when all are unbounded) -/
def earliest : Deadline → List (Deadline × Nat) → Deadline
  | acc, [] => acc
  | acc, (d, _) :: rest => earliest (minNonZero acc d) rest

theorem foldCuts_cut (m : Meta) (l : List (Deadline × Nat)) : (foldCuts m l).cut = earliest m.cut l := by
  induction l generalizing m with
  | nil => rfl
  | cons x rest ih =>
    unfold foldCuts at ih ⊢
    simp only [List.foldl_cons, earliest]
    rw [ih]
    congr 1
    obtain ⟨d, k⟩ := x
    cases d with
    | none => cases hm : m.cut <;> simp [Meta.boundCutFor, minNonZero, hm]
    | some v =>
      cases hm : m.cut with
      | none => simp [Meta.boundCutFor, minNonZero, hm]
      | some c =>
        by_cases h : v < c
        · have h' : ¬ c < v := by omega
          simp [Meta.boundCutFor, minNonZero, hm, h, h']
        · by_cases h2 : c < v
          · simp [Meta.boundCutFor, minNonZero, hm, h, h2]
          · have : c = v := by omega
            simp [Meta.boundCutFor, minNonZero, hm, this]

theorem minNonZero_comm (a b : Deadline) : minNonZero a b = minNonZero b a := by
  cases a <;> cases b <;> simp only [minNonZero]
  rename_i x y
  by_cases h : x < y
  · have : ¬ y < x := by omega
    simp [h, this]
  · by_cases h2 : y < x
    · simp [h, h2]
    · have : x = y := by omega
      simp [this]

theorem minNonZero_some (x y : Int) : minNonZero (some x) (some y) = some (if x < y then x else y) := by
  unfold minNonZero
  by_cases h : x < y <;> simp [h]

theorem minNonZero_assoc (a b c : Deadline) : minNonZero (minNonZero a b) c = minNonZero a (minNonZero b c) := by
  cases a with
  | none => cases b <;> cases c <;> rfl
  | some x =>
    cases b with
    | none => cases c <;> rfl
    | some y =>
      cases c with
      | none =>
        show minNonZero (minNonZero (some x) (some y)) none = minNonZero (some x) (some y)
        rw [minNonZero_some]; rfl
      | some z =>
        rw [minNonZero_some, minNonZero_some, minNonZero_some, minNonZero_some]
        congr 1
        by_cases h1 : x < y <;> by_cases h2 : y < z <;> by_cases h3 : x < z <;>
          simp only [h1, h2, h3, if_true, if_false] <;> (try rfl) <;> (try omega) <;> (split <;> omega)

theorem earliest_perm (acc : Deadline) (l l' : List (Deadline × Nat)) (h : l.Perm l') :
    earliest acc l = earliest acc l' := by
  induction h generalizing acc with
  | nil => rfl
  | cons x _ ih => obtain ⟨d, k⟩ := x; simp only [earliest]; exact ih _
  | swap x y l =>
    obtain ⟨d, k⟩ := x; obtain ⟨d', k'⟩ := y
    simp only [earliest]
    rw [minNonZero_assoc, minNonZero_assoc, minNonZero_comm d' d]
  | trans _ _ ih1 ih2 => exact (ih1 acc).trans (ih2 acc)

theorem earliest_le (acc : Deadline) (l : List (Deadline × Nat)) :
    (∀ x, acc = some x → ∃ c, earliest acc l = some c ∧ c ≤ x) ∧
    (∀ d k x, (d, k) ∈ l → d = some x → ∃ c, earliest acc l = some c ∧ c ≤ x) := by
  induction l generalizing acc with
  | nil =>
    exact ⟨fun x h => ⟨x, h, Int.le_refl _⟩, by intro d k x h; cases h⟩
  | cons y rest ih =>
    obtain ⟨d0, k0⟩ := y
    simp only [earliest]
    obtain ⟨ih1, ih2⟩ := ih (minNonZero acc d0)
    have hmin : ∀ x, (acc = some x ∨ d0 = some x) → ∃ m, minNonZero acc d0 = some m ∧ m ≤ x := by
      intro x hx
      cases acc <;> cases d0 <;> simp only [minNonZero] <;> simp at hx
      · exact ⟨x, by rw [hx], Int.le_refl _⟩
      · exact ⟨x, by rw [hx], Int.le_refl _⟩
      · rename_i a b
        by_cases h : a < b
        · simp only [h, if_true]; exact ⟨a, rfl, by rcases hx with hx | hx <;> omega⟩
        · simp only [h, if_false]; exact ⟨b, rfl, by rcases hx with hx | hx <;> omega⟩
    constructor
    · intro x hx
      obtain ⟨m, hm, hmx⟩ := hmin x (Or.inl hx)
      obtain ⟨c, hc, hcm⟩ := ih1 m hm
      exact ⟨c, hc, by omega⟩
    · intro d k x hmem hd
      rcases List.mem_cons.mp hmem with heq | hmem
      · cases heq
        obtain ⟨m, hm, hmx⟩ := hmin x (Or.inr hd)
        obtain ⟨c, hc, hcm⟩ := ih1 m hm
        exact ⟨c, hc, by omega⟩
      · exact ih2 d k x hmem hd

end SdnsVerif.Lemmas.Lease
