import SdnsVerif.Model.Packer
/-!
Helper lemmas for C15 (`Props/C15.lean`): bit-field algebra of the header word
and of the extended-rcode TTL, the buffer writes of `packInto` reduced to a
buffer-free description (`purePack`), and that description compared with the
model of the library's `Msg.Pack`.
-/
namespace SdnsVerif.Lemmas.Packer
open SdnsVerif.Model.Packer

theorem msgBits_eq_libBits (h : Hdr) : msgBits h = libBits h := by
  rcases h with ⟨id, qr, op, aa, tc, rd, ra, z, ad, cd, rc⟩
  cases qr <;> cases aa <;> cases tc <;> cases rd <;> cases ra <;> cases z <;> cases ad <;> cases cd <;> rfl


theorem or_flag (x bit : Nat) (b : Bool) : (if b then x ||| bit else x) = x ||| (if b then bit else 0) := by
  cases b <;> simp

theorem b2n_le (b : Bool) : b2n b ≤ 1 := by cases b <;> simp [b2n]

theorem flag_eq (b : Bool) (i : Nat) : (if b then 1 <<< i else 0) = 2 ^ i * b2n b := by
  cases b <;> simp [b2n, Nat.one_shiftLeft]

theorem msgBits_chain (h : Hdr) : msgBits h =
    bitsBase h ||| 2^15 * b2n h.response ||| 2^10 * b2n h.authoritative ||| 2^9 * b2n h.truncated |||
      2^8 * b2n h.recursionDesired ||| 2^7 * b2n h.recursionAvailable ||| 2^6 * b2n h.zero |||
      2^5 * b2n h.authenticatedData ||| 2^4 * b2n h.checkingDisabled := by
  simp only [msgBits, flagTable, List.foldl, or_flag, flag_eq]

theorem u16_lt (i : Int) : u16 i < 65536 := by unfold u16; omega
theorem u16_mod16_lt (i : Int) : u16 (i % 16) < 16 := by unfold u16; omega

theorem msgBits_eq_specBits (h : Hdr) (hop : u16 h.opcode < 16) : msgBits h = specBits h := by
  rw [msgBits_chain]
  unfold specBits
  have hr := u16_mod16_lt h.rcode
  have h1 := b2n_le h.response
  have h2 := b2n_le h.authoritative
  have h3 := b2n_le h.truncated
  have h4 := b2n_le h.recursionDesired
  have h5 := b2n_le h.recursionAvailable
  have h6 := b2n_le h.zero
  have h7 := b2n_le h.authenticatedData
  have h8 := b2n_le h.checkingDisabled
  have hbase : bitsBase h = 2^11 * u16 h.opcode ||| u16 (h.rcode % 16) := by
    unfold bitsBase
    rw [Nat.shiftLeft_eq, Nat.mod_eq_of_lt (by omega), Nat.mul_comm]
  rw [hbase]
  generalize u16 h.opcode = a at *
  generalize u16 (h.rcode % 16) = r at *
  generalize b2n h.response = q1 at *
  generalize b2n h.authoritative = q2 at *
  generalize b2n h.truncated = q3 at *
  generalize b2n h.recursionDesired = q4 at *
  generalize b2n h.recursionAvailable = q5 at *
  generalize b2n h.zero = q6 at *
  generalize b2n h.authenticatedData = q7 at *
  generalize b2n h.checkingDisabled = q8 at *
  have e4 := Nat.two_pow_add_eq_or_of_lt (i := 4) (b := r) (by omega) q8
  have e5 := Nat.two_pow_add_eq_or_of_lt (i := 5) (b := 2^4*q8 + r) (by omega) q7
  have e6 := Nat.two_pow_add_eq_or_of_lt (i := 6) (b := 2^5*q7 + (2^4*q8 + r)) (by omega) q6
  have e7 := Nat.two_pow_add_eq_or_of_lt (i := 7) (b := 2^6*q6 + (2^5*q7 + (2^4*q8 + r))) (by omega) q5
  have e8 := Nat.two_pow_add_eq_or_of_lt (i := 8) (b := 2^7*q5 + (2^6*q6 + (2^5*q7 + (2^4*q8 + r)))) (by omega) q4
  have e9 := Nat.two_pow_add_eq_or_of_lt (i := 9) (b := 2^8*q4 + (2^7*q5 + (2^6*q6 + (2^5*q7 + (2^4*q8 + r))))) (by omega) q3
  have e10 := Nat.two_pow_add_eq_or_of_lt (i := 10) (b := 2^9*q3 + (2^8*q4 + (2^7*q5 + (2^6*q6 + (2^5*q7 + (2^4*q8 + r)))))) (by omega) q2
  have e11 := Nat.two_pow_add_eq_or_of_lt (i := 11) (b := 2^10*q2 + (2^9*q3 + (2^8*q4 + (2^7*q5 + (2^6*q6 + (2^5*q7 + (2^4*q8 + r))))))) (by omega) a
  have e15 := Nat.two_pow_add_eq_or_of_lt (i := 15) (b := 2^11*a + (2^10*q2 + (2^9*q3 + (2^8*q4 + (2^7*q5 + (2^6*q6 + (2^5*q7 + (2^4*q8 + r)))))))) (by omega) q1
  have hs : 32768 * q1 + 2048 * (a % 16) + 1024 * q2 + 512 * q3 + 256 * q4 + 128 * q5 + 64 * q6 + 32 * q7 + 16 * q8 + r =
      2^15*q1 + (2^11*a + (2^10*q2 + (2^9*q3 + (2^8*q4 + (2^7*q5 + (2^6*q6 + (2^5*q7 + (2^4*q8 + r)))))))) := by omega
  rw [hs, e15, e11, e10, e9, e8, e7, e6, e5, e4]
  ac_rfl


theorem and_ffffff (x : Nat) : x &&& 0x00FFFFFF = x % 2^24 := by
  have : (0x00FFFFFF : Nat) = 2^24 - 1 := by decide
  rw [this, Nat.and_two_pow_sub_one_eq_mod]

theorem extTtl_eq (ttl rc : Nat) (hrc : rc ≤ 4095) : extTtl ttl rc = 2^24 * (rc / 16) + ttl % 2^24 := by
  unfold extTtl
  rw [and_ffffff, Nat.shiftRight_eq_div_pow, Nat.shiftLeft_eq]
  have h2 : rc / 2^4 % 4294967296 = rc / 16 := by omega
  rw [h2]
  have h3 : rc / 16 * 2^24 % 4294967296 = 2^24 * (rc / 16) := by omega
  rw [h3, Nat.or_comm]
  exact (Nat.two_pow_add_eq_or_of_lt (Nat.mod_lt _ (by decide)) _).symm

theorem libExtTtl_eq (ttl rc : Nat) (hrc : rc ≤ 4095) : libExtTtl ttl rc = 2^24 * (rc / 16) + ttl % 2^24 := by
  unfold libExtTtl
  rw [Nat.mod_eq_of_lt (by omega : rc < 65536)]
  exact extTtl_eq ttl rc hrc


theorem writeAt_length (buf : Bytes) (off : Nat) (bs : Bytes) : (writeAt buf off bs).length = buf.length := by
  unfold writeAt
  simp only [List.length_take, List.length_append, List.length_drop]
  omega

theorem writeAt_take (buf : Bytes) (off : Nat) (bs : Bytes) (h : off + bs.length ≤ buf.length) :
    (writeAt buf off bs).take (off + bs.length) = buf.take off ++ bs := by
  unfold writeAt
  rw [List.take_take, Nat.min_eq_left h, List.append_assoc, List.take_append]
  simp only [List.length_take]
  rw [Nat.min_eq_left (by omega)]
  rw [List.take_of_length_le (by simp; omega)]
  simp

theorem be16_length (n : Nat) : (be16 n).length = 2 := rfl

theorem writeAt_take_pre (buf : Bytes) (off : Nat) (bs pre : Bytes) (k : Nat) (hk : k = off + bs.length)
    (hpre : buf.take off = pre) (h : off + bs.length ≤ buf.length) :
    (writeAt buf off bs).take k = pre ++ bs := by
  subst hk; rw [writeAt_take _ _ _ h, hpre]

theorem putHeader_length {ν : Type} (m : Msg ν) (buf : Bytes) : (putHeader m buf).length = buf.length := by
  simp [putHeader, writeAt_length]

theorem putHeader_take {ν : Type} (m : Msg ν) (buf : Bytes) (h : headerLen ≤ buf.length) :
    (putHeader m buf).take headerLen = headerBytes m (msgBits m.hdr) := by
  unfold headerLen at *
  unfold putHeader headerBytes
  simp only
  have l := be16_length
  apply writeAt_take_pre _ _ _ _ 12 (by simp [l]) _ (by simp [writeAt_length, l]; omega)
  apply writeAt_take_pre _ _ _ _ 10 (by simp [l]) _ (by simp [writeAt_length, l]; omega)
  apply writeAt_take_pre _ _ _ _ 8 (by simp [l]) _ (by simp [writeAt_length, l]; omega)
  apply writeAt_take_pre _ _ _ _ 6 (by simp [l]) _ (by simp [writeAt_length, l]; omega)
  apply writeAt_take_pre _ _ _ _ 4 (by simp [l]) _ (by simp [writeAt_length, l]; omega)
  have := writeAt_take_pre buf 0 (be16 m.hdr.id) [] 2 (by simp [l]) (by simp) (by simp [l]; omega)
  simpa using this

/-- buffer-free description of the question loop of `packInto` (`N` = buffer length). -/
def pureQs {β ν δ : Type} (lib : Lib β ν δ) (N : Nat) : List (Question ν) → δ → Bytes → Option (Bytes × δ)
  | [], d, acc => some (acc, d)
  | q :: t, d, acc =>
    match lib.packName q.name N acc.length d with
    | .fail _ => none
    | .ok nb d' _ =>
      if acc.length + nb.length + 4 > N then none
      else pureQs lib N t d' (acc ++ nb ++ (be16 q.qtype ++ be16 q.qclass))

/-- buffer-free description of the record loop of `packInto`. -/
def pureRecs {β ν δ : Type} (lib : Lib β ν δ) (N : Nat) (view : Nat → Obj β) :
    List Slot → δ → Bytes → Option (Bytes × δ)
  | [], d, acc => some (acc, d)
  | none :: _, _, _ => none
  | some p :: t, d, acc =>
    if acc.length ≥ N then none else
    match lib.packRR (view p) N acc.length d with
    | .fail _ => none
    | .ok bs d' _ =>
      if bs.length = 0 ∨ acc.length + bs.length > N then none
      else pureRecs lib N view t d' (acc ++ bs)

/-- what a cursor has produced so far. -/
def cursorOut {β δ : Type} (c : Cursor β δ) : Bytes × δ := (c.st.buf.take c.off, c.dict)

/-- facts every cursor reachable from `c` keeps. -/
def CursorSame {β δ : Type} (c c' : Cursor β δ) : Prop :=
  c'.heap = c.heap ∧ c'.st.buf.length = c.st.buf.length ∧ c'.st.compression = c.st.compression

theorem cursorSame_refl {β δ : Type} (c : Cursor β δ) : CursorSame c c := ⟨rfl, rfl, rfl⟩

theorem take_length_of_le {α : Type} (l : List α) (k : Nat) (h : k ≤ l.length) : (l.take k).length = k := by
  simp [List.length_take]; omega

theorem packRecs_pure {β ν δ : Type} (lib : Lib β ν δ) (opt : Option Nat) (rc : Nat) (N : Nat) :
    ∀ (slots : List Slot) (c : Cursor β δ), c.st.buf.length = N → c.off ≤ N →
      ((packRecs lib opt rc slots c).1.map cursorOut =
          pureRecs lib N (targetOf c.heap opt rc) slots c.dict (c.st.buf.take c.off)) ∧
      CursorSame c (packRecs lib opt rc slots c).2 ∧
      (∀ c', (packRecs lib opt rc slots c).1 = some c' → c' = (packRecs lib opt rc slots c).2 ∧ c'.off ≤ N) := by
  intro slots
  induction slots with
  | nil => intro c hN hoff; simp [packRecs, pureRecs, cursorOut, cursorSame_refl]; omega
  | cons s t ih =>
    intro c hN hoff
    have hlen : (c.st.buf.take c.off).length = c.off := take_length_of_le _ _ (by omega)
    cases s with
    | none => simp [packRecs, pureRecs, cursorSame_refl]
    | some p =>
      unfold packRecs pureRecs
      rw [hlen, hN]
      by_cases hfull : c.off ≥ N
      · simp [hfull, cursorSame_refl]
      · simp only [hfull, if_false]
        unfold exportedPackRR
        simp only [hN]
        cases hp : lib.packRR (targetOf c.heap opt rc p) N c.off c.dict with
        | fail d => simp [CursorSame]
        | ok bs d rdl =>
          simp only [writeAt_length, hN]
          by_cases hg : c.off + bs.length ≤ c.off ∨ c.off + bs.length > N
          · have hg' : bs.length = 0 ∨ c.off + bs.length > N := by omega
            rw [if_pos hg']
            simp [hg, CursorSame, writeAt_length]
          · have hg' : ¬ (bs.length = 0 ∨ c.off + bs.length > N) := by omega
            rw [if_neg hg']
            simp only [hg, if_false]
            have := ih { off := c.off + bs.length, dict := d, heap := c.heap,
                         st := { buf := writeAt c.st.buf c.off bs, compression := c.st.compression,
                                 opt := if ((c.heap p).isOPT && opt == some p) = true then some (targetOf c.heap opt rc p) else c.st.opt,
                                 rrRef := none,
                                 rrHdr := Option.map (fun h => { h with rdlength := rdl % 65536 }) (some (targetOf c.heap opt rc p).hdr) } }
              (by simp [writeAt_length, hN]) (by simp; omega)
            simp only [writeAt_take _ _ _ (by omega : c.off + bs.length ≤ c.st.buf.length)] at this
            obtain ⟨h1, h2, h3⟩ := this
            refine ⟨h1, ?_, h3⟩
            obtain ⟨a, b, c3⟩ := h2
            exact ⟨a, by rw [b]; simp [writeAt_length], c3⟩

theorem packQuestions_pure {β ν δ : Type} (lib : Lib β ν δ) (N : Nat) :
    ∀ (qs : List (Question ν)) (c : Cursor β δ), c.st.buf.length = N → c.off ≤ N →
      ((packQuestions lib qs c).1.map cursorOut = pureQs lib N qs c.dict (c.st.buf.take c.off)) ∧
      CursorSame c (packQuestions lib qs c).2 ∧
      (∀ c', (packQuestions lib qs c).1 = some c' → c' = (packQuestions lib qs c).2 ∧ c'.off ≤ N ∧
          c'.st.rrRef = c.st.rrRef ∧ c'.st.rrHdr = c.st.rrHdr ∧ c'.st.opt = c.st.opt) := by
  intro qs
  induction qs with
  | nil => intro c hN hoff; simp [packQuestions, pureQs, cursorOut, cursorSame_refl]; omega
  | cons q t ih =>
    intro c hN hoff
    have hlen : (c.st.buf.take c.off).length = c.off := take_length_of_le _ _ (by omega)
    unfold packQuestions pureQs packQuestion
    rw [hlen, hN]
    cases hp : lib.packName q.name N c.off c.dict with
    | fail d => simp [CursorSame]
    | ok nb d rdl =>
      simp only
      by_cases hg : c.off + nb.length + 4 > N
      · simp [hg, CursorSame]
      · simp only [hg, if_false]
        have := ih { c with off := c.off + nb.length + 4, dict := d,
                            st := { c.st with buf := writeAt (writeAt c.st.buf c.off nb) (c.off + nb.length)
                                                    (be16 q.qtype ++ be16 q.qclass) } }
          (by simp [writeAt_length, hN]) (by simp; omega)
        have e1 : (writeAt (writeAt c.st.buf c.off nb) (c.off + nb.length) (be16 q.qtype ++ be16 q.qclass)).take
            (c.off + nb.length + 4) = c.st.buf.take c.off ++ nb ++ (be16 q.qtype ++ be16 q.qclass) := by
          apply writeAt_take_pre _ _ _ _ _ (by simp [be16_length]) _ (by simp [writeAt_length, be16_length]; omega)
          exact writeAt_take _ _ _ (by omega)
        simp only [e1] at this
        obtain ⟨h1, h2, h3⟩ := this
        refine ⟨h1, ?_, h3⟩
        obtain ⟨a, b, c3⟩ := h2
        exact ⟨a, by rw [b]; simp [writeAt_length], c3⟩

/-- buffer-free description of `packInto`: the bytes it leaves in `buf[:off]`
and the dictionary, or `none` when it reports `ok = false`. -/
def purePack {β ν δ : Type} (lib : Lib β ν δ) (N : Nat) (m : Msg ν) (heap : Heap β) (opt : Option Nat)
    (d : δ) : Option (Bytes × δ) :=
  match pureQs lib N m.question d (headerBytes m (msgBits m.hdr)) with
  | none => none
  | some (acc, d1) => pureRecs lib N (targetOf heap opt m.hdr.rcode.toNat) m.records d1 acc

theorem headerBytes_length {ν : Type} (m : Msg ν) (b : Nat) : (headerBytes m b).length = headerLen := by
  simp [headerBytes, be16_length, headerLen]

theorem packInto_pure {β ν δ : Type} (lib : Lib β ν δ) (m : Msg ν) (heap : Heap β) (opt : Option Nat)
    (d : δ) (st : PState β δ) (N : Nat) (hN : st.buf.length = N) (h12 : headerLen ≤ N) :
    ((packInto lib m heap opt d st).1.map
        (fun off => ((packInto lib m heap opt d st).2.st.buf.take off, (packInto lib m heap opt d st).2.dict))
      = purePack lib N m heap opt d) ∧
    (packInto lib m heap opt d st).2.heap = heap ∧
    (packInto lib m heap opt d st).2.st.buf.length = N ∧
    (packInto lib m heap opt d st).2.st.compression = st.compression ∧
    (∀ off, (packInto lib m heap opt d st).1 = some off → off ≤ N) := by
  unfold packInto purePack
  simp only
  have hq := packQuestions_pure lib N m.question
    { off := headerLen, dict := d, heap := heap, st := { st with buf := putHeader m st.buf } }
    (by simp [putHeader_length, hN]) h12
  simp only [putHeader_take m st.buf (by omega)] at hq
  obtain ⟨hq1, hq2, hq3⟩ := hq
  rw [← hq1]
  cases hpq : packQuestions lib m.question
      { off := headerLen, dict := d, heap := heap, st := { st with buf := putHeader m st.buf } } with
  | mk r1 r2 =>
    rw [hpq] at hq2 hq3
    obtain ⟨s1, s2, s3⟩ := hq2
    simp only at s1 s2 s3
    cases r1 with
    | none =>
      simp only [Option.map]
      exact ⟨trivial, s1, by rw [s2]; simp [putHeader_length, hN], s3, by intro off h; cases h⟩
    | some c1 =>
      obtain ⟨e1, e2, _⟩ := hq3 c1 rfl
      simp only at e1
      subst e1
      have hr := packRecs_pure lib opt m.hdr.rcode.toNat N m.records c1
        (by rw [s2]; simp [putHeader_length, hN]) e2
      obtain ⟨hr1, hr2, hr3⟩ := hr
      simp only [Option.map, cursorOut]
      rw [s1] at hr1
      rw [← hr1]
      cases hpr : packRecs lib opt m.hdr.rcode.toNat m.records c1 with
      | mk q1 q2 =>
        rw [hpr] at hr2 hr3
        obtain ⟨t1, t2, t3⟩ := hr2
        simp only at t1 t2 t3
        cases q1 with
        | none =>
          simp only [Option.map]
          exact ⟨trivial, by rw [t1, s1], by rw [t2, s2]; simp [putHeader_length, hN], by rw [t3, s3],
            by intro off h; cases h⟩
        | some c2 =>
          obtain ⟨f1, f2⟩ := hr3 c2 rfl
          simp only at f1
          subst f1
          simp only [Option.map, cursorOut]
          exact ⟨trivial, by rw [t1, s1], by rw [t2, s2]; simp [putHeader_length, hN], by rw [t3, s3],
            by intro off h; cases h; exact f2⟩

/-! ### OPT selection -/

theorem isEdns0Rev_eq {β : Type} (heap : Heap β) (l : List Slot) :
    isEdns0Rev heap l = if (selectOPTRev heap l).2 then some (selectOPTRev heap l).1 else none := by
  induction l with
  | nil => simp [isEdns0Rev, selectOPTRev]
  | cons s t ih =>
    cases s with
    | none => simp [isEdns0Rev, selectOPTRev]
    | some p =>
      unfold isEdns0Rev selectOPTRev
      by_cases ht : (heap p).hdr.rrtype = typeOPT
      · cases ho : (heap p).isOPT <;> simp [ht]
      · simp [ht, ih]

theorem selectOPTRev_some {β : Type} (heap : Heap β) (l : List Slot) (p : Nat) (b : Bool)
    (h : selectOPTRev heap l = (some p, b)) :
    (heap p).isOPT = true ∧ (heap p).hdr.rrtype = typeOPT ∧ some p ∈ l ∧ b = true := by
  induction l with
  | nil => simp [selectOPTRev] at h
  | cons s t ih =>
    cases s with
    | none => simp [selectOPTRev] at h
    | some q =>
      unfold selectOPTRev at h
      by_cases ht : (heap q).hdr.rrtype = typeOPT
      · cases ho : (heap q).isOPT
        · simp [ht, ho] at h
        · simp [ht, ho] at h
          obtain ⟨rfl, rfl⟩ := h
          exact ⟨ho, ht, by simp, rfl⟩
      · simp [ht] at h
        obtain ⟨a, b', c, d⟩ := ih h
        exact ⟨a, b', by simp [c], d⟩

theorem targetOf_eq_libHeap {β : Type} (heap : Heap β) (extra : List Slot) (opt : Option Nat) (rc : Nat)
    (hsel : selectOPT heap extra = (opt, true)) (hrc : rc ≤ 4095) :
    targetOf heap opt rc = libHeap heap extra rc := by
  funext p
  unfold libHeap isEdns0
  rw [isEdns0Rev_eq]
  unfold selectOPT at hsel
  rw [hsel]
  simp only [if_true]
  cases opt with
  | none => simp [targetOf]
  | some po =>
    obtain ⟨ho, _, _, _⟩ := selectOPTRev_some heap _ po true hsel
    simp only [libSetExt, Heap.set, targetOf]
    by_cases hp : p = po
    · subst hp
      simp [ho, extTtl_eq _ _ hrc, libExtTtl_eq _ _ hrc]
    · have : (some po == some p) = false := by simp; exact fun h => hp h.symm
      simp [hp, this]

/-! ### the library over the same primitives -/

/-- **Assumption on the library primitives** (named in the theorems that use
it): a larger output buffer never changes a successful result.  Their bounds
checks only ever compare against `len(msg)`. -/
structure Mono {β ν δ : Type} (lib : Lib β ν δ) : Prop where
  rr : ∀ o L L' off d bs d' r, L ≤ L' → lib.packRR o L off d = .ok bs d' r → lib.packRR o L' off d = .ok bs d' r
  name : ∀ n L L' off d bs d' r, L ≤ L' → lib.packName n L off d = .ok bs d' r → lib.packName n L' off d = .ok bs d' r

theorem pureQs_lib {β ν δ : Type} (lib : Lib β ν δ) (hm : Mono lib) (N L : Nat) (hL : N ≤ L) :
    ∀ (qs : List (Question ν)) (d : δ) (acc b : Bytes) (d' : δ),
      pureQs lib N qs d acc = some (b, d') → libQuestions lib L qs d acc = some (b, d') := by
  intro qs
  induction qs with
  | nil => intro d acc b d' h; simpa [pureQs, libQuestions] using h
  | cons q t ih =>
    intro d acc b d' h
    unfold pureQs at h
    unfold libQuestions libQuestion
    cases hp : lib.packName q.name N acc.length d with
    | fail _ => simp [hp] at h
    | ok nb d1 r =>
      rw [hp] at h
      simp only at h
      rw [hm.name _ _ _ _ _ _ _ _ hL hp]
      by_cases hg : acc.length + nb.length + 4 > N
      · simp [hg] at h
      · simp only [hg, if_false] at h
        have h1 : ¬ (acc.length + nb.length + 2 > L) := by omega
        have h2 : ¬ (acc.length + nb.length + 2 + 2 > L) := by omega
        simp only [h1, h2, if_false]
        have := ih _ _ _ _ h
        simpa [List.append_assoc] using this

theorem pureRecs_lib {β ν δ : Type} (lib : Lib β ν δ) (hm : Mono lib) (N L : Nat) (hL : N ≤ L)
    (view : Nat → Obj β) :
    ∀ (slots : List Slot) (d : δ) (acc b : Bytes) (d' : δ),
      pureRecs lib N view slots d acc = some (b, d') → libRecs lib L view slots d acc = .ok b := by
  intro slots
  induction slots with
  | nil => intro d acc b d' h; simp [pureRecs] at h; simp [libRecs, h.1]
  | cons s t ih =>
    intro d acc b d' h
    cases s with
    | none => simp [pureRecs] at h
    | some p =>
      unfold pureRecs at h
      unfold libRecs
      by_cases hfull : acc.length ≥ N
      · simp [hfull] at h
      · simp only [hfull, if_false] at h
        cases hp : lib.packRR (view p) N acc.length d with
        | fail _ => simp [hp] at h
        | ok bs d1 r =>
          rw [hp] at h
          simp only at h
          rw [hm.rr _ _ _ _ _ _ _ _ hL hp]
          by_cases hg : bs.length = 0 ∨ acc.length + bs.length > N
          · rw [if_pos hg] at h; cases h
          · rw [if_neg hg] at h
            exact ih _ _ _ _ h

/-! ### `TryPack` reduced to `purePack` -/

/-- the compression argument `TryPack` hands to `packInto`. -/
def dictFor {β ν δ : Type} (lib : Lib β ν δ) (m : Msg ν) (st : PState β δ) : δ :=
  if m.compress && msgIsCompressible m then st.compression.getD lib.emptyDict else lib.nilDict

/-- the pooled state `TryPack` works on after the dictionary is in place. -/
def stFor {β ν δ : Type} (lib : Lib β ν δ) (m : Msg ν) (st : PState β δ) : PState β δ :=
  if m.compress && msgIsCompressible m then
    (match st.compression with
      | none => { st with compression := some lib.emptyDict }
      | some _ => st)
  else st

theorem stFor_buf {β ν δ : Type} (lib : Lib β ν δ) (m : Msg ν) (st : PState β δ) :
    (stFor lib m st).buf = st.buf := by
  unfold stFor; split
  · split <;> rfl
  · rfl

theorem stFor_dict {β ν δ : Type} (lib : Lib β ν δ) (m : Msg ν) (st : PState β δ) :
    (if (m.compress && msgIsCompressible m) = true then (stFor lib m st).compression.getD lib.emptyDict
      else lib.nilDict) = dictFor lib m st := by
  unfold stFor dictFor
  cases hc : (m.compress && msgIsCompressible m)
  · simp
  · cases hs : st.compression <;> simp [hs]

theorem tryPack_decline {β ν δ : Type} (lib : Lib β ν δ) (m : Msg ν) (heap : Heap β) (st : PState β δ)
    (e : Decline) (h : preflight lib m heap = .error e) :
    tryPack lib m heap st = { handled := false, consumed := none, st := st, heap := heap } := by
  unfold tryPack; rw [h]

theorem release_fields {β ν δ : Type} (lib : Lib β ν δ) (st : PState β δ) :
    (release lib st).rrRef = none ∧ (release lib st).rrHdr = none ∧ (release lib st).opt = none ∧
    ((release lib st).compression = none ∨ (release lib st).compression = some lib.emptyDict) ∧
    (release lib st).buf = st.buf := by
  unfold release
  refine ⟨rfl, rfl, rfl, ?_, rfl⟩
  simp only
  cases st.compression with
  | none => simp
  | some d => by_cases h : lib.dictLen d > maxPooledCompressionEntries <;> simp [h]

/-- everything `TryPack` does once the preflight has passed, in terms of `purePack`. -/
theorem tryPack_ok {β ν δ : Type} (lib : Lib β ν δ) (m : Msg ν) (heap : Heap β) (st : PState β δ)
    (opt : Option Nat) (h : preflight lib m heap = .ok opt) (hN : st.buf.length = packBufferSize) :
    (tryPack lib m heap st).heap = heap ∧
    (tryPack lib m heap st).st.buf.length = packBufferSize ∧
    (tryPack lib m heap st).st.rrRef = none ∧ (tryPack lib m heap st).st.rrHdr = none ∧
    (tryPack lib m heap st).st.opt = none ∧
    ((tryPack lib m heap st).st.compression = none ∨ (tryPack lib m heap st).st.compression = some lib.emptyDict) ∧
    (purePack lib packBufferSize m heap opt (dictFor lib m st) = none →
      (tryPack lib m heap st).handled = false ∧ (tryPack lib m heap st).consumed = none) ∧
    (∀ b d', purePack lib packBufferSize m heap opt (dictFor lib m st) = some (b, d') →
      (tryPack lib m heap st).handled = true ∧
      ∃ s, (tryPack lib m heap st).consumed = some s ∧ s.data = b ∧ s.cap = b.length ∧ s.reachable = b) := by
  have hpi := packInto_pure lib m heap opt (dictFor lib m st) (stFor lib m st) packBufferSize
    (by rw [stFor_buf]; exact hN) (by decide)
  obtain ⟨p1, p2, p3, p4, p5⟩ := hpi
  have hunf : tryPack lib m heap st =
      (match packInto lib m heap opt (dictFor lib m st) (stFor lib m st) with
       | (none, c) =>
         { handled := false, consumed := none,
           st := release lib (if (m.compress && msgIsCompressible m) = true then { c.st with compression := some c.dict } else c.st),
           heap := c.heap }
       | (some off, c) =>
         { handled := true, consumed := some (slice3 c.st.buf off),
           st := release lib (if (m.compress && msgIsCompressible m) = true then { c.st with compression := some c.dict } else c.st),
           heap := c.heap }) := by
    unfold tryPack
    rw [h]
    simp only
    rw [← stFor_dict lib m st]
    rfl
  rw [hunf]
  cases hpk : packInto lib m heap opt (dictFor lib m st) (stFor lib m st) with
  | mk r1 c =>
    rw [hpk] at p1 p2 p3 p4 p5
    simp only at p1 p2 p3 p4 p5
    have hrel := release_fields lib
      (if (m.compress && msgIsCompressible m) = true then { c.st with compression := some c.dict } else c.st)
    obtain ⟨q1, q2, q3, q4, q5⟩ := hrel
    have hbuf : (if (m.compress && msgIsCompressible m) = true then { c.st with compression := some c.dict } else c.st).buf
        = c.st.buf := by split <;> rfl
    cases r1 with
    | none =>
      simp only
      refine ⟨p2, by rw [q5, hbuf]; exact p3, q1, q2, q3, q4, fun _ => by simp, ?_⟩
      intro b d' hb
      rw [← p1] at hb
      simp at hb
    | some off =>
      simp only
      refine ⟨p2, by rw [q5, hbuf]; exact p3, q1, q2, q3, q4, ?_, ?_⟩
      · intro hb
        rw [← p1] at hb
        simp at hb
      · intro b d' hb
        rw [← p1] at hb
        simp only [Option.map, Option.some.injEq, Prod.mk.injEq] at hb
        have hoff := p5 off rfl
        refine ⟨by simp, slice3 c.st.buf off, by simp, hb.1, ?_, ?_⟩
        · rw [← hb.1]; simp [slice3, List.length_take]; omega
        · rw [← hb.1]; simp [slice3, Slice.reachable]

theorem preflight_ok {β ν δ : Type} (lib : Lib β ν δ) (m : Msg ν) (heap : Heap β) (opt : Option Nat)
    (h : preflight lib m heap = .ok opt) :
    0 ≤ m.hdr.rcode ∧ m.hdr.rcode ≤ 0xFFF ∧ selectOPT heap m.extra = (opt, true) ∧
    ¬ (opt.isNone ∧ m.hdr.rcode > 0xF) ∧ msgLen lib heap m ≤ packBufferSize ∧
    (∀ s ∈ m.records, ∃ p, s = some p ∧ lib.adm (heap p) = true) := by
  unfold preflight at h
  split at h
  · cases h
  · rename_i hr
    split at h
    · cases h
    · rename_i hadm
      split at h
      · cases h
      · rename_i o hsel
        split at h
        · cases h
        · rename_i hext
          split at h
          · cases h
          · rename_i hlen
            cases h
            refine ⟨by omega, by omega, hsel, hext, by omega, ?_⟩
            intro s hs
            simp only [Bool.not_eq_true', Bool.not_eq_false] at hadm
            have := (List.all_eq_true.mp (by simpa using hadm)) s hs
            cases s with
            | none => simp [admSlot] at this
            | some p => exact ⟨p, rfl, by simpa [admSlot] using this⟩


/-! ### `libraryPackImmutable` -/

def swapSlot (p fresh : Nat) (s : Slot) : Slot := if s = some p then some fresh else s

theorem replaceOPT_eq (p fresh : Nat) (l : List Slot) : replaceOPT p fresh l = l.map (swapSlot p fresh) := rfl

theorem isEdns0Rev_swap {β : Type} (heap : Heap β) (p fresh : Nat) :
    ∀ l : List Slot, (∀ s ∈ l, s ≠ some fresh) → selectOPTRev heap l = (some p, true) →
      isEdns0Rev (heap.set fresh (heap p)) (l.map (swapSlot p fresh)) = some (some fresh) := by
  intro l
  induction l with
  | nil => intro _ h; simp [selectOPTRev] at h
  | cons s t ih =>
    intro hf h
    obtain ⟨hopt, htype, _, _⟩ := selectOPTRev_some heap _ p true h
    cases s with
    | none => simp [selectOPTRev] at h
    | some q =>
      by_cases hq : q = p
      · subst hq
        simp [swapSlot, isEdns0Rev, Heap.set, htype, hopt]
      · have hqf : q ≠ fresh := fun e => hf (some q) (by simp) (by rw [e])
        have hsw : swapSlot p fresh (some q) = some q := by simp [swapSlot, hq]
        simp only [List.map_cons, hsw, isEdns0Rev, Heap.set, hqf, if_false]
        unfold selectOPTRev at h
        by_cases ht : (heap q).hdr.rrtype = typeOPT
        · cases ho : (heap q).isOPT
          · simp [ht, ho] at h
          · simp [ht, ho] at h; exact absurd h hq
        · simp only [ht, ne_eq, not_false_eq_true, if_true] at h
          simp only [ht, if_false]
          exact ih (fun s hs => hf s (by simp [hs])) h

theorem libRecs_swap {β ν δ : Type} (lib : Lib β ν δ) (L : Nat) (heapA heapB : Heap β) (p fresh : Nat)
    (hp : heapA fresh = heapB p) :
    ∀ (l : List Slot) (d : δ) (acc : Bytes),
      (∀ q, some q ∈ l → q ≠ p → heapA q = heapB q) →
      libRecs lib L heapA (l.map (swapSlot p fresh)) d acc = libRecs lib L heapB l d acc := by
  intro l
  induction l with
  | nil => intro d acc _; rfl
  | cons s t ih =>
    intro d acc h
    cases s with
    | none => simp [swapSlot, libRecs]
    | some q =>
      have hview : (match swapSlot p fresh (some q) with | some x => heapA x | none => heapB q) = heapB q := by
        by_cases hq : q = p
        · subst hq; simp [swapSlot, hp]
        · simp [swapSlot, hq, h q (by simp) hq]
      by_cases hq : q = p
      · subst hq
        simp only [List.map_cons, swapSlot, if_true, libRecs, hp]
        cases lib.packRR (heapB q) L acc.length d with
        | fail _ => rfl
        | ok bs d' _ => exact ih d' _ (fun x hx hxp => h x (by simp [hx]) hxp)
      · have e : heapA q = heapB q := h q (by simp) hq
        have hsw : swapSlot p fresh (some q) = some q := by simp [swapSlot, hq]
        simp only [List.map_cons, hsw, libRecs, e]
        cases lib.packRR (heapB q) L acc.length d with
        | fail _ => rfl
        | ok bs d' _ => exact ih d' _ (fun x hx hxp => h x (by simp [hx]) hxp)

theorem rrLen_swap {β ν δ : Type} (lib : Lib β ν δ) (heapA heapB : Heap β) (p fresh : Nat)
    (hp : heapA fresh = heapB p) :
    ∀ (l : List Slot), (∀ q, some q ∈ l → q ≠ p → heapA q = heapB q) →
      (l.map (swapSlot p fresh)).map (slotLen lib heapA) = l.map (slotLen lib heapB) := by
  intro l
  induction l with
  | nil => intro _; rfl
  | cons s t ih =>
    intro h
    simp only [List.map_cons]
    rw [ih (fun x hx hxp => h x (by simp [hx]) hxp)]
    cases s with
    | none => simp [swapSlot, slotLen]
    | some q =>
      by_cases hq : q = p
      · subst hq; simp [swapSlot, slotLen, hp]
      · simp [swapSlot, slotLen, hq, h q (by simp) hq]

/-- the message `libraryPackImmutable` hands to the library. -/
def cloneMsg {ν : Type} (m : Msg ν) (p fresh : Nat) : Msg ν :=
  { m with answer := replaceOPT p fresh m.answer, ns := replaceOPT p fresh m.ns, extra := replaceOPT p fresh m.extra }

theorem cloneMsg_records {ν : Type} (m : Msg ν) (p fresh : Nat) :
    (cloneMsg m p fresh).records = m.records.map (swapSlot p fresh) := by
  simp [cloneMsg, Msg.records, replaceOPT_eq]

theorem libPackWith_heap {β ν δ : Type} (lib : Lib β ν δ) (m : Msg ν) (heap : Heap β) (L : Nat) :
    (libPackWith lib m heap L).2 = heap ∨
    ∃ p, isEdns0 heap m.extra = some (some p) ∧ (libPackWith lib m heap L).2 = libSetExt heap p m.hdr.rcode.toNat := by
  unfold libPackWith
  by_cases hr : (m.hdr.rcode < 0 ∨ m.hdr.rcode > 0xFFF)
  · simp [hr]
  · simp only [hr, if_false]
    cases he : isEdns0 heap m.extra with
    | none => simp
    | some o =>
      cases o with
      | none => left; simp only; (repeat' split) <;> rfl
      | some p => right; refine ⟨p, rfl, ?_⟩; simp only; (repeat' split) <;> rfl

theorem isEdns0_clone {β ν : Type} (m : Msg ν) (heap : Heap β) (p fresh : Nat)
    (hsel : selectOPT heap m.extra = (some p, true)) (hex : ∀ s ∈ m.extra, s ≠ some fresh) :
    isEdns0 (heap.set fresh (heap p)) (cloneMsg m p fresh).extra = some (some fresh) := by
  unfold isEdns0
  simp only [cloneMsg, replaceOPT_eq, ← List.map_reverse]
  exact isEdns0Rev_swap heap p fresh _ (fun s hs => hex s (by simpa using hs)) hsel

/-- packing the clone (OPT replaced by a private copy wherever it occurs) gives
the library's outcome for the original message. -/
theorem libPack_clone {β ν δ : Type} (lib : Lib β ν δ) (m : Msg ν) (heap : Heap β) (p fresh : Nat)
    (hsel : selectOPT heap m.extra = (some p, true)) (hfresh : ∀ s ∈ m.records, s ≠ some fresh) :
    (libPack lib (cloneMsg m p fresh) (heap.set fresh (heap p))).1 = (libPack lib m heap).1 := by
  have hex : ∀ s ∈ m.extra, s ≠ some fresh := fun s hs => hfresh s (by simp [Msg.records, hs])
  have hA := isEdns0_clone m heap p fresh hsel hex
  have hB : isEdns0 heap m.extra = some (some p) := by
    unfold isEdns0 selectOPT at *
    rw [isEdns0Rev_eq, hsel]; rfl
  have hfp : (heap.set fresh (heap p)) fresh = heap p := by simp [Heap.set]
  -- the two heaps the library packs from agree slot by slot
  have hp : libSetExt (heap.set fresh (heap p)) fresh m.hdr.rcode.toNat fresh = libSetExt heap p m.hdr.rcode.toNat p := by
    simp [libSetExt, Heap.set]
  have hother : ∀ q, some q ∈ m.records → q ≠ p →
      libSetExt (heap.set fresh (heap p)) fresh m.hdr.rcode.toNat q = libSetExt heap p m.hdr.rcode.toNat q := by
    intro q hq hqp
    have hqf : q ≠ fresh := fun e => hfresh (some q) hq (by rw [e])
    simp [libSetExt, Heap.set, hqf, hqp]
  have hlen : libBufLen lib (cloneMsg m p fresh) (heap.set fresh (heap p)) = libBufLen lib m heap := by
    unfold libBufLen libHeap msgLen
    rw [hA, hB]
    simp only [cloneMsg_records]
    have := rrLen_swap lib _ _ p fresh hp m.records hother
    show headerLen + (List.map lib.qLen m.question).sum + _ + 1 = _
    rw [show (cloneMsg m p fresh).hdr = m.hdr from rfl, this]
  have hcomp : msgIsCompressible (cloneMsg m p fresh) = msgIsCompressible m := by
    simp [msgIsCompressible, cloneMsg, replaceOPT]
  have hhdr : ∀ b, headerBytes (cloneMsg m p fresh) b = headerBytes m b := by
    intro b; simp [headerBytes, cloneMsg, replaceOPT]
  unfold libPack
  rw [hlen]
  generalize libBufLen lib m heap = L
  unfold libPackWith
  rw [hA, hB]
  have e1 : (cloneMsg m p fresh).hdr = m.hdr := rfl
  have e2 : (cloneMsg m p fresh).compress = m.compress := rfl
  have e3 : (cloneMsg m p fresh).question = m.question := rfl
  simp only [e1, e2, e3, hcomp, hhdr, cloneMsg_records]
  split
  · rfl
  · split
    · rfl
    · split
      · rfl
      · exact libRecs_swap lib L _ _ p fresh hp m.records _ _ hother

/-! ### a structural form of the assumption on the library primitives -/

/-- every bounds check of a primitive compares the room it needs with
`len(msg)`: below it the primitive fails, from it on it succeeds with a result
that does not mention the buffer length. -/
structure Room {β ν δ : Type} (lib : Lib β ν δ) : Prop where
  rr : ∀ o off d, ∃ need bs d' r, ∃ df : Nat → δ,
    ∀ L, lib.packRR o L off d = if off + need ≤ L then .ok bs d' r else .fail (df L)
  name : ∀ n off d, ∃ need bs d' r, ∃ df : Nat → δ,
    ∀ L, lib.packName n L off d = if off + need ≤ L then .ok bs d' r else .fail (df L)

theorem mono_of_room {β ν δ : Type} (lib : Lib β ν δ) (h : Room lib) : Mono lib := by
  constructor
  · intro o L L' off d bs d' r hL hok
    obtain ⟨need, bs0, d0, r0, df, hf⟩ := h.rr o off d
    rw [hf] at hok ⊢
    by_cases hn : off + need ≤ L
    · rw [if_pos hn] at hok; rw [if_pos (by omega)]; exact hok
    · rw [if_neg hn] at hok; cases hok
  · intro n L L' off d bs d' r hL hok
    obtain ⟨need, bs0, d0, r0, df, hf⟩ := h.name n off d
    rw [hf] at hok ⊢
    by_cases hn : off + need ≤ L
    · rw [if_pos hn] at hok; rw [if_pos (by omega)]; exact hok
    · rw [if_neg hn] at hok; cases hok

/-! ### the storable view -/

theorem isEdns0Rev_some {β : Type} (heap : Heap β) (l : List Slot) (p : Nat)
    (h : isEdns0Rev heap l = some (some p)) : (heap p).isOPT = true ∧ some p ∈ l := by
  rw [isEdns0Rev_eq] at h
  cases hs : selectOPTRev heap l with
  | mk o b =>
    rw [hs] at h
    cases b with
    | false => simp at h
    | true =>
      simp only [if_true, Option.some.injEq] at h
      subst h
      obtain ⟨a, _, c, _⟩ := selectOPTRev_some heap l p true hs
      exact ⟨a, c⟩

theorem storableView_no_opt {β ν : Type} (heap : Heap β) (m : Msg ν) (p : Nat) :
    isEdns0 heap (storableView heap m).extra ≠ some (some p) := by
  intro h
  unfold isEdns0 at h
  obtain ⟨ho, hm⟩ := isEdns0Rev_some heap _ p h
  rw [List.mem_reverse] at hm
  simp only [storableView, List.mem_filter] at hm
  rw [ho] at hm
  simp at hm

theorem libPack_heap_of_no_opt {β ν δ : Type} (lib : Lib β ν δ) (m : Msg ν) (heap : Heap β)
    (h : ∀ p, isEdns0 heap m.extra ≠ some (some p)) : (libPack lib m heap).2 = heap := by
  unfold libPack
  rcases libPackWith_heap lib m heap (libBufLen lib m heap) with h1 | ⟨p, hp, _⟩
  · exact h1
  · exact absurd hp (h p)

/-! ### what a successful library pack starts with -/

theorem libQuestions_prefix {β ν δ : Type} (lib : Lib β ν δ) (L : Nat) :
    ∀ (qs : List (Question ν)) (d : δ) (acc b : Bytes) (d' : δ),
      libQuestions lib L qs d acc = some (b, d') → ∃ t, b = acc ++ t := by
  intro qs
  induction qs with
  | nil => intro d acc b d' h; simp [libQuestions] at h; exact ⟨[], by simp [h.1]⟩
  | cons q t ih =>
    intro d acc b d' h
    unfold libQuestions at h
    cases hq : libQuestion lib L q acc.length d with
    | none => rw [hq] at h; cases h
    | some r =>
      rw [hq] at h
      obtain ⟨t1, ht⟩ := ih _ _ _ _ h
      exact ⟨r.1 ++ t1, by rw [ht, List.append_assoc]⟩

theorem libRecs_prefix {β ν δ : Type} (lib : Lib β ν δ) (L : Nat) (heap : Heap β) :
    ∀ (slots : List Slot) (d : δ) (acc b : Bytes),
      libRecs lib L heap slots d acc = .ok b → ∃ t, b = acc ++ t := by
  intro slots
  induction slots with
  | nil => intro d acc b h; simp [libRecs] at h; exact ⟨[], by simp [h]⟩
  | cons s t ih =>
    intro d acc b h
    cases s with
    | none => simp [libRecs] at h
    | some p =>
      unfold libRecs at h
      cases hp : lib.packRR (heap p) L acc.length d with
      | fail _ => rw [hp] at h; cases h
      | ok bs d1 r =>
        rw [hp] at h
        obtain ⟨t1, ht⟩ := ih _ _ _ h
        exact ⟨bs ++ t1, by rw [ht, List.append_assoc]⟩

theorem libPackWith_starts_with_header {β ν δ : Type} (lib : Lib β ν δ) (m : Msg ν) (heap : Heap β) (L : Nat)
    (b : Bytes) (h : (libPackWith lib m heap L).1 = .ok b) :
    ∃ t, b = headerBytes m (libBits m.hdr) ++ t := by
  have tail : ∀ (hp : Heap β) (d : δ),
      ((if L < headerLen then (LibOut.err LibErr.pack, hp) else
        match libQuestions lib L m.question d (headerBytes m (libBits m.hdr)) with
        | none => (LibOut.err LibErr.pack, hp)
        | some (acc, d') => (libRecs lib L hp m.records d' acc, hp)) : LibOut × Heap β).1 = .ok b →
      ∃ t, b = headerBytes m (libBits m.hdr) ++ t := by
    intro hp d h
    by_cases hL : L < headerLen
    · simp [hL] at h
    · simp only [hL, if_false] at h
      cases hq : libQuestions lib L m.question d (headerBytes m (libBits m.hdr)) with
      | none => rw [hq] at h; cases h
      | some r =>
        rw [hq] at h
        obtain ⟨t1, h1⟩ := libQuestions_prefix lib L _ _ _ _ _ hq
        obtain ⟨t2, h2⟩ := libRecs_prefix lib L _ _ _ _ _ h
        exact ⟨t1 ++ t2, by rw [h2, h1, List.append_assoc]⟩
  unfold libPackWith at h
  by_cases hr : (m.hdr.rcode < 0 ∨ m.hdr.rcode > 0xFFF)
  · simp [hr] at h
  · simp only [hr, if_false] at h
    cases he : isEdns0 heap m.extra with
    | none => simp [he] at h
    | some o =>
      rw [he] at h
      cases o with
      | none =>
        simp only at h
        by_cases hx : m.hdr.rcode > 0xF
        · simp [hx] at h
        · simp only [hx, if_false] at h
          exact tail _ _ h
      | some p =>
        simp only at h
        exact tail _ _ h

/-! ### ownership of pooled states -/

/-- no identity twice among pool and borrowers, all identities allocated, and
every state in flight holds the bytes of the pack that holds it. -/
def OwnInv (s : Own) : Prop :=
  (s.pool ++ s.borrowed).Nodup ∧ (∀ x ∈ s.pool ++ s.borrowed, x < s.next) ∧
  ∀ x ∈ s.borrowed, s.content x = s.holder x

theorem take_inv (s : Own) (id tag : Nat) (hnd : (s.pool ++ id :: s.borrowed).Nodup)
    (hlt : ∀ x ∈ s.pool ++ id :: s.borrowed, x < s.next)
    (hc : ∀ x ∈ s.borrowed, s.content x = s.holder x) : OwnInv (s.take id tag) := by
  refine ⟨hnd, hlt, ?_⟩
  intro x hx
  simp only [Own.take] at hx ⊢
  by_cases hxi : x = id
  · simp [hxi]
  · simp only [hxi, if_false]
    rcases List.mem_cons.mp hx with h | h
    · exact absurd h hxi
    · exact hc x h

theorem ownStep_inv (puts : Exit → Nat) (hp : ∀ e, puts e ≤ 1) (s : Own) (ev : OwnEv) (h : OwnInv s) :
    OwnInv (ownStep puts s ev) := by
  obtain ⟨hnd, hlt, hc⟩ := h
  have fresh : ∀ tag, OwnInv ({ s with next := s.next + 1 }.take s.next tag) := by
    intro tag
    apply take_inv
    · show (s.pool ++ s.next :: s.borrowed).Nodup
      rw [List.perm_middle.nodup_iff, List.nodup_cons]
      exact ⟨fun hm => Nat.lt_irrefl _ (hlt _ hm), hnd⟩
    · intro x hx
      show x < s.next + 1
      have : x = s.next ∨ x ∈ s.pool ++ s.borrowed := by
        simp only [List.mem_append, List.mem_cons] at hx ⊢
        rcases hx with h | h | h
        · exact Or.inr (Or.inl h)
        · exact Or.inl h
        · exact Or.inr (Or.inr h)
      rcases this with rfl | h
      · omega
      · have := hlt x h; omega
    · exact hc
  cases ev with
  | get pick tag =>
    cases pick with
    | none => exact fresh tag
    | some id =>
      unfold ownStep
      by_cases hid : id ∈ s.pool
      · simp only [hid, if_true]
        have hperm : (s.pool.erase id ++ id :: s.borrowed).Perm (s.pool ++ s.borrowed) := by
          refine List.perm_middle.trans ?_
          rw [← List.cons_append]
          exact (List.perm_cons_erase hid).symm.append_right _
        exact take_inv _ id tag (hperm.nodup_iff.mpr hnd) (fun x hx => hlt x (hperm.mem_iff.mp hx)) hc
      · simp only [hid, if_false]; exact fresh tag
  | finish id e =>
    unfold ownStep
    by_cases hid : id ∈ s.borrowed
    · simp only [hid, if_true]
      have hsub : (s.pool ++ s.borrowed.erase id).Sublist (s.pool ++ s.borrowed) :=
        (List.Sublist.refl _).append List.erase_sublist
      have hc' : ∀ x ∈ s.borrowed.erase id, s.content x = s.holder x :=
        fun x hx => hc x (List.erase_subset hx)
      have hpe := hp e
      have hcases : puts e = 0 ∨ puts e = 1 := by omega
      rcases hcases with h0 | h1
      · rw [h0]
        exact ⟨hnd.sublist hsub, fun x hx => hlt x (hsub.subset hx), hc'⟩
      · rw [h1]
        have hperm : (List.replicate 1 id ++ s.pool ++ s.borrowed.erase id).Perm (s.pool ++ s.borrowed) := by
          show (id :: (s.pool ++ s.borrowed.erase id)).Perm _
          refine List.perm_middle.symm.trans ?_
          exact (List.perm_cons_erase hid).symm.append_left _
        exact ⟨hperm.nodup_iff.mpr hnd, fun x hx => hlt x (hperm.mem_iff.mp hx), hc'⟩
    · simp only [hid, if_false]; exact ⟨hnd, hlt, hc⟩

theorem ownRun_inv (puts : Exit → Nat) (hp : ∀ e, puts e ≤ 1) (evs : List OwnEv) : OwnInv (ownRun puts evs) := by
  unfold ownRun
  have : ∀ (s : Own), OwnInv s → OwnInv (evs.foldl (ownStep puts) s) := by
    induction evs with
    | nil => intro s h; exact h
    | cons ev t ih => intro s h; exact ih _ (ownStep_inv puts hp s ev h)
  exact this {} ⟨by simp, by simp, by simp⟩

end SdnsVerif.Lemmas.Packer
