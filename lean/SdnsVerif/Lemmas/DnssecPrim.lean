import SdnsVerif.Model.DnssecPrim
/-! Helper lemmas for `Props/C14.lean`. -/
namespace SdnsVerif.Lemmas.DnssecPrim
open SdnsVerif.Model.DnssecPrim

/-! ### key tag -/

theorem rfcAcc_parity (l : Bytes) : ∀ i j, i % 2 = j % 2 → rfcAcc i l = rfcAcc j l := by
  induction l with
  | nil => intros; rfl
  | cons b t ih =>
    intro i j h
    simp only [rfcAcc]
    rw [ih (i + 1) (j + 1) (by omega), h]

theorem rfcAcc_append (a b : Bytes) : ∀ i, rfcAcc i (a ++ b) = rfcAcc i a + rfcAcc (i + a.length) b := by
  induction a with
  | nil => intro i; simp [rfcAcc]
  | cons x t ih =>
    intro i
    simp only [List.cons_append, rfcAcc, ih, List.length_cons]
    rw [show i + 1 + t.length = i + (t.length + 1) by omega]
    omega

theorem chunkSum_mod (l : Bytes) : ∀ i sum, chunkSum i sum l % 2 ^ 32 = (sum + rfcAcc i l) % 2 ^ 32 := by
  induction l with
  | nil => intro i sum; simp [chunkSum, rfcAcc]
  | cons b t ih =>
    intro i sum
    simp only [chunkSum, rfcAcc, ih, u32]
    omega

/-- every chunk but the last has even length. -/
def EvenButLast (chunks : List Bytes) : Prop := ∀ c ∈ chunks.dropLast, c.length % 2 = 0

theorem flatten_even (chunks : List Bytes) (h : EvenButLast chunks) :
    (chunks.map (rfcAcc 0)).sum = rfcAcc 0 chunks.flatten := by
  induction chunks with
  | nil => simp [rfcAcc]
  | cons c rest ih =>
    cases rest with
    | nil => simp
    | cons c' t =>
      have hc : c.length % 2 = 0 := h c (by simp [List.dropLast])
      have hrest : EvenButLast (c' :: t) := by
        intro x hx; exact h x (by simp [List.dropLast] at hx ⊢; exact Or.inr hx)
      have := ih hrest
      simp only [List.map_cons, List.sum_cons, List.flatten_cons] at this ⊢
      rw [rfcAcc_append, this]
      congr 1
      exact rfcAcc_parity _ _ _ (by omega)

theorem streamSum_mod (chunks : List Bytes) : ∀ sum,
    streamSum sum chunks % 2 ^ 32 = (sum + (chunks.map (rfcAcc 0)).sum) % 2 ^ 32 := by
  induction chunks with
  | nil => intro sum; simp [streamSum]
  | cons c t ih =>
    intro sum
    have h1 := chunkSum_mod c 0 sum
    have h2 := ih (chunkSum 0 sum c)
    simp only [streamSum, List.foldl_cons, List.map_cons, List.sum_cons] at h2 ⊢
    omega

theorem finish_eq_rfcFold (s : Nat) : finish s = rfcFold s := by
  unfold finish rfcFold u32; omega

theorem rfcFold_mod (a b : Nat) (h : a % 2 ^ 32 = b % 2 ^ 32) : rfcFold a = rfcFold b := by
  unfold rfcFold; omega

theorem toNat_ofNat_lt (n : Nat) (h : n < 256) : (UInt8.ofNat n).toNat = n := by
  rw [UInt8.toNat_ofNat']; omega

theorem hdrSum_eq (flags proto alg : Nat) (hf : flags < 65536) (hp : proto < 256) (ha : alg < 256) :
    hdrSum flags proto alg = rfcAcc 0 (keyRdata flags proto alg []) := by
  unfold hdrSum keyRdata u32
  simp only [List.append_nil, rfcAcc]
  rw [toNat_ofNat_lt _ (by omega), toNat_ofNat_lt _ (by omega), toNat_ofNat_lt _ hp, toNat_ofNat_lt _ ha]
  simp
  omega

theorem keyTagLoop_pieces (dec : Bytes → Bytes × Bool) (chunk : Nat) : ∀ fuel enc sum s,
    keyTagLoop dec chunk fuel enc sum = some s →
      s = streamSum sum (chunkPieces dec chunk fuel enc) ∧
      ∀ c ∈ (chunkPieces dec chunk fuel enc).dropLast, c.length = chunk / 4 * 3 := by
  intro fuel
  induction fuel with
  | zero => intro enc sum s h; simp [keyTagLoop] at h; subst h; simp [chunkPieces, streamSum]
  | succ f ih =>
    intro enc sum s h
    unfold keyTagLoop at h
    unfold chunkPieces
    by_cases he : enc.isEmpty
    · simp only [he, if_true, Option.some.injEq] at h; subst h
      have : enc = [] := by simpa using he
      subst this; simp [streamSum]
    · simp only [he, Bool.false_eq_true, if_false] at h ⊢
      by_cases hok : (dec (List.take chunk enc)).2
      · simp only [hok, Bool.not_true, Bool.false_eq_true, if_false] at h
        by_cases hshort : (!(List.drop chunk enc).isEmpty && (dec (List.take chunk enc)).1.length != chunk / 4 * 3) = true
        · simp [hshort] at h
        · simp only [hshort, Bool.false_eq_true, if_false] at h
          obtain ⟨h1, h2⟩ := ih _ _ _ h
          refine ⟨by rw [h1]; simp [streamSum], ?_⟩
          intro c hc
          cases hp : chunkPieces dec chunk f (List.drop chunk enc) with
          | nil => rw [hp] at hc; simp [List.dropLast] at hc
          | cons p ps =>
            rw [hp] at hc h2
            simp only [List.dropLast_cons_cons, List.mem_cons] at hc
            rcases hc with rfl | hc
            · -- the tail is non-empty, so this was not the last chunk: the loop demanded a full decode
              have hne : (List.drop chunk enc).isEmpty = false := by
                cases f with
                | zero => simp [chunkPieces] at hp
                | succ f' =>
                  unfold chunkPieces at hp
                  by_cases hd : (List.drop chunk enc).isEmpty
                  · simp [hd] at hp
                  · simpa using hd
              simp only [hne, Bool.not_false, Bool.true_and, bne_iff_ne, ne_eq, Decidable.not_not] at hshort
              simpa using hshort
            · exact h2 c hc
      · simp [hok] at h

/-! ### oversized -/

theorem walk_iff (limit : Nat) (l : Bytes) : ∀ m, m ≤ limit → (walk limit l m = true ↔ m + material l > limit) := by
  induction l with
  | nil => intro m hm; simp [walk, material]; omega
  | cons c t ih =>
    intro m hm
    unfold walk
    by_cases hc : isNL c = true
    · simp only [hc, if_true, ih m hm]
      simp [material, hc]
    · have hc' : isNL c = false := by simpa using hc
      simp only [hc', Bool.false_eq_true, if_false]
      have hm : material (c :: t) = material t + 1 := by simp [material, hc']
      by_cases hgt : m + 1 > limit
      · simp only [hgt, if_true, true_iff]; omega
      · simp only [hgt, if_false, ih (m + 1) (by omega)]; omega

theorem material_le_length (l : Bytes) : material l ≤ l.length := by
  unfold material; exact List.length_filter_le _ _

theorem material_of_no_nl (l : Bytes) (h : l.any isNL = false) : material l = l.length := by
  unfold material
  rw [List.filter_eq_self.mpr]
  intro a ha
  have := List.any_eq_false.mp h a ha
  simpa using this

theorem material_take_le (k : Nat) (l : Bytes) : material (l.take k) ≤ material l := by
  conv => rhs; rw [← List.take_append_drop k l]
  unfold material
  rw [List.filter_append, List.length_append]
  omega

/-! ### RSAMD5 window -/

theorem foldl_push_seen (l : Bytes) : ∀ t : Tail, t.seen ≤ 3 →
    (l.foldl Tail.push t).seen = min 3 (t.seen + l.length) := by
  induction l with
  | nil => intro t h; simp; omega
  | cons b r ih =>
    intro t h
    simp only [List.foldl_cons, List.length_cons]
    rw [ih]
    · simp only [Tail.push]; split <;> omega
    · simp only [Tail.push]; split <;> omega

theorem foldl_push_last3 (l : Bytes) (a b c : UInt8) (t : Tail) :
    ((l ++ [a, b, c]).foldl Tail.push t).t0 = a ∧ ((l ++ [a, b, c]).foldl Tail.push t).t1 = b := by
  simp [List.foldl_append, Tail.push]

theorem rsamd5Loop_eq_fed (dec : Bytes → Bytes × Bool) (chunk : Nat) : ∀ fuel enc t,
    rsamd5Loop dec chunk fuel enc t = (rsamd5Fed dec chunk fuel enc).foldl Tail.push t := by
  intro fuel
  induction fuel with
  | zero => intro enc t; simp [rsamd5Loop, rsamd5Fed]
  | succ f ih =>
    intro enc t
    unfold rsamd5Loop rsamd5Fed
    by_cases he : enc.isEmpty
    · simp [he]
    · simp only [he, Bool.false_eq_true, if_false]
      split
      · rfl
      · split
        · rfl
        · rw [ih, List.foldl_append]

/-! ### numbers and octets -/

theorem foldl_natOf (l : Bytes) : ∀ a, l.foldl (fun a x => a * 256 + x.toNat) a = a * 256 ^ l.length + natOfBytes l := by
  induction l with
  | nil => intro a; simp [natOfBytes]
  | cons x t ih =>
    intro a
    simp only [List.foldl_cons, natOfBytes, List.length_cons, ih (a * 256 + x.toNat), ih (0 * 256 + x.toNat), Nat.pow_succ]
    grind

theorem natOfBytes_nil : natOfBytes [] = 0 := rfl

theorem natOfBytes_cons (x : UInt8) (t : Bytes) : natOfBytes (x :: t) = x.toNat * 256 ^ t.length + natOfBytes t := by
  have := foldl_natOf t (0 * 256 + x.toNat)
  simp only [natOfBytes, List.foldl_cons] at this ⊢
  rw [this]; simp

theorem natOfBytes_append (a b : Bytes) : natOfBytes (a ++ b) = natOfBytes a * 256 ^ b.length + natOfBytes b := by
  unfold natOfBytes
  rw [List.foldl_append, foldl_natOf]
  rfl

theorem toNat_lt (x : UInt8) : x.toNat < 256 := by
  have := x.toNat_lt; simpa using this

theorem natOfBytes_lt (l : Bytes) : natOfBytes l < 256 ^ l.length := by
  induction l with
  | nil => simp [natOfBytes]
  | cons x t ih =>
    rw [natOfBytes_cons, List.length_cons, Nat.pow_succ]
    have := toNat_lt x
    have h : x.toNat * 256 ^ t.length ≤ 255 * 256 ^ t.length := Nat.mul_le_mul_right _ (by omega)
    omega

theorem natOfBytes_replicate_zero (k : Nat) : natOfBytes (List.replicate k 0) = 0 := by
  induction k with
  | zero => rfl
  | succ k ih => rw [List.replicate_succ, natOfBytes_cons, ih]; simp

theorem natOfBytes_leftPad (k : Nat) (b : Bytes) : natOfBytes (leftPad k b) = natOfBytes b := by
  unfold leftPad; rw [natOfBytes_append, natOfBytes_replicate_zero]; simp

theorem leftPad_length (k : Nat) (b : Bytes) (h : b.length ≤ k) : (leftPad k b).length = k := by
  unfold leftPad; simp; omega

theorem natOfBytes_inj : ∀ (a b : Bytes), a.length = b.length → natOfBytes a = natOfBytes b → a = b := by
  intro a
  induction a with
  | nil => intro b hl _; cases b with
    | nil => rfl
    | cons _ _ => simp at hl
  | cons x t ih =>
    intro b hl h
    cases b with
    | nil => simp at hl
    | cons y u =>
      simp only [List.length_cons, Nat.add_right_cancel_iff] at hl
      rw [natOfBytes_cons, natOfBytes_cons, hl] at h
      have h1 := natOfBytes_lt t
      have h2 := natOfBytes_lt u
      rw [hl] at h1
      have hp : 0 < 256 ^ u.length := Nat.pow_pos (by omega)
      generalize 256 ^ u.length = P at *
      have hxy : x.toNat = y.toNat := by
        have e1 : (x.toNat * P + natOfBytes t) / P = x.toNat := by
          rw [Nat.mul_comm, Nat.mul_add_div hp, Nat.div_eq_of_lt h1]; simp
        have e2 : (y.toNat * P + natOfBytes u) / P = y.toNat := by
          rw [Nat.mul_comm, Nat.mul_add_div hp, Nat.div_eq_of_lt h2]; simp
        rw [← e1, ← e2, h]
      rw [hxy] at h
      have ht : natOfBytes t = natOfBytes u := by omega
      rw [ih u hl ht, UInt8.toNat_inj.mp hxy]

theorem bytesOfNatAux_spec : ∀ f n acc, n ≤ f →
    natOfBytes (bytesOfNatAux f n acc) = n * 256 ^ acc.length + natOfBytes acc := by
  intro f
  induction f with
  | zero => intro n acc h; have : n = 0 := by omega
            subst this; simp [bytesOfNatAux]
  | succ f ih =>
    intro n acc h
    unfold bytesOfNatAux
    by_cases hn : n = 0
    · simp [hn]
    · simp only [hn, if_false]
      rw [ih _ _ (by omega), natOfBytes_cons, List.length_cons, Nat.pow_succ, toNat_ofNat_lt _ (by omega)]
      have := Nat.div_add_mod n 256
      grind

theorem natOfBytes_bytesOfNat (n : Nat) : natOfBytes (bytesOfNat n) = n := by
  unfold bytesOfNat
  rw [bytesOfNatAux_spec n n [] (Nat.le_refl _)]; simp [natOfBytes]

theorem bytesOfNatAux_length : ∀ f n acc k, n < 256 ^ k →
    (bytesOfNatAux f n acc).length ≤ acc.length + k := by
  intro f
  induction f with
  | zero => intro n acc k _; simp [bytesOfNatAux]
  | succ f ih =>
    intro n acc k h
    unfold bytesOfNatAux
    by_cases hn : n = 0
    · simp [hn]
    · simp only [hn, if_false]
      cases k with
      | zero => simp at h; omega
      | succ k =>
        have : n / 256 < 256 ^ k := by
          rw [Nat.pow_succ] at h
          exact Nat.div_lt_of_lt_mul (by rw [Nat.mul_comm]; exact h)
        have := ih (n / 256) (UInt8.ofNat (n % 256) :: acc) k this
        simp only [List.length_cons] at this
        omega

theorem bytesOfNat_length (n k : Nat) (h : n < 256 ^ k) : (bytesOfNat n).length ≤ k := by
  have := bytesOfNatAux_length n n [] k h
  simpa [bytesOfNat] using this

/-! ### modular exponentiation, bit lengths -/

theorem powMod_eq : ∀ e b n, powMod b e n = b ^ e % n := by
  intro e
  induction e using Nat.strongRecOn with
  | _ e ih =>
    intro b n
    unfold powMod
    by_cases he : e = 0
    · simp [he]
    · simp only [he, dite_false]
      rw [ih (e / 2) (by omega)]
      have hsq : (b * b % n) ^ (e / 2) % n = (b * b) ^ (e / 2) % n := by rw [← Nat.pow_mod]
      have hpow : (b * b) ^ (e / 2) = b ^ (2 * (e / 2)) := by rw [Nat.pow_mul, Nat.pow_two]
      rw [hsq, hpow]
      by_cases hodd : e % 2 = 1
      · simp only [hodd, if_true]
        rw [Nat.mul_mod, Nat.mod_mod, ← Nat.mul_mod]
        have : e = 2 * (e / 2) + 1 := by omega
        conv => rhs; rw [this, Nat.pow_succ]
        rw [Nat.mul_comm]
      · simp only [hodd, if_false]
        have : e = 2 * (e / 2) := by omega
        conv => rhs; rw [this]

theorem lt_two_pow_bitLen (n : Nat) : n < 2 ^ bitLen n := by
  unfold bitLen
  by_cases h : n = 0
  · simp [h]
  · simp only [h, if_false]; exact Nat.lt_log2_self

theorem bitLen_le_iff (n k : Nat) : bitLen n ≤ k ↔ n < 2 ^ k := by
  unfold bitLen
  by_cases h : n = 0
  · simp [h]; exact Nat.pow_pos (by omega)
  · simp only [h, if_false]
    rw [← Nat.log2_lt h]; omega

theorem le_bitLen_iff (n k : Nat) : k + 1 ≤ bitLen n ↔ 2 ^ k ≤ n := by
  unfold bitLen
  by_cases h : n = 0
  · simp [h]
  · simp only [h, if_false]
    rw [← Nat.le_log2 h]; omega

theorem lt_pow_size (n : Nat) : n < 256 ^ ((bitLen n + 7) / 8) := by
  have h1 := lt_two_pow_bitLen n
  have h2 : 2 ^ bitLen n ≤ 2 ^ (8 * ((bitLen n + 7) / 8)) := Nat.pow_le_pow_right (by omega) (by omega)
  rw [Nat.pow_mul] at h2
  exact Nat.lt_of_lt_of_le h1 h2

theorem emBytes_length (p h : Bytes) (size : Nat) (em : Bytes) (he : emBytes p h size = some em) : em.length = size := by
  unfold emBytes at he
  split at he
  · cases he
  · simp only [Option.some.injEq] at he
    subst he; simp; omega

/-! ### RFC 3110 key parsing -/

theorem natOfBytes_ge_of_head (x : UInt8) (t : Bytes) (h : x ≠ 0) : 256 ^ t.length ≤ natOfBytes (x :: t) := by
  rw [natOfBytes_cons]
  have : x.toNat ≠ 0 := by
    intro h0; apply h; exact UInt8.toNat_inj.mp (by simpa using h0)
  have : 1 * 256 ^ t.length ≤ x.toNat * 256 ^ t.length := Nat.mul_le_mul_right _ (by omega)
  omega

theorem parseRSAAt_some (kb : Bytes) (off explen n e : Nat) (h : parseRSAAt kb off explen = some (n, e)) :
    0 < explen ∧ off + explen < kb.length ∧ kb.getD off 0 ≠ 0 ∧ kb.getD (off + explen) 0 ≠ 0 ∧
      e = natOfBytes ((kb.drop off).take explen) ∧ n = natOfBytes (kb.drop (off + explen)) := by
  unfold parseRSAAt at h
  split at h
  · cases h
  · rename_i h1
    split at h
    · cases h
    · rename_i h2
      split at h
      · cases h
      · simp only [Option.some.injEq, Prod.mk.injEq] at h
        simp only [Bool.or_eq_true, decide_eq_true_eq, not_or, Nat.not_le] at h1
        simp only [Bool.or_eq_true, beq_iff_eq, not_or] at h2
        exact ⟨by omega, h1.2, h2.1, h2.2, h.2.symm, h.1.symm⟩

/-- what `parseRSAPublicKey` accepted, spelled out. -/
theorem parseRSA_some (kb : Bytes) (n e : Nat) (h : parseRSA kb = some (n, e)) :
    ∃ off explen,
      ((off = 1 ∧ kb.getD 0 0 ≠ 0 ∧ explen = (kb.getD 0 0).toNat) ∨
       (off = 3 ∧ kb.getD 0 0 = 0 ∧ explen = (kb.getD 1 0).toNat * 256 + (kb.getD 2 0).toNat)) ∧
      0 < explen ∧ off + explen < kb.length ∧
      kb.getD off 0 ≠ 0 ∧ kb.getD (off + explen) 0 ≠ 0 ∧
      e = natOfBytes ((kb.drop off).take explen) ∧ n = natOfBytes (kb.drop (off + explen)) := by
  unfold parseRSA at h
  cases kb with
  | nil => simp at h
  | cons b0 t =>
    simp only at h
    by_cases hb : b0 = 0
    · subst hb
      simp only [beq_self_eq_true, if_true] at h
      split at h
      · cases h
      · exact ⟨3, _, Or.inr ⟨rfl, by simp, rfl⟩, parseRSAAt_some _ _ _ _ _ h⟩
    · have hb' : (b0 == 0) = false := by simpa using hb
      simp only [hb', Bool.false_eq_true, if_false] at h
      exact ⟨1, _, Or.inl ⟨rfl, by simpa using hb, by simp⟩, parseRSAAt_some _ _ _ _ _ h⟩

/-- RFC 3110 encodings of an exponent `e0 :: et` and a modulus `m0 :: mt`. -/
def encShort (eb mb : Bytes) : Bytes := UInt8.ofNat eb.length :: (eb ++ mb)
def encLong (eb mb : Bytes) : Bytes :=
  0 :: UInt8.ofNat (eb.length / 256) :: UInt8.ofNat (eb.length % 256) :: (eb ++ mb)

theorem parseRSAAt_enc (pre eb mb : Bytes) (e0 m0 : UInt8) (et mt : Bytes) (heb : eb = e0 :: et) (hmb : mb = m0 :: mt) :
    parseRSAAt (pre ++ (eb ++ mb)) pre.length eb.length =
      if e0 = 0 ∨ m0 = 0 then none else some (natOfBytes mb, natOfBytes eb) := by
  unfold parseRSAAt
  have hlen : ¬ (eb.length = 0 ∨ (pre ++ (eb ++ mb)).length ≤ pre.length + eb.length) := by
    subst heb hmb; simp
  have hg1 : (pre ++ (eb ++ mb)).getD pre.length 0 = e0 := by
    subst heb; simp [List.getD_eq_getElem?_getD]
  have hg2 : (pre ++ (eb ++ mb)).getD (pre.length + eb.length) 0 = m0 := by
    subst hmb
    rw [← List.append_assoc, List.getD_eq_getElem?_getD]
    rw [List.getElem?_append_right (by simp)]
    simp
  have hd1 : ((pre ++ (eb ++ mb)).drop pre.length).take eb.length = eb := by simp
  have hd2 : (pre ++ (eb ++ mb)).drop (pre.length + eb.length) = mb := by
    rw [← List.append_assoc]
    rw [List.drop_append_of_le_length (by simp)]
    simp
  simp only [Bool.or_eq_true, decide_eq_true_eq, hlen, if_false, hg1, hg2, hd1, hd2, beq_iff_eq]
  by_cases hz : e0 = 0 ∨ m0 = 0
  · simp [hz]
  · simp only [hz, if_false]
    have hz' : ¬ e0 = 0 ∧ ¬ m0 = 0 := by simpa [not_or] using hz
    have h1 := natOfBytes_ge_of_head e0 et hz'.1
    have h2 := natOfBytes_ge_of_head m0 mt hz'.2
    have p1 : 0 < 256 ^ et.length := Nat.pow_pos (by omega)
    have p2 : 0 < 256 ^ mt.length := Nat.pow_pos (by omega)
    subst heb hmb
    have : ¬ (natOfBytes (m0 :: mt) = 0 ∨ natOfBytes (e0 :: et) = 0) := by omega
    simp [this]

theorem parse_roundtrip_short (e0 m0 : UInt8) (et mt : Bytes) (hl : et.length + 1 < 256) :
    parseRSA (encShort (e0 :: et) (m0 :: mt)) =
      if e0 = 0 ∨ m0 = 0 then none else some (natOfBytes (m0 :: mt), natOfBytes (e0 :: et)) := by
  unfold parseRSA encShort
  have hne : (UInt8.ofNat (e0 :: et).length == 0) = false := by
    have : (UInt8.ofNat (e0 :: et).length).toNat ≠ 0 := by
      rw [toNat_ofNat_lt _ (by simpa using hl)]; simp
    simp only [beq_eq_false_iff_ne, ne_eq]
    intro h; apply this; rw [h]; rfl
  simp only [hne, Bool.false_eq_true, if_false]
  rw [toNat_ofNat_lt _ (by simpa using hl)]
  have := parseRSAAt_enc [UInt8.ofNat (e0 :: et).length] (e0 :: et) (m0 :: mt) e0 m0 et mt rfl rfl
  simpa using this

theorem parse_roundtrip_long (e0 m0 : UInt8) (et mt : Bytes) (hl : et.length + 1 < 65536) :
    parseRSA (encLong (e0 :: et) (m0 :: mt)) =
      if e0 = 0 ∨ m0 = 0 then none else some (natOfBytes (m0 :: mt), natOfBytes (e0 :: et)) := by
  unfold parseRSA encLong
  simp only [beq_self_eq_true, if_true]
  have hlen3 : ¬ ((0 : UInt8) :: UInt8.ofNat ((e0 :: et).length / 256) :: UInt8.ofNat ((e0 :: et).length % 256) :: ((e0 :: et) ++ (m0 :: mt))).length < 3 := by
    simp
  simp only [hlen3, if_false]
  have hx : (((0 : UInt8) :: UInt8.ofNat ((e0 :: et).length / 256) :: UInt8.ofNat ((e0 :: et).length % 256) :: ((e0 :: et) ++ (m0 :: mt))).getD 1 0).toNat * 256 +
      (((0 : UInt8) :: UInt8.ofNat ((e0 :: et).length / 256) :: UInt8.ofNat ((e0 :: et).length % 256) :: ((e0 :: et) ++ (m0 :: mt))).getD 2 0).toNat = (e0 :: et).length := by
    simp only [List.getD_cons_succ, List.getD_cons_zero]
    rw [toNat_ofNat_lt _ (by simp at hl ⊢; omega), toNat_ofNat_lt _ (by omega)]
    omega
  rw [hx]
  have := parseRSAAt_enc [0, UInt8.ofNat ((e0 :: et).length / 256), UInt8.ofNat ((e0 :: et).length % 256)] (e0 :: et) (m0 :: mt) e0 m0 et mt rfl rfl
  simpa using this

/-! ### canonical RRset order -/

theorem bytesLe_refl (a : Bytes) : bytesLe a a = true := by
  induction a with
  | nil => rfl
  | cons x t ih => simp [bytesLe, ih]

theorem bytesLe_total (a : Bytes) : ∀ b, bytesLe a b = true ∨ bytesLe b a = true := by
  induction a with
  | nil => intro b; left; simp [bytesLe]
  | cons x s ih =>
    intro b
    cases b with
    | nil => right; simp [bytesLe]
    | cons y t =>
      simp only [bytesLe]
      by_cases h1 : x.toNat < y.toNat
      · simp [h1]
      · by_cases h2 : y.toNat < x.toNat
        · simp [h2]
        · simp only [h1, h2, if_false]; exact ih t

theorem bytesLe_antisymm (a : Bytes) : ∀ b, bytesLe a b = true → bytesLe b a = true → a = b := by
  induction a with
  | nil => intro b _ h; cases b with
    | nil => rfl
    | cons _ _ => simp [bytesLe] at h
  | cons x s ih =>
    intro b h1 h2
    cases b with
    | nil => simp [bytesLe] at h1
    | cons y t =>
      simp only [bytesLe] at h1 h2
      by_cases hxy : x.toNat < y.toNat
      · have : ¬ y.toNat < x.toNat := by omega
        simp [hxy, this] at h2
      · by_cases hyx : y.toNat < x.toNat
        · simp [hxy, hyx] at h1
        · simp only [hxy, hyx, if_false] at h1 h2
          have : x = y := UInt8.toNat_inj.mp (by omega)
          rw [this, ih t h1 h2]

theorem bytesLe_trans (a : Bytes) : ∀ b c, bytesLe a b = true → bytesLe b c = true → bytesLe a c = true := by
  induction a with
  | nil => intro b c _ _; simp [bytesLe]
  | cons x s ih =>
    intro b c h1 h2
    cases b with
    | nil => simp [bytesLe] at h1
    | cons y t =>
      cases c with
      | nil => simp [bytesLe] at h2
      | cons z u =>
        simp only [bytesLe] at h1 h2 ⊢
        by_cases hxy : x.toNat < y.toNat
        · by_cases hyz : y.toNat < z.toNat
          · have : x.toNat < z.toNat := by omega
            simp [this]
          · by_cases hzy : z.toNat < y.toNat
            · simp [hyz, hzy] at h2
            · have : x.toNat < z.toNat := by omega
              simp [this]
        · by_cases hyx : y.toNat < x.toNat
          · simp [hxy, hyx] at h1
          · simp only [hxy, hyx, if_false] at h1
            by_cases hyz : y.toNat < z.toNat
            · have : x.toNat < z.toNat := by omega
              simp [this]
            · by_cases hzy : z.toNat < y.toNat
              · simp [hyz, hzy] at h2
              · simp only [hyz, hzy, if_false] at h2
                have h3 : ¬ x.toNat < z.toNat := by omega
                have h4 : ¬ z.toNat < x.toNat := by omega
                simp only [h3, h4, if_false]
                exact ih t u h1 h2

/-- sorted by RDATA (`bytes.Compare <= 0` between neighbours and hence all pairs). -/
def Sorted (l : List Bytes) : Prop := l.Pairwise (fun a b => bytesLe a b = true)
/-- strictly sorted: sorted and duplicate free. -/
def StrictSorted (l : List Bytes) : Prop := l.Pairwise (fun a b => bytesLe a b = true ∧ a ≠ b)

theorem insertRd_mem (x : Bytes) (l : List Bytes) : ∀ z, z ∈ insertRd x l ↔ z = x ∨ z ∈ l := by
  induction l with
  | nil => intro z; simp [insertRd]
  | cons y t ih =>
    intro z
    unfold insertRd
    split
    · simp
    · simp only [List.mem_cons, ih]
      constructor
      · rintro (h | h | h) <;> simp [h]
      · rintro (h | h | h) <;> simp [h]

theorem insertRd_sorted (x : Bytes) (l : List Bytes) (h : Sorted l) : Sorted (insertRd x l) := by
  induction l with
  | nil => simp [insertRd, Sorted]
  | cons y t ih =>
    unfold insertRd
    have hy := List.pairwise_cons.mp h
    split
    · rename_i hxy
      refine List.pairwise_cons.mpr ⟨?_, h⟩
      intro z hz
      rcases List.mem_cons.mp hz with rfl | hz
      · exact hxy
      · exact bytesLe_trans _ _ _ hxy (hy.1 z hz)
    · rename_i hxy
      have hyx : bytesLe y x = true := by
        rcases bytesLe_total x y with h | h
        · exact absurd h hxy
        · exact h
      refine List.pairwise_cons.mpr ⟨?_, ih hy.2⟩
      intro z hz
      rcases (insertRd_mem x t z).mp hz with rfl | hz
      · exact hyx
      · exact hy.1 z hz

theorem sortRd_mem (l : List Bytes) : ∀ z, z ∈ sortRd l ↔ z ∈ l := by
  induction l with
  | nil => intro z; simp [sortRd]
  | cons x t ih => intro z; simp [sortRd, insertRd_mem, ih]

theorem sortRd_sorted (l : List Bytes) : Sorted (sortRd l) := by
  induction l with
  | nil => simp [sortRd, Sorted]
  | cons x t ih => exact insertRd_sorted x _ ih

theorem dedupAdj_spec : ∀ (l : List Bytes), Sorted l →
    StrictSorted (dedupAdj l) ∧ ∀ z, z ∈ dedupAdj l ↔ z ∈ l := by
  intro l
  induction l with
  | nil => intro _; simp [dedupAdj, StrictSorted]
  | cons x t ih =>
    intro h
    have hx := List.pairwise_cons.mp h
    have iht := ih hx.2
    cases t with
    | nil => simp [dedupAdj, StrictSorted]
    | cons y u =>
      unfold dedupAdj
      by_cases hxy : (x == y) = true
      · have hxy' : x = y := by simpa using hxy
        simp only [hxy, if_true]
        refine ⟨iht.1, ?_⟩
        intro z; rw [iht.2 z]; subst hxy'; simp
      · simp only [hxy, Bool.false_eq_true, if_false]
        have hne : x ≠ y := by simpa using hxy
        refine ⟨List.pairwise_cons.mpr ⟨?_, iht.1⟩, ?_⟩
        · intro z hz
          have hz' := (iht.2 z).mp hz
          refine ⟨hx.1 z hz', ?_⟩
          intro hzx
          subst hzx
          -- x occurs later in the sorted tail: y ≤ x and x ≤ y
          have hyx : bytesLe y x = true := by
            rcases List.mem_cons.mp hz' with h1 | h1
            · exact absurd h1 hne
            · exact (List.pairwise_cons.mp hx.2).1 x h1
          exact hne (bytesLe_antisymm _ _ (hx.1 y (by simp)) hyx)
        · intro z; simp only [List.mem_cons, iht.2 z]

theorem strictSorted_unique : ∀ (l1 l2 : List Bytes), StrictSorted l1 → StrictSorted l2 →
    (∀ z, z ∈ l1 ↔ z ∈ l2) → l1 = l2 := by
  intro l1
  induction l1 with
  | nil =>
    intro l2 _ _ hm
    cases l2 with
    | nil => rfl
    | cons y _ => exact absurd ((hm y).mpr (by simp)) (by simp)
  | cons x t1 ih =>
    intro l2 h1 h2 hm
    cases l2 with
    | nil => exact absurd ((hm x).mp (by simp)) (by simp)
    | cons y t2 =>
      have hx := List.pairwise_cons.mp h1
      have hy := List.pairwise_cons.mp h2
      have hxy : x = y := by
        by_cases hxy : x = y
        · exact hxy
        · exfalso
          have hx2 : x ∈ t2 := by
            rcases List.mem_cons.mp ((hm x).mp (by simp)) with h | h
            · exact absurd h hxy
            · exact h
          have hy1 : y ∈ t1 := by
            rcases List.mem_cons.mp ((hm y).mpr (by simp)) with h | h
            · exact absurd h.symm hxy
            · exact h
          exact hxy (bytesLe_antisymm _ _ (hx.1 y hy1).1 (hy.1 x hx2).1)
      subst hxy
      congr 1
      apply ih t2 hx.2 hy.2
      intro z
      constructor
      · intro hz
        rcases List.mem_cons.mp ((hm z).mp (List.mem_cons_of_mem _ hz)) with h | h
        · exact absurd h.symm ((hx.1 z hz).2)
        · exact h
      · intro hz
        rcases List.mem_cons.mp ((hm z).mpr (List.mem_cons_of_mem _ hz)) with h | h
        · exact absurd h.symm ((hy.1 z hz).2)
        · exact h

/-! ### presentation names, binding -/

theorem lowerByte_toNat (c : UInt8) :
    (lowerByte c).toNat = if 65 ≤ c.toNat ∧ c.toNat ≤ 90 then c.toNat + 32 else c.toNat := by
  unfold lowerByte
  split
  · rw [toNat_ofNat_lt _ (by omega)]
  · rfl

theorem lowerByte_idem (c : UInt8) : lowerByte (lowerByte c) = lowerByte c := by
  apply UInt8.toNat_inj.mp
  rw [lowerByte_toNat (lowerByte c), lowerByte_toNat c]
  split <;> (try split) <;> omega

/-- lowercasing never creates or destroys a non-letter such as `.` or `\`. -/
theorem lowerByte_eq_nonletter (c k : UInt8) (hk : k.toNat < 65 ∨ (90 < k.toNat ∧ k.toNat < 97) ∨ 122 < k.toNat) :
    (lowerByte c == k) = (c == k) := by
  have h1 : (lowerByte c == k) = decide ((lowerByte c).toNat = k.toNat) := by
    by_cases h : lowerByte c = k
    · simp [h]
    · have : (lowerByte c).toNat ≠ k.toNat := fun e => h (UInt8.toNat_inj.mp e)
      simp [h, this]
  have h2 : (c == k) = decide (c.toNat = k.toNat) := by
    by_cases h : c = k
    · simp [h]
    · have : c.toNat ≠ k.toNat := fun e => h (UInt8.toNat_inj.mp e)
      simp [h, this]
  rw [h1, h2, lowerByte_toNat]
  split
  · have a : ¬ (c.toNat + 32 = k.toNat) := by omega
    have b : ¬ (c.toNat = k.toNat) := by omega
    simp [a, b]
  · rfl

theorem lower_idem (s : Bytes) : lower (lower s) = lower s := by
  unfold lower; rw [List.map_map]; congr 1; funext c; exact lowerByte_idem c

theorem takeWhile_lower (k : UInt8) (hk : k.toNat < 65 ∨ (90 < k.toNat ∧ k.toNat < 97) ∨ 122 < k.toNat) (l : Bytes) :
    ((lower l).takeWhile (· == k)).length = (l.takeWhile (· == k)).length := by
  induction l with
  | nil => rfl
  | cons c t ih =>
    simp only [lower, List.map_cons, List.takeWhile_cons, lowerByte_eq_nonletter c k hk] at ih ⊢
    split
    · simp [ih]
    · rfl

theorem isFqdn_lower (s : Bytes) : isFqdn (lower s) = isFqdn s := by
  unfold isFqdn
  have hr : (lower s).reverse = lower s.reverse := by simp [lower]
  rw [hr]
  cases s.reverse with
  | nil => rfl
  | cons c r =>
    simp only [lower, List.map_cons]
    have h46 := lowerByte_eq_nonletter c 46 (Or.inl (by decide))
    have : (lowerByte c != 46) = (c != 46) := by simp only [bne, h46]
    rw [this]
    split
    · rfl
    · have := takeWhile_lower 92 (Or.inr (Or.inl (by decide))) r
      simp only [lower] at this
      rw [this]

theorem equalFold_canonical (s k : Bytes) (h : equalFold s k = true) (hk : isFqdn k = true) :
    equalFold (canonicalName s) k = true := by
  unfold equalFold at h ⊢
  have hl : lower s = lower k := by simpa using h
  have hs : isFqdn s = true := by rw [← isFqdn_lower s, hl, isFqdn_lower k, hk]
  unfold canonicalName fqdn
  simp only [hs, if_true, lower_idem]
  simpa using hl

theorem isFqdn_ends (s : Bytes) (h : isFqdn s = true) : ∃ p, s = p ++ [46] := by
  unfold isFqdn at h
  cases hr : s.reverse with
  | nil => rw [hr] at h; simp at h
  | cons c r =>
    rw [hr] at h
    simp only at h
    by_cases hc : c = 46
    · refine ⟨r.reverse, ?_⟩
      have := congrArg List.reverse hr
      simp only [List.reverse_reverse, List.reverse_cons] at this
      rw [this, hc]
    · have : (c != 46) = true := by simpa using hc
      simp [this] at h

theorem canonicalName_ends (s : Bytes) : ∃ p, canonicalName s = p ++ [46] := by
  unfold canonicalName fqdn
  by_cases h : isFqdn s = true
  · obtain ⟨p, hp⟩ := isFqdn_ends s h
    refine ⟨lower p, ?_⟩
    simp only [h, if_true]
    rw [hp]; simp [lower, lowerByte]
  · refine ⟨lower s, ?_⟩
    simp only [h]
    simp [lower, lowerByte]

theorem nameInZone_suffix (name zone : Bytes) (hn : ∃ p, name = p ++ [46]) (h : nameInZone name zone = true) :
    zone <:+ name := by
  unfold nameInZone at h
  by_cases hz : (zone == [46] || zone.isEmpty) = true
  · simp only [Bool.or_eq_true, beq_iff_eq, List.isEmpty_iff] at hz
    rcases hz with rfl | rfl
    · obtain ⟨p, rfl⟩ := hn; exact List.suffix_append _ _
    · exact List.nil_suffix
  · simp only [hz, Bool.false_eq_true, if_false] at h
    by_cases he : (name == zone) = true
    · have : name = zone := by simpa using he
      rw [this]; exact List.suffix_refl _
    · simp only [he, Bool.false_eq_true, if_false] at h
      split at h
      · cases h
      · split at h
        · cases h
        · rename_i hcond
          simp only [Bool.or_eq_true, bne_iff_ne, ne_eq, not_or, Decidable.not_not] at hcond
          rw [← hcond.2]
          exact List.drop_suffix _ _

theorem last3 (l : Bytes) (h : 3 ≤ l.length) :
    ∃ init a b c, l = init ++ [a, b, c] ∧ l.getD (l.length - 3) 0 = a ∧ l.getD (l.length - 2) 0 = b := by
  have hr3 : 3 ≤ l.reverse.length := by simpa using h
  match hr : l.reverse, hr3 with
  | c :: b :: a :: r, _ =>
    have hl : l = r.reverse ++ [a, b, c] := by
      have := congrArg List.reverse hr
      simpa using this
    refine ⟨r.reverse, a, b, c, hl, ?_, ?_⟩
    · rw [hl]; simp [List.getD_eq_getElem?_getD]
    · rw [hl]
      simp only [List.length_append, List.length_reverse, List.length_cons, List.length_nil, List.getD_eq_getElem?_getD]
      rw [List.getElem?_append_right (by simp)]
      simp

/-! ### VerifyDS loop -/

section
variable (sup : DSRec → Bool) (dmatch : DKey → Nat → Bytes → Bool) (limit : Nat) (keys : List DKey)

theorem verifyDSStep_matched (st : DSState) (d : DSRec) (h : st.matched = true) :
    verifyDSStep sup dmatch limit keys st d = st := by
  unfold verifyDSStep; simp [h]

theorem verifyDSStep_unmatched (st : DSState) (d : DSRec) (h : st.matched = false) :
    verifyDSStep sup dmatch limit keys st d =
      { supported := st.supported + (if sup d then 1 else 0),
        matched := dsAuthenticates sup dmatch limit keys d } := by
  unfold verifyDSStep dsAuthenticates
  simp only [h, Bool.false_eq_true, if_false]
  by_cases hs : sup d = true
  · simp only [hs, Bool.not_true, Bool.false_eq_true, if_false, if_true, Bool.true_and]
    by_cases hc : (keys.filter (usableDSCandidate limit d)).isEmpty = true
    · have : keys.filter (usableDSCandidate limit d) = [] := by simpa using hc
      simp only [hc, if_true, this, List.any_nil, Bool.and_false]
      cases hexDecode d.digest <;> simp [h]
    · simp only [hc, Bool.false_eq_true, if_false]
      cases hd : hexDecode d.digest with
      | none => simp [h]
      | some want =>
        simp only
        by_cases hw : want.isEmpty = true
        · simp [hw, h]
        · simp only [hw, Bool.false_eq_true, if_false, Bool.not_false, Bool.true_and]
          by_cases hm : (keys.filter (usableDSCandidate limit d)).any (fun k => dmatch k d.dt want) = true
          · simp [hm]
          · have hm' : (keys.filter (usableDSCandidate limit d)).any (fun k => dmatch k d.dt want) = false := by simpa using hm
            simp [hm']
  · have hs' : sup d = false := by simpa using hs
    cases st with
    | mk s m => simp only at h; subst h; simp [hs']

theorem foldl_matched_stays (l : List DSRec) : ∀ st : DSState, st.matched = true →
    (l.foldl (verifyDSStep sup dmatch limit keys) st) = st := by
  induction l with
  | nil => intro st _; rfl
  | cons d t ih =>
    intro st h
    simp only [List.foldl_cons, verifyDSStep_matched sup dmatch limit keys st d h]
    exact ih st h

theorem foldl_verifyDS (l : List DSRec) : ∀ st : DSState, st.matched = false →
    ((l.foldl (verifyDSStep sup dmatch limit keys) st).matched = true ↔
        ∃ d ∈ l, dsAuthenticates sup dmatch limit keys d = true) ∧
      ((l.foldl (verifyDSStep sup dmatch limit keys) st).matched = false →
        (l.foldl (verifyDSStep sup dmatch limit keys) st).supported = st.supported + (l.filter sup).length) := by
  induction l with
  | nil => intro st h; simp [h]
  | cons d t ih =>
    intro st h
    simp only [List.foldl_cons]
    rw [verifyDSStep_unmatched sup dmatch limit keys st d h]
    by_cases ha : dsAuthenticates sup dmatch limit keys d = true
    · rw [foldl_matched_stays sup dmatch limit keys t _ (by simpa using ha)]
      simp [ha]
    · have ha' : dsAuthenticates sup dmatch limit keys d = false := by simpa using ha
      have := ih { supported := st.supported + (if sup d then 1 else 0), matched := dsAuthenticates sup dmatch limit keys d } (by simpa using ha')
      obtain ⟨h1, h2⟩ := this
      refine ⟨?_, ?_⟩
      · rw [h1]; simp [ha']
      · intro hm
        rw [h2 hm]
        simp only [List.filter_cons]
        by_cases hs : sup d = true <;> simp [hs] <;> omega
end

/-! ### verifySignature, verifyOneSig, VerifyRRSIG -/

theorem equalFold_comm (a b : Bytes) : equalFold a b = equalFold b a := by
  unfold equalFold
  apply Bool.eq_iff_iff.mpr
  simp only [beq_iff_eq]
  exact eq_comm

/-- widths RFC 6605 §4 / RFC 8080 §2 give keys and signatures. -/
def curveKeyLen (alg : Nat) : Nat := if alg = 15 then 32 else if alg = 13 then 64 else 96
def curveSigLen (alg : Nat) : Nat := if alg = 15 then 64 else if alg = 13 then 64 else 96

theorem verify_curve_ok_iff (dec : Bytes → Bytes × Bool) (alg : Nat) (curve : Option Bool) (pk sig : Bytes) :
    verifyCurve dec alg curve pk sig = Verdict.ok ↔
      (dec pk).2 = true ∧ (dec pk).1.length = curveKeyLen alg ∧ sig.length = curveSigLen alg ∧ curve = some true := by
  unfold verifyCurve curveKeyLen curveSigLen
  by_cases h15 : alg = 15
  · simp only [h15, if_true]
    by_cases hd : (dec pk).2 = true <;> by_cases hl : (dec pk).1.length = 32 <;> by_cases hs : sig.length = 64 <;>
      cases curve with
      | none => simp [hd, hl, hs]
      | some b => cases b <;> simp [hd, hl, hs]
  · simp only [h15, if_false]
    by_cases h13 : alg = 13
    · simp only [h13, if_true]
      by_cases hd : (dec pk).2 = true <;> by_cases hl : (dec pk).1.length = 2 * 32 <;> by_cases hs : sig.length = 2 * 32 <;>
        cases curve with
        | none => simp [hd, hl, hs]
        | some b => cases b <;> simp [hd, hl, hs]
    · simp only [h13, if_false]
      by_cases hd : (dec pk).2 = true <;> by_cases hl : (dec pk).1.length = 2 * 48 <;> by_cases hs : sig.length = 2 * 48 <;>
        cases curve with
        | none => simp [hd, hl, hs]
        | some b => cases b <;> simp [hd, hl, hs]

def rsaAlg (a : Nat) : Prop := a = 5 ∨ a = 7 ∨ a = 8 ∨ a = 10
def curveAlg (a : Nat) : Prop := a = 13 ∨ a = 14 ∨ a = 15
instance (a : Nat) : Decidable (rsaAlg a) := by unfold rsaAlg; infer_instance
instance (a : Nat) : Decidable (curveAlg a) := by unfold curveAlg; infer_instance

theorem verifySignature_ok_iff (std : Nat → Nat → Bytes → Bytes → Bytes → Bool) (dec : Bytes → Bytes × Bool) (L : RSALimits)
    (tagOf : VKey → Nat) (orc : SigOracle) (k : VKey) (sig : VSig) (set : List VRec) :
    verifySignature std dec L tagOf orc k sig set = Verdict.ok ↔
      signatureBinding (bkeyOf tagOf k) (bsigOf sig) (hdrsOf set) = Verdict.ok ∧
      (∃ r0 t, set = r0 :: t ∧
        (signedData sig.typ r0.cls sig.alg sig.labels sig.origTTL sig.exp sig.inc sig.tag orc.signerWire
          r0.ownerLabels (set.map (·.canonRd))).isSome = true) ∧
      (dec sig.sigText).2 = true ∧
      ((rsaAlg sig.alg ∧ verifyRSA std dec L sig.alg k.pk orc.hashed (dec sig.sigText).1 = Verdict.ok) ∨
       (curveAlg sig.alg ∧ verifyCurve dec sig.alg orc.curve k.pk (dec sig.sigText).1 = Verdict.ok)) := by
  unfold verifySignature
  cases hb : signatureBinding (bkeyOf tagOf k) (bsigOf sig) (hdrsOf set) with
  | ok =>
    simp only [true_and]
    cases set with
    | nil => simp
    | cons r0 t =>
      cases hsd : signedData sig.typ r0.cls sig.alg sig.labels sig.origTTL sig.exp sig.inc sig.tag orc.signerWire
          r0.ownerLabels ((r0 :: t).map (·.canonRd)) with
      | none =>
        simp only [hsd]
        constructor
        · intro h; cases h
        · rintro ⟨⟨r0', t', heq, h⟩, _⟩
          cases heq
          rw [hsd] at h; simp at h
      | some d =>
        simp only [hsd]
        have hex : ∃ r0' t', r0 :: t = r0' :: t' ∧
            (signedData sig.typ r0'.cls sig.alg sig.labels sig.origTTL sig.exp sig.inc sig.tag orc.signerWire
              r0'.ownerLabels ((r0 :: t).map (·.canonRd))).isSome = true := ⟨r0, t, rfl, by rw [hsd]; rfl⟩
        by_cases hs : (dec sig.sigText).2 = true
        · simp only [hs, Bool.not_true, Bool.false_eq_true, if_false, true_and]
          by_cases hr : sig.alg = 5 ∨ sig.alg = 7 ∨ sig.alg = 8 ∨ sig.alg = 10
          · simp only [hr, if_true]
            constructor
            · intro h; exact ⟨hex, Or.inl ⟨hr, h⟩⟩
            · rintro ⟨_, h | h⟩
              · exact h.2
              · exfalso; have := h.1; unfold curveAlg at this; omega
          · simp only [hr, if_false]
            by_cases hc : sig.alg = 13 ∨ sig.alg = 14 ∨ sig.alg = 15
            · simp only [hc, if_true]
              constructor
              · intro h; exact ⟨hex, Or.inr ⟨hc, h⟩⟩
              · rintro ⟨_, h | h⟩
                · exact absurd h.1 hr
                · exact h.2
            · simp only [hc, if_false]
              constructor
              · intro h; cases h
              · rintro ⟨_, h | h⟩
                · exact absurd h.1 hr
                · exact absurd h.1 hc
        · have hs' : (dec sig.sigText).2 = false := by simpa using hs
          simp only [hs', Bool.not_false, if_true]
          constructor
          · intro h; cases h
          · rintro ⟨_, h, _⟩; cases h
  | badSig => simp
  | noKey => simp
  | missingSigned => simp
  | err => simp

theorem cryptoVerify_ok_iff (std : Nat → Nat → Bytes → Bytes → Bytes → Bool) (dec : Bytes → Bytes × Bool) (L : RSALimits)
    (tagOf : VKey → Nat) (libOK : Bool) (orc : SigOracle) (k : VKey) (sig : VSig) (set : List VRec) :
    cryptoVerify std dec L tagOf libOK orc k sig set = Verdict.ok ↔
      (ownAlg k.alg = true ∧ verifySignature std dec L tagOf orc k sig set = Verdict.ok) ∨
      (ownAlg k.alg = false ∧ libOK = true) := by
  unfold cryptoVerify
  by_cases h : ownAlg k.alg = true
  · simp [h]
  · have h' : ownAlg k.alg = false := by simpa using h
    cases libOK <;> simp [h']

theorem verifyOneSig_iff (cv : VKey → VSig → List VRec → Verdict) (inPeriod : VSig → Bool) (supAlg : Nat → Bool)
    (tagOf : VKey → Nat) (keys : List VKey) (set : List VRec) (sig : VSig) :
    verifyOneSig cv inPeriod supAlg tagOf keys set sig = true ↔
      inPeriod sig = true ∧ supAlg sig.alg = true ∧ signatureMatchesRRset sig set = true ∧
      ∃ k ∈ keys, usableSignatureCandidate tagOf sig k = true ∧ cv k sig set = Verdict.ok := by
  unfold verifyOneSig
  simp only
  constructor
  · intro h
    split at h
    · cases h
    · split at h
      · cases h
      · split at h
        · cases h
        · split at h
          · cases h
          · split at h
            · cases h
            · rename_i _ _ hp ha hm
              simp only [Bool.not_eq_true', Bool.not_eq_false] at hp ha hm
              refine ⟨by simpa using hp, by simpa using ha, by simpa using hm, ?_⟩
              obtain ⟨k, hk, hcv⟩ := List.any_eq_true.mp h
              have hk1 := List.mem_filter.mp hk
              have hk2 := List.mem_filter.mp hk1.1
              exact ⟨k, hk2.1, hk1.2, by simpa using hcv⟩
  · rintro ⟨hp, ha, hm, k, hk, hu, hcv⟩
    have hu' := hu
    unfold usableSignatureCandidate at hu'
    simp only [Bool.and_eq_true, beq_iff_eq] at hu'
    have htag : (tagOf k == sig.tag) = true := by simpa using hu'.1.1.1.1.1
    have hmem : k ∈ keys.filter (fun k => tagOf k == sig.tag) := List.mem_filter.mpr ⟨hk, htag⟩
    have hne : (keys.filter (fun k => tagOf k == sig.tag)).isEmpty = false := by
      cases hx : keys.filter (fun k => tagOf k == sig.tag) with
      | nil => rw [hx] at hmem; cases hmem
      | cons _ _ => rfl
    have hsigner : (keys.filter (fun k => tagOf k == sig.tag)).any (fun k => equalFold sig.signer k.name) = true :=
      List.any_eq_true.mpr ⟨k, hmem, by rw [equalFold_comm]; exact hu'.1.1.2⟩
    simp only [hne, Bool.false_eq_true, if_false, hsigner, Bool.not_true, hp, ha, hm]
    exact List.any_eq_true.mpr ⟨k, List.mem_filter.mpr ⟨hmem, hu⟩, by simp [hcv]⟩

/-- the RRset a record belongs to, as `VerifyRRSIG` groups the message. -/
def groupOf (z : Bytes) (m : VMsg) (r : VRec) : List VRec := (collected z m).filter (fun x => rrKey x == rrKey r)

theorem verifyRRSIG_iff (oneSig : List VRec → VSig → Bool) (nKeys : Nat) (zone : Bytes) (m : VMsg) :
    verifyRRSIG oneSig nKeys zone m = true ↔
      nKeys ≠ 0 ∧
      (∀ r ∈ m.answer, exempt (lower (fqdn zone)) m r = false → nameInZone (lower r.name) (lower (fqdn zone)) = true) ∧
      (collected (lower (fqdn zone)) m = [] ∨
        (m.sigs ≠ [] ∧ ∀ r ∈ collected (lower (fqdn zone)) m,
          isRRset (hdrsOf (groupOf (lower (fqdn zone)) m r)) = true ∧
          ∃ s ∈ m.sigs, nameInZone (lower s.name) (lower (fqdn zone)) = true ∧ sigKey s = rrKey r ∧
            oneSig (groupOf (lower (fqdn zone)) m r) s = true)) := by
  unfold verifyRRSIG groupOf
  simp only
  generalize lower (fqdn zone) = z
  by_cases hn : nKeys = 0
  · simp [hn]
  · simp only [hn, if_false, ne_eq, not_false_eq_true, true_and]
    by_cases hout : (m.answer.any fun r => !exempt z m r && !nameInZone (lower r.name) z) = true
    · simp only [hout, if_true, Bool.false_eq_true, false_iff, not_and]
      intro hall
      obtain ⟨r, hr, hz⟩ := List.any_eq_true.mp hout
      simp only [Bool.and_eq_true, Bool.not_eq_true'] at hz
      have := hall r hr hz.1
      rw [this] at hz; cases hz.2
    · simp only [hout, Bool.false_eq_true, if_false]
      have hall : ∀ r ∈ m.answer, exempt z m r = false → nameInZone (lower r.name) z = true := by
        intro r hr hex
        cases hz : nameInZone (lower r.name) z with
        | true => rfl
        | false => exact absurd (List.any_eq_true.mpr ⟨r, hr, by simp [hz, hex]⟩) hout
      have hall' : (∀ r ∈ m.answer, exempt z m r = false → nameInZone (lower r.name) z = true) ↔ True :=
        ⟨fun _ => trivial, fun _ => hall⟩
      rw [hall', true_and]
      by_cases he : (collected z m).isEmpty = true
      · have : collected z m = [] := by simpa using he
        simp [this]
      · have hne : collected z m ≠ [] := by simpa using he
        simp only [he, Bool.false_eq_true, if_false, hne, false_or]
        by_cases hs : m.sigs.isEmpty = true
        · have : m.sigs = [] := by simpa using hs
          simp [hs, this]
        · have hsne : m.sigs ≠ [] := by simpa using hs
          simp only [hs, Bool.false_eq_true, if_false, hsne, not_false_eq_true, true_and]
          rw [List.all_eq_true]
          constructor
          · intro h r hr
            have := h r hr
            simp only [Bool.and_eq_true, Bool.not_eq_true', List.any_eq_true, List.mem_filter] at this
            obtain ⟨⟨_, hrr⟩, s, ⟨⟨hsm, hsz⟩, hkey⟩, hone⟩ := this
            exact ⟨hrr, s, hsm, hsz, by simpa using hkey, hone⟩
          · intro h r hr
            obtain ⟨hrr, s, hsm, hsz, hkey, hone⟩ := h r hr
            have hmem : s ∈ (m.sigs.filter (fun s => nameInZone (lower s.name) z)).filter (fun s => sigKey s == rrKey r) :=
              List.mem_filter.mpr ⟨List.mem_filter.mpr ⟨hsm, hsz⟩, by simp [hkey]⟩
            simp only [Bool.and_eq_true, Bool.not_eq_true', List.any_eq_true]
            refine ⟨⟨?_, hrr⟩, s, hmem, hone⟩
            cases hx : (m.sigs.filter (fun s => nameInZone (lower s.name) z)).filter (fun s => sigKey s == rrKey r) with
            | nil => rw [hx] at hmem; cases hmem
            | cons _ _ => rfl

/-! ### the base64 decoder model: length law, clean prefixes, chunked = single decode -/

/-- number of base64 alphabet characters. -/
def sextets (s : Bytes) : Nat := (s.filter (fun c => (sextet c).isSome)).length

theorem sextet_not_nl (c : UInt8) (v : Nat) (h : sextet c = some v) : isNL c = false := by
  unfold sextet at h
  unfold isNL
  have h10 : (c == 10) = decide (c.toNat = 10) := by
    by_cases hc : c = 10
    · simp [hc]
    · have : c.toNat ≠ 10 := fun e => hc (UInt8.toNat_inj.mp e)
      simp [hc, this]
  have h13 : (c == 13) = decide (c.toNat = 13) := by
    by_cases hc : c = 13
    · simp [hc]
    · have : c.toNat ≠ 13 := fun e => hc (UInt8.toNat_inj.mp e)
      simp [hc, this]
  rw [h10, h13]
  simp only at h
  by_cases e10 : c.toNat = 10
  · simp [e10] at h
  · by_cases e13 : c.toNat = 13
    · simp [e13] at h
    · simp [e10, e13]

theorem nl_not_sextet (c : UInt8) (h : isNL c = true) : sextet c = none := by
  cases hs : sextet c with
  | none => rfl
  | some v => rw [sextet_not_nl c v hs] at h; cases h

theorem material_cons (c : UInt8) (t : Bytes) : material (c :: t) = material t + (if isNL c then 0 else 1) := by
  unfold material
  by_cases h : isNL c = true <;> simp [h]

theorem sextets_cons (c : UInt8) (t : Bytes) : sextets (c :: t) = sextets t + (if (sextet c).isSome then 1 else 0) := by
  unfold sextets
  by_cases h : (sextet c).isSome = true <;> simp [h]

theorem dropNL_material (t : Bytes) : material (dropNL t) = material t ∧ sextets (dropNL t) = sextets t ∧
    (dropNL t).length ≤ t.length ∧ (dropNL t = [] → material t = 0) := by
  induction t with
  | nil => simp [dropNL, material, sextets]
  | cons c r ih =>
    unfold dropNL
    by_cases h : isNL c = true
    · simp only [h, if_true]
      rw [material_cons, sextets_cons, nl_not_sextet c h]
      simp only [h, if_true, Nat.add_zero, Option.isSome_none, Bool.false_eq_true, if_false, List.length_cons]
      exact ⟨ih.1, ih.2.1, by omega, ih.2.2.2⟩
    · simp [h]

theorem emit_length (acc : List Nat) (d : Nat) (h : 1 ≤ d ∧ d ≤ 4) : (emit acc d).length = d - 1 := by
  unfold emit
  simp only [List.length_take, List.length_cons, List.length_nil]
  omega

/-- what one `decodeQuantum` did when it reported no error. -/
def QSpec (src : Bytes) (acc : List Nat) (q : QOut) : Prop :=
  (q.out = [] ∧ q.rest = [] ∧ acc = [] ∧ material src = 0 ∧ sextets src = 0) ∨
  (q.out.length = 3 ∧ acc.length + material src = 4 + material q.rest ∧
    acc.length + sextets src = 4 + sextets q.rest ∧ q.rest.length < src.length) ∨
  ((q.out.length = 1 ∨ q.out.length = 2) ∧ q.rest = [] ∧ acc.length + material src = 4 ∧
    q.out.length + 1 = acc.length + sextets src)

theorem eq61_not_sextet (c : UInt8) (h : c = 61) : sextet c = none ∧ isNL c = false := by
  subst h; decide

theorem quantum_spec : ∀ (src : Bytes) (acc : List Nat), acc.length ≤ 3 → (quantum src acc).err = false →
    QSpec src acc (quantum src acc) := by
  intro src
  induction src with
  | nil =>
    intro acc _ herr
    unfold quantum at herr ⊢
    by_cases he : acc.isEmpty = true
    · have : acc = [] := by simpa using he
      subst this
      left; simp [material, sextets]
    · simp [he] at herr
  | cons c t ih =>
    intro acc hacc herr
    unfold quantum at herr ⊢
    cases hs : sextet c with
    | some v =>
      simp only [hs] at herr ⊢
      have hnl := sextet_not_nl c v hs
      by_cases h4 : (acc ++ [v]).length = 4
      · simp only [h4, if_true]
        right; left
        have hal : acc.length = 3 := by simpa using h4
        refine ⟨emit_length _ 4 (by omega), ?_, ?_, by simp⟩
        · rw [material_cons, hnl]; simp; omega
        · rw [sextets_cons, hs]; simp; omega
      · simp only [h4, if_false] at herr ⊢
        have hal : (acc ++ [v]).length ≤ 3 := by simp at h4 ⊢; omega
        have := ih (acc ++ [v]) hal herr
        rcases this with ⟨_, _, h, _⟩ | ⟨h1, h2, h3, h5⟩ | ⟨h1, h2, h3, h5⟩
        · simp at h
        · right; left
          refine ⟨h1, ?_, ?_, by simp; omega⟩
          · rw [material_cons, hnl]; simp at h2 ⊢; omega
          · rw [sextets_cons, hs]; simp at h3 ⊢; omega
        · right; right
          refine ⟨h1, h2, ?_, ?_⟩
          · rw [material_cons, hnl]; simp at h3 ⊢; omega
          · rw [sextets_cons, hs]; simp at h5 ⊢; omega
    | none =>
      simp only [hs] at herr ⊢
      by_cases hnl : isNL c = true
      · simp only [hnl, if_true] at herr ⊢
        have := ih acc hacc herr
        rcases this with ⟨h1, h2, h3, h4, h5⟩ | ⟨h1, h2, h3, h5⟩ | ⟨h1, h2, h3, h5⟩
        · left
          refine ⟨h1, h2, h3, ?_, ?_⟩
          · rw [material_cons, hnl]; simpa using h4
          · rw [sextets_cons, hs]; simpa using h5
        · right; left
          refine ⟨h1, ?_, ?_, by simp; omega⟩
          · rw [material_cons, hnl]; simpa using h2
          · rw [sextets_cons, hs]; simpa using h3
        · right; right
          refine ⟨h1, h2, ?_, ?_⟩
          · rw [material_cons, hnl]; simpa using h3
          · rw [sextets_cons, hs]; simpa using h5
      · have hnl' : isNL c = false := by simpa using hnl
        simp only [hnl', Bool.false_eq_true, if_false] at herr ⊢
        by_cases h61 : (c != 61) = true
        · simp [h61] at herr
        · have hc : c = 61 := by simpa using h61
          simp only [h61, if_false] at herr ⊢
          have hmc : material (c :: t) = material t + 1 := by rw [material_cons, hnl']; simp
          have hsc : sextets (c :: t) = sextets t := by rw [sextets_cons, hs]; simp
          match hl : acc.length, hacc with
          | 0, _ => simp [hl] at herr
          | 1, _ => simp [hl] at herr
          | 2, _ =>
            simp only [hl] at herr ⊢
            have hd := dropNL_material t
            cases hdt : dropNL t with
            | nil => simp [hdt] at herr
            | cons c2 t2 =>
              simp only [hdt] at herr ⊢
              by_cases h2 : (c2 != 61) = true
              · simp [h2] at herr
              · have hc2 : c2 = 61 := by simpa using h2
                simp only [h2, if_false, Bool.false_eq_true] at herr ⊢
                have hr : dropNL t2 = [] := by simpa using herr
                have hd2 := dropNL_material t2
                right; right
                refine ⟨Or.inl (emit_length _ 2 (by omega)), hr, ?_, ?_⟩
                · rw [hmc, ← hd.1, hdt, material_cons, (eq61_not_sextet c2 hc2).2]
                  have := hd2.2.2.2 hr
                  simp; omega
                · rw [hsc, ← hd.2.1, hdt, sextets_cons, (eq61_not_sextet c2 hc2).1, emit_length _ 2 (by omega)]
                  have : sextets t2 = 0 := by rw [← hd2.2.1, hr]; rfl
                  simp [this, hl]
          | 3, _ =>
            simp only [hl, Bool.false_eq_true, if_false] at herr ⊢
            have hr : dropNL t = [] := by simpa using herr
            have hd := dropNL_material t
            right; right
            refine ⟨Or.inr (emit_length _ 3 (by omega)), hr, ?_, ?_⟩
            · rw [hmc]; have := hd.2.2.2 hr; omega
            · rw [hsc, emit_length _ 3 (by omega)]
              have : sextets t = 0 := by rw [← hd.2.1, hr]; rfl
              omega

theorem decodeAux_nil (f : Nat) (acc : Bytes) : decodeAux f [] acc = (acc, true) := by
  cases f <;> simp [decodeAux]

theorem decodeAux_acc : ∀ (f : Nat) (src acc : Bytes),
    decodeAux f src acc = (acc ++ (decodeAux f src []).1, (decodeAux f src []).2) := by
  intro f
  induction f with
  | zero => intro src acc; simp [decodeAux]
  | succ n ih =>
    intro src acc
    unfold decodeAux
    by_cases he : src.isEmpty = true
    · simp [he]
    · simp only [he, Bool.false_eq_true, if_false, List.nil_append]
      by_cases hq : (quantum src []).err = true
      · simp [hq]
      · simp only [hq, Bool.false_eq_true, if_false]
        rw [ih _ (acc ++ (quantum src []).out), ih _ (quantum src []).out]
        simp [List.append_assoc]

/-- progress of one quantum: the rest is shorter (or everything is consumed). -/
theorem quantum_progress (src : Bytes) (h : src ≠ []) (herr : (quantum src []).err = false) :
    (quantum src []).rest.length < src.length := by
  have hlen : 0 < src.length := by cases src with
    | nil => exact absurd rfl h
    | cons _ _ => simp
  rcases quantum_spec src [] (by simp) herr with ⟨_, h2, _⟩ | ⟨_, _, _, h5⟩ | ⟨_, h2, _⟩
  · rw [h2]; exact hlen
  · exact h5
  · rw [h2]; exact hlen

theorem decodeAux_fuel : ∀ (f1 f2 : Nat) (src acc : Bytes), src.length < f1 → src.length < f2 →
    decodeAux f1 src acc = decodeAux f2 src acc := by
  intro f1
  induction f1 with
  | zero => intro f2 src acc h; omega
  | succ n ih =>
    intro f2 src acc h1 h2
    cases f2 with
    | zero => omega
    | succ m =>
      unfold decodeAux
      by_cases he : src.isEmpty = true
      · simp [he]
      · simp only [he, Bool.false_eq_true, if_false]
        by_cases hq : (quantum src []).err = true
        · simp [hq]
        · have hq' : (quantum src []).err = false := by simpa using hq
          simp only [hq', Bool.false_eq_true, if_false]
          have hne : src ≠ [] := by simpa using he
          have hp := quantum_progress src hne hq'
          exact ih m _ _ (by omega) (by omega)

/-- the length law of a successful decode. -/
theorem decodeAux_spec : ∀ (f : Nat) (src : Bytes), src.length < f → (decodeAux f src []).2 = true →
    material src % 4 = 0 ∧ (decodeAux f src []).1.length ≤ material src / 4 * 3 ∧
      material src / 4 * 3 ≤ (decodeAux f src []).1.length + 2 ∧
      (decodeAux f src []).1.length * 4 ≤ 3 * sextets src := by
  intro f
  induction f with
  | zero => intro src h; omega
  | succ n ih =>
    intro src hlen hok
    unfold decodeAux at hok ⊢
    by_cases he : src.isEmpty = true
    · have : src = [] := by simpa using he
      subst this; simp [material, sextets]
    · simp only [he, Bool.false_eq_true, if_false, List.nil_append] at hok ⊢
      have hne : src ≠ [] := by simpa using he
      by_cases hq : (quantum src []).err = true
      · simp [hq] at hok
      · have hq' : (quantum src []).err = false := by simpa using hq
        simp only [hq', Bool.false_eq_true, if_false] at hok ⊢
        rw [decodeAux_acc] at hok ⊢
        simp only at hok ⊢
        rcases quantum_spec src [] (by simp) hq' with ⟨h1, h2, _, h4, h5⟩ | ⟨h1, h2, h3, h5⟩ | ⟨h1, h2, h3, h5⟩
        · rw [h2, decodeAux_nil, h1]; simp [h4, h5]
        · have := ih (quantum src []).rest (by omega) hok
          simp only [List.length_nil, Nat.zero_add] at h2 h3
          rw [List.length_append, h1]
          omega
        · rw [h2, decodeAux_nil]
          simp only [List.length_nil, Nat.zero_add, List.append_nil] at h3 h5 ⊢
          omega

theorem b64_len_le (s : Bytes) (h : (b64Decode s).2 = true) : (b64Decode s).1.length ≤ material s / 4 * 3 :=
  (decodeAux_spec (s.length + 1) s (by omega) h).2.1

theorem b64_len_ge (s : Bytes) (h : (b64Decode s).2 = true) : material s ≤ ((b64Decode s).1.length + 2) / 3 * 4 := by
  have := decodeAux_spec (s.length + 1) s (by omega) h
  unfold b64Decode
  omega

/-- only base64 alphabet characters. -/
def Clean (s : Bytes) : Prop := ∀ c ∈ s, (sextet c).isSome = true

theorem sextets_le_length (s : Bytes) : sextets s ≤ s.length := by
  unfold sextets; exact List.length_filter_le _ _

/-- a decode that yields the full three octets per four characters saw nothing but alphabet characters. -/
theorem clean_of_full (c : Bytes) (n : Nat) (hl : c.length = 4 * n) (hok : (b64Decode c).2 = true)
    (hfull : (b64Decode c).1.length = 3 * n) : Clean c := by
  have h := (decodeAux_spec (c.length + 1) c (by omega) hok).2.2.2
  unfold b64Decode at hfull
  rw [hfull] at h
  have h1 := sextets_le_length c
  have : sextets c = c.length := by omega
  unfold sextets at this
  exact List.length_filter_eq_length_iff.mp this

theorem quantum_clean4 (a b c d : UInt8) (rest : Bytes) (va vb vc vd : Nat)
    (ha : sextet a = some va) (hb : sextet b = some vb) (hc : sextet c = some vc) (hd : sextet d = some vd) :
    quantum (a :: b :: c :: d :: rest) [] = ⟨rest, emit [va, vb, vc, vd] 4, false⟩ := by
  simp [quantum, ha, hb, hc, hd]

theorem b64Decode_eq (s : Bytes) (f : Nat) (h : s.length < f) : b64Decode s = decodeAux f s [] := by
  unfold b64Decode; exact decodeAux_fuel _ _ _ _ (by omega) h

/-- decoding a clean prefix of whole groups and then the rest is decoding the concatenation. -/
theorem b64Decode_clean_append : ∀ (n : Nat) (c rest : Bytes), Clean c → c.length = 4 * n →
    (b64Decode c).2 = true ∧
      b64Decode (c ++ rest) = ((b64Decode c).1 ++ (b64Decode rest).1, (b64Decode rest).2) := by
  intro n
  induction n with
  | zero =>
    intro c rest _ hl
    have : c = [] := List.eq_nil_of_length_eq_zero (by omega)
    subst this
    simp [b64Decode, decodeAux]
  | succ n ih =>
    intro c rest hclean hl
    match c, hl with
    | a :: b :: c' :: d :: c'', hl =>
      have hl' : c''.length = 4 * n := by simp at hl; omega
      have hclean' : Clean c'' := fun x hx => hclean x (by simp [hx])
      obtain ⟨va, ha⟩ := Option.isSome_iff_exists.mp (hclean a (by simp))
      obtain ⟨vb, hb⟩ := Option.isSome_iff_exists.mp (hclean b (by simp))
      obtain ⟨vc, hc⟩ := Option.isSome_iff_exists.mp (hclean c' (by simp))
      obtain ⟨vd, hd⟩ := Option.isSome_iff_exists.mp (hclean d (by simp))
      have step : ∀ tail : Bytes, b64Decode (a :: b :: c' :: d :: tail) =
          (emit [va, vb, vc, vd] 4 ++ (b64Decode tail).1, (b64Decode tail).2) := by
        intro tail
        rw [b64Decode_eq _ ((a :: b :: c' :: d :: tail).length + 1) (by omega)]
        unfold decodeAux
        simp only [List.isEmpty_cons, Bool.false_eq_true, if_false, quantum_clean4 a b c' d tail va vb vc vd ha hb hc hd,
          List.nil_append]
        rw [decodeAux_acc, b64Decode_eq tail ((a :: b :: c' :: d :: tail).length) (by simp; omega)]
      have ih1 := ih c'' rest hclean' hl'
      have ih2 := ih c'' [] hclean' hl'
      simp only [List.append_nil] at ih2
      refine ⟨?_, ?_⟩
      · rw [step c'']; exact ih1.1
      · have : (a :: b :: c' :: d :: c'') ++ rest = a :: b :: c' :: d :: (c'' ++ rest) := by simp
        rw [this, step (c'' ++ rest), step c'', ih1.2]
        simp [List.append_assoc]

theorem chunkPieces_nil (dec : Bytes → Bytes × Bool) (chunk f : Nat) : chunkPieces dec chunk f [] = [] := by
  cases f <;> simp [chunkPieces]

/-- when the chunk loop of `KeyTag` did not hand the key to the library, one
decode of the whole text succeeds and yields the concatenated chunk decodes. -/
theorem chunks_agree_b64 (chunk : Nat) (hc4 : chunk % 4 = 0) (hpos : 0 < chunk) : ∀ (fuel : Nat) (pk : Bytes) (sum s : Nat),
    pk.length < fuel → keyTagLoop b64Decode chunk fuel pk sum = some s →
      b64Decode pk = ((chunkPieces b64Decode chunk fuel pk).flatten, true) := by
  intro fuel
  induction fuel with
  | zero => intro pk _ _ h; omega
  | succ f ih =>
    intro pk sum s hlen h
    unfold keyTagLoop at h
    unfold chunkPieces
    by_cases he : pk.isEmpty = true
    · have : pk = [] := by simpa using he
      subst this; simp [b64Decode, decodeAux]
    · simp only [he, Bool.false_eq_true, if_false] at h ⊢
      have hne : pk ≠ [] := by simpa using he
      by_cases hok : (b64Decode (List.take chunk pk)).2 = true
      · simp only [hok, Bool.not_true, Bool.false_eq_true, if_false] at h
        by_cases hrest : (List.drop chunk pk).isEmpty = true
        · have hd : List.drop chunk pk = [] := by simpa using hrest
          have ht : List.take chunk pk = pk := List.take_of_length_le (List.drop_eq_nil_iff.mp hd)
          rw [hd, chunkPieces_nil, ht]
          rw [ht] at hok
          simp only [List.flatten_cons, List.flatten_nil, List.append_nil]
          exact Prod.ext rfl hok
        · have hrest' : (List.drop chunk pk).isEmpty = false := by simpa using hrest
          simp only [hrest', Bool.not_false, Bool.true_and] at h
          by_cases hshort : ((b64Decode (List.take chunk pk)).1.length != chunk / 4 * 3) = true
          · simp [hshort] at h
          · simp only [hshort, Bool.false_eq_true, if_false] at h
            have hfull : (b64Decode (List.take chunk pk)).1.length = chunk / 4 * 3 := by simpa using hshort
            have hdne : List.drop chunk pk ≠ [] := by simpa using hrest
            have hpl : chunk < pk.length := by
              by_cases hx : chunk < pk.length
              · exact hx
              · exact absurd (List.drop_eq_nil_iff.mpr (by omega)) hdne
            have hcl : (List.take chunk pk).length = 4 * (chunk / 4) := by
              rw [List.length_take]; omega
            have hclean := clean_of_full _ (chunk / 4) hcl hok (by rw [hfull]; omega)
            have happ := (b64Decode_clean_append (chunk / 4) _ (List.drop chunk pk) hclean hcl).2
            rw [List.take_append_drop] at happ
            have hrl : (List.drop chunk pk).length < f := by rw [List.length_drop]; omega
            have := ih _ _ _ hrl h
            rw [happ, this]
            simp
      · simp [hok] at h

/-! ### RSAMD5: the chunked read of an unwrapped text -/

def NLFree (s : Bytes) : Prop := ∀ c ∈ s, isNL c = false

theorem fillChunk_nlfree : ∀ (enc : Bytes) (room : Nat) (acc : Bytes), NLFree enc →
    fillChunk room enc acc = (acc.reverse ++ enc.take room, enc.drop room) := by
  intro enc
  induction enc with
  | nil => intro room acc _; simp [fillChunk]
  | cons c t ih =>
    intro room acc h
    unfold fillChunk
    by_cases hr : room = 0
    · simp [hr]
    · have hc : isNL c = false := h c (by simp)
      have ht : NLFree t := fun x hx => h x (by simp [hx])
      simp only [hr, if_false, hc, Bool.false_eq_true]
      rw [ih (room - 1) (c :: acc) ht]
      obtain ⟨k, rfl⟩ : ∃ k, room = k + 1 := ⟨room - 1, by omega⟩
      simp

theorem clean4_length (a b c d : UInt8) (h : Clean [a, b, c, d]) : (b64Decode [a, b, c, d]).1.length = 3 := by
  obtain ⟨va, ha⟩ := Option.isSome_iff_exists.mp (h a (by simp))
  obtain ⟨vb, hb⟩ := Option.isSome_iff_exists.mp (h b (by simp))
  obtain ⟨vc, hc⟩ := Option.isSome_iff_exists.mp (h c (by simp))
  obtain ⟨vd, hd⟩ := Option.isSome_iff_exists.mp (h d (by simp))
  simp [b64Decode, decodeAux, quantum_clean4 a b c d [] va vb vc vd ha hb hc hd, emit]

theorem clean_length : ∀ (n : Nat) (c : Bytes), Clean c → c.length = 4 * n → (b64Decode c).1.length = 3 * n := by
  intro n
  induction n with
  | zero => intro c _ hl
            have : c = [] := List.eq_nil_of_length_eq_zero (by omega)
            subst this; simp [b64Decode, decodeAux]
  | succ n ih =>
    intro c hclean hl
    match c, hl with
    | a :: b :: c' :: d :: c'', hl =>
      have hh : Clean [a, b, c', d] := fun x hx => hclean x (by simp at hx ⊢; rcases hx with h | h | h | h <;> simp [h])
      have ht : Clean c'' := fun x hx => hclean x (by simp [hx])
      have := (b64Decode_clean_append 1 [a, b, c', d] c'' hh (by simp)).2
      simp only [List.cons_append, List.nil_append] at this
      rw [this]
      simp only [List.length_append, clean4_length a b c' d hh, ih c'' ht (by simp at hl; omega)]
      omega

/-- every chunk but the last holds only alphabet characters. -/
def ChunksClean (chunk : Nat) : Nat → Bytes → Prop
  | 0, _ => True
  | f + 1, s => s.length ≤ chunk ∨ (Clean (s.take chunk) ∧ ChunksClean chunk f (s.drop chunk))

theorem rsamd5Fed_unwrapped (chunk : Nat) (h4 : chunk % 4 = 0) (hpos : 0 < chunk) : ∀ (f : Nat) (pk : Bytes),
    pk.length < f → NLFree pk → ChunksClean chunk f pk →
      rsamd5Fed b64Decode chunk f pk = (b64Decode pk).1 := by
  intro f
  induction f with
  | zero => intro pk h; omega
  | succ f ih =>
    intro pk hlen hnl hcc
    unfold rsamd5Fed
    by_cases he : pk.isEmpty = true
    · have : pk = [] := by simpa using he
      subst this; simp [b64Decode, decodeAux]
    · simp only [he, Bool.false_eq_true, if_false, fillChunk_nlfree pk chunk [] hnl, List.reverse_nil, List.nil_append]
      by_cases hshort : pk.length ≤ chunk
      · have hd : pk.drop chunk = [] := List.drop_eq_nil_iff.mpr hshort
        have ht : pk.take chunk = pk := List.take_of_length_le hshort
        rw [hd, ht]
        cases f with
        | zero => simp [rsamd5Fed]
        | succ f' => simp [rsamd5Fed]
      · have hlong : chunk < pk.length := by omega
        unfold ChunksClean at hcc
        rcases hcc with h | ⟨hclean, hrest⟩
        · omega
        · have hcl : (pk.take chunk).length = 4 * (chunk / 4) := by rw [List.length_take]; omega
          have happ := b64Decode_clean_append (chunk / 4) _ (pk.drop chunk) hclean hcl
          have hfull := clean_length (chunk / 4) _ hclean hcl
          rw [List.take_append_drop] at happ
          have hdne : (pk.drop chunk).isEmpty = false := by
            cases hx : pk.drop chunk with
            | nil => exact absurd (List.drop_eq_nil_iff.mp hx) (by omega)
            | cons _ _ => rfl
          have hnot : ¬ ((b64Decode (List.take chunk pk)).1.length < chunk / 4 * 3) := by rw [hfull]; omega
          simp only [happ.1, Bool.not_true, Bool.false_eq_true, if_false, hdne, Bool.not_false, Bool.true_and,
            decide_eq_true_eq, hnot]
          rw [happ.2]
          simp only
          congr 1
          exact ih _ (by rw [List.length_drop]; omega) (fun x hx => hnl x (List.mem_of_mem_drop hx)) hrest

/-! ### canonical RDATA -/

theorem lower_length (b : Bytes) : (lower b).length = b.length := by simp [lower]

theorem foldName_length : ∀ (f : Nat) (rd nm rest : Bytes), foldName f rd = some (nm, rest) →
    nm.length + rest.length = rd.length := by
  intro f
  induction f with
  | zero => intro rd nm rest h; simp [foldName] at h
  | succ n ih =>
    intro rd nm rest h
    cases rd with
    | nil => simp [foldName] at h
    | cons l t =>
      unfold foldName at h
      by_cases hl : (l == 0) = true
      · simp only [hl, if_true, Option.some.injEq, Prod.mk.injEq] at h
        obtain ⟨rfl, rfl⟩ := h; simp; omega
      · simp only [hl, Bool.false_eq_true, if_false] at h
        split at h
        · cases h
        · rename_i hc
          simp only [Bool.or_eq_true, decide_eq_true_eq, not_or, Nat.not_lt] at hc
          cases hr : foldName n (List.drop l.toNat t) with
          | none => simp [hr] at h
          | some p =>
            obtain ⟨nm', rest'⟩ := p
            simp only [hr, Option.some.injEq, Prod.mk.injEq] at h
            obtain ⟨rfl, rfl⟩ := h
            have := ih _ _ _ hr
            simp only [List.length_cons, List.length_append, lower_length, List.length_take, List.length_drop] at this ⊢
            omega

theorem foldNames_length : ∀ (n : Nat) (rd nms rest : Bytes), foldNames n rd = some (nms, rest) →
    nms.length + rest.length = rd.length := by
  intro n
  induction n with
  | zero => intro rd nms rest h; simp [foldNames] at h; obtain ⟨rfl, rfl⟩ := h; simp
  | succ k ih =>
    intro rd nms rest h
    unfold foldNames at h
    cases h1 : foldName (rd.length + 1) rd with
    | none => simp [h1] at h
    | some p =>
      obtain ⟨nm, r1⟩ := p
      simp only [h1] at h
      cases h2 : foldNames k r1 with
      | none => simp [h2] at h
      | some q =>
        obtain ⟨nms', r2⟩ := q
        simp only [h2, Option.some.injEq, Prod.mk.injEq] at h
        obtain ⟨rfl, rfl⟩ := h
        have a := foldName_length _ _ _ _ h1
        have b := ih _ _ _ h2
        simp only [List.length_append]; omega

/-- the canonical RDATA has the length of the published one (RDLENGTH is unchanged). -/
theorem canonRdata_length (typ : Nat) (rd c : Bytes) (h : canonRdata typ rd = some c) : c.length = rd.length := by
  unfold canonRdata at h
  cases hl : rdataLayout typ rd with
  | none => simp [hl] at h; rw [← h]
  | some p =>
    obtain ⟨skip, n, tail⟩ := p
    simp only [hl] at h
    split at h
    · cases h
    · rename_i hs
      cases hf : foldNames n (List.drop skip rd) with
      | none => simp [hf] at h
      | some q =>
        obtain ⟨nms, rest⟩ := q
        simp only [hf] at h
        split at h
        · cases h
        · simp only [Option.some.injEq] at h
          rw [← h]
          have := foldNames_length _ _ _ _ hf
          simp only [List.length_append, List.length_take, List.length_drop] at this ⊢
          omega

/-- types outside the RFC 4034 §6.2 / RFC 6840 §5.1 list are signed as published. -/
theorem canonRdata_unlisted (typ : Nat) (rd : Bytes)
    (h : typ ∉ [2, 3, 4, 5, 6, 7, 8, 9, 12, 14, 15, 17, 18, 21, 26, 33, 35, 36, 39]) : canonRdata typ rd = some rd := by
  have hl : rdataLayout typ rd = none := by
    unfold rdataLayout
    simp only [List.mem_cons, List.not_mem_nil, or_false, not_or] at h
    simp [h]
  unfold canonRdata; rw [hl]

/-! ### the decoder ignores line breaks; error prefixes; the RSAMD5 chunked read -/

/-- the text without its CR / LF. -/
def strip (s : Bytes) : Bytes := s.filter (fun c => !isNL c)

theorem strip_cons_nl (c : UInt8) (t : Bytes) (h : isNL c = true) : strip (c :: t) = strip t := by simp [strip, h]
theorem strip_cons (c : UInt8) (t : Bytes) (h : isNL c = false) : strip (c :: t) = c :: strip t := by simp [strip, h]
theorem strip_nlfree (s : Bytes) : NLFree (strip s) := by
  intro c hc; have := (List.mem_filter.mp hc).2; simpa using this
theorem strip_of_nlfree (s : Bytes) (h : NLFree s) : strip s = s := by
  unfold strip; exact List.filter_eq_self.mpr (fun c hc => by simp [h c hc])
theorem strip_strip (s : Bytes) : strip (strip s) = strip s := strip_of_nlfree _ (strip_nlfree s)
theorem strip_length_le (s : Bytes) : (strip s).length ≤ s.length := List.length_filter_le _ _

theorem dropNL_strip (t : Bytes) : dropNL (strip t) = strip t := by
  cases h : strip t with
  | nil => rfl
  | cons c r =>
    have : isNL c = false := strip_nlfree t c (by rw [h]; simp)
    simp [dropNL, this]

theorem strip_dropNL (t : Bytes) : strip (dropNL t) = strip t := by
  induction t with
  | nil => rfl
  | cons c r ih =>
    unfold dropNL
    by_cases h : isNL c = true
    · simp only [h, if_true]; rw [ih, strip_cons_nl c r h]
    · simp [h]

theorem dropNL_head (t : Bytes) (c : UInt8) (r : Bytes) (h : dropNL t = c :: r) : isNL c = false ∧ strip t = c :: strip r := by
  induction t with
  | nil => simp [dropNL] at h
  | cons x u ih =>
    unfold dropNL at h
    by_cases hx : isNL x = true
    · simp only [hx, if_true] at h
      have := ih h
      exact ⟨this.1, by rw [strip_cons_nl x u hx]; exact this.2⟩
    · have hx' : isNL x = false := by simpa using hx
      simp only [hx', Bool.false_eq_true, if_false, List.cons.injEq] at h
      obtain ⟨rfl, rfl⟩ := h
      exact ⟨hx', strip_cons x u hx'⟩

theorem dropNL_nil_iff (t : Bytes) : dropNL t = [] ↔ strip t = [] := by
  constructor
  · intro h; rw [← strip_dropNL, h]; rfl
  · intro h
    cases hd : dropNL t with
    | nil => rfl
    | cons c r => have := (dropNL_head t c r hd).2; rw [h] at this; cases this

theorem isEmpty_dropNL (t : Bytes) : (dropNL t).isEmpty = (strip t).isEmpty := by
  by_cases h : dropNL t = []
  · rw [h, (dropNL_nil_iff t).mp h]
  · have h' : strip t ≠ [] := fun x => h ((dropNL_nil_iff t).mpr x)
    cases hd : dropNL t with
    | nil => exact absurd hd h
    | cons _ _ => cases hs : strip t with
      | nil => exact absurd hs h'
      | cons _ _ => rfl

/-- one quantum on a text and on the text without line breaks. -/
theorem quantum_strip : ∀ (s : Bytes) (acc : List Nat),
    (quantum s acc).out = (quantum (strip s) acc).out ∧ (quantum s acc).err = (quantum (strip s) acc).err ∧
      strip (quantum s acc).rest = strip (quantum (strip s) acc).rest := by
  intro s
  induction s with
  | nil => intro acc; simp [strip]
  | cons c t ih =>
    intro acc
    by_cases hnl : isNL c = true
    · rw [strip_cons_nl c t hnl]
      have : quantum (c :: t) acc = quantum t acc := by
        conv => lhs; unfold quantum
        simp [nl_not_sextet c hnl, hnl]
      rw [this]; exact ih acc
    · have hnl' : isNL c = false := by simpa using hnl
      rw [strip_cons c t hnl']
      cases hs : sextet c with
      | some v =>
        unfold quantum
        simp only [hs]
        by_cases h4 : (acc ++ [v]).length = 4
        · simp [h4, strip_strip]
        · simp only [h4, if_false]; exact ih (acc ++ [v])
      | none =>
        unfold quantum
        simp only [hs, hnl', Bool.false_eq_true, if_false]
        by_cases h61 : (c != 61) = true
        · simp [h61, strip_strip]
        · simp only [h61, if_false]
          match hl : acc.length with
          | 0 => simp [strip_strip]
          | 1 => simp [strip_strip]
          | 2 =>
            simp only
            rw [dropNL_strip]
            cases hd : dropNL t with
            | nil => have := (dropNL_nil_iff t).mp hd; rw [this]; simp [strip]
            | cons c2 t2 =>
              obtain ⟨_, hst⟩ := dropNL_head t c2 t2 hd
              rw [hst]
              simp only
              by_cases h2 : (c2 != 61) = true
              · simp [h2, strip_strip]
              · simp only [h2, if_false, Bool.false_eq_true]
                rw [dropNL_strip]
                refine ⟨by simp, by rw [isEmpty_dropNL], by rw [strip_dropNL, strip_strip]⟩
          | k + 3 =>
            simp only [Bool.false_eq_true, if_false]
            rw [dropNL_strip]
            refine ⟨by simp, by rw [isEmpty_dropNL], by rw [strip_dropNL, strip_strip]⟩

/-- one step of the decoder. -/
theorem b64Decode_step (s : Bytes) (h : s ≠ []) :
    b64Decode s = (if (quantum s []).err then ((quantum s []).out, false)
      else ((quantum s []).out ++ (b64Decode (quantum s []).rest).1, (b64Decode (quantum s []).rest).2)) := by
  have he : s.isEmpty = false := by simpa using h
  conv => lhs; unfold b64Decode decodeAux
  simp only [he, Bool.false_eq_true, if_false, List.nil_append]
  by_cases hq : (quantum s []).err = true
  · simp [hq]
  · have hq' : (quantum s []).err = false := by simpa using hq
    simp only [hq', Bool.false_eq_true, if_false]
    rw [decodeAux_acc, b64Decode_eq _ s.length (quantum_progress s h hq')]

theorem b64Decode_nil : b64Decode [] = ([], true) := by simp [b64Decode, decodeAux]

/-- **the decoder ignores CR / LF wherever they stand.** -/
theorem b64Decode_strip : ∀ (n : Nat) (s : Bytes), s.length ≤ n → b64Decode s = b64Decode (strip s) := by
  intro n
  induction n with
  | zero => intro s h
            have : s = [] := List.eq_nil_of_length_eq_zero (by omega)
            subst this; rfl
  | succ n ih =>
    intro s hlen
    by_cases hs : s = []
    · subst hs; rfl
    · obtain ⟨ho, he, hr⟩ := quantum_strip s []
      rw [b64Decode_step s hs]
      by_cases hst : strip s = []
      · rw [hst] at ho he hr
        have e0 : (quantum ([] : Bytes) []).err = false := by simp [quantum]
        have o0 : (quantum ([] : Bytes) []).out = [] := by simp [quantum]
        have r0 : (quantum ([] : Bytes) []).rest = [] := by simp [quantum]
        rw [e0] at he; rw [o0] at ho; rw [r0] at hr
        have hprog := quantum_progress s hs he
        have := ih (quantum s []).rest (by omega)
        rw [hst, b64Decode_nil]
        simp only [he, Bool.false_eq_true, if_false, ho, List.nil_append]
        rw [this, hr]; simp [strip, b64Decode_nil]
      · rw [b64Decode_step (strip s) hst]
        by_cases herr : (quantum s []).err = true
        · simp [herr, ← he, ho]
        · have herr' : (quantum s []).err = false := by simpa using herr
          have herr2 : (quantum (strip s) []).err = false := by rw [← he]; exact herr'
          simp only [herr', herr2, Bool.false_eq_true, if_false]
          have p1 := quantum_progress s hs herr'
          have p2 := quantum_progress (strip s) hst herr2
          have l2 := strip_length_le s
          rw [ih (quantum s []).rest (by omega), ih (quantum (strip s) []).rest (by omega), hr, ho]

theorem b64Decode_strip' (s : Bytes) : b64Decode s = b64Decode (strip s) := b64Decode_strip s.length s (Nat.le_refl _)

theorem q_sext (x : UInt8) (v : Nat) (t : Bytes) (acc : List Nat) (hs : sextet x = some v) (hl : acc.length < 3) :
    quantum (x :: t) acc = quantum t (acc ++ [v]) := by
  conv => lhs; unfold quantum
  have : ¬ (acc ++ [v]).length = 4 := by simp; omega
  simp only [hs, this, if_false]

theorem q_bad (x : UInt8) (t : Bytes) (acc : List Nat) (hs : sextet x = none) (hnl : isNL x = false)
    (h : x ≠ 61 ∨ acc.length ≤ 1) : (quantum (x :: t) acc).out = [] ∧ (quantum (x :: t) acc).err = true := by
  unfold quantum
  simp only [hs, hnl, Bool.false_eq_true, if_false]
  by_cases h61 : x = 61
  · have hl : acc.length ≤ 1 := by rcases h with h | h; exact absurd h61 h; exact h
    have : (x != 61) = false := by simp [h61]
    simp only [this, Bool.false_eq_true, if_false]
    match hm : acc.length, hl with
    | 0, _ => simp
    | 1, _ => simp
  · have : (x != 61) = true := by simp [h61]
    simp [this]

/-- what a decode yields when its first quantum ends it. -/
theorem decode_ended (s : Bytes) (hs : s ≠ []) (h : (quantum s []).err = true ∨ (quantum s []).rest = []) :
    (b64Decode s).1 = (quantum s []).out := by
  rw [b64Decode_step s hs]
  by_cases he : (quantum s []).err = true
  · simp [he]
  · have he' : (quantum s []).err = false := by simpa using he
    rcases h with h | h
    · exact absurd h he
    · simp [he', h, b64Decode_nil]

/-- a group of four non-line-break characters that is not four alphabet
characters ends the decode, and what it yields does not depend on what follows. -/
theorem head4_ends (a b c d : UInt8) (tail : Bytes)
    (ha : isNL a = false) (hb : isNL b = false) (hc : isNL c = false) (hd : isNL d = false)
    (hbad : ¬ Clean [a, b, c, d]) :
    (b64Decode (a :: b :: c :: d :: tail)).1 = (b64Decode [a, b, c, d]).1 := by
  -- it suffices to describe the first quantum for an arbitrary tail
  suffices key : ∃ out : Bytes, ∀ tl : Bytes, (quantum (a :: b :: c :: d :: tl) []).out = out ∧
      ((quantum (a :: b :: c :: d :: tl) []).err = true ∨ (quantum (a :: b :: c :: d :: tl) []).rest = []) by
    obtain ⟨out, hk⟩ := key
    rw [decode_ended _ (by simp) (hk tail).2, decode_ended [a, b, c, d] (by simp) (hk []).2, (hk tail).1, (hk []).1]
  cases hsa : sextet a with
  | none =>
    exact ⟨[], fun tl => ⟨(q_bad a _ [] hsa ha (Or.inr (by simp))).1, Or.inl (q_bad a _ [] hsa ha (Or.inr (by simp))).2⟩⟩
  | some va =>
    cases hsb : sextet b with
    | none =>
      refine ⟨[], fun tl => ?_⟩
      rw [q_sext a va _ [] hsa (by simp)]
      exact ⟨(q_bad b _ _ hsb hb (Or.inr (by simp))).1, Or.inl (q_bad b _ _ hsb hb (Or.inr (by simp))).2⟩
    | some vb =>
      cases hsc : sextet c with
      | none =>
        by_cases hc61 : c = 61
        · subst hc61
          by_cases hd61 : d = 61
          · subst hd61
            refine ⟨emit [va, vb] 2, fun tl => ?_⟩
            rw [q_sext a va _ [] hsa (by simp), q_sext b vb _ _ hsb (by simp)]
            unfold quantum
            simp only [hsc, hc, Bool.false_eq_true, if_false, bne_self_eq_false, List.nil_append, List.length_cons,
              List.length_nil, dropNL, hd]
            cases hdt : dropNL tl <;> simp [hdt]
          · refine ⟨[], fun tl => ?_⟩
            rw [q_sext a va _ [] hsa (by simp), q_sext b vb _ _ hsb (by simp)]
            unfold quantum
            have hdne : (d != 61) = true := by simp [hd61]
            simp [hsc, hc, dropNL, hd, hdne]
        · refine ⟨[], fun tl => ?_⟩
          rw [q_sext a va _ [] hsa (by simp), q_sext b vb _ _ hsb (by simp)]
          exact ⟨(q_bad c _ _ hsc hc (Or.inl hc61)).1, Or.inl (q_bad c _ _ hsc hc (Or.inl hc61)).2⟩
      | some vc =>
        cases hsd : sextet d with
        | some vd =>
          exfalso; apply hbad
          intro x hx
          simp only [List.mem_cons, List.not_mem_nil, or_false] at hx
          rcases hx with rfl | rfl | rfl | rfl <;> simp [hsa, hsb, hsc, hsd]
        | none =>
          by_cases hd61 : d = 61
          · subst hd61
            refine ⟨emit [va, vb, vc] 3, fun tl => ?_⟩
            rw [q_sext a va _ [] hsa (by simp), q_sext b vb _ _ hsb (by simp), q_sext c vc _ _ hsc (by simp)]
            unfold quantum
            simp only [hsd, hd, Bool.false_eq_true, if_false, bne_self_eq_false, List.nil_append, List.length_cons,
              List.length_nil]
            cases hdt : dropNL tl <;> simp [hdt]
          · refine ⟨[], fun tl => ?_⟩
            rw [q_sext a va _ [] hsa (by simp), q_sext b vb _ _ hsb (by simp), q_sext c vc _ _ hsc (by simp)]
            exact ⟨(q_bad d _ _ hsd hd (Or.inl hd61)).1, Or.inl (q_bad d _ _ hsd hd (Or.inl hd61)).2⟩

/-- **error prefix.** A line-break-free text of whole groups that does not
decode cleanly to its full size yields the same octets whatever follows it. -/
theorem decode_prefix_stops : ∀ (n : Nat) (c : Bytes), NLFree c → c.length = 4 * n →
    ¬ ((b64Decode c).2 = true ∧ (b64Decode c).1.length = 3 * n) →
    ∀ more : Bytes, (b64Decode (c ++ more)).1 = (b64Decode c).1 := by
  intro n
  induction n with
  | zero =>
    intro c _ hl hnot
    have : c = [] := List.eq_nil_of_length_eq_zero (by omega)
    subst this
    exact absurd ⟨by simp [b64Decode_nil], by simp [b64Decode_nil]⟩ hnot
  | succ n ih =>
    intro c hnl hl hnot more
    match c, hl with
    | a :: b :: c' :: d :: c'', hl =>
      have hl' : c''.length = 4 * n := by simp at hl; omega
      have hnl' : NLFree c'' := fun x hx => hnl x (by simp [hx])
      by_cases hclean : Clean [a, b, c', d]
      · have h1 := (b64Decode_clean_append 1 [a, b, c', d] (c'' ++ more) hclean (by simp)).2
        have h2 := (b64Decode_clean_append 1 [a, b, c', d] c'' hclean (by simp)).2
        simp only [List.cons_append, List.nil_append] at h1 h2
        have hlen4 := clean4_length a b c' d hclean
        have hnot' : ¬ ((b64Decode c'').2 = true ∧ (b64Decode c'').1.length = 3 * n) := by
          intro hh
          apply hnot
          rw [h2]
          exact ⟨hh.1, by simp only [List.length_append, hlen4, hh.2]; omega⟩
        have := ih c'' hnl' hl' hnot' more
        show (b64Decode (a :: b :: c' :: d :: (c'' ++ more))).1 = (b64Decode (a :: b :: c' :: d :: c'')).1
        rw [h1, h2, this]
      · have ha := hnl a (by simp)
        have hb := hnl b (by simp)
        have hc := hnl c' (by simp)
        have hd := hnl d (by simp)
        show (b64Decode (a :: b :: c' :: d :: (c'' ++ more))).1 = (b64Decode (a :: b :: c' :: d :: c'')).1
        rw [head4_ends a b c' d (c'' ++ more) ha hb hc hd hclean, head4_ends a b c' d c'' ha hb hc hd hclean]

/-- what `fillKeyTagChunk` returns: up to `room` non-line-break characters and the unread rest. -/
theorem fillChunk_spec : ∀ (enc : Bytes) (room : Nat) (acc : Bytes),
    ∃ A : Bytes, (fillChunk room enc acc).1 = acc.reverse ++ A ∧ NLFree A ∧ A.length ≤ room ∧
      strip enc = A ++ strip (fillChunk room enc acc).2 ∧ (fillChunk room enc acc).2.length ≤ enc.length ∧
      ((fillChunk room enc acc).2 ≠ [] → A.length = room) ∧
      (enc ≠ [] → 0 < room → (fillChunk room enc acc).2.length < enc.length) := by
  intro enc
  induction enc with
  | nil => intro room acc; exact ⟨[], by simp [fillChunk, NLFree, strip]⟩
  | cons c t ih =>
    intro room acc
    unfold fillChunk
    by_cases hr : room = 0
    · refine ⟨[], ?_⟩
      simp [hr, NLFree]
    · simp only [hr, if_false]
      by_cases hnl : isNL c = true
      · simp only [hnl, if_true]
        obtain ⟨A, h1, h2, h3, h4, h5, h6, _⟩ := ih room acc
        exact ⟨A, h1, h2, h3, by rw [strip_cons_nl c t hnl]; exact h4, by simp; omega, h6, fun _ _ => by simp; omega⟩
      · have hnl' : isNL c = false := by simpa using hnl
        simp only [hnl', Bool.false_eq_true, if_false]
        obtain ⟨A, h1, h2, h3, h4, h5, h6, _⟩ := ih (room - 1) (c :: acc)
        refine ⟨c :: A, ?_, ?_, ?_, ?_, ?_, ?_, ?_⟩
        · rw [h1]; simp
        · intro x hx; rcases List.mem_cons.mp hx with rfl | hx; exact hnl'; exact h2 x hx
        · simp; omega
        · rw [strip_cons c t hnl', h4]; simp
        · simp; omega
        · intro hne; have := h6 hne; simp; omega
        · intro _ _; simp; omega

/-- **`rsamd5KeyTag` reads the octets of one decode**, for every key text. -/
theorem rsamd5Fed_eq_decode (chunk : Nat) (h4 : chunk % 4 = 0) (hpos : 0 < chunk) : ∀ (f : Nat) (pk : Bytes),
    pk.length < f → rsamd5Fed b64Decode chunk f pk = (b64Decode pk).1 := by
  intro f
  induction f with
  | zero => intro pk h; omega
  | succ f ih =>
    intro pk hlen
    unfold rsamd5Fed
    by_cases he : pk.isEmpty = true
    · have : pk = [] := by simpa using he
      subst this; simp [b64Decode_nil]
    · have hne : pk ≠ [] := by simpa using he
      simp only [he, Bool.false_eq_true, if_false]
      obtain ⟨A, hA, hnlA, hlenA, hstrip, _, hfull, hprog⟩ := fillChunk_spec pk chunk []
      simp only [List.reverse_nil, List.nil_append] at hA
      rw [hA]
      generalize hrest : (fillChunk chunk pk []).2 = rest at hstrip hfull hprog
      have hprog' : rest.length < pk.length := hprog hne hpos
      have hwhole : b64Decode pk = b64Decode (A ++ strip rest) := by rw [b64Decode_strip' pk, hstrip]
      -- the chunk is whole groups whenever something is left to read
      have hgroups : rest ≠ [] → A.length = 4 * (chunk / 4) := fun hr => by rw [hfull hr]; omega
      by_cases hok : (b64Decode A).2 = true
      · simp only [hok, Bool.not_true, Bool.false_eq_true, if_false]
        by_cases hr : rest = []
        · subst hr
          have : b64Decode pk = b64Decode A := by rw [hwhole]; simp [strip]
          cases f with
          | zero => simp [rsamd5Fed, this]
          | succ f' => simp [rsamd5Fed, this]
        · have hre : rest.isEmpty = false := by simpa using hr
          simp only [hre, Bool.not_false, Bool.true_and, decide_eq_true_eq]
          by_cases hshort : (b64Decode A).1.length < chunk / 4 * 3
          · simp only [hshort, if_true]
            rw [hwhole]
            exact (decode_prefix_stops (chunk / 4) A hnlA (hgroups hr) (by intro hh; omega) (strip rest)).symm
          · simp only [hshort, if_false]
            have hlen3 : (b64Decode A).1.length = 3 * (chunk / 4) := by
              have := b64_len_le A hok
              have := material_le_length A
              have := hgroups hr
              omega
            have hclean := clean_of_full A (chunk / 4) (hgroups hr) hok hlen3
            have happ := (b64Decode_clean_append (chunk / 4) A (strip rest) hclean (hgroups hr)).2
            rw [hwhole, happ, ← b64Decode_strip' rest, ih rest (by omega)]
      · have hok' : (b64Decode A).2 = false := by simpa using hok
        simp only [hok', Bool.not_false, if_true]
        rw [hwhole]
        by_cases hr : rest = []
        · subst hr; simp [strip]
        · exact (decode_prefix_stops (chunk / 4) A hnlA (hgroups hr) (by intro hh; rw [hok'] at hh; cases hh.1) (strip rest)).symm

/-! ### VerifyRRSIGWithWork under a governor -/

/-- `g'` allows at least what `g` allows. -/
def govLe (g g' : Gov) : Prop := g.maxCand ≤ g'.maxCand ∧ g.maxSet ≤ g'.maxSet ∧ g.budget ≤ g'.budget

theorem candLoop_bounds (cvOk : VKey → Bool) (g : Gov) : ∀ (l : List VKey) (cu ru b : Nat), b ≤ g.budget →
    b ≤ (candLoop cvOk g l cu ru b).2.1 ∧ (candLoop cvOk g l cu ru b).2.1 ≤ g.budget ∧
      (candLoop cvOk g l cu ru b).2.1 ≤ b + l.length := by
  intro l
  induction l with
  | nil => intro cu ru b h; simp [candLoop]; omega
  | cons k t ih =>
    intro cu ru b h
    unfold candLoop
    by_cases h1 : g.maxCand ≤ cu
    · simp [h1]; omega
    · by_cases h2 : g.maxSet ≤ ru
      · simp [h1, h2]; omega
      · by_cases h3 : g.budget ≤ b
        · simp [h1, h2, h3]; omega
        · by_cases h4 : cvOk k = true
          · simp [h1, h2, h3, h4]; omega
          · simp only [h1, h2, h3, h4, if_false, Bool.false_eq_true]
            have := ih (cu + 1) (ru + 1) (b + 1) (by omega)
            simp only [List.length_cons]; omega

theorem candLoop_mono (cvOk : VKey → Bool) (g g' : Gov) (hle : govLe g g') : ∀ (l : List VKey) (cu ru b : Nat),
    (candLoop cvOk g l cu ru b).1 ≠ WRes.work → candLoop cvOk g' l cu ru b = candLoop cvOk g l cu ru b := by
  intro l
  induction l with
  | nil => intro cu ru b _; simp [candLoop]
  | cons k t ih =>
    intro cu ru b h
    unfold candLoop at h ⊢
    obtain ⟨l1, l2, l3⟩ := hle
    by_cases h1 : g.maxCand ≤ cu
    · simp [h1] at h
    · by_cases h2 : g.maxSet ≤ ru
      · simp [h1, h2] at h
      · by_cases h3 : g.budget ≤ b
        · simp [h1, h2, h3] at h
        · have h1' : ¬ g'.maxCand ≤ cu := by omega
          have h2' : ¬ g'.maxSet ≤ ru := by omega
          have h3' : ¬ g'.budget ≤ b := by omega
          by_cases h4 : cvOk k = true
          · simp [h1, h2, h3, h1', h2', h3', h4]
          · simp only [h1, h2, h3, h1', h2', h3', h4, if_false, Bool.false_eq_true] at h ⊢
            exact ih _ _ _ h

/-- without a work error the candidate loop says whether some candidate verifies. -/
theorem candLoop_verdict (cvOk : VKey → Bool) (g : Gov) : ∀ (l : List VKey) (cu ru b : Nat),
    (candLoop cvOk g l cu ru b).1 ≠ WRes.work →
      ((candLoop cvOk g l cu ru b).1 = WRes.ok ↔ ∃ k ∈ l, cvOk k = true) := by
  intro l
  induction l with
  | nil => intro cu ru b _; simp [candLoop]
  | cons k t ih =>
    intro cu ru b h
    unfold candLoop at h ⊢
    by_cases h1 : g.maxCand ≤ cu
    · simp [h1] at h
    · by_cases h2 : g.maxSet ≤ ru
      · simp [h1, h2] at h
      · by_cases h3 : g.budget ≤ b
        · simp [h1, h2, h3] at h
        · by_cases h4 : cvOk k = true
          · simp [h1, h2, h3, h4]
          · simp only [h1, h2, h3, h4, if_false, Bool.false_eq_true] at h ⊢
            rw [ih _ _ _ h]
            simp [h4]

section
variable (cv : VKey → VSig → List VRec → Verdict) (inPeriod : VSig → Bool) (supAlg : Nat → Bool) (tagOf : VKey → Nat)
  (keys : List VKey)

theorem oneSigWork_bounds (g : Gov) (set : List VRec) (sig : VSig) (ru b : Nat) (h : b ≤ g.budget) :
    b ≤ (oneSigWork cv inPeriod supAlg tagOf keys g set sig ru b).2.1 ∧
      (oneSigWork cv inPeriod supAlg tagOf keys g set sig ru b).2.1 ≤ g.budget := by
  unfold oneSigWork
  simp only
  split
  · simp; exact h
  · split
    · simp; exact h
    · split
      · simp; exact h
      · split
        · simp; exact h
        · split
          · simp; exact h
          · exact ⟨(candLoop_bounds _ g _ 0 ru b h).1, (candLoop_bounds _ g _ 0 ru b h).2.1⟩

theorem oneSigWork_mono (g g' : Gov) (hle : govLe g g') (set : List VRec) (sig : VSig) (ru b : Nat)
    (h : (oneSigWork cv inPeriod supAlg tagOf keys g set sig ru b).1 ≠ WRes.work) :
    oneSigWork cv inPeriod supAlg tagOf keys g' set sig ru b = oneSigWork cv inPeriod supAlg tagOf keys g set sig ru b := by
  unfold oneSigWork at h ⊢
  simp only at h ⊢
  split
  · rfl
  · split
    · rfl
    · split
      · rfl
      · split
        · rfl
        · split
          · rfl
          · rename_i h1 h2 h3 h4 h5
            simp only [h1, h2, h3, h4, h5, if_false] at h
            exact candLoop_mono _ g g' hle _ 0 ru b h
end

theorem sigLoop_bounds (one : VSig → Nat → Nat → WRes × Nat × Nat) (B : Nat)
    (hone : ∀ s ru b, b ≤ B → b ≤ (one s ru b).2.1 ∧ (one s ru b).2.1 ≤ B) : ∀ (l : List VSig) (ru b : Nat), b ≤ B →
    b ≤ (sigLoop one l ru b).2 ∧ (sigLoop one l ru b).2 ≤ B := by
  intro l
  induction l with
  | nil => intro ru b h; simp [sigLoop]; exact h
  | cons s t ih =>
    intro ru b h
    unfold sigLoop
    have hb := hone s ru b h
    rcases hr : one s ru b with ⟨r, b', ru'⟩
    rw [hr] at hb
    cases r with
    | ok => simpa using hb
    | work => simpa using hb
    | fail =>
      simp only
      have := ih ru' b' hb.2
      exact ⟨Nat.le_trans hb.1 this.1, this.2⟩

theorem sigLoop_mono (one one' : VSig → Nat → Nat → WRes × Nat × Nat)
    (hone : ∀ s ru b, (one s ru b).1 ≠ WRes.work → one' s ru b = one s ru b) : ∀ (l : List VSig) (ru b : Nat),
    (sigLoop one l ru b).1 ≠ WRes.work → sigLoop one' l ru b = sigLoop one l ru b := by
  intro l
  induction l with
  | nil => intro ru b _; simp [sigLoop]
  | cons s t ih =>
    intro ru b h
    unfold sigLoop at h ⊢
    rcases hr : one s ru b with ⟨r, b', ru'⟩
    rw [hr] at h
    cases r with
    | ok => rw [hone s ru b (by rw [hr]; simp), hr]
    | work => simp at h
    | fail =>
      rw [hone s ru b (by rw [hr]; simp), hr]
      simp only at h ⊢
      exact ih ru' b' h

theorem groupLoop_bounds (per : (Bytes × Nat × Nat) → Nat → WRes × Nat) (B : Nat)
    (hper : ∀ k b, b ≤ B → b ≤ (per k b).2 ∧ (per k b).2 ≤ B) : ∀ (l : List (Bytes × Nat × Nat)) (b : Nat), b ≤ B →
    b ≤ (groupLoop per l b).2 ∧ (groupLoop per l b).2 ≤ B := by
  intro l
  induction l with
  | nil => intro b h; simp [groupLoop]; exact h
  | cons k t ih =>
    intro b h
    unfold groupLoop
    have hb := hper k b h
    rcases hr : per k b with ⟨r, b'⟩
    rw [hr] at hb
    cases r with
    | ok => simp only; have := ih b' hb.2; exact ⟨Nat.le_trans hb.1 this.1, this.2⟩
    | work => simpa using hb
    | fail => simpa using hb

theorem groupLoop_mono (per per' : (Bytes × Nat × Nat) → Nat → WRes × Nat)
    (hper : ∀ k b, (per k b).1 ≠ WRes.work → per' k b = per k b) : ∀ (l : List (Bytes × Nat × Nat)) (b : Nat),
    (groupLoop per l b).1 ≠ WRes.work → groupLoop per' l b = groupLoop per l b := by
  intro l
  induction l with
  | nil => intro b _; simp [groupLoop]
  | cons k t ih =>
    intro b h
    unfold groupLoop at h ⊢
    rcases hr : per k b with ⟨r, b'⟩
    rw [hr] at h
    cases r with
    | ok => rw [hper k b (by rw [hr]; simp), hr]; simp only at h ⊢; exact ih b' h
    | work => simp at h
    | fail => rw [hper k b (by rw [hr]; simp), hr]

section
variable (cv : VKey → VSig → List VRec → Verdict) (inPeriod : VSig → Bool) (supAlg : Nat → Bool) (tagOf : VKey → Nat)
  (keys : List VKey)

/-- never more public-key operations than the budget. -/
theorem verifyRRSIGWork_budget (g : Gov) (zone : Bytes) (m : VMsg) :
    (verifyRRSIGWork cv inPeriod supAlg tagOf keys g zone m).2 ≤ g.budget := by
  unfold verifyRRSIGWork
  simp only
  split
  · simp
  · split
    · simp
    · split
      · simp
      · split
        · simp
        · apply (groupLoop_bounds _ g.budget _ _ 0 (Nat.zero_le _)).2
          intro k b hb
          split
          · exact ⟨Nat.le_refl _, hb⟩
          · split
            · exact ⟨Nat.le_refl _, hb⟩
            · exact sigLoop_bounds _ g.budget (fun s ru b h => oneSigWork_bounds cv inPeriod supAlg tagOf keys g _ s ru b h) _ 0 b hb

/-- a more generous governor changes nothing unless the tighter one refused. -/
theorem verifyRRSIGWork_mono (g g' : Gov) (hle : govLe g g') (zone : Bytes) (m : VMsg)
    (h : (verifyRRSIGWork cv inPeriod supAlg tagOf keys g zone m).1 ≠ WRes.work) :
    verifyRRSIGWork cv inPeriod supAlg tagOf keys g' zone m = verifyRRSIGWork cv inPeriod supAlg tagOf keys g zone m := by
  unfold verifyRRSIGWork at h ⊢
  simp only at h ⊢
  split
  · rfl
  · split
    · rfl
    · split
      · rfl
      · split
        · rfl
        · rename_i h1 h2 h3 h4
          simp only [h1, h2, h3, h4, if_false] at h
          apply groupLoop_mono _ _ _ _ 0 h
          intro k b hk
          split
          · rfl
          · split
            · rfl
            · rename_i h5 h6
              simp only [h5, h6, if_false] at hk
              exact sigLoop_mono _ _ (fun s ru b hs => oneSigWork_mono cv inPeriod supAlg tagOf keys g g' hle _ s ru b hs) _ 0 b hk
end

/-! ### the governed walk and the declarative VerifyRRSIG -/

theorem mem_insertBy {α : Type} (lt : α → α → Bool) (x y : α) : ∀ l : List α, y ∈ insertBy lt x l ↔ y = x ∨ y ∈ l := by
  intro l
  induction l with
  | nil => simp [insertBy]
  | cons z t ih =>
    unfold insertBy
    split
    · simp only [List.mem_cons, ih]
      constructor
      · rintro (h | h | h) <;> simp [h]
      · rintro (h | h | h) <;> simp [h]
    · simp

theorem mem_sortBy {α : Type} (lt : α → α → Bool) (y : α) : ∀ l : List α, y ∈ sortBy lt l ↔ y ∈ l := by
  intro l
  induction l with
  | nil => simp [sortBy]
  | cons x t ih => simp [sortBy, mem_insertBy, ih]

theorem dedupBy_sub {α κ : Type} [DecidableEq κ] (key : α → κ) : ∀ (l : List α) (seen : List κ) (x : α),
    x ∈ dedupBy key l seen → x ∈ l := by
  intro l
  induction l with
  | nil => intro seen x h; simp [dedupBy] at h
  | cons y t ih =>
    intro seen x h
    unfold dedupBy at h
    split at h
    · exact List.mem_cons_of_mem _ (ih _ _ h)
    · rcases List.mem_cons.mp h with rfl | h
      · simp
      · exact List.mem_cons_of_mem _ (ih _ _ h)

theorem dedupBy_covers {α κ : Type} [DecidableEq κ] (key : α → κ) : ∀ (l : List α) (seen : List κ) (x : α),
    x ∈ l → key x ∉ seen → ∃ y ∈ dedupBy key l seen, key y = key x := by
  intro l
  induction l with
  | nil => intro seen x h; cases h
  | cons z t ih =>
    intro seen x hx hseen
    unfold dedupBy
    by_cases hz : key z ∈ seen
    · simp only [hz, if_true]
      rcases List.mem_cons.mp hx with rfl | hx
      · exact absurd hz hseen
      · exact ih seen x hx hseen
    · simp only [hz, if_false]
      rcases List.mem_cons.mp hx with rfl | hx
      · exact ⟨x, by simp, rfl⟩
      · by_cases hk : key x = key z
        · exact ⟨z, by simp, hk.symm⟩
        · obtain ⟨y, hy, hky⟩ := ih (key z :: seen) x hx (by simp [hk, hseen])
          exact ⟨y, List.mem_cons_of_mem _ hy, hky⟩

/-- sorting and collapsing by identity does not change whether some element satisfies a predicate that respects the identity. -/
theorem exists_sortDedup {α κ : Type} [DecidableEq κ] (key : α → κ) (lt : α → α → Bool) (P : α → Prop)
    (hP : ∀ a b, key a = key b → (P a ↔ P b)) (l : List α) :
    (∃ x ∈ sortBy lt (dedupBy key l []), P x) ↔ ∃ x ∈ l, P x := by
  constructor
  · rintro ⟨x, hx, hp⟩
    exact ⟨x, dedupBy_sub key l [] x ((mem_sortBy lt x _).mp hx), hp⟩
  · rintro ⟨x, hx, hp⟩
    obtain ⟨y, hy, hk⟩ := dedupBy_covers key l [] x hx (by simp)
    exact ⟨y, (mem_sortBy lt y _).mpr hy, (hP y x hk).mpr hp⟩

theorem exists_uniqueSortedKeys (P : VKey → Prop) (hP : ∀ a b, keyIdent a = keyIdent b → (P a ↔ P b)) (l : List VKey) :
    (∃ k ∈ uniqueSortedKeys l, P k) ↔ ∃ k ∈ l, P k := by
  unfold uniqueSortedKeys
  split
  · rfl
  · exact exists_sortDedup keyIdent keyLt P hP l

section
variable (cv : VKey → VSig → List VRec → Verdict) (inPeriod : VSig → Bool) (supAlg : Nat → Bool) (tagOf : VKey → Nat)
  (keys : List VKey)

/-- without a work error `verifyOneSigWithWork` is `verifyOneSig`. -/
theorem oneSigWork_verdict (g : Gov) (set : List VRec) (sig : VSig) (ru b : Nat)
    (hcv : ∀ k k', keyIdent k = keyIdent k' → cv k sig set = cv k' sig set)
    (h : (oneSigWork cv inPeriod supAlg tagOf keys g set sig ru b).1 ≠ WRes.work) :
    (oneSigWork cv inPeriod supAlg tagOf keys g set sig ru b).1 = WRes.ok ↔
      verifyOneSig cv inPeriod supAlg tagOf keys set sig = true := by
  unfold oneSigWork at h ⊢
  unfold verifyOneSig
  simp only at h ⊢
  split
  · simp
  · split
    · simp
    · split
      · simp
      · split
        · simp
        · split
          · simp
          · rename_i h1 h2 h3 h4 h5
            simp only [h1, h2, h3, h4, h5, if_false] at h
            rw [candLoop_verdict _ g _ 0 ru b h, List.any_eq_true]
            exact exists_uniqueSortedKeys (fun k => (cv k sig set == Verdict.ok) = true)
              (fun a b hab => by simp only [hcv a b hab]) _
end

theorem sigLoop_verdict (one : VSig → Nat → Nat → WRes × Nat × Nat) (V : VSig → Prop)
    (hone : ∀ s ru b, (one s ru b).1 ≠ WRes.work → ((one s ru b).1 = WRes.ok ↔ V s)) : ∀ (l : List VSig) (ru b : Nat),
    (sigLoop one l ru b).1 ≠ WRes.work → ((sigLoop one l ru b).1 = WRes.ok ↔ ∃ s ∈ l, V s) := by
  intro l
  induction l with
  | nil => intro ru b _; simp [sigLoop]
  | cons s t ih =>
    intro ru b h
    unfold sigLoop at h ⊢
    have hs := hone s ru b
    rcases hr : one s ru b with ⟨r, b', ru'⟩
    rw [hr] at h hs
    cases r with
    | ok =>
      simp only [true_iff]
      exact ⟨s, by simp, (hs (by simp)).mp rfl⟩
    | work => simp at h
    | fail =>
      simp only at h ⊢
      have hv : ¬ V s := fun hv => by have := (hs (by simp)).mpr hv; cases this
      rw [ih ru' b' h]
      constructor
      · rintro ⟨x, hx, hp⟩; exact ⟨x, List.mem_cons_of_mem _ hx, hp⟩
      · rintro ⟨x, hx, hp⟩
        rcases List.mem_cons.mp hx with rfl | hx
        · exact absurd hp hv
        · exact ⟨x, hx, hp⟩

theorem groupLoop_verdict (per : (Bytes × Nat × Nat) → Nat → WRes × Nat) (W : (Bytes × Nat × Nat) → Prop)
    (hper : ∀ k b, (per k b).1 ≠ WRes.work → ((per k b).1 = WRes.ok ↔ W k)) : ∀ (l : List (Bytes × Nat × Nat)) (b : Nat),
    (groupLoop per l b).1 ≠ WRes.work → ((groupLoop per l b).1 = WRes.ok ↔ ∀ k ∈ l, W k) := by
  intro l
  induction l with
  | nil => intro b _; simp [groupLoop]
  | cons k t ih =>
    intro b h
    unfold groupLoop at h ⊢
    have hk := hper k b
    rcases hr : per k b with ⟨r, b'⟩
    rw [hr] at h hk
    cases r with
    | ok =>
      simp only at h ⊢
      have hw : W k := (hk (by simp)).mp rfl
      rw [ih b' h]
      constructor
      · intro hall x hx
        rcases List.mem_cons.mp hx with rfl | hx
        · exact hw
        · exact hall x hx
      · intro hall x hx; exact hall x (List.mem_cons_of_mem _ hx)
    | work => simp at h
    | fail =>
      simp only [reduceCtorEq, false_iff]
      intro hall
      have := (hk (by simp)).mpr (hall k (by simp))
      cases this

section
variable (cv : VKey → VSig → List VRec → Verdict) (inPeriod : VSig → Bool) (supAlg : Nat → Bool) (tagOf : VKey → Nat)
  (keys : List VKey)

/-- **without a work error the governed walk is `VerifyRRSIG`.** -/
theorem verifyRRSIGWork_verdict (g : Gov) (zone : Bytes) (m : VMsg)
    (hcv : ∀ k k' sig set, keyIdent k = keyIdent k' → cv k sig set = cv k' sig set)
    (hsig : ∀ s s' set, sigIdent s = sigIdent s' →
      verifyOneSig cv inPeriod supAlg tagOf keys set s = verifyOneSig cv inPeriod supAlg tagOf keys set s')
    (h : (verifyRRSIGWork cv inPeriod supAlg tagOf keys g zone m).1 ≠ WRes.work) :
    (verifyRRSIGWork cv inPeriod supAlg tagOf keys g zone m).1 = WRes.ok ↔
      verifyRRSIG (verifyOneSig cv inPeriod supAlg tagOf keys) keys.length zone m = true := by
  unfold verifyRRSIGWork at h ⊢
  unfold verifyRRSIG
  simp only at h ⊢
  split
  · simp
  · split
    · simp
    · split
      · simp
      · split
        · simp
        · rename_i h1 h2 h3 h4
          simp only [h1, h2, h3, h4, if_false] at h
          generalize hz : lower (fqdn zone) = z at h ⊢
          rw [groupLoop_verdict _
            (fun k =>
              (!((m.sigs.filter (fun s => nameInZone (lower s.name) z)).filter (fun s => sigKey s == k)).isEmpty
                && isRRset (hdrsOf ((collected z m).filter (fun x => rrKey x == k)))
                && ((m.sigs.filter (fun s => nameInZone (lower s.name) z)).filter (fun s => sigKey s == k)).any
                  (fun s => verifyOneSig cv inPeriod supAlg tagOf keys ((collected z m).filter (fun x => rrKey x == k)) s)) = true)
            _ _ 0 h]
          · rw [List.all_eq_true]
            constructor
            · intro hall r hr
              exact hall (rrKey r) ((mem_sortBy _ _ _).mpr (by
                obtain ⟨y, hy, hky⟩ := dedupBy_covers id ((collected z m).map rrKey) [] (rrKey r) (List.mem_map.mpr ⟨r, hr, rfl⟩) (by simp)
                simp only [id] at hky; rw [← hky]; exact hy))
            · intro hall k hk
              have hk' := dedupBy_sub id _ [] k ((mem_sortBy _ _ _).mp hk)
              obtain ⟨r, hr, rfl⟩ := List.mem_map.mp hk'
              exact hall r hr
          · intro k b hk
            generalize ((m.sigs.filter (fun s => nameInZone (lower s.name) z)).filter (fun s => sigKey s == k)) = sl at hk ⊢
            generalize ((collected z m).filter (fun x => rrKey x == k)) = set at hk ⊢
            by_cases he : sl.isEmpty = true
            · simp [he]
            · have he' : sl.isEmpty = false := by simpa using he
              simp only [he', Bool.false_eq_true, if_false] at hk ⊢
              by_cases hrr : isRRset (hdrsOf set) = true
              · simp only [hrr, Bool.not_true, Bool.false_eq_true, if_false] at hk ⊢
                rw [sigLoop_verdict _ (fun s => verifyOneSig cv inPeriod supAlg tagOf keys set s = true)
                  (fun s ru b hs => oneSigWork_verdict cv inPeriod supAlg tagOf keys g _ s ru b (fun k k' hkk => hcv k k' s _ hkk) hs) _ 0 b hk]
                simp only [Bool.not_false, Bool.true_and, List.any_eq_true]
                unfold uniqueSortedSigs
                exact exists_sortDedup sigIdent sigLt _ (fun a b hab => by simp only [hsig a b _ hab]) _
              · have hrr' : isRRset (hdrsOf set) = false := by simpa using hrr
                simp [hrr']
end

/-! ### VerifyDSWithWork under a governor -/

theorem dsCandLoop_bounds (dm : DKey → Bool) (g : Gov) : ∀ (l : List DKey) (cu b : Nat), b ≤ g.budget →
    b ≤ (dsCandLoop dm g l cu b).2 ∧ (dsCandLoop dm g l cu b).2 ≤ g.budget := by
  intro l
  induction l with
  | nil => intro cu b h; simp [dsCandLoop]; exact h
  | cons k t ih =>
    intro cu b h
    unfold dsCandLoop
    by_cases h1 : g.maxCand ≤ cu
    · simp [h1]; exact h
    · by_cases h3 : g.budget ≤ b
      · simp [h1, h3]; exact h
      · by_cases h4 : dm k = true
        · simp [h1, h3, h4]; omega
        · simp only [h1, h3, h4, if_false, Bool.false_eq_true]
          have := ih (cu + 1) (b + 1) (by omega)
          omega

theorem dsCandLoop_mono (dm : DKey → Bool) (g g' : Gov) (hle : govLe g g') : ∀ (l : List DKey) (cu b : Nat),
    (dsCandLoop dm g l cu b).1 ≠ WRes.work → dsCandLoop dm g' l cu b = dsCandLoop dm g l cu b := by
  intro l
  induction l with
  | nil => intro cu b _; simp [dsCandLoop]
  | cons k t ih =>
    intro cu b h
    unfold dsCandLoop at h ⊢
    obtain ⟨l1, _, l3⟩ := hle
    by_cases h1 : g.maxCand ≤ cu
    · simp [h1] at h
    · by_cases h3 : g.budget ≤ b
      · simp [h1, h3] at h
      · have h1' : ¬ g'.maxCand ≤ cu := by omega
        have h3' : ¬ g'.budget ≤ b := by omega
        by_cases h4 : dm k = true
        · simp [h1, h3, h1', h3', h4]
        · simp only [h1, h3, h1', h3', h4, if_false, Bool.false_eq_true] at h ⊢
          exact ih _ _ h

theorem dsCandLoop_verdict (dm : DKey → Bool) (g : Gov) : ∀ (l : List DKey) (cu b : Nat),
    (dsCandLoop dm g l cu b).1 ≠ WRes.work → ((dsCandLoop dm g l cu b).1 = WRes.ok ↔ ∃ k ∈ l, dm k = true) := by
  intro l
  induction l with
  | nil => intro cu b _; simp [dsCandLoop]
  | cons k t ih =>
    intro cu b h
    unfold dsCandLoop at h ⊢
    by_cases h1 : g.maxCand ≤ cu
    · simp [h1] at h
    · by_cases h3 : g.budget ≤ b
      · simp [h1, h3] at h
      · by_cases h4 : dm k = true
        · simp [h1, h3, h4]
        · simp only [h1, h3, h4, if_false, Bool.false_eq_true] at h ⊢
          rw [ih _ _ h]; simp [h4]

section
variable (sup : DSRec → Bool) (dmatch : DKey → Nat → Bytes → Bool) (limit : Nat) (keys : List DKey)

theorem dsOneWork_bounds (g : Gov) (d : DSRec) (b : Nat) (h : b ≤ g.budget) :
    b ≤ (dsOneWork sup dmatch limit keys g d b).2 ∧ (dsOneWork sup dmatch limit keys g d b).2 ≤ g.budget := by
  unfold dsOneWork
  simp only
  split
  · exact ⟨Nat.le_refl _, h⟩
  · split
    · exact ⟨Nat.le_refl _, h⟩
    · split
      · exact ⟨Nat.le_refl _, h⟩
      · split
        · exact ⟨Nat.le_refl _, h⟩
        · exact dsCandLoop_bounds _ g _ 0 b h

theorem dsOneWork_mono (g g' : Gov) (hle : govLe g g') (d : DSRec) (b : Nat)
    (h : (dsOneWork sup dmatch limit keys g d b).1 ≠ WRes.work) :
    dsOneWork sup dmatch limit keys g' d b = dsOneWork sup dmatch limit keys g d b := by
  unfold dsOneWork at h ⊢
  simp only at h ⊢
  by_cases hs : sup d = true
  · simp only [hs, Bool.not_true, Bool.false_eq_true, if_false] at h ⊢
    by_cases hc : (uniqueSortedDKeys (keys.filter (usableDSCandidate limit d))).isEmpty = true
    · simp [hc]
    · simp only [hc, Bool.false_eq_true, if_false] at h ⊢
      cases hd : hexDecode d.digest with
      | none => simp
      | some want =>
        simp only [hd] at h ⊢
        by_cases hw : want.isEmpty = true
        · simp [hw]
        · simp only [hw, Bool.false_eq_true, if_false] at h ⊢
          exact dsCandLoop_mono _ g g' hle _ 0 b h
  · have hs' : sup d = false := by simpa using hs
    simp [hs']

theorem exists_uniqueSortedDKeys (P : DKey → Prop) (hP : ∀ a b, dkeyIdent a = dkeyIdent b → (P a ↔ P b)) (l : List DKey) :
    (∃ k ∈ uniqueSortedDKeys l, P k) ↔ ∃ k ∈ l, P k := by
  unfold uniqueSortedDKeys
  split
  · rfl
  · exact exists_sortDedup dkeyIdent dkeyLt P hP l

/-- without a work error one DS of the governed walk says whether it authenticates a key. -/
theorem dsOneWork_verdict (g : Gov) (d : DSRec) (b : Nat)
    (hdm : ∀ k k' dt w, dkeyIdent k = dkeyIdent k' → dmatch k dt w = dmatch k' dt w)
    (h : (dsOneWork sup dmatch limit keys g d b).1 ≠ WRes.work) :
    (dsOneWork sup dmatch limit keys g d b).1 = WRes.ok ↔ dsAuthenticates sup dmatch limit keys d = true := by
  unfold dsOneWork at h ⊢
  unfold dsAuthenticates
  simp only at h ⊢
  by_cases hs : sup d = true
  · simp only [hs, Bool.not_true, Bool.false_eq_true, if_false, Bool.true_and] at h ⊢
    by_cases hc : (uniqueSortedDKeys (keys.filter (usableDSCandidate limit d))).isEmpty = true
    · have hnil : uniqueSortedDKeys (keys.filter (usableDSCandidate limit d)) = [] := by simpa using hc
      have hno : ¬ ∃ k ∈ keys.filter (usableDSCandidate limit d), True := by
        intro hx
        have := (exists_uniqueSortedDKeys (fun _ => True) (fun _ _ _ => Iff.rfl) _).mpr hx
        rw [hnil] at this; obtain ⟨_, hk, _⟩ := this; cases hk
      have hf : keys.filter (usableDSCandidate limit d) = [] := by
        cases hx : keys.filter (usableDSCandidate limit d) with
        | nil => rfl
        | cons a _ => exact absurd ⟨a, by rw [hx]; simp, trivial⟩ hno
      simp only [hc, if_true]
      rw [hf]
      cases hexDecode d.digest <;> simp
    · simp only [hc, Bool.false_eq_true, if_false] at h ⊢
      cases hd : hexDecode d.digest with
      | none => simp
      | some want =>
        simp only [hd] at h ⊢
        by_cases hw : want.isEmpty = true
        · simp [hw]
        · simp only [hw, Bool.false_eq_true, if_false, Bool.not_false, Bool.true_and] at h ⊢
          rw [dsCandLoop_verdict _ g _ 0 b h, List.any_eq_true]
          exact exists_uniqueSortedDKeys (fun k => dmatch k d.dt want = true)
            (fun a b hab => by simp only [hdm a b d.dt want hab]) _
  · have hs' : sup d = false := by simpa using hs
    simp [hs']
end

theorem dsLoopWork_bounds (one : DSRec → Nat → WRes × Nat) (B : Nat)
    (hone : ∀ d b, b ≤ B → b ≤ (one d b).2 ∧ (one d b).2 ≤ B) : ∀ (l : List DSRec) (b : Nat), b ≤ B →
    b ≤ (dsLoopWork one l b).2 ∧ (dsLoopWork one l b).2 ≤ B := by
  intro l
  induction l with
  | nil => intro b h; simp [dsLoopWork]; exact h
  | cons d t ih =>
    intro b h
    unfold dsLoopWork
    have hb := hone d b h
    rcases hr : one d b with ⟨r, b'⟩
    rw [hr] at hb
    cases r with
    | ok => simpa using hb
    | work => simpa using hb
    | fail => simp only; have := ih b' hb.2; exact ⟨Nat.le_trans hb.1 this.1, this.2⟩

theorem dsLoopWork_mono (one one' : DSRec → Nat → WRes × Nat)
    (hone : ∀ d b, (one d b).1 ≠ WRes.work → one' d b = one d b) : ∀ (l : List DSRec) (b : Nat),
    (dsLoopWork one l b).1 ≠ WRes.work → dsLoopWork one' l b = dsLoopWork one l b := by
  intro l
  induction l with
  | nil => intro b _; simp [dsLoopWork]
  | cons d t ih =>
    intro b h
    unfold dsLoopWork at h ⊢
    rcases hr : one d b with ⟨r, b'⟩
    rw [hr] at h
    cases r with
    | ok => rw [hone d b (by rw [hr]; simp), hr]
    | work => simp at h
    | fail => rw [hone d b (by rw [hr]; simp), hr]; simp only at h ⊢; exact ih b' h

theorem dsLoopWork_verdict (one : DSRec → Nat → WRes × Nat) (V : DSRec → Prop)
    (hone : ∀ d b, (one d b).1 ≠ WRes.work → ((one d b).1 = WRes.ok ↔ V d)) : ∀ (l : List DSRec) (b : Nat),
    (dsLoopWork one l b).1 ≠ WRes.work → ((dsLoopWork one l b).1 = WRes.ok ↔ ∃ d ∈ l, V d) := by
  intro l
  induction l with
  | nil => intro b _; simp [dsLoopWork]
  | cons d t ih =>
    intro b h
    unfold dsLoopWork at h ⊢
    have hd := hone d b
    rcases hr : one d b with ⟨r, b'⟩
    rw [hr] at h hd
    cases r with
    | ok => simp only [true_iff]; exact ⟨d, by simp, (hd (by simp)).mp rfl⟩
    | work => simp at h
    | fail =>
      simp only at h ⊢
      have hv : ¬ V d := fun hv => by have := (hd (by simp)).mpr hv; cases this
      rw [ih b' h]
      constructor
      · rintro ⟨x, hx, hp⟩; exact ⟨x, List.mem_cons_of_mem _ hx, hp⟩
      · rintro ⟨x, hx, hp⟩
        rcases List.mem_cons.mp hx with rfl | hx
        · exact absurd hp hv
        · exact ⟨x, hx, hp⟩

section
variable (sup : DSRec → Bool) (dmatch : DKey → Nat → Bytes → Bool) (limit : Nat) (keys : List DKey)

theorem verifyDSWork_budget (g : Gov) (dss : List DSRec) : (verifyDSWork sup dmatch limit keys g dss).2 ≤ g.budget :=
  (dsLoopWork_bounds _ g.budget (fun d b h => dsOneWork_bounds sup dmatch limit keys g d b h) _ 0 (Nat.zero_le _)).2

theorem verifyDSWork_mono (g g' : Gov) (hle : govLe g g') (dss : List DSRec)
    (h : (verifyDSWork sup dmatch limit keys g dss).1 ≠ WRes.work) :
    verifyDSWork sup dmatch limit keys g' dss = verifyDSWork sup dmatch limit keys g dss :=
  dsLoopWork_mono _ _ (fun d b hd => dsOneWork_mono sup dmatch limit keys g g' hle d b hd) _ 0 h

/-- without a work error the governed DS walk is `VerifyDS`. -/
theorem verifyDSWork_verdict (g : Gov) (dss : List DSRec)
    (hdm : ∀ k k' dt w, dkeyIdent k = dkeyIdent k' → dmatch k dt w = dmatch k' dt w)
    (hds : ∀ d d', dsIdent d = dsIdent d' → dsAuthenticates sup dmatch limit keys d = dsAuthenticates sup dmatch limit keys d')
    (h : (verifyDSWork sup dmatch limit keys g dss).1 ≠ WRes.work) :
    (verifyDSWork sup dmatch limit keys g dss).1 = WRes.ok ↔ (verifyDS sup dmatch limit keys dss).2 = true := by
  unfold verifyDSWork at h ⊢
  rw [dsLoopWork_verdict _ (fun d => dsAuthenticates sup dmatch limit keys d = true)
    (fun d b hd => dsOneWork_verdict sup dmatch limit keys g d b hdm hd) _ 0 h]
  have hiff : (verifyDS sup dmatch limit keys dss).2 = true ↔ ∃ d ∈ dss, dsAuthenticates sup dmatch limit keys d = true := by
    unfold verifyDS
    have hf := (foldl_verifyDS sup dmatch limit keys dss {} rfl).1
    simp only
    by_cases hm : (dss.foldl (verifyDSStep sup dmatch limit keys) {}).matched = true
    · simp only [hm, if_true, true_iff]; exact hf.mp hm
    · simp only [hm, Bool.false_eq_true, if_false]
      have : ¬ ∃ d ∈ dss, dsAuthenticates sup dmatch limit keys d = true := fun hx => hm (hf.mpr hx)
      split <;> (try split) <;> simp [this]
  rw [hiff]
  unfold uniqueSortedDS
  exact exists_sortDedup dsIdent dsLt _ (fun a b hab => by simp only [hds a b hab]) _
end

/-! ### the error VerifyRRSIG surfaces -/

theorem verr_ok_iff (v : Verdict) : verr v = VErr.ok ↔ v = Verdict.ok := by cases v <;> simp [verr]

theorem candErr_ok (cvv : VKey → Verdict) : ∀ (l : List VKey) (last : VErr), last ≠ VErr.ok →
    (candErr cvv l last = VErr.ok ↔ ∃ k ∈ l, cvv k = Verdict.ok) := by
  intro l
  induction l with
  | nil => intro last h; simp [candErr, h]
  | cons k t ih =>
    intro last h
    unfold candErr
    by_cases hk : cvv k = Verdict.ok
    · simp [hk]
    · have hb : (cvv k == Verdict.ok) = false := by simpa using hk
      simp only [hb, Bool.false_eq_true, if_false]
      rw [ih _ (fun e => hk ((verr_ok_iff _).mp e))]
      simp [hk]

theorem sigErr_ok (one : VSig → VErr) : ∀ (l : List VSig) (last : VErr), last ≠ VErr.ok →
    (sigErr one l last = VErr.ok ↔ ∃ s ∈ l, one s = VErr.ok) := by
  intro l
  induction l with
  | nil => intro last h; simp [sigErr, h]
  | cons s t ih =>
    intro last h
    unfold sigErr
    by_cases hs : one s = VErr.ok
    · simp [hs]
    · have hb : (one s == VErr.ok) = false := by simpa using hs
      simp only [hb, Bool.false_eq_true, if_false]
      rw [ih _ hs]
      simp [hs]

theorem groupErr_ok (per : (Bytes × Nat × Nat) → VErr) : ∀ (l : List (Bytes × Nat × Nat)),
    groupErr per l = VErr.ok ↔ ∀ k ∈ l, per k = VErr.ok := by
  intro l
  induction l with
  | nil => simp [groupErr]
  | cons k t ih =>
    unfold groupErr
    by_cases hk : per k = VErr.ok
    · simp [hk, ih]
    · have hb : (per k == VErr.ok) = false := by simpa using hk
      simp [hb, hk]

section
variable (cv : VKey → VSig → List VRec → Verdict) (inPeriod : VSig → Bool) (supAlg : Nat → Bool) (tagOf : VKey → Nat)
  (keys : List VKey)

theorem oneSigErr_ok (set : List VRec) (sig : VSig)
    (hcv : ∀ k k', keyIdent k = keyIdent k' → cv k sig set = cv k' sig set) :
    oneSigErr cv inPeriod supAlg tagOf keys set sig = VErr.ok ↔ verifyOneSig cv inPeriod supAlg tagOf keys set sig = true := by
  unfold oneSigErr verifyOneSig
  simp only
  split
  · simp
  · split
    · simp
    · split
      · simp
      · split
        · simp
        · split
          · simp
          · rw [candErr_ok _ _ _ (by simp), List.any_eq_true]
            have := exists_uniqueSortedKeys (fun k => cv k sig set = Verdict.ok)
              (fun a b hab => by simp only [hcv a b hab])
              ((keys.filter (fun k => tagOf k == sig.tag)).filter (usableSignatureCandidate tagOf sig))
            rw [this]
            constructor
            · rintro ⟨k, hk, hv⟩; exact ⟨k, hk, by simp [hv]⟩
            · rintro ⟨k, hk, hv⟩; exact ⟨k, hk, by simpa using hv⟩

/-- **the error is nil exactly when `VerifyRRSIG` accepts.** -/
theorem verifyRRSIGErr_ok (zone : Bytes) (m : VMsg)
    (hcv : ∀ k k' sig set, keyIdent k = keyIdent k' → cv k sig set = cv k' sig set)
    (hsig : ∀ s s' set, sigIdent s = sigIdent s' →
      verifyOneSig cv inPeriod supAlg tagOf keys set s = verifyOneSig cv inPeriod supAlg tagOf keys set s') :
    verifyRRSIGErr cv inPeriod supAlg tagOf keys zone m = VErr.ok ↔
      verifyRRSIG (verifyOneSig cv inPeriod supAlg tagOf keys) keys.length zone m = true := by
  unfold verifyRRSIGErr verifyRRSIG
  simp only
  split
  · simp
  · split
    · simp
    · split
      · simp
      · split
        · simp
        · generalize lower (fqdn zone) = z
          rw [groupErr_ok, List.all_eq_true]
          have key : ∀ k : Bytes × Nat × Nat,
              ((if ((m.sigs.filter (fun s => nameInZone (lower s.name) z)).filter (fun s => sigKey s == k)).isEmpty = true then VErr.missingSigned
                else if (!isRRset (hdrsOf ((collected z m).filter (fun x => rrKey x == k)))) = true then VErr.missingSigned
                else sigErr (oneSigErr cv inPeriod supAlg tagOf keys ((collected z m).filter (fun x => rrKey x == k)))
                  (uniqueSortedSigs ((m.sigs.filter (fun s => nameInZone (lower s.name) z)).filter (fun s => sigKey s == k)))
                  VErr.missingSigned) = VErr.ok) ↔
              ((!((m.sigs.filter (fun s => nameInZone (lower s.name) z)).filter (fun s => sigKey s == k)).isEmpty
                && isRRset (hdrsOf ((collected z m).filter (fun x => rrKey x == k)))
                && ((m.sigs.filter (fun s => nameInZone (lower s.name) z)).filter (fun s => sigKey s == k)).any
                  (fun s => verifyOneSig cv inPeriod supAlg tagOf keys ((collected z m).filter (fun x => rrKey x == k)) s)) = true) := by
            intro k
            generalize ((m.sigs.filter (fun s => nameInZone (lower s.name) z)).filter (fun s => sigKey s == k)) = sl
            generalize ((collected z m).filter (fun x => rrKey x == k)) = set
            by_cases he : sl.isEmpty = true
            · simp [he]
            · have he' : sl.isEmpty = false := by simpa using he
              by_cases hrr : isRRset (hdrsOf set) = true
              · simp only [he', hrr, Bool.false_eq_true, if_false, Bool.not_true, Bool.not_false, Bool.true_and, List.any_eq_true]
                rw [sigErr_ok _ _ _ (by simp)]
                unfold uniqueSortedSigs
                rw [exists_sortDedup sigIdent sigLt (fun s => oneSigErr cv inPeriod supAlg tagOf keys set s = VErr.ok)
                  (fun a b hab => by
                    rw [oneSigErr_ok cv inPeriod supAlg tagOf keys set a (fun k k' h => hcv k k' a set h),
                      oneSigErr_ok cv inPeriod supAlg tagOf keys set b (fun k k' h => hcv k k' b set h), hsig a b set hab])]
                constructor
                · rintro ⟨s, hs, hv⟩
                  exact ⟨s, hs, (oneSigErr_ok cv inPeriod supAlg tagOf keys set s (fun k k' h => hcv k k' s set h)).mp hv⟩
                · rintro ⟨s, hs, hv⟩
                  exact ⟨s, hs, (oneSigErr_ok cv inPeriod supAlg tagOf keys set s (fun k k' h => hcv k k' s set h)).mpr hv⟩
              · have hrr' : isRRset (hdrsOf set) = false := by simpa using hrr
                simp [he', hrr']
          constructor
          · intro hall r hr
            have := hall (rrKey r) ((mem_sortBy _ _ _).mpr (by
              obtain ⟨y, hy, hky⟩ := dedupBy_covers id ((collected z m).map rrKey) [] (rrKey r) (List.mem_map.mpr ⟨r, hr, rfl⟩) (by simp)
              simp only [id] at hky; rw [← hky]; exact hy))
            exact (key (rrKey r)).mp this
          · intro hall k hk
            have hk' := dedupBy_sub id _ [] k ((mem_sortBy _ _ _).mp hk)
            obtain ⟨r, hr, rfl⟩ := List.mem_map.mp hk'
            exact (key (rrKey r)).mpr (hall r hr)
end

/-! ### the error VerifyDS surfaces -/

/-- `lastErr` is unset or one of the two per-record errors. -/
def GoodLast (last : Option DErr) : Prop := last = none ∨ last = some DErr.missingKSK ∨ last = some DErr.mismatchingDS

theorem goodLast_getD (last : Option DErr) (h : GoodLast last) :
    last.getD DErr.missingKSK ≠ DErr.ok ∧ last.getD DErr.missingKSK ≠ DErr.unsupported := by
  rcases h with rfl | rfl | rfl <;> simp

section
variable (sup : DSRec → Bool) (dmatch : DKey → Nat → Bytes → Bool) (limit : Nat) (keys : List DKey)

theorem dsAuth_via_sorted (d : DSRec) (hdm : ∀ k k' dt w, dkeyIdent k = dkeyIdent k' → dmatch k dt w = dmatch k' dt w)
    (hs : sup d = true) (want : Bytes) (hd : hexDecode d.digest = some want) (hw : want.isEmpty = false) :
    (uniqueSortedDKeys (keys.filter (usableDSCandidate limit d))).any (fun k => dmatch k d.dt want) =
      dsAuthenticates sup dmatch limit keys d := by
  unfold dsAuthenticates
  simp only [hs, hd, hw, Bool.not_false, Bool.true_and]
  apply Bool.eq_iff_iff.mpr
  rw [List.any_eq_true, List.any_eq_true]
  exact exists_uniqueSortedDKeys (fun k => dmatch k d.dt want = true) (fun a b hab => by simp only [hdm a b d.dt want hab]) _

theorem dsErrLoop_spec (total : Nat) (hdm : ∀ k k' dt w, dkeyIdent k = dkeyIdent k' → dmatch k dt w = dmatch k' dt w) :
    ∀ (l : List DSRec) (supd : Nat) (last : Option DErr), GoodLast last →
      (dsErrLoop sup dmatch limit keys total l supd last = DErr.ok ↔ ∃ d ∈ l, dsAuthenticates sup dmatch limit keys d = true) ∧
      (dsErrLoop sup dmatch limit keys total l supd last = DErr.unsupported ↔
        total ≠ 0 ∧ supd = 0 ∧ ∀ d ∈ l, sup d = false) := by
  intro l
  induction l with
  | nil =>
    intro supd last hl
    have hg := goodLast_getD last hl
    unfold dsErrLoop
    by_cases ht : total = 0
    · simp [ht]
    · by_cases hs : supd = 0
      · simp [ht, hs]
      · simp [ht, hs, hg.1, hg.2]
  | cons d t ih =>
    intro supd last hl
    unfold dsErrLoop
    by_cases hs : sup d = true
    · simp only [hs, Bool.not_true, Bool.false_eq_true, if_false]
      have hk : GoodLast (some DErr.missingKSK) := Or.inr (Or.inl rfl)
      have hm : GoodLast (some DErr.mismatchingDS) := Or.inr (Or.inr rfl)
      -- in every non-matching branch the loop goes on with supd + 1 and a good lastErr
      have cont : ∀ last', GoodLast last' → dsAuthenticates sup dmatch limit keys d = false →
          (dsErrLoop sup dmatch limit keys total t (supd + 1) last' = DErr.ok ↔
              ∃ x ∈ d :: t, dsAuthenticates sup dmatch limit keys x = true) ∧
          (dsErrLoop sup dmatch limit keys total t (supd + 1) last' = DErr.unsupported ↔
              total ≠ 0 ∧ supd = 0 ∧ ∀ x ∈ d :: t, sup x = false) := by
        intro last' hl' hna
        obtain ⟨h1, h2⟩ := ih (supd + 1) last' hl'
        refine ⟨?_, ?_⟩
        · rw [h1]; simp [hna]
        · rw [h2]; simp [hs]
      by_cases hc : (uniqueSortedDKeys (keys.filter (usableDSCandidate limit d))).isEmpty = true
      · simp only [hc, if_true]
        apply cont _ hk
        -- no usable candidate: the DS authenticates nothing
        have hnil : uniqueSortedDKeys (keys.filter (usableDSCandidate limit d)) = [] := by simpa using hc
        have hf : keys.filter (usableDSCandidate limit d) = [] := by
          cases hx : keys.filter (usableDSCandidate limit d) with
          | nil => rfl
          | cons a _ =>
            have := (exists_uniqueSortedDKeys (fun _ => True) (fun _ _ _ => Iff.rfl) (keys.filter (usableDSCandidate limit d))).mpr
              ⟨a, by rw [hx]; simp, trivial⟩
            rw [hnil] at this; obtain ⟨_, hk', _⟩ := this; cases hk'
        unfold dsAuthenticates
        rw [hf]
        cases hexDecode d.digest <;> simp
      · simp only [hc, Bool.false_eq_true, if_false]
        cases hd : hexDecode d.digest with
        | none =>
          simp only
          apply cont _ hm
          unfold dsAuthenticates; simp [hd]
        | some want =>
          simp only
          by_cases hw : want.isEmpty = true
          · simp only [hw, if_true]
            apply cont _ hm
            unfold dsAuthenticates; simp [hd, hw]
          · have hw' : want.isEmpty = false := by simpa using hw
            simp only [hw', Bool.false_eq_true, if_false]
            rw [dsAuth_via_sorted sup dmatch limit keys d hdm hs want hd hw']
            by_cases ha : dsAuthenticates sup dmatch limit keys d = true
            · simp only [ha, if_true, true_iff, reduceCtorEq, false_iff]
              refine ⟨⟨d, by simp, ha⟩, ?_⟩
              intro hx; have := hx.2.2 d (by simp); rw [hs] at this; cases this
            · have ha' : dsAuthenticates sup dmatch limit keys d = false := by simpa using ha
              simp only [ha', Bool.false_eq_true, if_false]
              exact cont _ hm ha'
    · have hs' : sup d = false := by simpa using hs
      simp only [hs', Bool.not_false, if_true]
      obtain ⟨h1, h2⟩ := ih supd last hl
      have hna : dsAuthenticates sup dmatch limit keys d = false := by unfold dsAuthenticates; simp [hs']
      refine ⟨?_, ?_⟩
      · rw [h1]; simp [hna]
      · rw [h2]; simp [hs']
end

/-! ### the decoder inverts RFC 4648 encoding -/

theorem sextet_encChar : ∀ v, v < 64 → sextet (encChar v) = some v := by decide

theorem ofNat_toNat_u8 (x : UInt8) : UInt8.ofNat x.toNat = x := by
  apply UInt8.toNat_inj.mp
  rw [toNat_ofNat_lt _ (toNat_lt x)]

theorem emit4_bytes (x y z : UInt8) :
    emit [x.toNat / 4, x.toNat % 4 * 16 + y.toNat / 16, y.toNat % 16 * 4 + z.toNat / 64, z.toNat % 64] 4 = [x, y, z] := by
  have hx := toNat_lt x; have hy := toNat_lt y; have hz := toNat_lt z
  unfold emit
  simp only [List.getD_cons_zero, List.getD_cons_succ, List.take, Nat.reducePow]
  have e1 : ((x.toNat / 4 * 262144 + (x.toNat % 4 * 16 + y.toNat / 16) * 4096 + (y.toNat % 16 * 4 + z.toNat / 64) * 64 + z.toNat % 64) / 65536 % 256) = x.toNat := by omega
  have e2 : ((x.toNat / 4 * 262144 + (x.toNat % 4 * 16 + y.toNat / 16) * 4096 + (y.toNat % 16 * 4 + z.toNat / 64) * 64 + z.toNat % 64) / 256 % 256) = y.toNat := by omega
  have e3 : ((x.toNat / 4 * 262144 + (x.toNat % 4 * 16 + y.toNat / 16) * 4096 + (y.toNat % 16 * 4 + z.toNat / 64) * 64 + z.toNat % 64) % 256) = z.toNat := by omega
  rw [e1, e2, e3, ofNat_toNat_u8, ofNat_toNat_u8, ofNat_toNat_u8]

theorem emit2_bytes (x : UInt8) : emit [x.toNat / 4, x.toNat % 4 * 16] 2 = [x] := by
  have hx := toNat_lt x
  unfold emit
  simp only [List.getD_cons_zero, List.getD_cons_succ, List.getD_nil, List.take, Nat.reducePow]
  have e1 : ((x.toNat / 4 * 262144 + x.toNat % 4 * 16 * 4096 + 0 * 64 + 0) / 65536 % 256) = x.toNat := by omega
  rw [e1, ofNat_toNat_u8]

theorem emit3_bytes (x y : UInt8) :
    emit [x.toNat / 4, x.toNat % 4 * 16 + y.toNat / 16, y.toNat % 16 * 4] 3 = [x, y] := by
  have hx := toNat_lt x; have hy := toNat_lt y
  unfold emit
  simp only [List.getD_cons_zero, List.getD_cons_succ, List.getD_nil, List.take, Nat.reducePow]
  have e1 : ((x.toNat / 4 * 262144 + (x.toNat % 4 * 16 + y.toNat / 16) * 4096 + y.toNat % 16 * 4 * 64 + 0) / 65536 % 256) = x.toNat := by omega
  have e2 : ((x.toNat / 4 * 262144 + (x.toNat % 4 * 16 + y.toNat / 16) * 4096 + y.toNat % 16 * 4 * 64 + 0) / 256 % 256) = y.toNat := by omega
  rw [e1, e2, ofNat_toNat_u8, ofNat_toNat_u8]

theorem decode_pad2 (x : UInt8) :
    b64Decode [encChar (x.toNat / 4), encChar (x.toNat % 4 * 16), 61, 61] = ([x], true) := by
  have hx := toNat_lt x
  have s1 := sextet_encChar (x.toNat / 4) (by omega)
  have s2 := sextet_encChar (x.toNat % 4 * 16) (by omega)
  rw [b64Decode_step _ (by simp), q_sext _ _ _ [] s1 (by simp), q_sext _ _ _ _ s2 (by simp)]
  have hq : quantum [61, 61] ([] ++ [x.toNat / 4] ++ [x.toNat % 4 * 16]) =
      ⟨[], emit [x.toNat / 4, x.toNat % 4 * 16] 2, false⟩ := by
    simp [quantum, sextet, isNL, dropNL]
  rw [hq]
  simp [b64Decode_nil, emit2_bytes]

theorem decode_pad1 (x y : UInt8) :
    b64Decode [encChar (x.toNat / 4), encChar (x.toNat % 4 * 16 + y.toNat / 16), encChar (y.toNat % 16 * 4), 61] = ([x, y], true) := by
  have hx := toNat_lt x; have hy := toNat_lt y
  have s1 := sextet_encChar (x.toNat / 4) (by omega)
  have s2 := sextet_encChar (x.toNat % 4 * 16 + y.toNat / 16) (by omega)
  have s3 := sextet_encChar (y.toNat % 16 * 4) (by omega)
  rw [b64Decode_step _ (by simp), q_sext _ _ _ [] s1 (by simp), q_sext _ _ _ _ s2 (by simp), q_sext _ _ _ _ s3 (by simp)]
  have hq : quantum [61] ([] ++ [x.toNat / 4] ++ [x.toNat % 4 * 16 + y.toNat / 16] ++ [y.toNat % 16 * 4]) =
      ⟨[], emit [x.toNat / 4, x.toNat % 4 * 16 + y.toNat / 16, y.toNat % 16 * 4] 3, false⟩ := by
    simp [quantum, sextet, isNL, dropNL]
  rw [hq]
  simp [b64Decode_nil, emit3_bytes]

theorem decode_group (x y z : UInt8) (rest : Bytes) :
    b64Decode ([encChar (x.toNat / 4), encChar (x.toNat % 4 * 16 + y.toNat / 16), encChar (y.toNat % 16 * 4 + z.toNat / 64),
      encChar (z.toNat % 64)] ++ rest) = ([x, y, z] ++ (b64Decode rest).1, (b64Decode rest).2) := by
  have hx := toNat_lt x; have hy := toNat_lt y; have hz := toNat_lt z
  have s1 := sextet_encChar (x.toNat / 4) (by omega)
  have s2 := sextet_encChar (x.toNat % 4 * 16 + y.toNat / 16) (by omega)
  have s3 := sextet_encChar (y.toNat % 16 * 4 + z.toNat / 64) (by omega)
  have s4 := sextet_encChar (z.toNat % 64) (by omega)
  simp only [List.cons_append, List.nil_append]
  rw [b64Decode_step _ (by simp), quantum_clean4 _ _ _ _ rest _ _ _ _ s1 s2 s3 s4]
  simp [emit4_bytes]

/-- **the decoder inverts RFC 4648 §4 encoding.** -/
theorem b64Decode_encode : ∀ (n : Nat) (b : Bytes), b.length ≤ n → b64Decode (b64Encode b) = (b, true) := by
  intro n
  induction n using Nat.strongRecOn with
  | _ n ih =>
    intro b hlen
    match b, hlen with
    | [], _ => simp [b64Encode, b64Decode_nil]
    | [x], _ => simp only [b64Encode]; exact decode_pad2 x
    | [x, y], _ => simp only [b64Encode]; exact decode_pad1 x y
    | x :: y :: z :: t, hlen =>
      simp only [b64Encode]
      rw [decode_group x y z (b64Encode t), ih (n - 3) (by simp at hlen; omega) t (by simp at hlen; omega)]
      simp

end SdnsVerif.Lemmas.DnssecPrim
